(* C14 - every name maps to a valid, distinct Go identifier bound to its JSON key.
   Statements only; every proof is `exact <lemma>`; Print Assumptions under each.
   [U : uinfo] is an arbitrary character oracle (Go's unicode tables are one instance: the
   harness dumps the rows for every code point in use and checks the model against the
   real Caser on them). *)
From GJS Require Import Base Ident IdentP.

(* the splitter drops exactly the separator characters (non-letters that are not numbers):
   the concatenation of the parts is the input without them, for every string *)
Theorem C14_split_concat : forall U s, concat (split_ident U s) = filter (keeps U) s.
Proof. exact split_concat. Qed.
Print Assumptions C14_split_concat.

Theorem C14_split_parts_nonempty : forall U s, Forall (fun p => p <> []) (split_ident U s).
Proof. exact split_parts_nonempty. Qed.
Print Assumptions C14_split_parts_nonempty.

(* every name whose characters are `good` (cased letters whose upper-case image is an
   upper-case letter, caseless letters, decimal digits, separators) becomes a valid Go
   identifier, for every capitalisation list made of identifier characters *)
Theorem C14_valid : forall U caps s,
  blank_ok U -> caps_ok U caps -> forallb (good U) s = true -> go_ident U (identifierize U caps s) = true.
Proof. exact identifierize_valid. Qed.
Print Assumptions C14_valid.

(* ... and an exported one *)
Theorem C14_exported : forall U caps s,
  blank_ok U -> Forall (cap_start_ok U) caps -> forallb (good U) s = true -> exported U (identifierize U caps s) = true.
Proof. exact identifierize_exported. Qed.
Print Assumptions C14_exported.
