(* C14 - every name maps to a valid, distinct Go identifier bound to its JSON key.
   Statements only; every proof is `exact <lemma>`; Print Assumptions under each.
   [U : uinfo] is an arbitrary character oracle (Go's unicode tables are one instance: the
   harness dumps the rows for every code point in use and checks the model against the
   real Caser on them). *)
From GJS Require Import Base Ident IdentP.

(* the splitter drops exactly the separator characters (non-letters that are not numbers):
   the concatenation of the parts is the input without them, for every string *)
Theorem C14_split_concat : forall U s, concat (split_ident U s) = filter (keeps U) s.
Proof. exact split_concat. Qed.
Print Assumptions C14_split_concat.

Theorem C14_split_parts_nonempty : forall U s, Forall (fun p => p <> []) (split_ident U s).
Proof. exact split_parts_nonempty. Qed.
Print Assumptions C14_split_parts_nonempty.

(* every name whose characters are `good` (cased letters whose upper-case image is an
   upper-case letter, caseless letters, decimal digits, separators) becomes a valid Go
   identifier, for every capitalisation list made of identifier characters *)
Theorem C14_valid : forall U caps s,
  blank_ok U -> caps_ok U caps -> forallb (good U) s = true -> go_ident U (identifierize U caps s) = true.
Proof. exact identifierize_valid. Qed.
Print Assumptions C14_valid.

(* ... and an exported one *)
Theorem C14_exported : forall U caps s,
  blank_ok U -> Forall (cap_start_ok U) caps -> forallb (good U) s = true -> exported U (identifierize U caps s) = true.
Proof. exact identifierize_exported. Qed.
Print Assumptions C14_exported.

(* ---------- distinctness ---------- *)
From GJS Require Import NamesP.

(* identifiers never contain '_' (it is a separator), so the `_n` suffixes cannot collide with another
   name: sibling properties ALWAYS get pairwise distinct field names - for every set of sibling names
   inside the character guard, however many of them normalise to the same identifier *)
Theorem C14_no_underscore : forall U caps s,
  underscore_is_separator U -> Forall no_us caps -> forallb (good U) s = true -> no_us (identifierize U caps s).
Proof. exact identifierize_no_underscore. Qed.
Print Assumptions C14_no_underscore.

Theorem C14_fields_distinct : forall U caps names,
  underscore_is_separator U -> Forall no_us caps -> Forall (fun n => forallb (good U) n = true) names ->
  NoDup (field_names (map (identifierize U caps) names)).
Proof. exact sibling_fields_distinct. Qed.
Print Assumptions C14_fields_distinct.

(* the suffixing itself, for arbitrary underscore-free identifiers *)
Theorem C14_suffixing_distinct : forall ids, Forall no_us ids -> NoDup (field_names ids).
Proof. exact field_names_distinct. Qed.
Print Assumptions C14_suffixing_distinct.

(* a type name handed out by uniqueTypeName is not one of the completed declarations *)
Theorem C14_type_name_fresh : forall name taken all r, (forall x, In x taken -> In x all) ->
  unique_type_name name taken all = Some r -> ~ In r taken.
Proof. exact unique_type_name_fresh. Qed.
Print Assumptions C14_type_name_fresh.

(* refuted in full: uniqueTypeName treats a declaration still in progress as free, so the base name is
   handed out twice (D38) *)
Theorem C14_refuted_in_progress : exists name taken all, In name all /\ unique_type_name name taken all = Some name.
Proof. exists [84]%N, [], [[84]%N]. split; [left; reflexivity|reflexivity]. Qed.

(* the tag carries the exact property name: C16_names_only; keys bind to their own field: C02_binding *)
Example C14_example : field_names [[70]%N; [70]%N; [71]%N; [70]%N] = [[70]%N; [70; 95; 50]%N; [71]%N; [70; 95; 51]%N].
Proof. reflexivity. Qed.
