(* C02 - valid documents are accepted and decoded without loss.
   Statements only; every proof is `exact <lemma>`; Print Assumptions under each.
   Proved here: the value-level half (no truncation, coercion or precision loss at any scalar,
   binding of every key to its own field) and that validators reject only on the stated constraints
   (C05_normalize, C05_validator_*, C06_validator, C07_level are equalities with the specification,
   so they accept every valid value).  The statement "every valid document is accepted" for whole
   schemas (C02_full below) is decided on the implementation by the correspondence run together with
   the reference semantics Spec/Valid.v; its general proof over all schemas is not done (partial). *)
From GJS Require Import Base Regex Schema GoType Gen Exec Valid ExecP GenP CoreP MethodP LevelP NestedP.

Definition C02_full : Prop :=
  forall fmt_ok idf cf defs root name p t j,
    gen_file idf cf defs root name = Done p -> p_root p = Some t ->
    valid fmt_ok defs 100 root j = true -> exists v, dec fmt_ok (p_defs p) exec_fuel t j = Ok v.

(* a declared struct whose method only checks (no default assignment, no composite, no additional-properties field), any JSON object:
   accepted iff every required key is present, every present key decodes into its field, every check passes on the decoded
   fields - both directions, every field list, validator list and document; and the accepted value is exactly the decoded
   fields (nothing lost, nothing added).  With C05/C06/C07 (each check = its specification) this is "valid iff accepted" for
   one level; the levels compose through [field_decodes]. *)
Theorem C02_struct_exact : forall fmt_ok env f c n fs vs kv, forallb check_only vs = true -> find f_addl fs = None ->
  is_ok (dec fmt_ok env (S f) (TStruct (c :: n) fs (Some vs)) (JObj kv)) =
    forallb (fun v => is_ok (before_step (dec fmt_ok env f) (raw_of vs kv) (JObj kv) v)) vs &&
    match plain_fields (dec fmt_ok env f) zero fs (JObj kv) with
    | Ok st => forallb (fun v => is_ok (after_step (default_val env dv_fuel) (raw_of vs kv) st v)) vs
    | _ => false
    end.
Proof. exact struct_exact. Qed.
Print Assumptions C02_struct_exact.
Theorem C02_struct_value : forall fmt_ok env f c n fs vs kv st, forallb check_only vs = true -> find f_addl fs = None ->
  dec fmt_ok env (S f) (TStruct (c :: n) fs (Some vs)) (JObj kv) = Ok st ->
  plain_fields (dec fmt_ok env f) zero fs (JObj kv) = Ok st.
Proof. exact struct_exact_value. Qed.
Print Assumptions C02_struct_value.
Theorem C02_fields_decode : forall decf zf fs kv,
  is_ok (plain_fields decf zf fs (JObj kv)) = true <-> forallb (field_decodes decf kv) fs = true.
Proof. exact plain_fields_is_ok. Qed.
Print Assumptions C02_fields_decode.

(* the generator produces exactly such methods: an object schema without additionalProperties none of whose properties has a default *)
Theorem C02_generated_checks_only : forall idf cf defs f self sub s scope t b,
  plain_object s -> s_addl s = None -> (forall k p, In (k, p) (s_props s) -> c_default (s_con p) = None) -> s_props s <> [] ->
  gen idf cf defs (S f) MType self sub s scope = Done (t, b) ->
  exists fs vs, t = TStruct [] fs (Some vs) /\ forallb check_only vs = true /\ find f_addl fs = None.
Proof. exact object_method_checks_only. Qed.
Print Assumptions C02_generated_checks_only.

(* one level of an object schema against the reference semantics, both directions: IF the checks attached to every property are exact on
   that property's values (C05 / C06 / C07 for scalars, strings, arrays; this theorem itself for a nested object), THEN the declared struct
   accepts a JSON object iff it is valid under the schema.  Guards as hypotheses: no default, no additionalProperties keyword, required keys
   are declared, keys are distinct, field names are distinct and non-empty (NamesP), not --only-models. *)
Theorem C02_level_exact : forall idf cf defs fmt_ok env sdefs f fd fv self sub s scope t b kv,
  g_only_models cf = false -> scope <> [] ->
  plain_object s -> c_types (s_con s) = [SObject] -> s_addl s = None -> s_addl_false s = false ->
  (forall k p, In (k, p) (s_props s) -> c_default (s_con p) = None) ->
  NoDup (map fst (s_props s)) -> NoDup (map fst kv) ->
  incl (c_required (s_con s)) (map fst (s_props s)) ->
  NoDup (map fst (prop_names idf (s_props s))) -> (forall fname kp, In (fname, kp) (prop_names idf (s_props s)) -> fname <> []) ->
  gen idf cf defs (S (S f)) MDeclared self sub s scope = Done (t, b) ->
  (forall fname k p ty bp, In (fname, (k, p)) (prop_names idf (s_props s)) ->
     gen idf cf defs f MInline self false p (scope ++ fname) = Done (ty, bp) ->
     match lookup k kv with
     | Some x => field_ok (dec fmt_ok env fd) zero (default_val env dv_fuel) kv (pair_of (make_field defs (s_con s) self fname k p ty bp)) = valid fmt_ok sdefs fv p x
     | None => mem k (c_required (s_con s)) = false ->
               field_ok (dec fmt_ok env fd) zero (default_val env dv_fuel) kv (pair_of (make_field defs (s_con s) self fname k p ty bp)) = true
     end) ->
  is_ok (dec fmt_ok env (S fd) t (JObj kv)) = valid fmt_ok sdefs (S fv) s (JObj kv).
Proof. exact level_exact. Qed.
Print Assumptions C02_level_exact.

(* the field-level hypothesis discharged for the three scalar kinds: objects of constrained strings, integers and booleans, end to end *)
Theorem C02_scalar_objects_exact : forall idf cf defs fmt_ok env sdefs f fd fv self sub s scope t b kv,
  g_minsized cf = false -> g_only_models cf = false -> scope <> [] ->
  plain_object s -> c_types (s_con s) = [SObject] -> s_addl s = None -> s_addl_false s = false ->
  (forall k p, In (k, p) (s_props s) -> str_leaf p \/ int_leaf p \/ bool_leaf p) ->
  NoDup (map fst (s_props s)) -> NoDup (map fst kv) ->
  incl (c_required (s_con s)) (map fst (s_props s)) ->
  NoDup (map fst (prop_names idf (s_props s))) -> (forall fname kp, In (fname, kp) (prop_names idf (s_props s)) -> fname <> []) ->
  (forall k p x, In (k, p) (s_props s) -> lookup k kv = Some x ->
     x <> JNull /\ (str_leaf p -> forall s0, x = JStr s0 -> utf8_len s0 = length s0) /\ (int_leaf p -> int_value x)) ->
  gen idf cf defs (S (S (S f))) MDeclared self sub s scope = Done (t, b) ->
  is_ok (dec fmt_ok env (S (S (S fd))) t (JObj kv)) = valid fmt_ok sdefs (S (S fv)) s (JObj kv).
Proof. exact scalar_object_exact. Qed.
Print Assumptions C02_scalar_objects_exact.

(* ... and through every depth: objects whose properties are such scalars, numbers with any combination of the four bounds (no
   multipleOf), arrays of plain strings, numbers or booleans with any item-count limits, maps of plain strings, numbers or booleans, string enums, references to definitions that are such objects, or, recursively, such objects again, nested n levels deep
   ([sobj n]); documents without nulls (array items included), with ASCII strings, integer literals inside Go's int and distinct keys at
   every level ([dok n]).
   By induction on n over C02_level_exact: the check attached to an object-valued property is the nested struct's own method. *)
Theorem C02_nested_objects_exact : forall idf cf defs fmt_ok env sdefs,
  g_minsized cf = false -> g_only_models cf = false ->
  forall n a b c self sub s scope t bb kv,
  scope <> [] -> sobj idf cf defs env sdefs n s -> dok idf cf defs env sdefs n s kv ->
  gen idf cf defs (fuelG n a) MDeclared self sub s scope = Done (t, bb) ->
  is_ok (dec fmt_ok env (fuelD n b) t (JObj kv)) = valid fmt_ok sdefs (fuelV n c) s (JObj kv).
Proof. exact nested_object_exact. Qed.
Print Assumptions C02_nested_objects_exact.

(* non-vacuity: {o: {a: string minLength 2 (required), b: string maxLength 3}, b: string maxLength 3; o required}; one valid document and
   one whose nested string is too short - the theorem applies to both, and the model computes the same verdicts *)
Theorem C02_nested_inhabited :
  exists t b, gen (fun s => s) (mkCfg false false) [] (fuelG 1 0) MDeclared None false ex_outer [82]%N = Done (t, b) /\
    is_ok (dec (fun _ _ => true) [] (fuelD 1 0) t (JObj ex_outer_doc)) = valid (fun _ _ => true) [] (fuelV 1 0) ex_outer (JObj ex_outer_doc) /\
    valid (fun _ _ => true) [] (fuelV 1 0) ex_outer (JObj ex_outer_doc) = true /\
    is_ok (dec (fun _ _ => true) [] (fuelD 1 0) t (JObj ex_outer_bad)) = valid (fun _ _ => true) [] (fuelV 1 0) ex_outer (JObj ex_outer_bad) /\
    valid (fun _ _ => true) [] (fuelV 1 0) ex_outer (JObj ex_outer_bad) = false.
Proof. exact nested_inhabited. Qed.
Print Assumptions C02_nested_inhabited.

(* non-vacuity of the array and number leaves: {tags: [string] with 1..2 items (required), w: number >= 1/2} on a valid document, one with
   three items and one with w = 1/4 *)
Theorem C02_flat_inhabited :
  exists t b, gen (fun s => s) (mkCfg false false) [] (fuelG 0 1) MDeclared None false ex_flat [82]%N = Done (t, b) /\
    (forall kv, In kv [ex_flat_ok; ex_flat_long; ex_flat_low] ->
       is_ok (dec (fun _ _ => true) [] (fuelD 0 0) t (JObj kv)) = valid (fun _ _ => true) [] (fuelV 0 0) ex_flat (JObj kv)) /\
    map (fun kv => valid (fun _ _ => true) [] (fuelV 0 0) ex_flat (JObj kv)) [ex_flat_ok; ex_flat_long; ex_flat_low] = [true; false; false].
Proof. exact flat_inhabited. Qed.
Print Assumptions C02_flat_inhabited.

(* non-vacuity of the reference case: {r: $ref D (required), b: string maxLength 3}, D an object definition, env = the declared type of D *)
Theorem C02_ref_inhabited :
  exists t b, gen (fun s => s) (mkCfg false false) ex_defs (fuelG 1 0) MDeclared None false ex_refroot [82]%N = Done (t, b) /\
    (forall kv, In kv [ex_ref_doc; ex_ref_bad] ->
       is_ok (dec (fun _ _ => true) ex_env (fuelD 1 0) t (JObj kv)) = valid (fun _ _ => true) ex_defs (fuelV 1 0) ex_refroot (JObj kv)) /\
    map (fun kv => valid (fun _ _ => true) ex_defs (fuelV 1 0) ex_refroot (JObj kv)) [ex_ref_doc; ex_ref_bad] = [true; false].
Proof. exact ref_inhabited. Qed.
Print Assumptions C02_ref_inhabited.

Theorem C02_string : forall fmt_ok env f s, dec fmt_ok env (S f) TString (JStr s) = Ok (GS s).
Proof. exact dec_string_lossless. Qed.
Print Assumptions C02_string.
Theorem C02_boolean : forall fmt_ok env f b, dec fmt_ok env (S f) TBool (JBool b) = Ok (GB b).
Proof. exact dec_bool_lossless. Qed.
Print Assumptions C02_boolean.
Theorem C02_number : forall fmt_ok env f n, dec fmt_ok env (S f) TFloat (JNum n) = Ok (GF (nq n)).
Proof. exact dec_float_lossless. Qed.
Print Assumptions C02_number.
Theorem C02_integer : forall fmt_ok env f k z, in_range k z = true -> dec fmt_ok env (S f) (TInt k) (JInt z) = Ok (GI z).
Proof. exact dec_int_lossless. Qed.
Print Assumptions C02_integer.
Theorem C02_format : forall fmt_ok env f k s, fmt_ok k s = true -> dec fmt_ok env (S f) (TFmt k) (JStr s) = Ok (GFm (Some s)).
Proof. exact dec_fmt_lossless. Qed.
Print Assumptions C02_format.
Theorem C02_untyped : forall fmt_ok env f j, j <> JNull -> dec fmt_ok env (S f) TIface j = Ok (GJ j).
Proof. exact dec_iface_lossless. Qed.
Print Assumptions C02_untyped.
Theorem C02_optional : forall fmt_ok env f u j v, j <> JNull -> dec fmt_ok env f u j = Ok v -> dec fmt_ok env (S f) (TPtr u) j = Ok (GP v).
Proof. exact dec_ptr_lossless. Qed.
Print Assumptions C02_optional.

(* every declared key lands in the field generated for it (the generator binds field and key: GenP.object_field_bound) *)
Theorem C02_binding : forall decf zf fs kv fl xj x st,
  NoDup (map f_name fs) -> In fl fs -> f_addl fl = false -> f_name fl <> [] ->
  lookup (f_json fl) kv = Some xj -> decf (f_ty fl) xj = Ok x ->
  plain_fields decf zf fs (JObj kv) = Ok st -> get_plain (f_name fl) st = Some x.
Proof. exact field_binding. Qed.
Print Assumptions C02_binding.
Theorem C02_field_for_every_property : forall idf cf defs f self sub s scope t b k p,
  plain_object s -> gen idf cf defs (S f) MType self sub s scope = Done (t, b) -> In (k, p) (s_props s) ->
  exists fs plan fl ty bp, t = TStruct [] fs (Some plan) /\ In fl fs /\ f_json fl = k /\ f_addl fl = false /\
    gen idf cf defs f MInline self false p (scope ++ f_name fl) = Done (ty, bp) /\ (f_ty fl = ty \/ f_ty fl = TPtr ty).
Proof. exact object_field_bound. Qed.
Print Assumptions C02_field_for_every_property.

(* refuted in full (D12): an integer written 5.0 is valid JSON Schema `integer` but is rejected *)
Theorem C02_refuted_integer_literal : exists j, type_matches SInteger j = true /\ is_ok (dec (fun _ _ => true) [] 5 (TInt KInt) j) = false.
Proof. exists (JNum (mkNum 5 false)). vm_compute. split; reflexivity. Qed.
