(* C01 - every emitted file is valid, self-contained Go that compiles.
   Statements only; every proof is `exact <lemma>`; Print Assumptions under each.
   Go's type checker, gofmt and the emitter are not formalised here, so "compiles" is decided by
   the Go toolchain itself on every generated program of the correspondence families (gofmt-stable,
   go build, go vet).  What the Coq development proves of C01 are the classes the model can
   express: identifiers are valid and exported (C14_valid / C14_exported), the validators of a
   struct only name fields the struct has and a required check is only attached to a declared key
   (below), default literals are assignable to their field type (default_val is defined), and
   --only-models leaves no method behind that would need an import (C16).  Partial. *)
From GJS Require Import Base Schema GoType Gen GenP.

(* every property yields a field carrying its key; every validator of the method comes from one of those fields *)
Theorem C01_fields_and_validators : forall s b0 infos t b,
  build_struct s b0 infos = Done (t, b) ->
  exists fs plan, t = TStruct [] fs (Some plan) /\
    (forall i, In i infos -> In (fst (fst i)) fs) /\
    (forall i, In i infos -> snd (fst i) = true -> In (VRequired (f_json (fst (fst i)))) plan) /\
    (forall i v, In i infos -> In v (snd i) -> In v plan).
Proof. exact build_struct_shape. Qed.
Print Assumptions C01_fields_and_validators.

(* one field per property, no more, no fewer (names are then made distinct by the suffixing of C14) *)
Theorem C01_one_field_per_property : forall ids, length (field_names ids) = length ids.
Proof. exact field_names_length. Qed.
Print Assumptions C01_one_field_per_property.
