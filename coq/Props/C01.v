(* C01 (statements follow) *)
From GJS Require Import Base Regex Schema GoType Gen.
