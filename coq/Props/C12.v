(* C12 - output is a deterministic function of schema content and options.
   Statements only; every proof is `exact <lemma>`; Print Assumptions under each.
   Every place where the code iterates over a Go map is an arbitrary permutation here (a list in
   any order); the theorems say the result does not depend on it.  The bytes are render(IR);
   the emitter and go/format are pure functions of the IR and are trusted, not modelled. *)
From GJS Require Import Base Schema GoType Gen Driver DriverP.

(* properties and definitions are visited in sorted key order: sorting any two orders of the same
   map (distinct keys) gives the same list *)
Theorem C12_sorted_visit : forall (A : Type) (l l' : list (str * A)),
  NoDup (map fst l) -> Permutation l l' -> sort_props l = sort_props l'.
Proof. exact @sort_props_perm. Qed.
Print Assumptions C12_sorted_visit.

(* hence the field list of a struct (names, order, suffixes) is a function of the property map *)
Theorem C12_field_order : forall idf (props props' : list (str * schema)),
  NoDup (map fst props) -> Permutation props props' -> prop_names idf props = prop_names idf props'.
Proof. intros idf props props' ND P. unfold prop_names. rewrite (sort_props_perm props props' ND P). reflexivity. Qed.
Print Assumptions C12_field_order.

(* looking a key up (definitions, required sets, mappings by id) does not depend on the entry order *)
Theorem C12_lookup : forall (A : Type) (l l' : list (str * A)) k, NoDup (map fst l) -> Permutation l l' -> lookup k l = lookup k l'.
Proof. exact @lookup_perm. Qed.
Print Assumptions C12_lookup.

(* the scan over the outputs map in beginOutput (conflict check, reuse) is order-free as long as file names are distinct *)
Theorem C12_outputs_scan : forall outs outs' file pkg,
  files_distinct outs -> Permutation outs outs' -> scan_outputs outs file pkg = scan_outputs outs' file pkg.
Proof. exact scan_outputs_order. Qed.
Print Assumptions C12_outputs_scan.

(* Sources(): concatenation per file name over the outputs map gives the same content for every file in every order *)
Theorem C12_sources : forall texts texts' k, k <> [] -> NoDup (map fst texts) -> Permutation texts texts' ->
  lookup k (sources texts) = lookup k (sources texts').
Proof. exact sources_order. Qed.
Print Assumptions C12_sources.

Example C12_example : sort_props [([98]%N, 1); ([97]%N, 2); ([99]%N, 3)] = sort_props [([99]%N, 3); ([97]%N, 2); ([98]%N, 1)].
Proof. reflexivity. Qed.
