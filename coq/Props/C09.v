(* C09 - absent properties take their schema default; present values win.
   Statements only; every proof is `exact <lemma>`; Print Assumptions under each. *)
From GJS Require Import Base Regex Schema GoType Gen Exec Valid ExecP GenP CoreP DefaultsP DefaultsChecksP.

(* the default validator assigns the default exactly when the raw key is missing or null ... *)
Theorem C09_absent_or_null : forall dvf raw st fname jname ty dv d st',
  raw <> None -> raw_missing raw jname = true -> dvf ty dv = Some d -> set_plain fname d st = Some st' ->
  after_step dvf raw st (VDefault fname jname ty dv) = Ok st'.
Proof. exact vdefault_applies. Qed.
Print Assumptions C09_absent_or_null.
(* ... and leaves a present value alone *)
Theorem C09_present : forall dvf raw st fname jname ty dv,
  raw <> None -> raw_missing raw jname = false -> after_step dvf raw st (VDefault fname jname ty dv) = Ok st.
Proof. exact vdefault_present. Qed.
Print Assumptions C09_present.

(* a defaulted property is a value field (not pointer-wrapped), is exempt from `required`, and its
   default assignment runs before its own validators *)
Theorem C09_field : forall defs c self fname k p ty bp dv, c_default (s_con p) = Some dv ->
  make_field defs c self fname k p ty bp
  = (mkField fname k (negb (mem k (c_required c))) ty (Some (default_property_value p dv)) false, false,
     VDefault fname k ty (default_property_value p dv) :: field_validators fname k (s_con p) bp ty false).
Proof. exact make_field_default. Qed.
Print Assumptions C09_field.

(* other validators never modify a field: the decoded document value is what remains *)
Theorem C09_other_validators_keep : forall dvf raw st st' v fname x,
  fname <> [] -> touches fname v = false -> after_step dvf raw st v = Ok st' -> get_plain fname st = Some x -> get_plain fname st' = Some x.
Proof. exact after_step_keeps. Qed.
Print Assumptions C09_other_validators_keep.

(* the literal has the Go type of the field: scalars, one-level arrays, string enums, referenced definitions *)
Example C09_literals :
  default_val [] 5 TString (JStr [104]%N) = Some (GS [104]%N) /\
  default_val [] 5 (TInt KInt) (JInt 7) = Some (GI 7) /\
  default_val [] 5 TFloat (JQ (5 # 2)) = Some (GF (5 # 2)) /\
  default_val [] 5 (TSlice true TString) (JArr [JStr [97]%N]) = Some (GL [GS [97]%N]) /\
  default_val [] 5 (TInt KInt) (JQ (3 # 2)) = None.
Proof. vm_compute. repeat split; reflexivity. Qed.

(* refuted in full (D36): a typed additionalProperties replaces the declared default by an empty map *)
Theorem C09_refuted_map_default : exists p dv, default_property_value p dv <> dv.
Proof.
  exists (Sch empty_con [] (Some (Sch (mkC [SString] None None [] 0 0 0 0 None None (mkBounds None None None None) None None) [] None false None [] [])) false None [] []),
         (JObj [([107]%N, JStr [118]%N)]).
  cbn. discriminate.
Qed.

(* the whole method: a struct method whose validators are default assignments (over distinct, existing fields, with literals that fit) returns the
   typed decode of the document with, for every defaulted field whose key is missing or null, the default in its place; every other field - and
   every defaulted field whose key is present - keeps the decoded value.  For every document, field list and list of defaults. *)
Theorem C09_method_defaults : forall decf zf dvf fs under vs kv flds,
  find f_addl fs = None -> plain_fields decf zf fs (JObj kv) = Ok (GSt flds) ->
  Forall (dflt_wf dvf flds) vs -> NoDup (map dname vs) ->
  exists flds', run_method decf zf dvf (Some fs) under vs (JObj kv) = Ok (GSt flds') /\
                forall f, f <> [] -> lookup f flds' = expected dvf (Some (Some kv)) flds vs f.
Proof. exact defaults_method. Qed.
Print Assumptions C09_method_defaults.

Theorem C09_method_defaults_inhabited :
  let fs := [mkField [65]%N [97]%N false TString (Some (JStr [120]%N)) false; mkField [66]%N [98]%N false TString (Some (JStr [121]%N)) false] in
  let vs := [VDefault [65]%N [97]%N TString (JStr [120]%N); VDefault [66]%N [98]%N TString (JStr [121]%N)] in
  let kv := [([97]%N, JStr [122]%N); ([98]%N, JNull)] in
  run_method (dec (fun _ _ => true) [] 3) zero (default_val [] 3) (Some fs) TString vs (JObj kv) = Ok (GSt [([65]%N, GS [122]%N); ([66]%N, GS [121]%N)]).
Proof. exact defaults_inhabited. Qed.
Print Assumptions C09_method_defaults_inhabited.

(* generator and method composed: for every object all of whose properties are plain strings with a string default, the type `gen` produces is a struct
   whose method returns the typed decode with the default in place of every missing or null key - for every document *)
Theorem C09_defaulted_object : forall idf cf defs f self sub s scope t b,
  plain_object s -> s_addl s = None -> (forall k p, In (k, p) (s_props s) -> dstr_leaf p) ->
  NoDup (map fst (prop_names idf (s_props s))) -> (forall fname kp, In (fname, kp) (prop_names idf (s_props s)) -> fname <> []) ->
  Gen.gen idf cf defs (S (S f)) MType self sub s scope = Done (t, b) ->
  exists fs vs, t = TStruct [] fs (Some vs) /\
    forall decf zf dvf under kv flds,
      (forall s0, dvf TString (JStr s0) = Some (GS s0)) ->
      plain_fields decf zf fs (JObj kv) = Ok (GSt flds) ->
      exists flds', run_method decf zf dvf (Some fs) under vs (JObj kv) = Ok (GSt flds') /\
                    forall fn, fn <> [] -> lookup fn flds' = expected dvf (Some (Some kv)) flds vs fn.
Proof. exact defaulted_object_method. Qed.
Print Assumptions C09_defaulted_object.

Theorem C09_defaulted_object_inhabited :
  plain_object ex_dobj /\ s_addl ex_dobj = None /\ (forall k p, In (k, p) (s_props ex_dobj) -> dstr_leaf p) /\
  NoDup (map fst (prop_names (fun s => s) (s_props ex_dobj))) /\ (forall fname kp, In (fname, kp) (prop_names (fun s => s) (s_props ex_dobj)) -> fname <> []) /\
  exists t b, Gen.gen (fun s => s) (mkCfg false false) [] 3 MType None false ex_dobj [82]%N = Done (t, b).
Proof. exact defaulted_object_inhabited. Qed.
Print Assumptions C09_defaulted_object_inhabited.

(* defaults AND checks: a struct method whose validator list puts the default of a field before the checks of that field (the order of emission, which the
   plan tie compares with the emitted text position by position) accepts a document iff every required key is present and every check passes on the
   DEFAULTED decode, and then returns exactly the defaulted decode.  Every field list, validator list and document. *)
Theorem C09_method_defaults_and_checks : forall decf zf dvf fs under vs kv flds,
  find f_addl fs = None -> plain_fields decf zf fs (JObj kv) = Ok (GSt flds) ->
  Forall (wf_v dvf (map fst flds)) vs -> ordered vs -> existsb v_before vs || existsb v_raw_after vs = true ->
  let fin := final dvf (Some (Some kv)) vs flds in
  is_ok (run_method decf zf dvf (Some fs) under vs (JObj kv)) = forallb (present kv) vs && forallb (passes dvf (Some (Some kv)) fin) vs /\
  (is_ok (run_method decf zf dvf (Some fs) under vs (JObj kv)) = true -> run_method decf zf dvf (Some fs) under vs (JObj kv) = Ok (GSt fin)).
Proof. exact method_defaults_checks. Qed.
Print Assumptions C09_method_defaults_and_checks.

Theorem C09_defaults_and_checks_inhabited :
  let fs := [mkField [65]%N [97]%N false TString None false; mkField [66]%N [98]%N true TString (Some (JStr [121]%N)) false] in
  let vs := [VRequired [97]%N; VString [65]%N [97]%N false 2 0 None; VDefault [66]%N [98]%N TString (JStr [121]%N); VString [66]%N [98]%N false 0 3 None] in
  let run kv := run_method (dec (fun _ _ => true) [] 3) zero (default_val [] 3) (Some fs) TString vs (JObj kv) in
  ordered vs /\
  run [([97]%N, JStr [122; 122]%N)] = Ok (GSt [([65]%N, GS [122; 122]%N); ([66]%N, GS [121]%N)]) /\
  is_ok (run [([97]%N, JStr [122]%N)]) = false /\ is_ok (run []) = false /\
  is_ok (run [([97]%N, JStr [122; 122]%N); ([98]%N, JStr [108; 111; 110; 103; 33]%N)]) = false.
Proof. exact defaults_checks_inhabited. Qed.
Print Assumptions C09_defaults_and_checks_inhabited.

(* ... and the generator emits that order for EVERY object schema it handles (properties of any type, with or without defaults, required or not):
   required checks first, then per field its default (if any) followed by its checks, never a default of a field after a check of it *)
Theorem C09_generated_order : forall idf cf defs f self sub s scope fs vs b,
  plain_object s -> s_addl s = None -> NoDup (map fst (prop_names idf (s_props s))) ->
  Gen.gen idf cf defs (S f) MType self sub s scope = Done (TStruct [] fs (Some vs), b) -> ordered vs.
Proof. exact object_method_ordered. Qed.
Print Assumptions C09_generated_order.

(* the capstone: for EVERY object schema the model generates (no additionalProperties; properties of any type, with or without defaults), with distinct
   non-empty field names and default literals that fit, the generated struct method accepts a document whose values decode iff every required key is
   present and every emitted check passes on the defaulted decode, and returns exactly the defaulted decode *)
Theorem C09_generated_object_defaults_checks : forall idf cf defs decf zf dvf f self sub s scope fs vs b under kv flds,
  plain_object s -> s_addl s = None -> NoDup (map fst (prop_names idf (s_props s))) ->
  (forall fname kp, In (fname, kp) (prop_names idf (s_props s)) -> fname <> []) ->
  (forall fn j ty dv, In (VDefault fn j ty dv) vs -> exists d, dvf ty dv = Some d) ->
  Gen.gen idf cf defs (S f) MType self sub s scope = Done (TStruct [] fs (Some vs), b) ->
  existsb v_before vs || existsb v_raw_after vs = true ->
  plain_fields decf zf fs (JObj kv) = Ok (GSt flds) ->
  let fin := final dvf (Some (Some kv)) vs flds in
  is_ok (run_method decf zf dvf (Some fs) under vs (JObj kv)) = forallb (present kv) vs && forallb (passes dvf (Some (Some kv)) fin) vs /\
  (is_ok (run_method decf zf dvf (Some fs) under vs (JObj kv)) = true -> run_method decf zf dvf (Some fs) under vs (JObj kv) = Ok (GSt fin)).
Proof. exact generated_object_defaults_checks. Qed.
Print Assumptions C09_generated_object_defaults_checks.

Theorem C09_generated_object_inhabited :
  plain_object ex_dc_obj /\ s_addl ex_dc_obj = None /\ NoDup (map fst (prop_names (fun s => s) (s_props ex_dc_obj))) /\
  (forall fname kp, In (fname, kp) (prop_names (fun s => s) (s_props ex_dc_obj)) -> fname <> []) /\
  exists fs vs b, Gen.gen (fun s => s) (mkCfg false false) [] 3 MType None false ex_dc_obj [82]%N = Done (TStruct [] fs (Some vs), b) /\
    (forall fn j ty dv, In (VDefault fn j ty dv) vs -> exists d, default_val [] 3 ty dv = Some d) /\
    existsb v_before vs || existsb v_raw_after vs = true /\
    vs = [VRequired [97]%N; VString [97]%N [97]%N false 2 0 None; VDefault [98]%N [98]%N TString (JStr [121]%N); VString [98]%N [98]%N false 0 3 None].
Proof. exact generated_dc_inhabited. Qed.
Print Assumptions C09_generated_object_inhabited.
