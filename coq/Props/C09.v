(* C09 - absent properties take their schema default; present values win.
   Statements only; every proof is `exact <lemma>`; Print Assumptions under each. *)
From GJS Require Import Base Regex Schema GoType Gen Exec Valid ExecP GenP CoreP.

(* the default validator assigns the default exactly when the raw key is missing or null ... *)
Theorem C09_absent_or_null : forall dvf raw st fname jname ty dv d st',
  raw <> None -> raw_missing raw jname = true -> dvf ty dv = Some d -> set_plain fname d st = Some st' ->
  after_step dvf raw st (VDefault fname jname ty dv) = Ok st'.
Proof. exact vdefault_applies. Qed.
Print Assumptions C09_absent_or_null.
(* ... and leaves a present value alone *)
Theorem C09_present : forall dvf raw st fname jname ty dv,
  raw <> None -> raw_missing raw jname = false -> after_step dvf raw st (VDefault fname jname ty dv) = Ok st.
Proof. exact vdefault_present. Qed.
Print Assumptions C09_present.

(* a defaulted property is a value field (not pointer-wrapped), is exempt from `required`, and its
   default assignment runs before its own validators *)
Theorem C09_field : forall defs c self fname k p ty bp dv, c_default (s_con p) = Some dv ->
  make_field defs c self fname k p ty bp
  = (mkField fname k (negb (mem k (c_required c))) ty (Some (default_property_value p dv)) false, false,
     VDefault fname k ty (default_property_value p dv) :: field_validators fname k (s_con p) bp ty false).
Proof. exact make_field_default. Qed.
Print Assumptions C09_field.

(* other validators never modify a field: the decoded document value is what remains *)
Theorem C09_other_validators_keep : forall dvf raw st st' v fname x,
  fname <> [] -> touches fname v = false -> after_step dvf raw st v = Ok st' -> get_plain fname st = Some x -> get_plain fname st' = Some x.
Proof. exact after_step_keeps. Qed.
Print Assumptions C09_other_validators_keep.

(* the literal has the Go type of the field: scalars, one-level arrays, string enums, referenced definitions *)
Example C09_literals :
  default_val [] 5 TString (JStr [104]%N) = Some (GS [104]%N) /\
  default_val [] 5 (TInt KInt) (JInt 7) = Some (GI 7) /\
  default_val [] 5 TFloat (JQ (5 # 2)) = Some (GF (5 # 2)) /\
  default_val [] 5 (TSlice true TString) (JArr [JStr [97]%N]) = Some (GL [GS [97]%N]) /\
  default_val [] 5 (TInt KInt) (JQ (3 # 2)) = None.
Proof. vm_compute. repeat split; reflexivity. Qed.

(* refuted in full (D36): a typed additionalProperties replaces the declared default by an empty map *)
Theorem C09_refuted_map_default : exists p dv, default_property_value p dv <> dv.
Proof.
  exists (Sch empty_con [] (Some (Sch (mkC [SString] None None [] 0 0 0 0 None None (mkBounds None None None None) None None) [] None false None [] [])) false None [] []),
         (JObj [([107]%N, JStr [118]%N)]).
  cbn. discriminate.
Qed.
