(* C08 - enum values are exactly the accepted set.
   Statements only; every proof is `exact <lemma>`; Print Assumptions under each. *)
From GJS Require Import Base IntSize Regex Schema GoType Gen Exec Valid ExecP GenP CoreP LevelP NestedP EnumP EnumObjP.

(* the enum method decodes into the carrier and accepts iff reflect.DeepEqual finds the value in the table *)
Theorem C08_non_member : forall fmt_ok env f name c w vals j,
  (forall f v, dec fmt_ok env f c j = Ok v -> existsb (enum_eq c v) vals = false) ->
  is_ok (dec fmt_ok env f (TEnum name c w vals) j) = false.
Proof. exact enum_rejects_non_member. Qed.
Print Assumptions C08_non_member.
Theorem C08_member : forall fmt_ok env f name c vals j v,
  dec fmt_ok env f c j = Ok v -> existsb (enum_eq c v) vals = true -> dec fmt_ok env (S f) (TEnum name c false vals) j = Ok v.
Proof. exact enum_accepts_member. Qed.
Print Assumptions C08_member.

(* on a string carrier table membership is JSON equality with one of the listed strings *)
Theorem C08_string_membership : forall s vals,
  existsb (enum_eq TString (GS s)) (map EVStr vals) = existsb (fun v => json_eqb (JStr s) (JStr v)) vals.
Proof. intros s vals. induction vals as [|v r IH]; cbn; [reflexivity|]. rewrite IH. reflexivity. Qed.
Print Assumptions C08_string_membership.
(* on a float64 carrier: numeric equality by value *)
Theorem C08_number_membership : forall q vals,
  existsb (enum_eq TFloat (GF q)) (map EVFloat vals) = existsb (fun v => Qeq_bool q v) vals.
Proof. intros q vals. induction vals as [|v r IH]; cbn; [reflexivity|]. rewrite IH. reflexivity. Qed.
Print Assumptions C08_number_membership.
(* on the plain int carrier: integer equality *)
Theorem C08_int_membership : forall z vals,
  existsb (enum_eq (TInt KInt) (GI z)) (map EVInt vals) = existsb (Z.eqb z) vals.
Proof. intros z vals. induction vals as [|v r IH]; cbn; [reflexivity|]. rewrite IH. reflexivity. Qed.
Print Assumptions C08_int_membership.

(* refuted in full: with --min-sized-ints the carrier is a sized kind and never DeepEqual to the table's
   `int` entries: every listed value is rejected (D15) *)
Theorem C08_refuted_sized_carrier : exists k z, existsb (enum_eq (TInt k) (GI z)) [EVInt z] = false.
Proof. exists KI8, 1%Z. reflexivity. Qed.
(* refuted in full: null on a required enum listing the carrier's zero value is accepted (D39) *)
Theorem C08_refuted_null_zero : exists vals, is_ok (dec (fun _ _ => true) [] 5 (TEnum [69]%N (TInt KInt) false vals) JNull) = true
  /\ existsb (json_eqb JNull) [JInt 0; JInt 10] = false.
Proof. exists [EVInt 0; EVInt 10]. vm_compute. split; reflexivity. Qed.

(* end to end: a string enum as a property of an object (at any nesting depth, C02_nested_objects_exact with [enum_leaf] among the leaves): the
   declared struct accepts the document iff the value is one of the listed strings.  Instance: {c: enum [r, g], required} on a member, a
   non-member string, a number and the empty object *)
Theorem C08_enum_objects_inhabited :
  exists t b, gen (fun s => s) (mkCfg false false) [] (fuelG 0 2) MDeclared None false ex_enum_obj [82]%N = Done (t, b) /\
    (forall kv, In kv ex_enum_docs ->
       is_ok (dec (fun _ _ => true) [] (fuelD 0 0) t (JObj kv)) = valid (fun _ _ => true) [] (fuelV 0 0) ex_enum_obj (JObj kv)) /\
    map (fun kv => valid (fun _ _ => true) [] (fuelV 0 0) ex_enum_obj (JObj kv)) ex_enum_docs = [true; false; false; false].
Proof. exact enum_inhabited. Qed.
Print Assumptions C08_enum_objects_inhabited.

(* integer enums (after repair d4feaa6 of D57): the table the generator builds from ANY list of numbers - fractions and numbers beyond the int
   range included - is matched by a decoded int exactly when the int equals a listed number *)
Theorem C08_int_enum_table : forall l tbl z, all_numbers_to_int l = Some tbl -> in_range KInt z = true ->
  existsb (enum_eq (TInt KInt) (GI z)) tbl = existsb (json_num_eq z) l.
Proof. exact int_enum_exact. Qed.
Print Assumptions C08_int_enum_table.

(* end to end for {"type": "integer", "enum": [...numbers...]}: generator, table, decoder against the reference semantics - the declared type
   accepts a document iff the document is valid, for every list of numbers and every document inside the integer guard (integer literals inside
   Go's int; any other JSON type except null) *)
Theorem C08_int_enum_generated_exact : forall idf cf defs fmt_ok env sdefs, g_minsized cf = false ->
  forall f fd fv self sc p ty bp x,
  int_enum_leaf p -> Gen.gen idf cf defs (S f) MInline self false p sc = Done (ty, bp) -> int_value x ->
  is_ok (Exec.dec fmt_ok env (S (S fd)) ty x) = Valid.valid fmt_ok sdefs (S fv) p x.
Proof. exact int_enum_generated_exact. Qed.
Print Assumptions C08_int_enum_generated_exact.

Theorem C08_int_enum_inhabited :
  int_enum_leaf ex_int_enum /\
  exists ty b, Gen.gen (fun s => s) (mkCfg false false) [] 5 MInline None false ex_int_enum [69]%N = Done (ty, b) /\
    map (fun x => (is_ok (Exec.dec (fun _ _ => true) [] 4 ty x), Valid.valid (fun _ _ => true) [] 3 ex_int_enum x))
        [JInt 1; JInt 2; JInt 3; JStr [49]%N] = [(true, true); (false, false); (true, true); (false, false)] /\
    Forall int_value [JInt 1; JInt 2; JInt 3; JStr [49]%N].
Proof. exact int_enum_generated_inhabited. Qed.
Print Assumptions C08_int_enum_inhabited.

(* one object level whose properties are scalar leaves (C02_nested_objects_exact) or integer enums: accepted iff valid *)
Theorem C08_int_enum_objects_exact : forall idf cf defs fmt_ok env sdefs, g_minsized cf = false -> g_only_models cf = false ->
  forall f fd fv self sub s scope t bb kv,
  scope <> [] ->
  plain_object s -> c_types (s_con s) = [SObject] -> s_addl s = None -> s_addl_false s = false ->
  NoDup (map fst (s_props s)) -> incl (c_required (s_con s)) (map fst (s_props s)) ->
  NoDup (map fst (prop_names idf (s_props s))) -> (forall fname kp, In (fname, kp) (prop_names idf (s_props s)) -> fname <> []) ->
  (forall k p, In (k, p) (s_props s) -> leaf p \/ int_enum_leaf p) ->
  NoDup (map fst kv) ->
  (forall k p x, In (k, p) (s_props s) -> lookup k kv = Some x ->
     x <> JNull /\ (str_leaf p -> forall s0, x = JStr s0 -> utf8_len s0 = length s0) /\ (int_leaf p -> int_value x) /\ (arr_leaf p -> arr_value x) /\ (map_leaf p -> map_value x) /\
     (int_enum_leaf p -> int_value x)) ->
  Gen.gen idf cf defs (S (S (S f))) MDeclared self sub s scope = Done (t, bb) ->
  is_ok (Exec.dec fmt_ok env (S (S (S (S fd)))) t (JObj kv)) = Valid.valid fmt_ok sdefs (S (S (S fv))) s (JObj kv).
Proof. exact int_enum_objects_exact. Qed.
Print Assumptions C08_int_enum_objects_exact.

Theorem C08_int_enum_objects_inhabited :
  exists t b, Gen.gen (fun s => s) (mkCfg false false) [] 5 MDeclared None false ex_ie_obj [82]%N = Done (t, b) /\
    (forall kv, In kv ex_ie_docs ->
       is_ok (Exec.dec (fun _ _ => true) [] 5 t (JObj kv)) = Valid.valid (fun _ _ => true) [] 4 ex_ie_obj (JObj kv)) /\
    map (fun kv => Valid.valid (fun _ _ => true) [] 4 ex_ie_obj (JObj kv)) ex_ie_docs = [true; false; true; false; false].
Proof. exact int_enum_objects_inhabited. Qed.
Print Assumptions C08_int_enum_objects_inhabited.

(* and at any depth: the integer enum is one of the leaves of C02_nested_objects_exact; instance one level down *)
Theorem C08_int_enum_nested_inhabited :
  exists t b, Gen.gen (fun s => s) (mkCfg false false) [] (fuelG 1 2) MDeclared None false ex_ie_outer [82]%N = Done (t, b) /\
    (forall kv, In kv ex_ie_nested_docs ->
       is_ok (Exec.dec (fun _ _ => true) [] (fuelD 1 0) t (JObj kv)) = Valid.valid (fun _ _ => true) [] (fuelV 1 0) ex_ie_outer (JObj kv)) /\
    map (fun kv => Valid.valid (fun _ _ => true) [] (fuelV 1 0) ex_ie_outer (JObj kv)) ex_ie_nested_docs = [true; false; true; false; true].
Proof. exact int_enum_nested_inhabited. Qed.
Print Assumptions C08_int_enum_nested_inhabited.

(* number enums are leaves of C02_nested_objects_exact as well: {"type": "number", "enum": [0.5, 1, 2.25]} *)
Theorem C08_num_enum_inhabited :
  exists t b, Gen.gen (fun s => s) (mkCfg false false) [] (fuelG 0 2) MDeclared None false ex_ne_obj [82]%N = Done (t, b) /\
    (forall kv, In kv ex_ne_docs ->
       is_ok (Exec.dec (fun _ _ => true) [] (fuelD 0 0) t (JObj kv)) = Valid.valid (fun _ _ => true) [] (fuelV 0 0) ex_ne_obj (JObj kv)) /\
    map (fun kv => Valid.valid (fun _ _ => true) [] (fuelV 0 0) ex_ne_obj (JObj kv)) ex_ne_docs = [true; true; false; false; false].
Proof. exact num_enum_inhabited. Qed.
Print Assumptions C08_num_enum_inhabited.

(* ... and boolean enums: {"type": "boolean", "enum": [true]} *)
Theorem C08_bool_enum_inhabited :
  exists t b, Gen.gen (fun s => s) (mkCfg false false) [] (fuelG 0 2) MDeclared None false ex_be_obj [82]%N = Done (t, b) /\
    (forall kv, In kv ex_be_docs ->
       is_ok (Exec.dec (fun _ _ => true) [] (fuelD 0 0) t (JObj kv)) = Valid.valid (fun _ _ => true) [] (fuelV 0 0) ex_be_obj (JObj kv)) /\
    map (fun kv => Valid.valid (fun _ _ => true) [] (fuelV 0 0) ex_be_obj (JObj kv)) ex_be_docs = [true; false; false; false].
Proof. exact bool_enum_inhabited. Qed.
Print Assumptions C08_bool_enum_inhabited.
