(* C08 - enum values are exactly the accepted set.
   Statements only; every proof is `exact <lemma>`; Print Assumptions under each. *)
From GJS Require Import Base Regex Schema GoType Gen Exec Valid ExecP GenP CoreP LevelP NestedP.

(* the enum method decodes into the carrier and accepts iff reflect.DeepEqual finds the value in the table *)
Theorem C08_non_member : forall fmt_ok env f name c w vals j,
  (forall f v, dec fmt_ok env f c j = Ok v -> existsb (enum_eq c v) vals = false) ->
  is_ok (dec fmt_ok env f (TEnum name c w vals) j) = false.
Proof. exact enum_rejects_non_member. Qed.
Print Assumptions C08_non_member.
Theorem C08_member : forall fmt_ok env f name c vals j v,
  dec fmt_ok env f c j = Ok v -> existsb (enum_eq c v) vals = true -> dec fmt_ok env (S f) (TEnum name c false vals) j = Ok v.
Proof. exact enum_accepts_member. Qed.
Print Assumptions C08_member.

(* on a string carrier table membership is JSON equality with one of the listed strings *)
Theorem C08_string_membership : forall s vals,
  existsb (enum_eq TString (GS s)) (map EVStr vals) = existsb (fun v => json_eqb (JStr s) (JStr v)) vals.
Proof. intros s vals. induction vals as [|v r IH]; cbn; [reflexivity|]. rewrite IH. reflexivity. Qed.
Print Assumptions C08_string_membership.
(* on a float64 carrier: numeric equality by value *)
Theorem C08_number_membership : forall q vals,
  existsb (enum_eq TFloat (GF q)) (map EVFloat vals) = existsb (fun v => Qeq_bool q v) vals.
Proof. intros q vals. induction vals as [|v r IH]; cbn; [reflexivity|]. rewrite IH. reflexivity. Qed.
Print Assumptions C08_number_membership.
(* on the plain int carrier: integer equality *)
Theorem C08_int_membership : forall z vals,
  existsb (enum_eq (TInt KInt) (GI z)) (map EVInt vals) = existsb (Z.eqb z) vals.
Proof. intros z vals. induction vals as [|v r IH]; cbn; [reflexivity|]. rewrite IH. reflexivity. Qed.
Print Assumptions C08_int_membership.

(* refuted in full: with --min-sized-ints the carrier is a sized kind and never DeepEqual to the table's
   `int` entries: every listed value is rejected (D15) *)
Theorem C08_refuted_sized_carrier : exists k z, existsb (enum_eq (TInt k) (GI z)) [EVInt z] = false.
Proof. exists KI8, 1%Z. reflexivity. Qed.
(* refuted in full: null on a required enum listing the carrier's zero value is accepted (D39) *)
Theorem C08_refuted_null_zero : exists vals, is_ok (dec (fun _ _ => true) [] 5 (TEnum [69]%N (TInt KInt) false vals) JNull) = true
  /\ existsb (json_eqb JNull) [JInt 0; JInt 10] = false.
Proof. exists [EVInt 0; EVInt 10]. vm_compute. split; reflexivity. Qed.

(* end to end: a string enum as a property of an object (at any nesting depth, C02_nested_objects_exact with [enum_leaf] among the leaves): the
   declared struct accepts the document iff the value is one of the listed strings.  Instance: {c: enum [r, g], required} on a member, a
   non-member string, a number and the empty object *)
Theorem C08_enum_objects_inhabited :
  exists t b, gen (fun s => s) (mkCfg false false) [] (fuelG 0 2) MDeclared None false ex_enum_obj [82]%N = Done (t, b) /\
    (forall kv, In kv ex_enum_docs ->
       is_ok (dec (fun _ _ => true) [] (fuelD 0 0) t (JObj kv)) = valid (fun _ _ => true) [] (fuelV 0 0) ex_enum_obj (JObj kv)) /\
    map (fun kv => valid (fun _ _ => true) [] (fuelV 0 0) ex_enum_obj (JObj kv)) ex_enum_docs = [true; false; false; false].
Proof. exact enum_inhabited. Qed.
Print Assumptions C08_enum_objects_inhabited.
