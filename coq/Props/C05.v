(* C05 - numeric bounds and multipleOf are enforced exactly as stated.
   Statements only; every proof is `exact <lemma>`; Print Assumptions under each. *)
From GJS Require Import Base Bounds BoundsP NumericP IntSize Regex Schema GoType Gen Exec Valid ExecP GenP CoreP.
Open Scope Q_scope.

(* NormalizeBounds + the comparison operators chosen by genBoundary accept exactly the
   intersection of all stated bounds: for every presence combination, both exclusive
   forms, every relative order of the constants (ties included), every value. *)
Theorem C05_normalize : forall (b : bounds) (x : Q), accept_bounds b x = spec_bounds b x.
Proof. exact bounds_exact. Qed.
Print Assumptions C05_normalize.

(* exclusive wins on a tie *)
Theorem C05_tie_min : forall q, norm_min (Some q) (Some (ExNum q)) = (Some q, true).
Proof. exact norm_min_tie. Qed.
Print Assumptions C05_tie_min.
Theorem C05_tie_max : forall q, norm_max (Some q) (Some (ExNum q)) = (Some q, true).
Proof. exact norm_max_tie. Qed.
Print Assumptions C05_tie_max.

(* the returned bound is one of the stated constants and the tightest of them *)
Theorem C05_tightest_min : forall m e b ex, norm_min m e = (Some b, ex) ->
  (m = Some b \/ e = Some (ExNum b)) /\
  (forall mm, m = Some mm -> mm <= b) /\ (forall v, e = Some (ExNum v) -> v <= b).
Proof. exact norm_min_tight. Qed.
Print Assumptions C05_tightest_min.
Theorem C05_tightest_max : forall m e b ex, norm_max m e = (Some b, ex) ->
  (m = Some b \/ e = Some (ExNum b)) /\
  (forall mm, m = Some mm -> b <= mm) /\ (forall v, e = Some (ExNum v) -> b <= v).
Proof. exact norm_max_tight. Qed.
Print Assumptions C05_tightest_max.

(* the validator emitted for integer kinds (int64() constants, `%`) *)
Theorem C05_validator_int : forall (mult : option Z) (b : bounds) (x : Z),
  bounds_integral b -> (forall m, mult = Some m -> m <> 0%Z) ->
  accept_numeric true (option_map inject_Z mult) b (inject_Z x)
  = spec_numeric (option_map inject_Z mult) b (inject_Z x).
Proof. exact numeric_int_exact. Qed.
Print Assumptions C05_validator_int.

(* the validator emitted for float64 kinds (math.Mod, tolerance 1e-10), for every value and
   divisor on a common granule above the tolerance *)
Theorem C05_validator_float : forall (a : Z) (mult : option Z) (g : Q) (b : bounds),
  tol < g -> (forall m, mult = Some m -> m <> 0%Z) ->
  accept_numeric false (option_map (fun m => inject_Z m * g) mult) b (inject_Z a * g)
  = spec_numeric (option_map (fun m => inject_Z m * g) mult) b (inject_Z a * g).
Proof. exact numeric_float_exact. Qed.
Print Assumptions C05_validator_float.

(* the full statement without the guards is false of the faithful model: D11 *)
Theorem C05_refuted_tolerance :
  exists m x, accept_multiple false (Some m) x = true /\ spec_multiple (Some m) x = false.
Proof. exact multiple_float_refuted_tolerance. Qed.
Theorem C05_refuted_fractional_int_bound :
  exists b x, accept_numeric true None b (inject_Z x) = true /\ spec_numeric None b (inject_Z x) = false.
Proof. exact numeric_int_refuted_fractional. Qed.

(* the validator is attached whenever one of the five keywords is present, with the schema's own
   constants, rounding to int64 for integer kinds, with the nil guard for pointer fields *)
Theorem C05_attached_int : forall fname jn c b k nillable, has_bound_kw (c_mult c) b = true ->
  field_validators fname jn c b (TInt k) nillable = [VNumeric fname jn nillable true (c_mult c) b].
Proof. exact numeric_validator_attached_int. Qed.
Print Assumptions C05_attached_int.
Theorem C05_attached_float : forall fname jn c b nillable, has_bound_kw (c_mult c) b = true ->
  field_validators fname jn c b TFloat nillable = [VNumeric fname jn nillable false (c_mult c) b].
Proof. exact numeric_validator_attached_float. Qed.
Print Assumptions C05_attached_float.

(* absent or null optional values are never bound-checked *)
Theorem C05_absent_or_null : forall dvf raw st fname jname rnd mult b, get_plain fname st = Some GNil ->
  after_step dvf raw st (VNumeric fname jname true rnd mult b) = Ok st.
Proof. exact vnumeric_nil. Qed.
Print Assumptions C05_absent_or_null.

(* end to end for a struct method (required: value field; optional / nullable: pointer field) *)
Theorem C05_enforced_number : forall fmt_ok env f c0 name fs vs kv fl jn (nillable : bool) mult b n,
  NoDup (map f_name fs) -> In fl fs -> f_addl fl = false -> f_name fl <> [] ->
  f_ty fl = (if nillable then TPtr TFloat else TFloat) ->
  lookup (f_json fl) kv = Some (JNum n) ->
  In (VNumeric (f_name fl) jn nillable false mult b) vs -> (forall v', In v' vs -> touches (f_name fl) v' = false) ->
  accept_numeric false mult b (nq n) = false ->
  is_ok (dec fmt_ok env f (TStruct (c0 :: name) fs (Some vs)) (JObj kv)) = false.
Proof. exact struct_enforces_number. Qed.
Print Assumptions C05_enforced_number.
Theorem C05_enforced_integer : forall fmt_ok env f c0 name fs vs kv fl jn (nillable : bool) mult b k z,
  NoDup (map f_name fs) -> In fl fs -> f_addl fl = false -> f_name fl <> [] ->
  f_ty fl = (if nillable then TPtr (TInt k) else TInt k) ->
  lookup (f_json fl) kv = Some (JInt z) -> in_range k z = true ->
  In (VNumeric (f_name fl) jn nillable true mult b) vs -> (forall v', In v' vs -> touches (f_name fl) v' = false) ->
  accept_numeric true mult b (inject_Z z) = false ->
  is_ok (dec fmt_ok env f (TStruct (c0 :: name) fs (Some vs)) (JObj kv)) = false.
Proof. exact struct_enforces_integer. Qed.
Print Assumptions C05_enforced_integer.

(* non-vacuity: the hypotheses are met by non-trivial inputs *)
Example C05_guard_int_inhabited :
  bounds_integral (mkBounds (Some 2) (Some 10) (Some (ExNum 2)) (Some (ExBool true))) /\
  (forall m, Some 3%Z = Some m -> m <> 0%Z).
Proof.
  split.
  - repeat split; intros q H; inversion H; subst; [exists 2%Z|exists 10%Z|exists 2%Z]; reflexivity.
  - intros m H; inversion H; lia.
Qed.
Example C05_guard_float_inhabited : tol < (1 # 1000).
Proof. reflexivity. Qed.
