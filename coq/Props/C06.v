(* C06 - string length and pattern constraints (placeholder; statements follow) *)
From GJS Require Import Base Regex Schema GoType Exec.
