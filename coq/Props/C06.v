(* C06 - string length and pattern constraints are enforced exactly.
   Statements only; every proof is `exact <lemma>`; Print Assumptions under each. *)
From GJS Require Import Base Regex Schema GoType Gen Exec Valid ExecP GenP CoreP Gen GenP MethodP LevelP.

(* the emitted checks (len comparisons, regexp.MatchString) accept exactly the strings whose length
   lies in [minLength, maxLength] and that match the pattern - whenever byte length and character
   count coincide (e.g. ASCII) *)
Theorem C06_validator : forall mn mx p s, utf8_len s = length s ->
  check_string mn mx p s = if spec_string mn mx p s then Ok tt else Err.
Proof. exact check_string_exact. Qed.
Print Assumptions C06_validator.

Theorem C06_ascii : forall s, Forall (fun c => (c < 128)%N) s -> utf8_len s = length s.
Proof. exact utf8_len_ascii. Qed.
Print Assumptions C06_ascii.

(* in general they compute the same predicate on the BYTE length (Go's len) ... *)
Theorem C06_validator_bytes : forall mn mx p s,
  check_string mn mx p s = if spec_string_bytes mn mx p s then Ok tt else Err.
Proof. exact check_string_bytes. Qed.
Print Assumptions C06_validator_bytes.

(* ... so the full statement (length in characters) is false of the faithful model: D10 *)
Theorem C06_refuted_multibyte : exists mn mx s, spec_string mn mx None s = true /\ check_string mn mx None s = Err.
Proof. exact check_string_multibyte_refuted. Qed.

(* the validator is attached exactly when one of the three keywords is set, with the schema's constants,
   with the nil guard exactly for pointer (optional / nullable) fields *)
Theorem C06_attached : forall fname jn c b nillable, has_string_kw c = true ->
  field_validators fname jn c b TString nillable = [VString fname jn nillable (c_min_len c) (c_max_len c) (c_pattern c)].
Proof. exact string_validator_attached. Qed.
Print Assumptions C06_attached.
Theorem C06_attached_pointer : forall fname jn c b nillable, has_string_kw c = true ->
  field_validators fname jn c b (TPtr TString) nillable = [VString fname jn true (c_min_len c) (c_max_len c) (c_pattern c)].
Proof. exact string_validator_attached_ptr. Qed.
Print Assumptions C06_attached_pointer.
Theorem C06_not_attached : forall fname jn c b nillable, has_string_kw c = false -> field_validators fname jn c b TString nillable = [].
Proof. exact string_validator_absent. Qed.
Print Assumptions C06_not_attached.

(* required (value) / optional or nullable (pointer) / absent or null (nil pointer: never checked);
   fname = [] is the named-definition case (`plain` itself) *)
Theorem C06_value : forall dvf raw st fname jname mn mx p s, get_plain fname st = Some (GS s) ->
  after_step dvf raw st (VString fname jname false mn mx p) = if spec_string_bytes mn mx p s then Ok st else Err.
Proof. exact vstring_value. Qed.
Print Assumptions C06_value.
Theorem C06_pointer : forall dvf raw st fname jname mn mx p s, get_plain fname st = Some (GP (GS s)) ->
  after_step dvf raw st (VString fname jname true mn mx p) = if spec_string_bytes mn mx p s then Ok st else Err.
Proof. exact vstring_pointer. Qed.
Print Assumptions C06_pointer.
Theorem C06_absent_or_null : forall dvf raw st fname jname mn mx p, get_plain fname st = Some GNil ->
  after_step dvf raw st (VString fname jname true mn mx p) = Ok st.
Proof. exact vstring_nil. Qed.
Print Assumptions C06_absent_or_null.

(* end to end for a struct method: an object whose string property violates its constraint is never
   accepted, whatever the other properties and validators are (every fuel) *)
Theorem C06_enforced : forall fmt_ok env f c0 name fs vs kv fl jn (nillable : bool) mn mx p s,
  NoDup (map f_name fs) -> In fl fs -> f_addl fl = false -> f_name fl <> [] ->
  f_ty fl = (if nillable then TPtr TString else TString) ->
  lookup (f_json fl) kv = Some (JStr s) ->
  In (VString (f_name fl) jn nillable mn mx p) vs -> (forall v', In v' vs -> touches (f_name fl) v' = false) ->
  spec_string_bytes mn mx p s = false ->
  is_ok (dec fmt_ok env f (TStruct (c0 :: name) fs (Some vs)) (JObj kv)) = false.
Proof. exact struct_enforces_string. Qed.
Print Assumptions C06_enforced.

(* non-vacuity: the generated type of a concrete schema meets the hypotheses, and a boundary document is rejected *)
Definition ex_schema : schema :=
  Sch (mkC [SObject] None None [[115]%N] 0 0 0 0 None None (mkBounds None None None None) None None)
      [([115]%N, Sch (mkC [SString] None None [] 0 0 2 3 None None (mkBounds None None None None) None None) [] None false None [] [])]
      None false None [] [].
Example C06_example :
  exists t b, gen (fun s => s) (mkCfg false false) [] 10 MDeclared None false ex_schema [82]%N = Done (t, b) /\
    is_ok (dec (fun _ _ => true) [] 10 t (JObj [([115]%N, JStr [97; 98]%N)])) = true /\
    is_ok (dec (fun _ _ => true) [] 10 t (JObj [([115]%N, JStr [97]%N)])) = false /\
    is_ok (dec (fun _ _ => true) [] 10 t (JObj [([115]%N, JStr [97; 98; 99; 100]%N)])) = false.
Proof. eexists. eexists. split; [vm_compute; reflexivity|]. vm_compute. repeat split; reflexivity. Qed.

(* end to end, both directions: an object all of whose properties are constrained strings (no default, no enum, no format), declared by the
   generator: a JSON object whose values are not null and whose strings are ASCII is accepted iff it is valid under the schema - every such
   schema, every required set, every document *)
Theorem C06_objects_exact : forall idf cf defs fmt_ok env sdefs f fd fv self sub s scope t b kv,
  g_only_models cf = false -> scope <> [] ->
  plain_object s -> c_types (s_con s) = [SObject] -> s_addl s = None -> s_addl_false s = false ->
  (forall k p, In (k, p) (s_props s) -> str_leaf p) ->
  NoDup (map fst (s_props s)) -> NoDup (map fst kv) ->
  incl (c_required (s_con s)) (map fst (s_props s)) ->
  NoDup (map fst (prop_names idf (s_props s))) -> (forall fname kp, In (fname, kp) (prop_names idf (s_props s)) -> fname <> []) ->
  (forall k x, In (k, x) kv -> ascii_value x) ->
  gen idf cf defs (S (S (S f))) MDeclared self sub s scope = Done (t, b) ->
  is_ok (dec fmt_ok env (S (S (S fd))) t (JObj kv)) = valid fmt_ok sdefs (S (S fv)) s (JObj kv).
Proof. exact string_object_exact. Qed.
Print Assumptions C06_objects_exact.

Theorem C06_objects_inhabited :
  exists t b, gen (fun s => s) (mkCfg false false) [] 3 MDeclared None false LevelP.ex_schema [82]%N = Done (t, b) /\
    is_ok (dec (fun _ _ => true) [] 3 t (JObj LevelP.ex_doc)) = valid (fun _ _ => true) [] 2 LevelP.ex_schema (JObj LevelP.ex_doc) /\
    valid (fun _ _ => true) [] 2 LevelP.ex_schema (JObj LevelP.ex_doc) = true.
Proof. exact string_object_inhabited. Qed.
Print Assumptions C06_objects_inhabited.
