(* C17 - UnmarshalYAML enforces the same rules as UnmarshalJSON.
   Statements only; every proof is `exact <lemma>`; Print Assumptions under each.
   The two formatters lay the method out identically (the diff of yaml_formatter.go against
   json_formatter.go is the library call only); the model has ONE method layout, [run_method],
   parameterised by the component decoder.  Proved: decoders that agree give methods that agree,
   for every validator list, every struct and every document (C17_methods_agree).  Where the two
   LIBRARIES disagree (5.0 for an int, null elements, int vs float64 in interface{}) is library
   behaviour outside this development: decided on the implementation by decoding the same bytes
   through both paths (correspondence run), with the recorded findings D15/D32 as guards. *)
From GJS Require Import Base Regex Schema GoType Gen Exec Valid ExecP.

Theorem C17_methods_agree : forall decf decf' zf dvf fs under vs j,
  (forall t x, decf t x = decf' t x) -> run_method decf zf dvf fs under vs j = run_method decf' zf dvf fs under vs j.
Proof. exact run_method_ext. Qed.
Print Assumptions C17_methods_agree.

(* every validator except anyOf is independent of the format: the after-validators do not mention the decoder at all *)
Theorem C17_validators_format_free : forall decf decf' raw j v,
  (forall t x, decf t x = decf' t x) -> before_step decf raw j v = before_step decf' raw j v.
Proof. exact before_step_ext. Qed.
Print Assumptions C17_validators_format_free.
