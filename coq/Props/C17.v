(* C17 - UnmarshalYAML enforces the same rules as UnmarshalJSON.
   Statements only; every proof is `exact <lemma>`; Print Assumptions under each.
   The two formatters lay the method out identically (the diff of yaml_formatter.go against
   json_formatter.go is the library call only); the model has ONE method layout, [run_method],
   parameterised by the component decoder.  Proved: decoders that agree give methods that agree,
   for every validator list, every struct and every document (C17_methods_agree).  Where the two
   LIBRARIES disagree (5.0 for an int, null elements, int vs float64 in interface{}) is library
   behaviour outside this development: decided on the implementation by decoding the same bytes
   through both paths (correspondence run), with the recorded findings D15/D32 as guards. *)
From GJS Require Import Base Regex Schema GoType Render Gen Exec Valid ExecP PlanP.

Theorem C17_methods_agree : forall decf decf' zf dvf fs under vs j,
  (forall t x, decf t x = decf' t x) -> run_method decf zf dvf fs under vs j = run_method decf' zf dvf fs under vs j.
Proof. exact run_method_ext. Qed.
Print Assumptions C17_methods_agree.

(* every validator except anyOf is independent of the format: the after-validators do not mention the decoder at all *)
Theorem C17_validators_format_free : forall decf decf' raw j v,
  (forall t x, decf t x = decf' t x) -> before_step decf raw j v = before_step decf' raw j v.
Proof. exact before_step_ext. Qed.
Print Assumptions C17_validators_format_free.

(* "the model has ONE method layout" is checked on every run: the checks of the emitted UnmarshalJSON and of the emitted UnmarshalYAML of
   every declared type are read off the text and compared, line by line and in order, with [Render.plan_lines] of the model's validator
   list (the plan tie).  What that comparison is worth: two validator lists with the same signatures ([Render.vsig_of], what the lines
   print) and the same residue (default literal, pattern, anyOf branch types) give the same method - same verdict, same value - on
   every document, for every component decoder. *)
Theorem C17_plan_determines_method : forall decf zf dvf fs under vs1 vs2 j,
  Forall2 same_plan vs1 vs2 -> run_method decf zf dvf fs under vs1 j = run_method decf zf dvf fs under vs2 j.
Proof. exact plan_determines_method. Qed.
Print Assumptions C17_plan_determines_method.

Theorem C17_plan_lines : forall fs vs1 vs2, Forall2 same_plan vs1 vs2 -> plan_lines fs vs1 = plan_lines fs vs2.
Proof. exact same_plan_lines. Qed.
Print Assumptions C17_plan_lines.

Theorem C17_plan_inhabited :
  let v1 := VNumeric [78%N] [110%N] false false None (Bounds.mkBounds (Some (3 # 1)%Q) None (Some (Bounds.ExBool true)) None) in
  let v2 := VNumeric [78%N] [110%N] false false None (Bounds.mkBounds None None (Some (Bounds.ExNum (3 # 1)%Q)) None) in
  v1 <> v2 /\ same_plan v1 v2.
Proof. exact plan_inhabited. Qed.
Print Assumptions C17_plan_inhabited.
