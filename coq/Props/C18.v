(* C18 - the tool fails loudly and cleanly: never panics, never half-succeeds.
   Statements only; every proof is `exact <lemma>`; Print Assumptions under each. *)
From GJS Require Import Base Schema GoType Gen GenP Driver DriverP.

(* main.go:97-134: every input is generated before anything is written; a failure anywhere means
   non-zero status, a diagnostic, nothing on stdout and no file written *)
Theorem C18_all_or_nothing : forall flags_ok gen_all,
  (r_status (cli flags_ok gen_all) = 0 /\ exists srcs, gen_all = DOk srcs /\
     r_writes (cli flags_ok gen_all) = filter (fun ft => negb (str_eqb (fst ft) s_dash)) srcs)
  \/ (r_status (cli flags_ok gen_all) <> 0 /\ r_stderr_empty (cli flags_ok gen_all) = false /\
      r_stdout (cli flags_ok gen_all) = [] /\ r_writes (cli flags_ok gen_all) = []).
Proof. exact cli_all_or_nothing. Qed.
Print Assumptions C18_all_or_nothing.

(* the ungeneratable elements are errors of the generator ... *)
Theorem C18_unknown_type : forall cf fmt ptr b, primitive cf SUnknown fmt ptr b = GErr.
Proof. exact unknown_type_fails. Qed.
Print Assumptions C18_unknown_type.
Theorem C18_missing_definition : forall idf cf defs f self sub s scope x,
  c_enum (s_con s) = None -> c_ref (s_con s) = Some x -> lookup x defs = None -> gen idf cf defs (S f) MType self sub s scope = GErr.
Proof. exact missing_definition_fails. Qed.
Print Assumptions C18_missing_definition.
Theorem C18_empty_enum : forall idf cf defs f self sub s scope, c_enum (s_con s) = Some [] -> gen idf cf defs (S f) MType self sub s scope = GErr.
Proof. exact empty_enum_fails. Qed.
Print Assumptions C18_empty_enum.

(* ... and a failure at a property, an array item or a definition is a failure of everything above it:
   the error is never dropped on the way up (one step per enclosing construct; any depth by iteration) *)
Theorem C18_property : forall idf cf defs f self sub s scope k p,
  plain_object s -> In (k, p) (s_props s) ->
  (forall sc, is_done (gen idf cf defs f MInline self false p sc) = false) ->
  is_done (gen idf cf defs (S f) MType self sub s scope) = false.
Proof. exact object_fails_with_property. Qed.
Print Assumptions C18_property.
Theorem C18_declaration : forall idf cf defs f self sub s scope,
  c_enum (s_con s) = None -> is_done (gen idf cf defs f MType self sub s scope) = false ->
  is_done (gen idf cf defs (S f) MDeclared self sub s scope) = false.
Proof. exact declared_fails. Qed.
Print Assumptions C18_declaration.
Theorem C18_nested_object : forall idf cf defs f self sub s scope,
  c_enum (s_con s) = None -> c_ref (s_con s) = None -> s_all_of s = [] -> s_any_of s = [] -> c_types (s_con s) = [SObject] ->
  is_done (gen idf cf defs f MDeclared self sub s scope) = false -> is_done (gen idf cf defs (S f) MInline self sub s scope) = false.
Proof. exact inline_object_fails. Qed.
Print Assumptions C18_nested_object.
Theorem C18_array_item : forall idf cf defs f self sub s scope it,
  c_enum (s_con s) = None -> c_ref (s_con s) = None -> s_all_of s = [] -> s_any_of s = [] -> c_types (s_con s) = [SArray] ->
  s_items s = Some it -> (forall sc, is_done (gen idf cf defs f MInline self false it sc) = false) ->
  is_done (gen idf cf defs (S f) MInline self sub s scope) = false.
Proof. exact inline_array_fails. Qed.
Print Assumptions C18_array_item.
Theorem C18_definition : forall idf cf defs root root_name name d,
  In (name, d) defs -> is_done (gen idf cf defs gen_fuel MDeclared (Some name) false d (idf name)) = false ->
  is_done (gen_file idf cf defs root root_name) = false.
Proof. exact file_fails_with_definition. Qed.
Print Assumptions C18_definition.

(* non-vacuity: an unknown type three levels down fails the file *)
Definition bad : schema := Sch (mkC [SUnknown] None None [] 0 0 0 0 None None (mkBounds None None None None) None None) [] None false None [] [].
Definition arr : schema := Sch (mkC [SArray] None None [] 0 0 0 0 None None (mkBounds None None None None) None None) [] None false (Some bad) [] [].
Definition obj2 : schema := Sch (mkC [SObject] None None [] 0 0 0 0 None None (mkBounds None None None None) None None) [([108]%N, arr)] None false None [] [].
Definition root3 : schema := Sch (mkC [SObject] None None [] 0 0 0 0 None None (mkBounds None None None None) None None) [([111]%N, obj2)] None false None [] [].
Example C18_example : gen_file (fun s => s) (mkCfg false false) [] root3 [82]%N = GErr.
Proof. vm_compute. reflexivity. Qed.
