(* C07 - array length limits are enforced at every nesting level.
   Statements only; every proof is `exact <lemma>`; Print Assumptions under each. *)
From GJS Require Import Base Regex Schema GoType Gen Exec Valid ExecP GenP CoreP RunCore.

(* the loop nest emitted for depth d checks exactly the arrays at nesting level d: every one of
   them (at any position) must have a length within the limits; nil arrays are skipped *)
Theorem C07_level : forall d mn mx v, d <> 0 -> slice_shaped d v = true ->
  check_array d mn mx v = if levels_ok d mn mx v then Ok tt else Err.
Proof. exact check_array_exact. Qed.
Print Assumptions C07_level.

(* one validator per nesting level 1..k of an inline array of depth k - all of them carrying the
   limits of the OUTERMOST array (schema_generator.go:416-440 never advances the schema node) *)
Theorem C07_every_level : forall fname jn mn mx e, not_inline_slice e = true -> (mn <> 0 \/ mx <> 0) ->
  forall d depth, array_validators fname jn mn mx depth (nest d e) = map (fun i => VArray fname jn (depth + i) mn mx) (seq 0 d).
Proof. exact array_validators_nest. Qed.
Print Assumptions C07_every_level.

(* hence, when every level states the same limits, all levels are enforced; an absent or null array is never checked *)
Theorem C07_value : forall dvf raw st fname jname depth mn mx v,
  depth <> 0 -> get_plain fname st = Some v -> slice_shaped depth v = true ->
  after_step dvf raw st (VArray fname jname depth mn mx) = if levels_ok depth mn mx v then Ok st else Err.
Proof. exact varray_value. Qed.
Print Assumptions C07_value.
Theorem C07_absent_or_null : forall dvf raw st fname jname depth mn mx,
  depth <> 0 -> get_plain fname st = Some GNil -> after_step dvf raw st (VArray fname jname depth mn mx) = Ok st.
Proof. exact varray_nil. Qed.
Print Assumptions C07_absent_or_null.

(* the full statement (each level against ITS OWN limits) is false of the faithful model: D9.
   outer minItems 1, inner minItems 3: [[1]] is invalid but accepted *)
Definition inner_arr : schema :=
  Sch (mkC [SArray] None None [] 3 0 0 0 None None (mkBounds None None None None) None None) [] None false
      (Some (Sch (mkC [SInteger] None None [] 0 0 0 0 None None (mkBounds None None None None) None None) [] None false None [] [])) [] [].
Definition outer_obj : schema :=
  Sch (mkC [SObject] None None [] 0 0 0 0 None None (mkBounds None None None None) None None)
      [([97]%N, Sch (mkC [SArray] None None [] 1 0 0 0 None None (mkBounds None None None None) None None) [] None false (Some inner_arr) [] [])]
      None false None [] [].
Theorem C07_refuted_nested :
  exists t b doc, gen (fun s => s) (mkCfg false false) [] 20 MDeclared None false outer_obj [82]%N = Done (t, b) /\
    valid (fun _ _ => true) [] 20 outer_obj doc = false /\ is_ok (dec (fun _ _ => true) [] 20 t doc) = true.
Proof.
  eexists. eexists. exists (JObj [([97]%N, JArr [JArr [JInt 1]])]).
  split; [vm_compute; reflexivity|]. vm_compute. split; reflexivity.
Qed.
