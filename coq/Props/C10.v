(* C10 - $ref is transparent, resolves relative to its document, and may recurse.
   Statements only; every proof is `exact <lemma>`; Print Assumptions under each.
   Proved: every reference to a definition becomes the same named type (one Go type per definition,
   never re-declared at the referrer), decoding through a reference is decoding into the target type,
   references never unfold at generation time (so recursion terminates: gen recurses on the schema
   tree only).  The comparison of ref-form and inlined-form programs on documents, file resolution
   relative to the referring document (repaired defect D40) and cross-file layouts are decided on the
   implementation by the correspondence run; file loading is outside the Coq model.
   End to end (C10_refs_transparent): an object property given by reference to an object definition - at any nesting depth, next to
   inline objects and scalar leaves - is accepted iff the document is valid under the schema with the reference followed, i.e. the
   reference form decides exactly like the reference semantics, which inlines the definition. *)
From GJS Require Import Base Schema GoType Gen Exec Valid GenP ExecP LevelP NestedP.

Theorem C10_one_type_per_definition : forall idf cf defs f self sub s scope x d,
  c_enum (s_con s) = None -> c_ref (s_con s) = Some x -> lookup x defs = Some d ->
  (c_types (s_con d) <> [] \/ s_props d <> []) ->
  gen idf cf defs (S f) MType self sub s scope = Done (TRef x, c_bounds (s_con s)).
Proof. exact reference_is_shared. Qed.
Print Assumptions C10_one_type_per_definition.

Theorem C10_not_redeclared : forall idf cf defs f self sub s scope x d,
  c_enum (s_con s) = None -> c_ref (s_con s) = Some x -> lookup x defs = Some d ->
  (c_types (s_con d) <> [] \/ s_props d <> []) ->
  gen idf cf defs (S (S f)) MDeclared self sub s scope = Done (TRef x, c_bounds (s_con s)) /\
  gen idf cf defs (S (S (S f))) MInline self sub s scope = Done (TRef x, c_bounds (s_con s)).
Proof. exact reference_not_redeclared. Qed.
Print Assumptions C10_not_redeclared.

(* at run time a reference is its target: same verdict, same value, for every document *)
Theorem C10_transparent : forall fmt_ok env f d u j, lookup d env = Some u ->
  dec fmt_ok env (S f) (TRef d) j = dec fmt_ok env f u j.
Proof. exact dec_ref_transparent. Qed.
Print Assumptions C10_transparent.

(* recursion: a self-referential definition generates (the reference is not unfolded) and decodes nested documents *)
Definition node : schema :=
  Sch (mkC [SObject] None None [[118]%N] 0 0 0 0 None None (mkBounds None None None None) None None)
      [([110]%N, Sch (mkC [] (Some [78]%N) None [] 0 0 0 0 None None (mkBounds None None None None) None None) [] None false None [] []);
       ([118]%N, Sch (mkC [SInteger] None None [] 0 0 0 0 None None (mkBounds (Some 0%Q) None None None) None None) [] None false None [] [])]
      None false None [] [].
Example C10_recursion :
  exists p t, gen_file (fun s => s) (mkCfg false false) [([78]%N, node)] node [82]%N = Done p /\ p_root p = Some t /\
    is_ok (dec (fun _ _ => true) (p_defs p) 60 t
             (JObj [([118]%N, JInt 1); ([110]%N, JObj [([118]%N, JInt 2); ([110]%N, JObj [([118]%N, JInt 3)])])])) = true /\
    is_ok (dec (fun _ _ => true) (p_defs p) 60 t
             (JObj [([118]%N, JInt 1); ([110]%N, JObj [([118]%N, JInt 2); ([110]%N, JObj [([118]%N, JInt (-3))])])])) = false.
Proof. eexists. eexists. split; [vm_compute; reflexivity|]. split; [reflexivity|]. vm_compute. split; reflexivity. Qed.

(* references inside the end-to-end statement: [sobj n] allows, at every level, properties that are references to definitions which are
   scalar objects of depth below n (same definition for the generator and for the reference semantics; the environment holds the type
   generated for it) *)
Theorem C10_refs_transparent : forall idf cf defs fmt_ok env sdefs,
  g_minsized cf = false -> g_only_models cf = false ->
  forall n a b c self sub s scope t bb kv,
  scope <> [] -> sobj idf cf defs env sdefs n s -> dok idf cf defs env sdefs n s kv ->
  gen idf cf defs (fuelG n a) MDeclared self sub s scope = Done (t, bb) ->
  is_ok (dec fmt_ok env (fuelD n b) t (JObj kv)) = valid fmt_ok sdefs (fuelV n c) s (JObj kv).
Proof. exact nested_object_exact. Qed.
Print Assumptions C10_refs_transparent.

Theorem C10_refs_inhabited :
  exists t b, gen (fun s => s) (mkCfg false false) ex_defs (fuelG 1 0) MDeclared None false ex_refroot [82]%N = Done (t, b) /\
    (forall kv, In kv [ex_ref_doc; ex_ref_bad] ->
       is_ok (dec (fun _ _ => true) ex_env (fuelD 1 0) t (JObj kv)) = valid (fun _ _ => true) ex_defs (fuelV 1 0) ex_refroot (JObj kv)) /\
    map (fun kv => valid (fun _ _ => true) ex_defs (fuelV 1 0) ex_refroot (JObj kv)) [ex_ref_doc; ex_ref_bad] = [true; false].
Proof. exact ref_inhabited. Qed.
Print Assumptions C10_refs_inhabited.
