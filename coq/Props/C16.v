(* C16 - output-shaping options change only what they name.
   Statements only; every proof is `exact <lemma>`; Print Assumptions under each.
   In the model the generator's result for a schema is [gen idf cf defs ...]: its only inputs are the
   identifier function [idf] (capitalisations, title / root-type naming), the two flags of [cfg]
   (min-sized ints, only-models) and the schema.  --tags and --extra-imports are not inputs at all:
   tags are printed from (property name, required) - both in the field record - and the YAML
   formatter re-uses the validator list (C17); so those two options cannot change types, plans or
   JSON behaviour by construction.  What remains to prove is --only-models. *)
From GJS Require Import Base Schema GoType Gen GenP.

(* --only-models never attaches a method ... *)
Theorem C16_only_models_no_method : forall mn scope sub c t0 b0 t b,
  is_named_ty t0 = false -> declare (mkCfg mn true) scope sub c (t0, b0) = Done (t, b) -> no_method t = true.
Proof. exact declare_only_models_no_method. Qed.
Print Assumptions C16_only_models_no_method.

(* ... and declares exactly the type a full run declares (same name, fields, underlying type, bounds left in the node) *)
Theorem C16_only_models_same_type : forall mn scope sub c t0 b0 t b t' b',
  is_named_ty t0 = false ->
  declare (mkCfg mn false) scope sub c (t0, b0) = Done (t, b) -> declare (mkCfg mn true) scope sub c (t0, b0) = Done (t', b') ->
  strip_plan t = strip_plan t' /\ b = b'.
Proof. exact declare_only_models_same_type. Qed.
Print Assumptions C16_only_models_same_type.

(* naming options reach the generator only through [idf]: field and type names are a function of it,
   the JSON keys are not *)
Theorem C16_names_only : forall defs c self fname k p ty bp,
  f_json (fst (fst (make_field defs c self fname k p ty bp))) = k.
Proof. intros. unfold make_field. destruct (c_default (s_con p)); [reflexivity|]. destruct (mem k (c_required c)); reflexivity. Qed.
Print Assumptions C16_names_only.
