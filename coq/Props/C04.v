(* C04 - a document missing a required property is rejected, at every depth.
   Statements only; every proof is `exact <lemma>`; Print Assumptions under each. *)
From GJS Require Import Base Regex Schema GoType Gen Exec Valid ExecP GenP CoreP MethodP.

(* an Unmarshal method whose validator list contains `required k` never accepts an object without k *)
Theorem C04_method : forall decf zf dvf fs under vs kv k,
  In (VRequired k) vs -> lookup k kv = None -> is_ok (run_method decf zf dvf fs under vs (JObj kv)) = false.
Proof. exact method_rejects_missing_required. Qed.
Print Assumptions C04_method.

(* the generator puts that check into the method of every object schema with properties, for every
   key that is required, declared and has no default; the method exists unless --only-models *)
Theorem C04_generated : forall idf cf defs f self sub s scope t b k p,
  plain_object s -> g_only_models cf = false -> scope <> [] ->
  gen idf cf defs (S (S f)) MDeclared self sub s scope = Done (t, b) ->
  In (k, p) (s_props s) -> mem k (c_required (s_con s)) = true -> c_default (s_con p) = None ->
  exists c name fs plan, t = TStruct (c :: name) fs (Some plan) /\ In (VRequired k) plan.
Proof. exact declared_object. Qed.
Print Assumptions C04_generated.

(* a failure anywhere inside a document makes the whole decode fail: through pointers, slices,
   maps, struct fields, named types and references - any number of levels *)
Theorem C04_propagates : forall fmt_ok env t j t' j', inside_star env t j t' j' ->
  (forall f, is_ok (dec fmt_ok env f t' j') = false) -> forall f, is_ok (dec fmt_ok env f t j) = false.
Proof. exact inside_star_fails. Qed.
Print Assumptions C04_propagates.

(* together: wherever the object sits (root, nested property, array element, map value, referenced
   definition), a document that omits a required key of it is never accepted.  [s] generated as a
   property or array item: *)
Theorem C04_required_inline : forall fmt_ok env idf cf defs f self sub s scope t b k p T J kv,
  plain_object s -> c_types (s_con s) = [SObject] -> g_only_models cf = false -> scope <> [] ->
  gen idf cf defs (S (S (S f))) MInline self sub s scope = Done (t, b) ->
  In (k, p) (s_props s) -> mem k (c_required (s_con s)) = true -> c_default (s_con p) = None ->
  lookup k kv = None -> inside_star env T J t (JObj kv) ->
  forall fuel, is_ok (dec fmt_ok env fuel T J) = false.
Proof. exact required_enforced_inline. Qed.
Print Assumptions C04_required_inline.
(* [s] a definition or the root: *)
Theorem C04_required_declared : forall fmt_ok env idf cf defs f self sub s scope t b k p T J kv,
  plain_object s -> g_only_models cf = false -> scope <> [] ->
  gen idf cf defs (S (S f)) MDeclared self sub s scope = Done (t, b) ->
  In (k, p) (s_props s) -> mem k (c_required (s_con s)) = true -> c_default (s_con p) = None ->
  lookup k kv = None -> inside_star env T J t (JObj kv) ->
  forall fuel, is_ok (dec fmt_ok env fuel T J) = false.
Proof. exact required_enforced_declared. Qed.
Print Assumptions C04_required_declared.

(* a present key satisfies the rule whatever its value (null included); a null container skips the checks *)
Theorem C04_present : forall decf kv j k x, lookup k kv = Some x -> before_step decf (Some (Some kv)) j (VRequired k) = Ok tt.
Proof. exact before_required_present. Qed.
Print Assumptions C04_present.
Theorem C04_null_container : forall decf j k, before_step decf (Some None) j (VRequired k) = Ok tt.
Proof. exact before_required_null_doc. Qed.
Print Assumptions C04_null_container.

(* non-vacuity: a nested object inside an array inside the root *)
Definition inner : schema :=
  Sch (mkC [SObject] None None [[114]%N] 0 0 0 0 None None (mkBounds None None None None) None None)
      [([114]%N, Sch (mkC [SString] None None [] 0 0 0 0 None None (mkBounds None None None None) None None) [] None false None [] [])]
      None false None [] [].
Definition root : schema :=
  Sch (mkC [SObject] None None [] 0 0 0 0 None None (mkBounds None None None None) None None)
      [([108]%N, Sch (mkC [SArray] None None [] 0 0 0 0 None None (mkBounds None None None None) None None) [] None false (Some inner) [] [])]
      None false None [] [].
Example C04_example :
  exists t b, gen (fun s => s) (mkCfg false false) [] 20 MDeclared None false root [82]%N = Done (t, b) /\
    is_ok (dec (fun _ _ => true) [] 20 t (JObj [([108]%N, JArr [JObj [([114]%N, JStr [120]%N)]; JObj []])])) = false /\
    is_ok (dec (fun _ _ => true) [] 20 t (JObj [([108]%N, JArr [JObj [([114]%N, JStr [120]%N)]])])) = true /\
    plain_object inner /\ mem [114]%N (c_required (s_con inner)) = true.
Proof. eexists. eexists. split; [vm_compute; reflexivity|]. vm_compute. repeat split; try reflexivity; discriminate. Qed.

(* both directions for a checks-only method: its presence checks pass iff every required key is present (and C02_struct_exact says the
   object is then accepted iff, in addition, the present keys decode and the value checks pass) *)
Theorem C04_exact : forall decf vs kv, forallb check_only vs = true ->
  forallb (fun v => is_ok (before_step decf (raw_of vs kv) (JObj kv) v)) vs =
  forallb (fun k => match lookup k kv with Some _ => true | None => false end) (required_of vs).
Proof. exact before_checks_exact. Qed.
Print Assumptions C04_exact.
