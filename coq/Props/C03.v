(* C03 - a value of the wrong JSON type is rejected; null is accepted where allowed.
   Statements only; every proof is `exact <lemma>`; Print Assumptions under each. *)
From GJS Require Import Base Regex Schema GoType Gen Exec Valid ExecP GenP CoreP LevelP NestedP.

(* scalar Go types (string, bool, float64, every int kind, the format types) accept exactly their
   own JSON type; an integer kind accepts only integral numbers written as integer literals within
   its range; every other non-null value is rejected - for every fuel *)
Theorem C03_scalar : forall fmt_ok env f t j,
  is_base t = true -> j <> JNull -> base_accepts fmt_ok t j = false -> is_ok (dec fmt_ok env f t j) = false.
Proof. exact dec_base_type. Qed.
Print Assumptions C03_scalar.

Theorem C03_array : forall fmt_ok env f inl e j, j <> JNull -> (forall l, j <> JArr l) -> is_ok (dec fmt_ok env f (TSlice inl e) j) = false.
Proof. exact dec_slice_type. Qed.
Print Assumptions C03_array.
Theorem C03_map : forall fmt_ok env f e j, j <> JNull -> (forall kv, j <> JObj kv) -> is_ok (dec fmt_ok env f (TMap e) j) = false.
Proof. exact dec_map_type. Qed.
Print Assumptions C03_map.
Theorem C03_object : forall fmt_ok env f name fs plan j, j <> JNull -> (forall kv, j <> JObj kv) ->
  is_ok (dec fmt_ok env f (TStruct name fs plan) j) = false.
Proof. exact dec_struct_type. Qed.
Print Assumptions C03_object.

(* at every nesting depth and through references: a rejected component rejects the document *)
Theorem C03_every_depth : forall fmt_ok env t j t' j', inside_star env t j t' j' ->
  (forall f, is_ok (dec fmt_ok env f t' j') = false) -> forall f, is_ok (dec fmt_ok env f t j) = false.
Proof. exact inside_star_fails. Qed.
Print Assumptions C03_every_depth.

(* where the schema lists null ([T, "null"] becomes a pointer; arrays, maps and untyped positions are
   nillable as they are) null is accepted and yields nil *)
Theorem C03_null : forall fmt_ok env f t, S f <> 0 ->
  (match t with TPtr _ | TSlice _ _ | TMap _ | TIface | TNullT => true | _ => false end) = true ->
  dec fmt_ok env (S f) t JNull = Ok GNil.
Proof. exact dec_null_nil. Qed.
Print Assumptions C03_null.

(* the type chosen for a nullable primitive is a pointer to the primitive's type *)
Theorem C03_nullable_is_pointer : forall cf t fmt b,
  match t with SString | SNumber | SInteger | SBoolean => True | _ => False end ->
  exists u b', primitive cf t fmt true b = Done (TPtr u, b') /\ primitive cf t fmt false b = Done (u, b').
Proof.
  intros cf t fmt b H. destruct t; try contradiction; cbn.
  - destruct fmt; eexists; eexists; split; reflexivity.
  - destruct (primitive_int (g_minsized cf) b) as [k b']. eexists; eexists; split; reflexivity.
  - eexists; eexists; split; reflexivity.
  - eexists; eexists; split; reflexivity.
Qed.
Print Assumptions C03_nullable_is_pointer.

Example C03_example : forall env f,
  is_ok (dec (fun _ _ => true) env f (TInt KInt) (JQ (3 # 2))) = false /\
  is_ok (dec (fun _ _ => true) env f TString (JInt 1)) = false /\
  inside_star env (TSlice true (TPtr TString)) (JArr [JStr [97]%N; JBool true]) TString (JBool true).
Proof.
  intros env f. repeat split.
  - apply dec_base_type; [reflexivity|discriminate|reflexivity].
  - apply dec_base_type; [reflexivity|discriminate|reflexivity].
  - eapply is_step; [apply in_slice; right; left; reflexivity|]. eapply is_step; [apply in_ptr; discriminate|]. apply is_refl.
Qed.

(* end to end, at every position the nested theorem covers (C02_nested_objects_exact: "accepted iff valid" includes "a value of another JSON
   type is rejected"): instance for map values - {labels: map of strings (required)} on a map of strings, a map with a number, a string in
   place of the map, the empty map and the empty object *)
Theorem C03_map_values_inhabited :
  exists t b, gen (fun s => s) (mkCfg false false) [] (fuelG 0 3) MDeclared None false ex_map_obj [82]%N = Done (t, b) /\
    (forall kv, In kv ex_map_docs ->
       is_ok (dec (fun _ _ => true) [] (fuelD 0 0) t (JObj kv)) = valid (fun _ _ => true) [] (fuelV 0 0) ex_map_obj (JObj kv)) /\
    map (fun kv => valid (fun _ _ => true) [] (fuelV 0 0) ex_map_obj (JObj kv)) ex_map_docs = [true; false; false; true; false].
Proof. exact map_inhabited. Qed.
Print Assumptions C03_map_values_inhabited.
