(* C19 - generated unmarshalers are total and all-or-nothing.
   Statements only; every proof is `exact <lemma>`; Print Assumptions under each.
   In the model a method has three outcomes besides running out of fuel: Ok v, Err, Crash (a panic,
   or code that cannot have compiled).  All-or-nothing is how the method is laid out
   (json_formatter.go: decode into the local `plain`, validate, assign `*j` last): the model's only
   way to change the destination is the Ok result.  Totality (no Crash) is the typing invariant
   "every validator names a field of the shape it dereferences" ([wf_ty], a decidable predicate on the
   generated type tree, Proofs/WfP.v): under it NO document and NO fuel leads to a panic.  [wf_ty] is
   evaluated on the type the model generates for every schema of the correspondence families (RunCore.case_wf).
   For every schema, [wf_ty] of the generated type reduces to a residue (Proofs/GenWfP.v, [wf_s (v_resid env)]): distinct non-empty
   field names, default literals that fit their field, the additional-properties block having a raw map, references that resolve;
   that the string / numeric / array / null-type validators name fields of the right shape holds by construction of the
   generator, for every schema and every fuel (C19_generated_wf), so the generated methods of a whole file never panic
   once the residue holds (C19_generated_total).  Composite types are inside the theorem: the method of an anyOf carrier decodes the
   document with every branch type, and [wf_ty] of the carrier asks for [wf_ty] of its branch types (C19_anyof_wf_inhabited). *)
From GJS Require Import Base Regex Schema GoType Gen Exec Valid ExecP GenP CoreP WfP GenWfP MergeP AnyOfP.

Theorem C19_atomic : forall fmt_ok env dest f t j,
  snd (unmarshal_into fmt_ok env dest f t j) = false -> fst (unmarshal_into fmt_ok env dest f t j) = dest.
Proof. exact unmarshal_into_atomic. Qed.
Print Assumptions C19_atomic.

(* totality: every JSON document (any shape, any depth), every fuel; [None] for malformed bytes is the
   first Unmarshal call failing before anything is touched *)
Theorem C19_total : forall fmt_ok env, env_wf env -> forall f t j, wf_ty env t = true -> dec fmt_ok env f t j <> Crash.
Proof. exact dec_never_panics. Qed.
Print Assumptions C19_total.

(* with it, every decoded value has the shape of its Go type (the invariant the proof carries) *)
Theorem C19_shapes : forall fmt_ok env, env_wf env -> forall f t, wf_ty env t = true -> dec_good (dec fmt_ok env f) t.
Proof. exact dec_safe. Qed.
Print Assumptions C19_shapes.

(* for every schema: the generated type is well formed as soon as its residue is *)
Theorem C19_generated_wf : forall idf cf defs env fuel m self sub s scope t b,
  gen idf cf defs fuel m self sub s scope = Done (t, b) -> wf_s env (v_resid env) t = true -> wf_ty env t = true.
Proof. exact gen_wf. Qed.
Print Assumptions C19_generated_wf.

Theorem C19_generated_total : forall fmt_ok idf cf defs root root_name p,
  gen_file idf cf defs root root_name = Done p ->
  (forall d u, In (d, u) (p_defs p) -> wf_s (p_defs p) (v_resid (p_defs p)) u = true) ->
  (forall rt, p_root p = Some rt -> wf_s (p_defs p) (v_resid (p_defs p)) rt = true) ->
  (forall rt, p_root p = Some rt -> forall f j, dec fmt_ok (p_defs p) f rt j <> Crash) /\
  (forall d u, lookup d (p_defs p) = Some u -> forall f j, dec fmt_ok (p_defs p) f u j <> Crash).
Proof. exact generated_never_panics. Qed.
Print Assumptions C19_generated_total.

(* the names part of the residue is itself a theorem: identifiers that are non-empty and free of underscores (IdentP / NamesP: every
   identifier built from a name inside the character guard) give a struct with distinct non-empty field names *)
Theorem C19_residue_names : forall idf defs rec c self scope props infos,
  Forall NamesP.no_us (map (fun kp : str * schema => idf (fst kp)) (sort_props props)) ->
  Forall (fun s : str => s <> []) (map (fun kp : str * schema => idf (fst kp)) (sort_props props)) ->
  rmap (gen_field defs rec c self scope) (prop_names idf props) = Done infos ->
  names_ok (map (fun i : finfo => fst (fst i)) infos) = true.
Proof. exact struct_names_ok. Qed.
Print Assumptions C19_residue_names.

(* non-vacuity: the type generated for a schema with required, defaulted, constrained and nested properties is well formed *)
Definition wf_schema : schema :=
  Sch (mkC [SObject] None None [[97]%N] 0 0 0 0 None None (mkBounds None None None None) None None)
      [([97]%N, Sch (mkC [SString] None None [] 0 0 2 0 None None (mkBounds None None None None) None None) [] None false None [] []);
       ([98]%N, Sch (mkC [SInteger] None None [] 0 0 0 0 None None (mkBounds (Some 0%Q) None None None) (Some (JInt 3)) None) [] None false None [] []);
       ([99]%N, Sch (mkC [SArray] None None [] 1 0 0 0 None None (mkBounds None None None None) None None) [] None false
                  (Some (Sch (mkC [SArray] None None [] 1 0 0 0 None None (mkBounds None None None None) None None) [] None false
                          (Some (Sch (mkC [SNumber] None None [] 0 0 0 0 None None (mkBounds None None None None) None None) [] None false None [] [])) [] [])) [] [])]
      None false None [] [].
Example C19_wf_inhabited :
  exists t b, gen (fun s => s) (mkCfg false false) [] 20 MDeclared None false wf_schema [82]%N = Done (t, b) /\ wf_ty [] t = true.
Proof. eexists. eexists. split; [vm_compute; reflexivity|]. vm_compute. reflexivity. Qed.
Print Assumptions C19_wf_inhabited.

(* the same for a composite: the carrier struct generated for an anyOf of two object branches, with its branch types *)
Example C19_anyof_wf_inhabited :
  exists t b, gen (fun s => s) (mkCfg false false) [] 6 MInline None false ex_any ex_t = Done (t, b) /\ wf_ty [] t = true /\
    (exists fs b0 b1, t = TStruct ex_t fs (Some [VAnyOf [b0; b1]])).
Proof. eexists. eexists. split; [vm_compute; reflexivity|]. split; [vm_compute; reflexivity|]. do 3 eexists. reflexivity. Qed.
Print Assumptions C19_anyof_wf_inhabited.

(* refuted in full (D30): the additional-properties block is emitted without a nil guard; null
   panics a struct with typed additionalProperties *)
Definition addl_schema : schema :=
  Sch (mkC [SObject] None None [] 0 0 0 0 None None (mkBounds None None None None) None None)
      [([97]%N, Sch (mkC [SString] None None [] 0 0 0 0 None None (mkBounds None None None None) None None) [] None false None [] [])]
      (Some (Sch (mkC [SNumber] None None [] 0 0 0 0 None None (mkBounds None None None None) None None) [] None false None [] [])) false None [] [].
Theorem C19_refuted_addl_null :
  exists t b, gen (fun s => s) (mkCfg false false) [] 20 MDeclared None false addl_schema [82]%N = Done (t, b) /\
    dec (fun _ _ => true) [] 20 t JNull = Crash /\ wf_ty [] t = false.
Proof. eexists. eexists. split; [vm_compute; reflexivity|]. vm_compute. split; reflexivity. Qed.
Print Assumptions C19_refuted_addl_null.
