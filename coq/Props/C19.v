(* C19 - generated unmarshalers are total and all-or-nothing.
   Statements only; every proof is `exact <lemma>`; Print Assumptions under each.
   In the model a method has three outcomes besides running out of fuel: Ok v, Err, Crash (a panic,
   or code that cannot have compiled).  All-or-nothing is how the method is laid out
   (json_formatter.go: decode into the local `plain`, validate, assign `*j` last): the model's only
   way to change the destination is the Ok result.  Totality (no Crash) is the typing invariant
   "every validator names a field of the shape it dereferences": see C19_total in Proofs/WfP.v. *)
From GJS Require Import Base Regex Schema GoType Gen Exec Valid ExecP GenP CoreP.

Theorem C19_atomic : forall fmt_ok env dest f t j,
  snd (unmarshal_into fmt_ok env dest f t j) = false -> fst (unmarshal_into fmt_ok env dest f t j) = dest.
Proof. exact unmarshal_into_atomic. Qed.
Print Assumptions C19_atomic.

(* refuted in full (D30): the additional-properties block is emitted without a nil guard; null
   panics a struct with typed additionalProperties *)
Definition addl_schema : schema :=
  Sch (mkC [SObject] None None [] 0 0 0 0 None None (mkBounds None None None None) None None)
      [([97]%N, Sch (mkC [SString] None None [] 0 0 0 0 None None (mkBounds None None None None) None None) [] None false None [] [])]
      (Some (Sch (mkC [SNumber] None None [] 0 0 0 0 None None (mkBounds None None None None) None None) [] None false None [] [])) false None [] [].
Theorem C19_refuted_addl_null :
  exists t b, gen (fun s => s) (mkCfg false false) [] 20 MDeclared None false addl_schema [82]%N = Done (t, b) /\
    dec (fun _ _ => true) [] 20 t JNull = Crash.
Proof. eexists. eexists. split; [vm_compute; reflexivity|]. vm_compute. reflexivity. Qed.
