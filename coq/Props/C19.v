(* C19 - generated unmarshalers are total and all-or-nothing.
   Statements only; every proof is `exact <lemma>`; Print Assumptions under each.
   In the model a method has three outcomes besides running out of fuel: Ok v, Err, Crash (a panic,
   or code that cannot have compiled).  All-or-nothing is how the method is laid out
   (json_formatter.go: decode into the local `plain`, validate, assign `*j` last): the model's only
   way to change the destination is the Ok result.  Totality (no Crash) is the typing invariant
   "every validator names a field of the shape it dereferences" ([wf_ty], a decidable predicate on the
   generated type tree, Proofs/WfP.v): under it NO document and NO fuel leads to a panic.  [wf_ty] is
   evaluated on the type the model generates for every schema of the correspondence families
   (RunCore.case_wf); that gen always produces wf types is checked per instance, not proved in general. *)
From GJS Require Import Base Regex Schema GoType Gen Exec Valid ExecP GenP CoreP WfP.

Theorem C19_atomic : forall fmt_ok env dest f t j,
  snd (unmarshal_into fmt_ok env dest f t j) = false -> fst (unmarshal_into fmt_ok env dest f t j) = dest.
Proof. exact unmarshal_into_atomic. Qed.
Print Assumptions C19_atomic.

(* totality: every JSON document (any shape, any depth), every fuel; [None] for malformed bytes is the
   first Unmarshal call failing before anything is touched *)
Theorem C19_total : forall fmt_ok env, env_wf env -> forall f t j, wf_ty env t = true -> dec fmt_ok env f t j <> Crash.
Proof. exact dec_never_panics. Qed.
Print Assumptions C19_total.

(* with it, every decoded value has the shape of its Go type (the invariant the proof carries) *)
Theorem C19_shapes : forall fmt_ok env, env_wf env -> forall f t, wf_ty env t = true -> dec_good (dec fmt_ok env f) t.
Proof. exact dec_safe. Qed.
Print Assumptions C19_shapes.

(* non-vacuity: the type generated for a schema with required, defaulted, constrained and nested properties is well formed *)
Definition wf_schema : schema :=
  Sch (mkC [SObject] None None [[97]%N] 0 0 0 0 None None (mkBounds None None None None) None None)
      [([97]%N, Sch (mkC [SString] None None [] 0 0 2 0 None None (mkBounds None None None None) None None) [] None false None [] []);
       ([98]%N, Sch (mkC [SInteger] None None [] 0 0 0 0 None None (mkBounds (Some 0%Q) None None None) (Some (JInt 3)) None) [] None false None [] []);
       ([99]%N, Sch (mkC [SArray] None None [] 1 0 0 0 None None (mkBounds None None None None) None None) [] None false
                  (Some (Sch (mkC [SArray] None None [] 1 0 0 0 None None (mkBounds None None None None) None None) [] None false
                          (Some (Sch (mkC [SNumber] None None [] 0 0 0 0 None None (mkBounds None None None None) None None) [] None false None [] [])) [] [])) [] [])]
      None false None [] [].
Example C19_wf_inhabited :
  exists t b, gen (fun s => s) (mkCfg false false) [] 20 MDeclared None false wf_schema [82]%N = Done (t, b) /\ wf_ty [] t = true.
Proof. eexists. eexists. split; [vm_compute; reflexivity|]. vm_compute. reflexivity. Qed.
Print Assumptions C19_wf_inhabited.

(* refuted in full (D30): the additional-properties block is emitted without a nil guard; null
   panics a struct with typed additionalProperties *)
Definition addl_schema : schema :=
  Sch (mkC [SObject] None None [] 0 0 0 0 None None (mkBounds None None None None) None None)
      [([97]%N, Sch (mkC [SString] None None [] 0 0 0 0 None None (mkBounds None None None None) None None) [] None false None [] [])]
      (Some (Sch (mkC [SNumber] None None [] 0 0 0 0 None None (mkBounds None None None None) None None) [] None false None [] [])) false None [] [].
Theorem C19_refuted_addl_null :
  exists t b, gen (fun s => s) (mkCfg false false) [] 20 MDeclared None false addl_schema [82]%N = Done (t, b) /\
    dec (fun _ _ => true) [] 20 t JNull = Crash /\ wf_ty [] t = false.
Proof. eexists. eexists. split; [vm_compute; reflexivity|]. vm_compute. split; reflexivity. Qed.
Print Assumptions C19_refuted_addl_null.
