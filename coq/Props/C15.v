(* C15 - --min-sized-ints never changes which documents are accepted.
   Statements only; every proof is `exact <lemma>`; Print Assumptions under each.
   [zbounds] are the integral bounds a schema states for an integer (each of minimum,
   maximum absent or an integer; each exclusive bound absent, a draft-4 boolean or a
   draft-6 integer); [to_bounds] embeds them into the model's rational bounds. *)
From GJS Require Import Base Bounds IntSize IntSizeP.

(* the chosen type can represent every integer (of Go's int) the bounds admit *)
Theorem C15_range : forall zb k rmin rmax x,
  min_int_type (to_bounds zb) = (k, rmin, rmax) -> in_range KInt x = true ->
  spec_bounds (to_bounds zb) (inject_Z x) = true -> in_range k x = true.
Proof. exact min_sized_range. Qed.
Print Assumptions C15_range.

(* it is the narrowest sized type that can (two-sided bounds lo <= hi), unsigned iff lo >= 0 *)
Theorem C15_narrowest : forall zb l h k rmin rmax k',
  lo_of zb = Some l -> hi_of zb = Some h -> (l <= h)%Z ->
  min_int_type (to_bounds zb) = (k, rmin, rmax) -> fits k' l h = true ->
  fits k l h = true /\ int_width k <= int_width k' /\ int_signed k = negb (0 <=? l)%Z.
Proof. exact min_sized_narrowest. Qed.
Print Assumptions C15_narrowest.

(* where lo_of / hi_of are exactly the tightest integers the keywords state *)
Theorem C15_lo_hi_meaning : forall zb x,
  spec_bounds (to_bounds zb) (inject_Z x) = true <->
  (forall l, lo_of zb = Some l -> (l <= x)%Z) /\ (forall h, hi_of zb = Some h -> (x <= h)%Z).
Proof. exact lo_hi_spec. Qed.
Print Assumptions C15_lo_hi_meaning.

(* a bound check is dropped only when the type's range already implies it *)
Theorem C15_removal_min : forall zb k rmax x,
  min_int_type (to_bounds zb) = (k, true, rmax) -> in_range k x = true ->
  spec_lower (b_min (to_bounds zb)) (b_exmin (to_bounds zb)) (inject_Z x) = true.
Proof. exact min_sized_removal_min. Qed.
Print Assumptions C15_removal_min.
Theorem C15_removal_max : forall zb k rmin x,
  min_int_type (to_bounds zb) = (k, rmin, true) -> in_range k x = true ->
  spec_upper (b_max (to_bounds zb)) (b_exmax (to_bounds zb)) (inject_Z x) = true.
Proof. exact min_sized_removal_max. Qed.
Print Assumptions C15_removal_max.

(* consequently the accepted integers are the same with and without the flag: decode into
   the sized kind + the validator over the remaining keywords  =  decode into int + the
   validator over all keywords; for every multipleOf, every bound combination, every x of int *)
Theorem C15_same_accepts : forall (mult : option Z) zb x,
  (forall m, mult = Some m -> m <> 0%Z) -> in_range KInt x = true ->
  accept_flag true (option_map inject_Z mult) (to_bounds zb) x
  = accept_flag false (option_map inject_Z mult) (to_bounds zb) x.
Proof. exact min_sized_same_accepts. Qed.
Print Assumptions C15_same_accepts.

(* the statement without the `int` guard is false of the faithful model (D27): with only a
   non-negative minimum the flag selects uint64, which admits 2^63 while int does not *)
Theorem C15_refuted_beyond_int :
  exists zb x, accept_flag true None (to_bounds zb) x = true /\ accept_flag false None (to_bounds zb) x = false.
Proof. exact min_sized_refuted_beyond_int. Qed.

(* non-vacuity *)
Example C15_hyps_inhabited :
  min_int_type (to_bounds (mkZB (Some 0%Z) None None (Some (ZExNum 256%Z)))) = (KU8, true, true) /\
  in_range KInt 255 = true /\
  spec_bounds (to_bounds (mkZB (Some 0%Z) None None (Some (ZExNum 256%Z)))) (inject_Z 255) = true /\
  lo_of (mkZB (Some 0%Z) None None (Some (ZExNum 256%Z))) = Some 0%Z /\
  hi_of (mkZB (Some 0%Z) None None (Some (ZExNum 256%Z))) = Some 255%Z /\ fits KI16 0 255 = true.
Proof. vm_compute. repeat split; reflexivity. Qed.
