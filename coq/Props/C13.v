(* C13 - equivalent spellings of a schema generate identical code.
   Statements only; every proof is `exact <lemma>`; Print Assumptions under each.
   The re-spellable keywords are decoded by Model/Decode.v (transcribing pkg/schemas/model.go and
   extractRefNames); each theorem says two spellings decode to the same thing, so everything
   downstream (the generator works on the decoded form only) is identical.  JSON versus YAML text
   is library parsing and is decided by the metamorphic run on the real tool. *)
From GJS Require Import Base Decode DecodeP.

Theorem C13_type_string_or_list : forall t, t <> [] -> decode_type_list (JStr t) = decode_type_list (JArr [JStr t]).
Proof. exact type_string_or_list. Qed.
Print Assumptions C13_type_string_or_list.

Theorem C13_true_or_empty : decode_bool_schema (JBool true) = decode_bool_schema (JObj []).
Proof. exact true_is_empty_object. Qed.
Print Assumptions C13_true_or_empty.

Theorem C13_id : forall (o : obj) s, lookup k_id o = None -> lookup k_legacy_id o = None -> s <> [] ->
  decode_id ((k_id, JStr s) :: o) = decode_id ((k_legacy_id, JStr s) :: o).
Proof. exact id_spellings. Qed.
Print Assumptions C13_id.

Theorem C13_defs : forall (o : obj) d, lookup k_defs o = None -> lookup k_definitions o = None -> d <> JNull ->
  decode_defs ((k_defs, d) :: o) = decode_defs ((k_definitions, d) :: o).
Proof. exact defs_spellings. Qed.
Print Assumptions C13_defs.

Theorem C13_dependencies : forall (o : obj) d, lookup k_dependent_schemas o = None -> lookup k_dependencies o = None -> d <> JNull ->
  decode_dependents ((k_dependent_schemas, d) :: o) = decode_dependents ((k_dependencies, d) :: o).
Proof. exact dependents_spellings. Qed.
Print Assumptions C13_dependencies.

(* #/$defs/X and #/definitions/X name the same definition of the same file, for every X and file part *)
Theorem C13_ref_prefix : forall file x, Forall (fun c => c <> 35%N) file ->
  extract_ref_names (file ++ 35%N :: p_defs ++ x) = Some (x, file) /\
  extract_ref_names (file ++ 35%N :: p_definitions ++ x) = Some (x, file).
Proof. exact ref_prefix_spellings. Qed.
Print Assumptions C13_ref_prefix.
(* ... in any letter case of the prefix *)
Theorem C13_ref_prefix_case : forall file pre x, Forall (fun c => c <> 35%N) file -> length pre = length p_defs ->
  map ascii_lower pre = p_defs -> extract_ref_names (file ++ 35%N :: pre ++ x) = Some (x, file).
Proof. exact ref_prefix_case_insensitive. Qed.
Print Assumptions C13_ref_prefix_case.

(* when both spellings are present they are not equivalent: the current one wins (part of the decoder, excluded from the property) *)
Theorem C13_precedence : forall (o : obj) d d', d <> JNull -> decode_defs ((k_defs, d) :: (k_definitions, d') :: o) = Some d.
Proof. exact defs_precedence. Qed.
Print Assumptions C13_precedence.
