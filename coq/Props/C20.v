(* C20 - each schema's code lands once, in the file and package mapped to its id.
   Statements only; every proof is `exact <lemma>`; Print Assumptions under each.
   The outputs table of generate.go:161-212 as a state machine; [order] is the iteration order of the
   Go map (any permutation). *)
From GJS Require Import Base Driver DriverP.

(* the table starts well formed and every lookup keeps it so: distinct output objects have distinct
   file names (hence one package per file), and every registered id points at the output whose file
   and package are the ones mapped to it (or the defaults) *)
Theorem C20_init : forall c, ds_wf c ds_init.
Proof. exact ds_init_wf. Qed.
Print Assumptions C20_init.

Theorem C20_lands_in_its_target : forall order c st id st' i,
  (forall l, Permutation (order l) l) -> ds_wf c st ->
  find_output order c st id = DOk (st', i) ->
  ds_wf c st' /\ i < length (ds_outs st') /\
  (o_file (nth i (ds_outs st') dflt_out), o_pkg (nth i (ds_outs st') dflt_out)) = target c id.
Proof. exact find_output_sound. Qed.
Print Assumptions C20_lands_in_its_target.

(* for every history of files and references (any sequence of ids), by induction over the history *)
Theorem C20_every_history : forall order c ids, (forall l, Permutation (order l) l) ->
  forall st st', ds_wf c st -> route order c st ids = DOk st' -> ds_wf c st'.
Proof. exact route_wf. Qed.
Print Assumptions C20_every_history.

(* an id is routed once: asking again returns the same output and changes nothing *)
Theorem C20_once : forall order c st id st' i,
  (forall l, Permutation (order l) l) -> ds_wf c st -> find_output order c st id = DOk (st', i) ->
  find_output order c st' id = DOk (st', i).
Proof. exact find_output_stable. Qed.
Print Assumptions C20_once.

(* the conflict check / reuse does not depend on the order in which the outputs map is scanned *)
Theorem C20_scan_order : forall outs outs' file pkg,
  files_distinct outs -> Permutation outs outs' -> scan_outputs outs file pkg = scan_outputs outs' file pkg.
Proof. exact scan_outputs_order. Qed.
Print Assumptions C20_scan_order.

(* non-vacuity: three ids, two of them mapped to the same file and package *)
Example C20_example :
  let c := mkDcfg [mkMap [97]%N [112]%N [102]%N []; mkMap [98]%N [112]%N [102]%N []] [100]%N [113]%N in
  exists st, route (fun l => l) c ds_init [[97]%N; [98]%N; [99]%N; [97]%N] = DOk st /\ length (ds_outs st) = 2.
Proof. eexists. split; vm_compute; reflexivity. Qed.
