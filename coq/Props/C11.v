(* C11 - allOf is conjunction and anyOf is disjunction for object schemas.
   Statements only; every proof is `exact <lemma>`; Print Assumptions under each.
   Proved: the anyOf validator (validator.go:416-441) accepts iff at least one branch type accepts,
   for every list of branch types and every document.  The allOf half depends on the merge of the
   branch schemas (mergo, schemas/model.go:269-327), which is not modelled: gen returns GUnmod for
   allOf/anyOf schemas and C11 is decided there on the implementation against the reference semantics
   (Spec/Valid.v: forallb / existsb over the branches) by the correspondence run.  Partial. *)
From GJS Require Import Base Schema GoType Exec Valid ExecP.

Theorem C11_anyOf_validator : forall decf raw j branches,
  (forall bt, In bt branches -> decf bt j <> Crash /\ decf bt j <> NoFuel) ->
  before_step decf raw j (VAnyOf branches) = if existsb (fun bt => is_ok (decf bt j)) branches then Ok tt else Err.
Proof. exact anyof_step. Qed.
Print Assumptions C11_anyOf_validator.

(* the reference semantics the implementation is compared with *)
Theorem C11_spec : forall fmt_ok defs f c props addl af items allof anyof j,
  c_ref c = None ->
  valid fmt_ok defs (S f) (Sch c props addl af items allof anyof) j = true ->
  forallb (fun b => valid fmt_ok defs f b j) allof = true /\
  (anyof = [] \/ existsb (fun b => valid fmt_ok defs f b j) anyof = true).
Proof.
  intros fmt_ok defs f c props addl af items allof anyof j Hr H. cbn [valid s_con s_all_of s_any_of] in H. rewrite Hr in H.
  repeat (apply andb_true_iff in H; destruct H as [H ?]).
  split; [assumption|]. destruct anyof; [left; reflexivity|right; assumption].
Qed.
Print Assumptions C11_spec.
