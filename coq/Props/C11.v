(* C11 - allOf is conjunction and anyOf is disjunction for object schemas.
   Statements only; every proof is `exact <lemma>`; Print Assumptions under each.
   allOf: the generator resolves the branches, merges them (mergo; Model/Merge.v transcribes it on the modelled
   keywords) and generates the merged schema inline (C11_allOf_generated).  For object branches with pairwise
   disjoint property sets the merged schema is, under the reference semantics, exactly the conjunction of the
   branches on every document, and its properties are the union of theirs (C11_allOf_merge).  Branch lists that
   share a property are deep-merged through shared pointers by mergo: outside the model (merge2 = None, gen =
   GUnmod), decided on the implementation against the reference semantics.  All-primitive branch lists are not
   merged at all: refuted lemma below (outside "object schemas").
   anyOf: the validator (validator.go:416-441) accepts iff at least one branch type accepts, for every list of
   branch types and every document; the merge of anyOf branches into the carrier struct is not modelled (gen = GUnmod). *)
From GJS Require Import Base Schema Merge GoType Gen Exec Valid ExecP GenP MergeP.

Theorem C11_allOf_merge : forall fmt_ok defs bs m f j,
  forallb plain bs = true -> forallb obj_typed bs = true ->
  merge_types bs = Some m ->
  valid fmt_ok defs (S f) m j = forallb (fun b => valid fmt_ok defs (S f) b j) bs /\ s_props m = flat_map s_props bs.
Proof. exact merge_is_conjunction. Qed.
Print Assumptions C11_allOf_merge.

Theorem C11_allOf_generated : forall idf cf defs f self sub c props addl af items b bs scope m,
  c_enum c = None -> c_ref c = None -> all_of_schema defs (b :: bs) = Done m ->
  gen idf cf defs (S f) MInline self sub (Sch c props addl af items (b :: bs) []) scope = gen idf cf defs f MInline self false m scope.
Proof. exact allof_generated. Qed.
Print Assumptions C11_allOf_generated.

Theorem C11_allOf_inhabited :
  exists m, merge_types [ob [97]%N SString; ob [98]%N SInteger] = Some m /\
    forallb plain [ob [97]%N SString; ob [98]%N SInteger] = true /\ forallb obj_typed [ob [97]%N SString; ob [98]%N SInteger] = true /\
    map fst (s_props m) = [[97]%N; [98]%N].
Proof. exact merge_inhabited. Qed.
Print Assumptions C11_allOf_inhabited.

Theorem C11_refuted_primitive_branches :
  exists m, merge_types [prim_branch] = Some m /\
    valid (fun _ _ => true) [] 3 m (JStr [97; 98; 99]%N) = true /\
    forallb (fun b => valid (fun _ _ => true) [] 3 b (JStr [97; 98; 99]%N)) [prim_branch] = false.
Proof. exact merge_primitive_refuted. Qed.
Print Assumptions C11_refuted_primitive_branches.

Theorem C11_anyOf_validator : forall decf raw j branches,
  (forall bt, In bt branches -> decf bt j <> Crash /\ decf bt j <> NoFuel) ->
  before_step decf raw j (VAnyOf branches) = if existsb (fun bt => is_ok (decf bt j)) branches then Ok tt else Err.
Proof. exact anyof_step. Qed.
Print Assumptions C11_anyOf_validator.

(* the reference semantics the implementation is compared with *)
Theorem C11_spec : forall fmt_ok defs f c props addl af items allof anyof j,
  c_ref c = None ->
  valid fmt_ok defs (S f) (Sch c props addl af items allof anyof) j = true ->
  forallb (fun b => valid fmt_ok defs f b j) allof = true /\
  (anyof = [] \/ existsb (fun b => valid fmt_ok defs f b j) anyof = true).
Proof. exact spec_composites. Qed.
Print Assumptions C11_spec.
