(* C11 - allOf is conjunction and anyOf is disjunction for object schemas.
   Statements only; every proof is `exact <lemma>`; Print Assumptions under each.
   allOf: the generator resolves the branches, merges them (mergo; Model/Merge.v transcribes it on the modelled
   keywords, the deep merge of shared properties and item schemas included) and generates the merged schema inline
   (C11_allOf_generated).  The merged schema is, under the reference semantics, exactly the conjunction of the
   branches on every document (C11_allOf_merge, C11_allOf_merge_step) whenever the branches are compatible: where
   they describe the same position they do not both set the same scalar keyword, do not both list an enum and
   agree on the type list.  Without compatibility the statement is false of the code (C11_refuted_first_wins;
   recorded findings C11-first-wins-scalar and C11-allof-enum-union).  All-primitive branch lists are not merged
   at all: refuted lemma below (outside "object schemas").  The merge writes through the pointers of its first
   branch; what that does to other users of a shared definition is outside the pure model (recorded finding
   C11-overlay-leaks-into-shared-definition).
   anyOf: the validator (validator.go:416-441) accepts iff at least one branch type accepts, for every list of
   branch types and every document (C11_anyOf_validator).  For inline object branches the generator is modelled end
   to end (C11_anyOf_generated): the branch types <scope>_<i> come from the branches themselves (a branch given by
   reference is the declared type of its definition), the carrier struct
   <scope> from their merge, and its method runs the anyOf validator alone; the method then (C11_anyOf_method) accepts
   only documents that one branch type accepts (C11_anyOf_sound), accepts them as soon as they also decode into the
   carrier (C11_anyOf_accepts) and rejects the documents no branch accepts (C11_anyOf_rejects).  The second
   condition of C11_anyOf_accepts is where the implementation is stricter than the disjunction (a key that one branch
   leaves open and another branch types is decoded with that type): recorded finding, decided on the implementation. *)
From GJS Require Import Base Schema Merge GoType Ident Gen Exec Valid ExecP GenP LevelP NestedP MergeP AnyOfP CompositeP.

Theorem C11_allOf_merge : forall fmt_ok defs bs m f j,
  forallb prim_or_untyped bs = false -> compat_all empty_schema bs = true ->
  merge_types bs = Some m ->
  valid fmt_ok defs (S f) m j = forallb (fun b => valid fmt_ok defs (S f) b j) bs.
Proof. exact merge_is_conjunction. Qed.
Print Assumptions C11_allOf_merge.

(* one merge step, at any nesting depth: two compatible descriptions of one position *)
Theorem C11_allOf_merge_step : forall fmt_ok defs g f d s m j,
  compat g d s = true -> merge2 g d s = Some m ->
  plain m = true /\ valid fmt_ok defs f m j = valid fmt_ok defs f d j && valid fmt_ok defs f s j.
Proof. exact merge2_conj. Qed.
Print Assumptions C11_allOf_merge_step.

Theorem C11_allOf_generated : forall idf cf defs f self sub c props addl af items b bs scope m,
  c_enum c = None -> c_ref c = None -> all_of_schema defs (b :: bs) = Done m ->
  gen idf cf defs (S f) MInline self sub (Sch c props addl af items (b :: bs) []) scope = gen idf cf defs f MInline self false m scope.
Proof. exact allof_generated. Qed.
Print Assumptions C11_allOf_generated.

Theorem C11_allOf_inhabited :
  exists m, merge_types [ob [97]%N SString; ob [98]%N SInteger] = Some m /\
    forallb prim_or_untyped [ob [97]%N SString; ob [98]%N SInteger] = false /\ compat_all empty_schema [ob [97]%N SString; ob [98]%N SInteger] = true /\
    map fst (s_props m) = [[97]%N; [98]%N].
Proof. exact merge_inhabited. Qed.
Print Assumptions C11_allOf_inhabited.

(* branches that share a property (one gives it a type and maxLength 4, the other minLength 2): the shared property is deep-merged *)
Theorem C11_allOf_shared_inhabited :
  exists m, merge_types [ob_shared1; ob_shared2] = Some m /\
    forallb prim_or_untyped [ob_shared1; ob_shared2] = false /\ compat_all empty_schema [ob_shared1; ob_shared2] = true /\
    map fst (s_props m) = [[97]%N; [115]%N; [98]%N] /\
    option_map (fun p => (c_min_len (s_con p), c_max_len (s_con p))) (lookup [115]%N (s_props m)) = Some (2, 4).
Proof. exact merge_shared_inhabited. Qed.
Print Assumptions C11_allOf_shared_inhabited.

(* the compatibility hypothesis cannot be dropped: two branches that both bound the length of one property - the first bound wins *)
Theorem C11_refuted_first_wins :
  exists m, merge_types [len_branch 1; len_branch 3] = Some m /\
    compat_all empty_schema [len_branch 1; len_branch 3] = false /\
    valid (fun _ _ => true) [] 4 m (JObj [([97]%N, JStr [120; 121]%N)]) = true /\
    forallb (fun b => valid (fun _ _ => true) [] 4 b (JObj [([97]%N, JStr [120; 121]%N)])) [len_branch 1; len_branch 3] = false.
Proof. exact merge_first_wins_refuted. Qed.
Print Assumptions C11_refuted_first_wins.

Theorem C11_refuted_primitive_branches :
  exists m, merge_types [prim_branch] = Some m /\
    valid (fun _ _ => true) [] 3 m (JStr [97; 98; 99]%N) = true /\
    forallb (fun b => valid (fun _ _ => true) [] 3 b (JStr [97; 98; 99]%N)) [prim_branch] = false.
Proof. exact merge_primitive_refuted. Qed.
Print Assumptions C11_refuted_primitive_branches.

(* end to end: generator, merge and decoder composed - the struct generated for an allOf node accepts a JSON object iff every resolved member
   is valid, for compatible members whose merge is a scalar object of nesting depth n (shared properties deep-merged) *)
Theorem C11_allOf_objects_exact : forall idf cf defs fmt_ok env sdefs,
  g_minsized cf = false -> g_only_models cf = false ->
  forall n a b0 c0 self sub c props addl af items b bs scope t bb kv rs m,
  c_enum c = None -> c_ref c = None -> scope <> [] ->
  resolve_branches defs (b :: bs) = Done rs -> merge_types rs = Some m ->
  all_of_schema defs (b :: bs) = Done m ->
  forallb prim_or_untyped rs = false -> compat_all empty_schema rs = true ->
  sobj idf cf defs env sdefs n m -> dok idf cf defs env sdefs n m kv ->
  gen idf cf defs (S (S (fuelG n a))) MInline self sub (Sch c props addl af items (b :: bs) []) scope = Done (t, bb) ->
  is_ok (dec fmt_ok env (fuelD n b0) t (JObj kv)) = forallb (fun r => valid fmt_ok sdefs (fuelV n c0) r (JObj kv)) rs.
Proof. exact allof_objects_exact. Qed.
Print Assumptions C11_allOf_objects_exact.

(* instance: allOf of {a: string minLength 2 (required), s: string maxLength 4} and {b: string (required), s: minLength 2}: a document that
   satisfies both, one whose s is too short for the second member, one without b *)
Theorem C11_allOf_exact_inhabited :
  exists t b, gen (fun s => s) (mkCfg false false) [] (S (S (fuelG 0 1))) MInline None false co_node [84]%N = Done (t, b) /\
    (forall kv, In kv [co_ok; co_short; co_missing] ->
       is_ok (dec (fun _ _ => true) [] (fuelD 0 0) t (JObj kv)) = forallb (fun r => valid (fun _ _ => true) [] (fuelV 0 0) r (JObj kv)) [co_m1; co_m2]) /\
    map (fun kv => forallb (fun r => valid (fun _ _ => true) [] (fuelV 0 0) r (JObj kv)) [co_m1; co_m2]) [co_ok; co_short; co_missing] = [true; false; false].
Proof. exact allof_exact_inhabited. Qed.
Print Assumptions C11_allOf_exact_inhabited.

Theorem C11_anyOf_validator : forall decf raw j branches,
  (forall bt, In bt branches -> decf bt j <> Crash /\ decf bt j <> NoFuel) ->
  before_step decf raw j (VAnyOf branches) = if existsb (fun bt => is_ok (decf bt j)) branches then Ok tt else Err.
Proof. exact anyof_step. Qed.
Print Assumptions C11_anyOf_validator.

Theorem C11_anyOf_generated : forall idf cf defs f self sub c props addl af items allof a ar scope t b,
  c_enum c = None -> c_ref c = None -> g_only_models cf = false ->
  gen idf cf defs (S f) MInline self sub (Sch c props addl af items allof (a :: ar)) scope = Done (t, b) ->
  exists rs m brs ch nm fs plan0,
    existsb composite (a :: ar) = false /\
    resolve_branches defs (a :: ar) = Done rs /\
    merge_types rs = Some m /\
    Forall2 (fun ib y => match c_ref (s_con (snd ib)) with
                         | Some x => y = (TRef x, c_bounds (s_con (snd ib)))
                         | None => gen idf cf defs f MInline self true (snd ib) (suffixed scope (fst ib)) = Done y
                         end)
            (combine (seq 0 (length (a :: ar))) (a :: ar)) brs /\
    gen idf cf defs f MInline self false m scope = Done (TStruct (ch :: nm) fs plan0, b) /\
    t = TStruct (ch :: nm) fs (Some [VAnyOf (map fst brs)]).
Proof. exact anyof_generated. Qed.
Print Assumptions C11_anyOf_generated.

Theorem C11_anyOf_method : forall fmt_ok env f ch nm fs brs j,
  dec fmt_ok env (S f) (TStruct (ch :: nm) fs (Some [VAnyOf brs])) j =
  match j with
  | JNull | JObj _ =>
      let raw := match j with JObj kv => Some (Some kv) | _ => Some None end in
      obind (before_step (dec fmt_ok env f) raw j (VAnyOf brs)) (fun _ =>
      obind (plain_fields (dec fmt_ok env f) zero fs j) (fun st => addl_block fs raw st))
  | _ => Err
  end.
Proof. exact anyof_method. Qed.
Print Assumptions C11_anyOf_method.

Theorem C11_anyOf_sound : forall fmt_ok env f ch nm fs brs j v,
  dec fmt_ok env (S f) (TStruct (ch :: nm) fs (Some [VAnyOf brs])) j = Ok v ->
  exists bt, In bt brs /\ is_ok (dec fmt_ok env f bt j) = true.
Proof. exact anyof_accepts_some_branch. Qed.
Print Assumptions C11_anyOf_sound.

Theorem C11_anyOf_accepts : forall fmt_ok env f ch nm fs brs kv st st',
  (forall bt, In bt brs -> dec fmt_ok env f bt (JObj kv) <> Crash /\ dec fmt_ok env f bt (JObj kv) <> NoFuel) ->
  existsb (fun bt => is_ok (dec fmt_ok env f bt (JObj kv))) brs = true ->
  plain_fields (dec fmt_ok env f) zero fs (JObj kv) = Ok st -> addl_block fs (Some (Some kv)) st = Ok st' ->
  dec fmt_ok env (S f) (TStruct (ch :: nm) fs (Some [VAnyOf brs])) (JObj kv) = Ok st'.
Proof. exact anyof_accepts. Qed.
Print Assumptions C11_anyOf_accepts.

Theorem C11_anyOf_rejects : forall fmt_ok env f ch nm fs brs kv,
  (forall bt, In bt brs -> dec fmt_ok env f bt (JObj kv) <> Crash /\ dec fmt_ok env f bt (JObj kv) <> NoFuel) ->
  existsb (fun bt => is_ok (dec fmt_ok env f bt (JObj kv))) brs = false ->
  dec fmt_ok env (S f) (TStruct (ch :: nm) fs (Some [VAnyOf brs])) (JObj kv) = Err.
Proof. exact anyof_rejects. Qed.
Print Assumptions C11_anyOf_rejects.

Theorem C11_anyOf_inhabited :
  exists t b,
    gen (fun s => s) (mkCfg false false) [] 6 MInline None false ex_any ex_t = Done (t, b) /\
    (exists fs b0 b1, t = TStruct ex_t fs (Some [VAnyOf [b0; b1]])) /\
    is_ok (dec (fun _ _ => true) [] 6 t (JObj [([97]%N, JStr [120]%N)])) = true /\
    is_ok (dec (fun _ _ => true) [] 6 t (JObj [([98]%N, JInt 1)])) = true /\
    dec (fun _ _ => true) [] 6 t (JObj []) = Err /\
    dec (fun _ _ => true) [] 6 t (JObj [([97]%N, JInt 1)]) = Err /\
    valid (fun _ _ => true) [] 4 ex_any (JObj [([97]%N, JStr [120]%N)]) = true /\
    valid (fun _ _ => true) [] 4 ex_any (JObj []) = false.
Proof. exact anyof_inhabited. Qed.
Print Assumptions C11_anyOf_inhabited.

(* anyOf against the reference semantics: the carrier accepts a JSON object iff SOME BRANCH IS VALID and the object decodes into the carrier's merged
   fields - branches that are scalar objects (depth n) with their generated types; every branch decode decided (no crash: C19_total; fuel: per instance) *)
Theorem C11_anyOf_objects_exact : forall idf cf defs fmt_ok env sdefs,
  g_minsized cf = false -> g_only_models cf = false ->
  forall n b0 c0 ch nm fs (bs : list schema) (brs : list gty) kv,
  Forall2 (fun b bt => exists a self sub sc bb, sc <> [] /\ sobj idf cf defs env sdefs n b /\ dok idf cf defs env sdefs n b kv /\
                       gen idf cf defs (fuelG n a) MDeclared self sub b sc = Done (bt, bb)) bs brs ->
  (forall bt, In bt brs -> dec fmt_ok env (fuelD n b0) bt (JObj kv) <> Crash /\ dec fmt_ok env (fuelD n b0) bt (JObj kv) <> NoFuel) ->
  is_ok (dec fmt_ok env (S (fuelD n b0)) (TStruct (ch :: nm) fs (Some [VAnyOf brs])) (JObj kv)) =
  existsb (fun b => valid fmt_ok sdefs (fuelV n c0) b (JObj kv)) bs &&
  is_ok (obind (plain_fields (dec fmt_ok env (fuelD n b0)) zero fs (JObj kv)) (fun st => addl_block fs (Some (Some kv)) st)).
Proof. exact anyof_objects_exact. Qed.
Print Assumptions C11_anyOf_objects_exact.

(* instance (anyOf of {a: string, required} and {b: integer, required}): documents satisfying the first branch, the second, neither - and one that
   satisfies the first branch but gives b a string: valid under anyOf, REJECTED by the carrier (the second conjunct; recorded finding) *)
Theorem C11_anyOf_exact_inhabited :
  exists t bb fs, gen (fun s => s) (mkCfg false false) [] 6 MInline None false ex_any ex_t = Done (t, bb) /\ t = TStruct ex_t fs (Some [VAnyOf [an_b0; an_b1]]) /\
    (forall kv, In kv an_docs ->
       is_ok (dec (fun _ _ => true) [] (S (fuelD 0 0)) t (JObj kv)) =
       existsb (fun b => valid (fun _ _ => true) [] (fuelV 0 0) b (JObj kv)) [ob [97]%N SString; ob [98]%N SInteger] &&
       is_ok (obind (plain_fields (dec (fun _ _ => true) [] (fuelD 0 0)) zero fs (JObj kv)) (fun st => addl_block fs (Some (Some kv)) st))) /\
    map (fun kv => is_ok (dec (fun _ _ => true) [] (S (fuelD 0 0)) t (JObj kv))) an_docs = [true; true; false; false] /\
    map (fun kv => existsb (fun b => valid (fun _ _ => true) [] (fuelV 0 0) b (JObj kv)) [ob [97]%N SString; ob [98]%N SInteger]) an_docs = [true; true; false; true].
Proof. exact anyof_exact_inhabited. Qed.
Print Assumptions C11_anyOf_exact_inhabited.

(* the reference semantics the implementation is compared with *)
Theorem C11_spec : forall fmt_ok defs f c props addl af items allof anyof j,
  c_ref c = None ->
  valid fmt_ok defs (S f) (Sch c props addl af items allof anyof) j = true ->
  forallb (fun b => valid fmt_ok defs f b j) allof = true /\
  (anyof = [] \/ existsb (fun b => valid fmt_ok defs f b j) anyof = true).
Proof. exact spec_composites. Qed.
Print Assumptions C11_spec.
