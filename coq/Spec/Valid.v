(* An independent reference semantics of JSON Schema for the modelled keywords: what the
   properties mean by "valid under the schema".  `$ref` replaces its siblings (draft 7 and
   earlier, which is also how the generator reads it); `format` is an assertion for the
   formats the generator maps to parsing types. *)
From GJS Require Export Base Bounds Regex Schema.

Section Valid.
Variable fmt_ok : fmtk -> str -> bool.
Variable defs : list (str * schema).

Definition type_matches (t : sty) (j : json) : bool :=
  match t, j with
  | SString, JStr _ | SNumber, JNum _ | SBoolean, JBool _ | SNull, JNull | SObject, JObj _ | SArray, JArr _ => true
  | SInteger, JNum n => Qis_int (nq n)
  | _, _ => false
  end.
Definition type_ok (ts : list sty) (j : json) : bool :=
  match ts with [] => true | _ => existsb (fun t => type_matches t j) ts end.

Definition len_ok (mn mx n : nat) : bool :=
  (Nat.eqb mn 0 || Nat.leb mn n) && (Nat.eqb mx 0 || Nat.leb n mx).

Fixpoint valid (fuel : nat) (s : schema) (j : json) {struct fuel} : bool :=
  match fuel with
  | O => false
  | S f =>
      let c := s_con s in
      match c_ref c with
      | Some x => match lookup x defs with Some d => valid f d j | None => false end
      | None =>
          type_ok (c_types c) j &&
          match c_enum c with Some vs => existsb (json_eqb j) vs | None => true end &&
          forallb (fun b => valid f b j) (s_all_of s) &&
          match s_any_of s with [] => true | bs => existsb (fun b => valid f b j) bs end &&
          match j with
          | JObj kv =>
              forallb (fun k => match lookup k kv with Some _ => true | None => false end) (c_required c) &&
              forallb (fun p =>
                         match lookup (fst p) (s_props s) with
                         | Some ps => valid f ps (snd p)
                         | None =>
                             if s_addl_false s then false
                             else match s_addl s with Some a => valid f a (snd p) | None => true end
                         end) kv
          | JArr l =>
              len_ok (c_min_items c) (c_max_items c) (length l) &&
              match s_items s with Some it => forallb (valid f it) l | None => true end
          | JStr x =>
              len_ok (c_min_len c) (c_max_len c) (length x) &&
              match c_pattern c with Some p => pat_match p x | None => true end &&
              match c_format c with Some k => fmt_ok k x | None => true end
          | JNum n => spec_numeric (c_mult c) (c_bounds c) (nq n)
          | _ => true
          end
      end
  end.
End Valid.
