(* Transcription of pkg/mathutils/utils.go (NormalizeBounds) and of the numeric
   validator of pkg/generator/validator.go:315-407 (multipleOf, genBoundary, valueOf),
   over exact rationals.  No proofs here: the model must still run when a proof breaks. *)
From GJS Require Export Base.

(* exclusiveMinimum / exclusiveMaximum: draft-4 boolean or draft-6 number *)
Inductive exb := ExBool (b : bool) | ExNum (q : Q).

Record bounds := mkBounds {
  b_min : option Q; b_max : option Q; b_exmin : option exb; b_exmax : option exb }.

(* --- mathutils.NormalizeBounds ------------------------------------------------- *)
(* One side.  [tighter v m] is the comparison of utils.go:18 resp. :43:
   lower side  v >= m,  upper side  v <= m. *)
Definition norm_side (tighter : Q -> Q -> bool) (m : option Q) (e : option exb) : option Q * bool :=
  let '(b, x) :=
    match e with
    | Some (ExBool v) => (m, v)
    | Some (ExNum v) =>
        match m with
        | None => (Some v, true)
        | Some mm => if tighter v mm then (Some v, true) else (m, false)
        end
    | None => (m, false)
    end in
  match m, b with
  | Some _, None => (m, false)
  | _, _ => (b, x)
  end.

Definition norm_min := norm_side Qgeb.
Definition norm_max := norm_side Qle_bool.

(* (minBound, maxBound, minExclusive, maxExclusive) *)
Definition normalize_bounds (b : bounds) : option Q * option Q * bool * bool :=
  let '(mn, emn) := norm_min (b_min b) (b_exmin b) in
  let '(mx, emx) := norm_max (b_max b) (b_exmax b) in
  (mn, mx, emn, emx).

(* --- numericValidator.generate -------------------------------------------------- *)
(* genBoundary with sign ">" (lower): the emitted test is  `b >= x` (exclusive) or
   `b > x` (inclusive)  -> reject.  accept = negation. *)
Definition accept_lower (r : option Q * bool) (x : Q) : bool :=
  match r with
  | (None, _) => true
  | (Some b, true) => negb (Qle_bool x b)        (* not (b >= x) *)
  | (Some b, false) => negb (Qltb x b)           (* not (b >  x) *)
  end.
Definition accept_upper (r : option Q * bool) (x : Q) : bool :=
  match r with
  | (None, _) => true
  | (Some b, true) => negb (Qle_bool b x)        (* not (b <= x) *)
  | (Some b, false) => negb (Qltb b x)           (* not (b <  x) *)
  end.

Definition accept_bounds (b : bounds) (x : Q) : bool :=
  accept_upper (norm_max (b_max b) (b_exmax b)) x && accept_lower (norm_min (b_min b) (b_exmin b)) x.

(* valueOf with roundToInt: int64(val) truncates toward zero *)
Definition value_of (round_to_int : bool) (q : Q) : Q :=
  if round_to_int then inject_Z (Qtrunc_z q) else q.

Definition trunc_opt (round_to_int : bool) (r : option Q * bool) : option Q * bool :=
  (option_map (value_of round_to_int) (fst r), snd r).

(* multipleOf.  Integer kinds: `x % m != 0` with Go's truncated remainder (m <> 0, or the
   emitted code does not compile).  Floats: |math.Mod(x,m)| > 1e-10 on exact operands. *)
Definition Qabs' (q : Q) : Q := if Qle_bool 0 q then q else Qopp q.
Definition Qmod_trunc (x m : Q) : Q :=           (* math.Mod: x - m * trunc(x/m) *)
  Qminus x (Qmult m (inject_Z (Qtrunc_z (Qdiv x m)))).
Definition tol : Q := 1 # 10000000000.
Definition accept_multiple (round_to_int : bool) (m : option Q) (x : Q) : bool :=
  match m with
  | None => true
  | Some mq =>
      if round_to_int then
        let mi := Qtrunc_z mq in
        if Z.eqb mi 0 then false (* does not compile; never reached inside the guard *)
        else Z.eqb (Z.rem (Qtrunc_z x) mi) 0
      else Qle_bool (Qabs' (Qmod_trunc x mq)) tol
  end.

Definition accept_numeric (round_to_int : bool) (mult : option Q) (b : bounds) (x : Q) : bool :=
  accept_multiple round_to_int mult x &&
  accept_upper (trunc_opt round_to_int (norm_max (b_max b) (b_exmax b))) x &&
  accept_lower (trunc_opt round_to_int (norm_min (b_min b) (b_exmin b))) x.

(* --- the specification: what JSON Schema says ---------------------------------- *)
Definition spec_lower (m : option Q) (e : option exb) (x : Q) : bool :=
  match m with
  | None => true
  | Some mm => match e with Some (ExBool true) => Qltb mm x | _ => Qle_bool mm x end
  end &&
  match e with Some (ExNum v) => Qltb v x | _ => true end.
Definition spec_upper (m : option Q) (e : option exb) (x : Q) : bool :=
  match m with
  | None => true
  | Some mm => match e with Some (ExBool true) => Qltb x mm | _ => Qle_bool x mm end
  end &&
  match e with Some (ExNum v) => Qltb x v | _ => true end.
Definition spec_bounds (b : bounds) (x : Q) : bool :=
  spec_lower (b_min b) (b_exmin b) x && spec_upper (b_max b) (b_exmax b) x.

Definition spec_multiple (m : option Q) (x : Q) : bool :=
  match m with
  | None => true
  | Some mq => if Qeq_bool mq 0 then false else Qis_int (Qred (Qdiv x mq))
  end.
Definition spec_numeric (mult : option Q) (b : bounds) (x : Q) : bool :=
  spec_multiple mult x && spec_bounds b x.
