(* A small regular-expression language (the fragment of RE2 the families use) with a
   Brzozowski-derivative matcher.  regexp.MatchString is an unanchored search; anchors are
   only supported at the two ends of a pattern, which is how the palette uses them. *)
From GJS Require Export Base.

Inductive re :=
| REmpty                      (* matches nothing *)
| REps                        (* matches the empty string *)
| RChar (c : N)
| RRange (lo hi : N)          (* [lo-hi] *)
| RAny                        (* . (any code point but newline) *)
| RSeq (a b : re)
| RAlt (a b : re)
| RStar (a : re).

Definition RPlus (a : re) : re := RSeq a (RStar a).
Definition ROpt (a : re) : re := RAlt REps a.

Fixpoint nullable (r : re) : bool :=
  match r with
  | REmpty | RChar _ | RRange _ _ | RAny => false
  | REps | RStar _ => true
  | RSeq a b => nullable a && nullable b
  | RAlt a b => nullable a || nullable b
  end.

Fixpoint deriv (c : N) (r : re) : re :=
  match r with
  | REmpty | REps => REmpty
  | RChar d => if N.eqb c d then REps else REmpty
  | RRange lo hi => if N.leb lo c && N.leb c hi then REps else REmpty
  | RAny => if N.eqb c 10 then REmpty else REps
  | RSeq a b => if nullable a then RAlt (RSeq (deriv c a) b) (deriv c b) else RSeq (deriv c a) b
  | RAlt a b => RAlt (deriv c a) (deriv c b)
  | RStar a => RSeq (deriv c a) (RStar a)
  end.

Fixpoint full_match (r : re) (s : str) : bool :=
  match s with
  | [] => nullable r
  | c :: s' => full_match (deriv c r) s'
  end.

(* a pattern: optional ^, body, optional $ *)
Record pat := mkPat { p_begin : bool; p_body : re; p_end : bool; p_text : str (* the RE2 text spliced into the code *) }.

Definition RAll : re := RStar (RAlt RAny (RChar 10)).
Definition pat_match (p : pat) (s : str) : bool :=
  full_match (RSeq (if p_begin p then REps else RAll) (RSeq (p_body p) (if p_end p then REps else RAll))) s.
