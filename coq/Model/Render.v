(* The declarations the generator emits for a type tree, as canonical text: one line per declared type
     S|<name>|<0/1 has method>|<field>:<go type>:<json name>:<0/1 omitempty>;...      a struct
     N|<name>|<0/1>|<underlying go type>                                             a named non-struct type
     E|<name>|<0/1 wrapped>|<carrier go type>                                          an enum type
   compared on every correspondence case with the go/parser projection of the code the implementation emitted
   (the static tie: it does not need a document to see that a field changed its type). *)
From Coq Require Import String Ascii DecimalString.
From GJS Require Import Base Bounds IntSize Regex Schema GoType.

Definition lit (s : string) : str := map (fun c => N.of_nat (nat_of_ascii c)) (list_ascii_of_string s).

Definition int_name (k : intk) : str :=
  match k with
  | KInt => lit "int" | KI8 => lit "int8" | KI16 => lit "int16" | KI32 => lit "int32" | KI64 => lit "int64"
  | KU8 => lit "uint8" | KU16 => lit "uint16" | KU32 => lit "uint32" | KU64 => lit "uint64"
  end.
Definition fmt_name (f : fmtk) : str :=
  match f with
  | FDateTime => lit "time.Time" | FDate => lit "types.SerializableDate" | FTime => lit "types.SerializableTime" | FIP => lit "netip.Addr"
  end.

(* decimal numerals *)
Definition dec_N (n : N) : str := lit (NilZero.string_of_uint (N.to_uint n)).
Definition dec_Z (z : Z) : str := lit (NilZero.string_of_int (Z.to_int z)).
Definition dec_nat (n : nat) : str := dec_N (N.of_nat n).
Definition dec_Q (q : Q) : str := dec_Z (Qnum q) ++ lit "/" ++ dec_N (Npos (Qden q)).

Section Render.
Variable rn : str -> str.        (* the Go name of the declared type of a definition *)

Fixpoint go_ty (t : gty) : str :=
  match t with
  | TString => lit "string" | TBool => lit "bool" | TFloat => lit "float64"
  | TInt k => int_name k
  | TIface | TNullT => lit "interface{}"
  | TFmt f => fmt_name f
  | TPtr u => lit "*" ++ go_ty u
  | TSlice _ e => lit "[]" ++ go_ty e
  | TMap v => lit "map[string]" ++ go_ty v
  | TStruct [] _ _ => lit "struct"
  | TStruct name _ _ => name
  | TNamed name _ _ => name
  | TEnum name _ _ _ => name
  | TRef d => rn d
  end.

Definition bit (b : bool) : str := if b then lit "1" else lit "0".
Definition sep : str := lit "|".
Definition nl : str := [10]%N.

Definition field_line (f : field) : str :=
  f_name f ++ lit ":" ++ go_ty (f_ty f) ++ lit ":" ++ f_json f ++ lit ":" ++ bit (f_omit f) ++ lit ";".

Definition has_plan (p : option (list validator)) : bool := match p with Some _ => true | None => false end.

(* every declared type reachable in the tree (fields, elements, anyOf branch types) *)
Fixpoint decls (t : gty) : list str :=
  match t with
  | TPtr u | TSlice _ u | TMap u => decls u
  | TStruct name fs plan =>
      (match name with
       | [] => []
       | _ => [lit "S|" ++ name ++ sep ++ bit (has_plan plan) ++ sep ++ flat_map field_line fs]
       end) ++
      (fix go (fs : list field) : list str := match fs with [] => [] | mkField _ _ _ ty _ _ :: r => decls ty ++ go r end) fs ++
      match plan with
      | Some vs =>
          (fix gov (vs : list validator) : list str :=
             match vs with
             | [] => []
             | VAnyOf bs :: r => (fix gob (bs : list gty) : list str := match bs with [] => [] | b :: r' => decls b ++ gob r' end) bs ++ gov r
             | _ :: r => gov r
             end) vs
      | None => []
      end
  | TNamed name u plan => [lit "N|" ++ name ++ sep ++ bit (has_plan plan) ++ sep ++ go_ty u] ++ decls u
  | TEnum name c w _ => [lit "E|" ++ name ++ sep ++ bit w ++ sep ++ go_ty c]
  | _ => []
  end.

(* ---- the validator plan of a method, one line per emitted check, in the order of emission (json_formatter.generate):
     W|<0/1>                      `raw` is declared
     R|<json>                     required key
     Y|<n>                        anyOf over n branch types
     -                            the typed decode
     N|<field>|<loops>|<json>     must be null, under <loops> range loops
     D|<field>|<json>             default assignment
     A|<field>|<loops>|<op>|<n>|<json>       array length (op "<": minItems, guarded by != nil; ">": maxItems)
     P|<field>|<0/1 guard>                   pattern
     L|<field>|<0/1>|<op>|<n>|<json>         string length
     M|<field>|<0/1>|<i/f>|<q>|<json>        multipleOf (i: `%`, f: math.Mod)
     B|<field>|<0/1>|<i/f>|<comparison>|<q>|<message sign>|<json>    a bound: reject when  q <comparison> x
     X                            the additional-properties block
   compared with the same lines read off the bodies of the emitted UnmarshalJSON and UnmarshalYAML. ---- *)
(* what a line keeps of a validator (everything but the default literal and the text of the pattern); Proofs/PlanP.v shows that the
   behaviour of every check is a function of it *)
Inductive vsig :=
| SReq (j : str)
| SAny (n : nat)
| SNull (f j : str) (depth : nat)
| SDef (f j : str)
| SArr (f j : str) (depth mn mx : nat)
| SStr (f j : str) (nillable : bool) (mn mx : nat) (has_pattern : bool)
| SNum (f j : str) (nillable rnd : bool) (mult : option Q) (up lo : option Q * bool).
Definition vsig_of (v : validator) : vsig :=
  match v with
  | VRequired j => SReq j
  | VAnyOf bs => SAny (length bs)
  | VNullType f j d => SNull f j d
  | VDefault f j _ _ => SDef f j
  | VArray f j d mn mx => SArr f j d mn mx
  | VString f j n mn mx p => SStr f j n mn mx (match p with Some _ => true | None => false end)
  | VNumeric f j n rnd mult b =>
      SNum f j n rnd (option_map (value_of rnd) mult)
           (trunc_opt rnd (norm_max (b_max b) (b_exmax b))) (trunc_opt rnd (norm_min (b_min b) (b_exmin b)))
  end.

Definition kind_of (rnd : bool) : str := if rnd then lit "i" else lit "f".
Definition bound_line (fname jname : str) (nillable rnd : bool) (s : string) (r : option Q * bool) : list str :=
  match r with
  | (None, _) => []
  | (Some q, ex) =>
      [lit "B|" ++ fname ++ sep ++ bit nillable ++ sep ++ kind_of rnd ++ sep ++
       (if ex then lit s ++ lit "=" else lit s) ++ sep ++ dec_Q q ++ sep ++ (if ex then lit s else lit s ++ lit "=") ++ sep ++ jname]
  end.
Definition sline (v : vsig) : list str :=
  match v with
  | SReq j => [lit "R|" ++ j]
  | SAny n => [lit "Y|" ++ dec_nat n]
  | SNull fname j depth => [lit "N|" ++ fname ++ sep ++ dec_nat depth ++ sep ++ j]
  | SDef fname j => [lit "D|" ++ fname ++ sep ++ j]
  | SArr fname j depth mn mx =>
      (if Nat.eqb mn 0 && Nat.eqb mx 0 then [] else
       (if Nat.eqb mn 0 then [] else [lit "A|" ++ fname ++ sep ++ dec_nat (pred depth) ++ sep ++ lit "<" ++ sep ++ dec_nat mn ++ sep ++ j]) ++
       (if Nat.eqb mx 0 then [] else [lit "A|" ++ fname ++ sep ++ dec_nat (pred depth) ++ sep ++ lit ">" ++ sep ++ dec_nat mx ++ sep ++ j]))
  | SStr fname j nillable mn mx p =>
      (if p then [lit "P|" ++ fname ++ sep ++ bit nillable] else []) ++
      (if Nat.eqb mn 0 then [] else [lit "L|" ++ fname ++ sep ++ bit nillable ++ sep ++ lit "<" ++ sep ++ dec_nat mn ++ sep ++ j]) ++
      (if Nat.eqb mx 0 then [] else [lit "L|" ++ fname ++ sep ++ bit nillable ++ sep ++ lit ">" ++ sep ++ dec_nat mx ++ sep ++ j])
  | SNum fname j nillable rnd mult up lo =>
      (match mult with
       | Some m => [lit "M|" ++ fname ++ sep ++ bit nillable ++ sep ++ kind_of rnd ++ sep ++ dec_Q m ++ sep ++ j]
       | None => []
       end) ++
      bound_line fname j nillable rnd "<" up ++ bound_line fname j nillable rnd ">" lo
  end.
Definition vline (v : validator) : list str := sline (vsig_of v).
Definition plan_lines (fs : option (list field)) (vs : list validator) : list str :=
  [lit "W|" ++ bit (existsb v_before vs || existsb v_raw_after vs)] ++
  flat_map vline (filter v_before vs) ++ [lit "-"] ++
  flat_map vline (filter (fun v => negb (v_before v)) vs) ++
  match fs with Some fl => if existsb f_addl fl then [lit "X"] else [] | None => [] end.

(* the plans of every declared type with a method reachable in the tree: a header line T|<name>, then its lines *)
Fixpoint plans (t : gty) : list str :=
  match t with
  | TPtr u | TSlice _ u | TMap u => plans u
  | TStruct name fs plan =>
      (match name, plan with
       | _ :: _, Some vs => (lit "T|" ++ name) :: plan_lines (Some fs) vs
       | _, _ => []
       end) ++
      (fix go (fs : list field) : list str := match fs with [] => [] | mkField _ _ _ ty _ _ :: r => plans ty ++ go r end) fs ++
      match plan with
      | Some vs =>
          (fix gov (vs : list validator) : list str :=
             match vs with
             | [] => []
             | VAnyOf bs :: r => (fix gob (bs : list gty) : list str := match bs with [] => [] | b :: r' => plans b ++ gob r' end) bs ++ gov r
             | _ :: r => gov r
             end) vs
      | None => []
      end
  | TNamed name u plan =>
      (match plan with Some vs => (lit "T|" ++ name) :: plan_lines None vs | None => [] end) ++ plans u
  | _ => []
  end.
End Render.
