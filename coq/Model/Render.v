(* The declarations the generator emits for a type tree, as canonical text: one line per declared type
     S|<name>|<0/1 has method>|<field>:<go type>:<json name>:<0/1 omitempty>;...      a struct
     N|<name>|<0/1>|<underlying go type>                                             a named non-struct type
     E|<name>|<0/1 wrapped>|<carrier go type>                                          an enum type
   compared on every correspondence case with the go/parser projection of the code the implementation emitted
   (the static tie: it does not need a document to see that a field changed its type). *)
From Coq Require Import String Ascii.
From GJS Require Import Base Bounds IntSize Regex Schema GoType.

Definition lit (s : string) : str := map (fun c => N.of_nat (nat_of_ascii c)) (list_ascii_of_string s).

Definition int_name (k : intk) : str :=
  match k with
  | KInt => lit "int" | KI8 => lit "int8" | KI16 => lit "int16" | KI32 => lit "int32" | KI64 => lit "int64"
  | KU8 => lit "uint8" | KU16 => lit "uint16" | KU32 => lit "uint32" | KU64 => lit "uint64"
  end.
Definition fmt_name (f : fmtk) : str :=
  match f with
  | FDateTime => lit "time.Time" | FDate => lit "types.SerializableDate" | FTime => lit "types.SerializableTime" | FIP => lit "netip.Addr"
  end.

Section Render.
Variable rn : str -> str.        (* the Go name of the declared type of a definition *)

Fixpoint go_ty (t : gty) : str :=
  match t with
  | TString => lit "string" | TBool => lit "bool" | TFloat => lit "float64"
  | TInt k => int_name k
  | TIface | TNullT => lit "interface{}"
  | TFmt f => fmt_name f
  | TPtr u => lit "*" ++ go_ty u
  | TSlice _ e => lit "[]" ++ go_ty e
  | TMap v => lit "map[string]" ++ go_ty v
  | TStruct [] _ _ => lit "struct"
  | TStruct name _ _ => name
  | TNamed name _ _ => name
  | TEnum name _ _ _ => name
  | TRef d => rn d
  end.

Definition bit (b : bool) : str := if b then lit "1" else lit "0".
Definition sep : str := lit "|".
Definition nl : str := [10]%N.

Definition field_line (f : field) : str :=
  f_name f ++ lit ":" ++ go_ty (f_ty f) ++ lit ":" ++ f_json f ++ lit ":" ++ bit (f_omit f) ++ lit ";".

Definition has_plan (p : option (list validator)) : bool := match p with Some _ => true | None => false end.

(* every declared type reachable in the tree (fields, elements, anyOf branch types) *)
Fixpoint decls (t : gty) : list str :=
  match t with
  | TPtr u | TSlice _ u | TMap u => decls u
  | TStruct name fs plan =>
      (match name with
       | [] => []
       | _ => [lit "S|" ++ name ++ sep ++ bit (has_plan plan) ++ sep ++ flat_map field_line fs]
       end) ++
      (fix go (fs : list field) : list str := match fs with [] => [] | mkField _ _ _ ty _ _ :: r => decls ty ++ go r end) fs ++
      match plan with
      | Some vs =>
          (fix gov (vs : list validator) : list str :=
             match vs with
             | [] => []
             | VAnyOf bs :: r => (fix gob (bs : list gty) : list str := match bs with [] => [] | b :: r' => decls b ++ gob r' end) bs ++ gov r
             | _ :: r => gov r
             end) vs
      | None => []
      end
  | TNamed name u plan => [lit "N|" ++ name ++ sep ++ bit (has_plan plan) ++ sep ++ go_ty u] ++ decls u
  | TEnum name c w _ => [lit "E|" ++ name ++ sep ++ bit w ++ sep ++ go_ty c]
  | _ => []
  end.
End Render.
