(* The run around the generator (pkg/generator/generate.go:77-212, main.go:42-134): the
   outputs map keyed by schema id, routing by mappings, the same-file/different-package
   conflict, concatenation per file name in Sources(), and the CLI's abort-before-write.
   Go map iteration orders are explicit permutation parameters. *)
From GJS Require Export Base.
From Coq Require Export Permutation Sorting.

(* ---------- mappings and outputs ---------- *)
Record mapping := mkMap { m_id : str; m_pkg : str; m_out : str; m_root : str }.
Record outp := mkOut { o_file : str; o_pkg : str; o_decls : list str (* what has been emitted into it, abstractly *) }.

Record dcfg := mkDcfg { d_mappings : list mapping; d_default_out : str; d_default_pkg : str }.

(* g.outputs: id -> index into the list of output objects; several ids may share one object *)
Record dstate := mkDs { ds_ids : list (str * nat); ds_outs : list outp }.
Definition ds_init : dstate := mkDs [] [].

Inductive dres (A : Type) := DOk (a : A) | DErr.
Arguments DOk {A} a. Arguments DErr {A}.

Fixpoint find_mapping (id : str) (ms : list mapping) : option mapping :=
  match ms with [] => None | m :: r => if str_eqb (m_id m) id then Some m else find_mapping id r end.

(* beginOutput (generate.go:172-212): [order] is the iteration order of the outputs map (any permutation) *)
Fixpoint scan_outputs (outs : list (nat * outp)) (file pkg : str) : dres (option nat) :=
  match outs with
  | [] => DOk None
  | (i, o) :: r =>
      if str_eqb (o_file o) file && negb (str_eqb (o_pkg o) pkg) then DErr
      else if str_eqb (o_file o) file && str_eqb (o_pkg o) pkg then DOk (Some i)
      else scan_outputs r file pkg
  end.

Definition indexed {A} (l : list A) : list (nat * A) := combine (seq 0 (length l)) l.

Definition dflt_out : outp := mkOut [] [] [].
(* one entry per id in the outputs map *)
Definition entries (st : dstate) : list (nat * outp) := map (fun p => (snd p, nth (snd p) (ds_outs st) dflt_out)) (ds_ids st).

Definition begin_output (order : list (nat * outp) -> list (nat * outp)) (st : dstate) (id file pkg : str) : dres (dstate * nat) :=
  match pkg with
  | [] => DErr                                                (* errMapURIToPackageName *)
  | _ =>
      (* the scan visits one entry per id in the map; entries sharing an object are visited repeatedly: harmless *)
      match scan_outputs (order (entries st)) file pkg with
      | DErr => DErr
      | DOk (Some i) => DOk (st, i)                            (* note: the id itself is NOT recorded (generate.go:190-192) *)
      | DOk None =>
          let i := length (ds_outs st) in
          DOk (mkDs (ds_ids st ++ [(id, i)]) (ds_outs st ++ [mkOut file pkg []]), i)
      end
  end.

(* findOutputFileForSchemaID (generate.go:161-170) *)
Definition find_output (order : list (nat * outp) -> list (nat * outp)) (c : dcfg) (st : dstate) (id : str) : dres (dstate * nat) :=
  match lookup id (ds_ids st) with
  | Some i => DOk (st, i)
  | None =>
      match find_mapping id (d_mappings c) with
      | Some m => begin_output order st id (m_out m) (m_pkg m)
      | None => begin_output order st id (d_default_out c) (d_default_pkg c)
      end
  end.

(* where a schema id is meant to go *)
Definition target (c : dcfg) (id : str) : str * str :=
  match find_mapping id (d_mappings c) with
  | Some m => (m_out m, m_pkg m)
  | None => (d_default_out c, d_default_pkg c)
  end.

(* ---------- Sources(): concatenation per file name, in map order ---------- *)
(* [texts]: (file name, emitted text) per output object in the iteration order; empty names are skipped *)
Fixpoint add_source (file : str) (text : str) (acc : list (str * str)) : list (str * str) :=
  match acc with
  | [] => [(file, text)]
  | (f, t) :: r => if str_eqb f file then (f, t ++ text) :: r else (f, t) :: add_source file text r
  end.
Definition sources (texts : list (str * str)) : list (str * str) :=
  fold_left (fun acc ft => match fst ft with [] => acc | _ => add_source (fst ft) (snd ft) acc end) texts [].

(* ---------- the command (main.go:97-134): every file is generated before anything is written ---------- *)
Record cli_result := mkCli { r_status : nat; r_stdout : list str; r_stderr_empty : bool; r_writes : list (str * str) }.

Definition s_dash : str := [45]%N.

(* [gen_all]: the whole generation phase (DoFile for every argument), DErr = any failure *)
Definition cli (flags_ok : bool) (gen_all : dres (list (str * str))) : cli_result :=
  if negb flags_ok then mkCli 1 [] false []
  else match gen_all with
       | DErr => mkCli 1 [] false []
       | DOk srcs =>
           mkCli 0 (map snd (filter (fun ft => str_eqb (fst ft) s_dash) srcs)) true
                 (filter (fun ft => negb (str_eqb (fst ft) s_dash)) srcs)
       end.
