(* The intermediate representation of what the generator emits: Go types, declarations,
   and per declaration the ordered validator list of pkg/generator/validator.go.
   One constructor per validator implementation; template text is not modelled. *)
From GJS Require Export Base Bounds.

Inductive intk := KInt | KI8 | KI16 | KI32 | KI64 | KU8 | KU16 | KU32 | KU64.
Inductive fmtk := FDateTime | FDate | FTime | FIP.

Definition intk_eqb (a b : intk) : bool :=
  match a, b with
  | KInt, KInt | KI8, KI8 | KI16, KI16 | KI32, KI32 | KI64, KI64
  | KU8, KU8 | KU16, KU16 | KU32, KU32 | KU64, KU64 => true
  | _, _ => false
  end.

Definition int_range (k : intk) : Z * Z :=
  match k with
  | KInt | KI64 => (- 2 ^ 63, 2 ^ 63 - 1)
  | KI8 => (- 2 ^ 7, 2 ^ 7 - 1)
  | KI16 => (- 2 ^ 15, 2 ^ 15 - 1)
  | KI32 => (- 2 ^ 31, 2 ^ 31 - 1)
  | KU8 => (0, 2 ^ 8 - 1)
  | KU16 => (0, 2 ^ 16 - 1)
  | KU32 => (0, 2 ^ 32 - 1)
  | KU64 => (0, 2 ^ 64 - 1)
  end%Z.
Definition in_range (k : intk) (z : Z) : bool :=
  let '(lo, hi) := int_range k in (lo <=? z)%Z && (z <=? hi)%Z.

(* Go types as emitted.  Struct types only occur as declaration bodies. *)
Inductive gty :=
| TString | TBool | TFloat
| TInt (k : intk)
| TIface                      (* interface{} *)
| TNullT                      (* codegen.NullType: printed interface{}, must hold nil *)
| TFmt (f : fmtk)             (* time.Time, types.SerializableDate/Time, netip.Addr *)
| TPtr (t : gty)
| TSlice (t : gty)
| TMap (v : gty)              (* map[string]v *)
| TNamed (n : str)            (* a declaration of the same package *)
| TCustom (n : str) (nillable : bool).

Fixpoint gty_eqb (a b : gty) : bool :=
  match a, b with
  | TString, TString | TBool, TBool | TFloat, TFloat | TIface, TIface | TNullT, TNullT => true
  | TInt x, TInt y => intk_eqb x y
  | TFmt x, TFmt y => match x, y with FDateTime, FDateTime | FDate, FDate | FTime, FTime | FIP, FIP => true | _, _ => false end
  | TPtr x, TPtr y | TSlice x, TSlice y | TMap x, TMap y => gty_eqb x y
  | TNamed x, TNamed y => str_eqb x y
  | TCustom x p, TCustom y q => str_eqb x y && Bool.eqb p q
  | _, _ => false
  end.

Record field := mkField {
  f_name : str;                 (* Go field name *)
  f_json : str;                 (* the property name, as in the tag *)
  f_omit : bool;                (* tag carries ,omitempty (not required) *)
  f_ty : gty;
  f_default : option json;      (* schema default (raw) *)
  f_addl : bool                 (* the synthetic AdditionalProperties field: tag mapstructure:",remain" *)
}.

Inductive validator :=
| VRequired (jname : str)
| VNullType (fname jname : str) (depth : nat)
| VDefault (fname jname : str) (ty : gty) (dv : json)
| VArray (fname jname : str) (depth : nat) (mn mx : nat)
| VString (fname jname : str) (nillable : bool) (mn mx : nat) (pattern : str)
| VNumeric (fname jname : str) (nillable round_to_int : bool) (mult : option Q) (b : bounds)
| VAnyOf (tname : str) (count : nat).

(* validatorDesc *)
Definition v_before (v : validator) : bool :=
  match v with VRequired _ | VAnyOf _ _ => true | _ => false end.
Definition v_raw_after (v : validator) : bool :=
  match v with VNullType _ _ _ | VDefault _ _ _ _ => true | _ => false end.
Definition v_has_error (v : validator) : bool :=
  match v with VDefault _ _ _ _ => false | _ => true end.

(* values a table of enum constants holds, with Go dynamic types (litter + int coercion) *)
Inductive ev := EVNil | EVBool (b : bool) | EVInt (z : Z) | EVFloat (q : Q) | EVStr (s : str).

Inductive dbody :=
| BStruct (fs : list field)
| BType (t : gty)                                   (* type D <t> *)
| BEnum (carrier : gty) (wrapped : bool) (vals : list ev).

Record decl := mkDecl {
  d_name : str;
  d_body : dbody;
  d_vals : option (list validator);     (* Some vs: an Unmarshal method with these validators is emitted *)
  d_alias : option str                  (* `type name = target` (no body of its own) *)
}.

Record program := mkProg {
  p_decls : list decl;
  p_imports : list str;
  p_consts : list (str * str * str)     (* name, type, string value *)
}.

Definition find_decl (p : program) (n : str) : option decl :=
  find (fun d => str_eqb n (d_name d)) (p_decls p).
