(* The schema documents the generator reads (pkg/schemas/model.go: Type), restricted to the
   modelled keywords.  A node = its scalar keywords [scon] + its child schemas. *)
From GJS Require Export Base Bounds Regex.

Inductive sty := SString | SInteger | SNumber | SBoolean | SNull | SObject | SArray | SUnknown.
Definition sty_eqb (a b : sty) : bool :=
  match a, b with
  | SString, SString | SInteger, SInteger | SNumber, SNumber | SBoolean, SBoolean
  | SNull, SNull | SObject, SObject | SArray, SArray | SUnknown, SUnknown => true
  | _, _ => false
  end.

Inductive fmtk := FDateTime | FDate | FTime | FIP.
Definition fmtk_eqb (a b : fmtk) : bool :=
  match a, b with FDateTime, FDateTime | FDate, FDate | FTime, FTime | FIP, FIP => true | _, _ => false end.

Record scon := mkC {
  c_types : list sty;
  c_ref : option str;                 (* Some X: "$ref": "#/$defs/X" (or #/definitions/X) in the same file *)
  c_enum : option (list json);
  c_required : list str;
  c_min_items : nat; c_max_items : nat;       (* 0 = unset, as in the Go struct *)
  c_min_len : nat; c_max_len : nat;
  c_pattern : option pat;
  c_mult : option Q;
  c_bounds : bounds;
  c_default : option json;
  c_format : option fmtk
}.

Inductive schema :=
| Sch (c : scon) (props : list (str * schema))
      (addl : option schema) (addl_false : bool)     (* additionalProperties: a schema / `false` *)
      (items : option schema) (all_of any_of : list schema).

Definition s_con (s : schema) : scon := match s with Sch c _ _ _ _ _ _ => c end.
Definition s_props (s : schema) := match s with Sch _ p _ _ _ _ _ => p end.
Definition s_addl (s : schema) := match s with Sch _ _ a _ _ _ _ => a end.
Definition s_addl_false (s : schema) := match s with Sch _ _ _ f _ _ _ => f end.
Definition s_items (s : schema) := match s with Sch _ _ _ _ i _ _ => i end.
Definition s_all_of (s : schema) := match s with Sch _ _ _ _ _ a _ => a end.
Definition s_any_of (s : schema) := match s with Sch _ _ _ _ _ _ a => a end.

Definition empty_con : scon :=
  mkC [] None None [] 0 0 0 0 None None (mkBounds None None None None) None None.
Definition empty_schema : schema := Sch empty_con [] None false None [] [].

(* insertion sort of properties by key: Go's sort.Strings on the map keys *)
Fixpoint insert_prop {A} (kv : str * A) (l : list (str * A)) : list (str * A) :=
  match l with
  | [] => [kv]
  | x :: r => if str_leb (fst kv) (fst x) then kv :: l else x :: insert_prop kv r
  end.
Definition sort_props {A} (l : list (str * A)) : list (str * A) := fold_right insert_prop [] l.

Definition has_null (ts : list sty) : bool := existsb (sty_eqb SNull) ts.
Definition is_prim_sty (t : sty) : bool :=
  match t with SString | SInteger | SNumber | SBoolean | SNull => true | _ => false end.

Definition has_numeric_kw (c : scon) : bool :=
  match c_mult c, b_min (c_bounds c), b_max (c_bounds c), b_exmin (c_bounds c), b_exmax (c_bounds c) with
  | None, None, None, None, None => false
  | _, _, _, _, _ => true
  end.
Definition has_string_kw (c : scon) : bool :=
  negb (Nat.eqb (c_min_len c) 0) || negb (Nat.eqb (c_max_len c) 0) || match c_pattern c with Some _ => true | None => false end.
