(* Transcription of internal/x/text/cases.go (identifier synthesis), of the field-name
   de-duplication of schema_generator.go:750-757, of output.uniqueTypeName (output.go:53-72)
   and of makeEnumConstantName (generate.go:214-226).  Unicode facts come from an oracle
   [uinfo] (Go's unicode tables for the code points in use, dumped by the harness). *)
From GJS Require Export Base.
From Coq Require DecimalNat Decimal.

Record uinfo := mkU {
  u_lower : N -> bool;      (* unicode.IsLower *)
  u_upper : N -> bool;      (* unicode.IsUpper *)
  u_number : N -> bool;     (* unicode.IsNumber (Nd, Nl, No) *)
  u_letter : N -> bool;     (* unicode.IsLetter *)
  u_digit : N -> bool;      (* unicode.IsDigit (Nd): what a Go identifier may contain *)
  u_to_upper : N -> N;      (* unicode.ToUpper *)
  u_fold : N -> N           (* least member of the simple-fold orbit (strings.EqualFold) *)
}.

Section Ident.
Variable U : uinfo.

Inductive cstate := CSNothing | CSLower | CSUpper | CSNoCase | CSNumber | CSDelim.
Definition cstate_eqb (a b : cstate) : bool :=
  match a, b with
  | CSNothing, CSNothing | CSLower, CSLower | CSUpper, CSUpper | CSNoCase, CSNoCase | CSNumber, CSNumber | CSDelim, CSDelim => true
  | _, _ => false
  end.

(* the switch of cases.go:110-125 *)
Definition classify (r : N) : cstate :=
  if u_lower U r then CSLower
  else if u_upper U r then CSUpper
  else if u_number U r then CSNumber
  else if negb (u_letter U r) then CSDelim
  else CSNoCase.

Definition is_delim (s : cstate) : bool := match s with CSDelim => true | _ => false end.
Definition nonempty (l : list N) : bool := match l with [] => false | _ => true end.
Definition push_part (part : list N) (acc : list str) : list str := if nonempty part then rev part :: acc else acc.

(* splitIdentifierByCaseAndSeparators: [part] is runes[j:i] reversed, [acc] the parts so far
   reversed.  While in the delimiter state nothing is accumulated (j is reset on leaving). *)
Fixpoint split_go (rest : list N) (cur : cstate) (part : list N) (acc : list str) : list str :=
  match rest with
  | [] => rev (if is_delim cur then acc else push_part part acc)
  | r :: rest' =>
      let nxt := classify r in
      if cstate_eqb nxt cur then split_go rest' cur (if is_delim cur then [] else r :: part) acc
      else if is_delim cur then split_go rest' nxt [r] acc
      else match cur, nxt with
           | CSUpper, CSLower => split_go rest' nxt (r :: part) acc
           | _, _ => split_go rest' nxt (if is_delim nxt then [] else [r]) (push_part part acc)
           end
  end.
Definition split_ident (s : str) : list str := split_go s CSNothing [] [].

(* strings.EqualFold on valid UTF-8: rune-wise, same simple-fold orbit *)
Fixpoint equal_fold (a b : str) : bool :=
  match a, b with
  | [], [] => true
  | x :: a', y :: b' => N.eqb (u_fold U x) (u_fold U y) && equal_fold a' b'
  | _, _ => false
  end.

Definition capitalize (caps : list str) (s : str) : str :=
  match s with
  | [] => []
  | r :: rest =>
      match find (fun c => equal_fold c s) caps with
      | Some c => c
      | None => u_to_upper U r :: rest
      end
  end.

Definition s_Blank : str := [66; 108; 97; 110; 107]%N.
Definition s_Wildcard : str := [87; 105; 108; 100; 99; 97; 114; 100]%N.
Definition s_Undefined : str := [85; 110; 100; 101; 102; 105; 110; 101; 100]%N.
Definition c_A : N := 65%N.
Definition c_underscore : N := 95%N.

Definition not_case_sensitive (r : N) : bool := negb (u_upper U r) && negb (u_lower U r).

Definition ident_body (caps : list str) (s : str) : str :=
  let ident := flat_map (capitalize caps) (split_ident s) in
  match ident with
  | [] => s_Undefined
  | r0 :: _ => if negb (u_letter U r0) || not_case_sensitive r0 then c_A :: ident else ident
  end.

Definition identifierize (caps : list str) (s : str) : str :=
  if str_eqb s [] then s_Blank
  else if str_eqb s [42%N] then s_Wildcard
  else ident_body caps s.

(* what makes a Go identifier (go/token.IsIdentifier without the keyword test) and an exported one *)
Definition go_ident_char (r : N) : bool := u_letter U r || N.eqb r c_underscore || u_digit U r.
Definition go_ident_start (r : N) : bool := u_letter U r || N.eqb r c_underscore.
Definition go_ident (s : str) : bool :=
  match s with [] => false | r :: rest => go_ident_start r && forallb go_ident_char rest end.
Definition exported (s : str) : bool := match s with [] => false | r :: _ => u_upper U r end.

End Ident.

(* ---------- decimal rendering (fmt %d) ---------- *)
Fixpoint uint_chars (u : Decimal.uint) : str :=
  match u with
  | Decimal.Nil => []
  | Decimal.D0 u => 48%N :: uint_chars u | Decimal.D1 u => 49%N :: uint_chars u
  | Decimal.D2 u => 50%N :: uint_chars u | Decimal.D3 u => 51%N :: uint_chars u
  | Decimal.D4 u => 52%N :: uint_chars u | Decimal.D5 u => 53%N :: uint_chars u
  | Decimal.D6 u => 54%N :: uint_chars u | Decimal.D7 u => 55%N :: uint_chars u
  | Decimal.D8 u => 56%N :: uint_chars u | Decimal.D9 u => 57%N :: uint_chars u
  end.
Definition show_nat (n : nat) : str := uint_chars (Nat.to_uint n).
Definition suffixed (name : str) (n : nat) : str := name ++ c_underscore :: show_nat n.

(* ---------- struct field names: schema_generator.go:750-757 ---------- *)
(* [seen]: identifier -> how many fields already carry it (uniqueNames) *)
Fixpoint count_of (id : str) (seen : list (str * nat)) : option nat :=
  match seen with
  | [] => None
  | (k, c) :: r => if str_eqb id k then Some c else count_of id r
  end.
Fixpoint set_count (id : str) (c : nat) (seen : list (str * nat)) : list (str * nat) :=
  match seen with
  | [] => [(id, c)]
  | (k, c') :: r => if str_eqb id k then (k, c) :: r else (k, c') :: set_count id c r
  end.
Fixpoint assign_fields (ids : list str) (seen : list (str * nat)) : list str :=
  match ids with
  | [] => []
  | id :: rest =>
      match count_of id seen with
      | Some c => suffixed id (S c) :: assign_fields rest (set_count id (S c) seen)
      | None => id :: assign_fields rest (set_count id 1 seen)
      end
  end.
Definition field_names (ids : list str) : list str := assign_fields ids [].

(* ---------- type names: output.uniqueTypeName ---------- *)
(* [taken]: names in declsByName whose declaration is complete; the search for a free suffix
   looks at every registered name ([all], complete or in progress) *)
Fixpoint first_free (name : str) (all : list str) (count fuel : nat) : option str :=
  match fuel with
  | O => None
  | S f => let cand := suffixed name count in if mem cand all then first_free name all (S count) f else Some cand
  end.
Definition unique_type_name (name : str) (taken all : list str) : option str :=
  if mem name taken then first_free name all 1 (S (length all)) else Some name.

(* ---------- enum constant names: makeEnumConstantName ---------- *)
Definition is_ascii_digit (c : N) : bool := N.leb 48 c && N.leb c 57.
Definition s_Enum : str := [69; 110; 117; 109]%N.
Definition enum_const_name (U : uinfo) (caps : list str) (type_name value : str) : str :=
  let idv := identifierize U caps value in
  match rev type_name with
  | [] => s_Enum ++ idv
  | last :: _ => if is_ascii_digit last then type_name ++ c_underscore :: idv else type_name ++ idv
  end.

(* ---------- file names: IdentifierFromFileName ---------- *)
Definition c_slash : N := 47%N.
Fixpoint strip_trailing_slashes_rev (r : str) : str :=
  match r with c :: r' => if N.eqb c c_slash then strip_trailing_slashes_rev r' else r | [] => [] end.
Fixpoint take_until_slash (r : str) : str :=
  match r with c :: r' => if N.eqb c c_slash then [] else c :: take_until_slash r' | [] => [] end.
(* filepath.Base *)
Definition path_base (p : str) : str :=
  match p with
  | [] => [46%N]
  | _ => match strip_trailing_slashes_rev (rev p) with
         | [] => [c_slash]
         | r => rev (take_until_slash r)
         end
  end.
Fixpoint is_prefix (a b : str) : bool :=
  match a, b with [], _ => true | x :: a', y :: b' => N.eqb x y && is_prefix a' b' | _, _ => false end.
Definition trim_suffix (s ext : str) : str :=
  if is_prefix (rev ext) (rev s) then rev (skipn (length ext) (rev s)) else s.
Fixpoint trim_first_ext (s : str) (exts : list str) : str :=
  match exts with
  | [] => s
  | e :: r => let t := trim_suffix s e in if str_eqb t s then trim_first_ext s r else t
  end.
Definition ident_from_file (U : uinfo) (caps exts : list str) (file : str) : str :=
  identifierize U caps (trim_first_ext (path_base file) exts).

(* ---------- table-backed oracle used when the model is run ---------- *)
Record crow := mkRow { r_cp : N; r_lower : bool; r_upper : bool; r_number : bool; r_letter : bool; r_digit : bool; r_to_upper : N; r_fold : N }.
Fixpoint row_of (t : list crow) (c : N) : option crow :=
  match t with [] => None | r :: t' => if N.eqb (r_cp r) c then Some r else row_of t' c end.
Definition table_uinfo (t : list crow) : uinfo :=
  let gb (f : crow -> bool) (c : N) : bool := match row_of t c with Some r => f r | None => false end in
  let gn (f : crow -> N) (c : N) : N := match row_of t c with Some r => f r | None => c end in
  mkU (gb r_lower) (gb r_upper) (gb r_number) (gb r_letter) (gb r_digit) (gn r_to_upper) (gn r_fold).
