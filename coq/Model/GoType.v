(* What the generator emits, as a tree: Go types with, at every declared type, the ordered
   validator list of its Unmarshal method (pkg/generator/validator.go: one constructor per
   validator implementation).  References to definitions stay references ([TRef]).
   Also: the Go values the emitted code manipulates. *)
From GJS Require Export Base Bounds IntSize Regex Schema.

(* values a table of enum constants holds, with Go dynamic types (litter + int coercion) *)
Inductive ev := EVNil | EVBool (b : bool) | EVInt (z : Z) | EVFloat (q : Q) | EVStr (s : str).

Inductive gty :=
| TString | TBool | TFloat
| TInt (k : intk)
| TIface                      (* interface{} *)
| TNullT                      (* codegen.NullType: printed interface{}, must hold nil *)
| TFmt (f : fmtk)             (* time.Time, types.SerializableDate/Time, netip.Addr *)
| TPtr (t : gty)
| TSlice (inl : bool) (t : gty)      (* inl: built by generateTypeInline (pointer to codegen.ArrayType), the only arrays that get validators *)
| TMap (v : gty)              (* map[string]v *)
| TStruct (name : str) (fs : list field) (plan : option (list validator))
                              (* name = [] : anonymous struct (no method possible) *)
| TNamed (name : str) (t : gty) (plan : option (list validator))
                              (* type name <t>, t not a struct; validators act on `plain` itself *)
| TEnum (name : str) (carrier : gty) (wrapped : bool) (vals : list ev)
| TRef (def : str)            (* the declared type of definition [def] of the same file *)
with field :=
| mkField (f_name f_json : str) (f_omit : bool) (f_ty : gty) (f_default : option json) (f_addl : bool)
with validator :=
| VRequired (jname : str)
| VNullType (fname jname : str) (depth : nat)
| VDefault (fname jname : str) (ty : gty) (dv : json)
| VArray (fname jname : str) (depth mn mx : nat)
| VString (fname jname : str) (nillable : bool) (mn mx : nat) (pattern : option pat)
| VNumeric (fname jname : str) (nillable round_to_int : bool) (mult : option Q) (b : bounds)
| VAnyOf (branches : list gty).

Definition f_name (f : field) := match f with mkField n _ _ _ _ _ => n end.
Definition f_json (f : field) := match f with mkField _ j _ _ _ _ => j end.
Definition f_omit (f : field) := match f with mkField _ _ o _ _ _ => o end.
Definition f_ty (f : field) := match f with mkField _ _ _ t _ _ => t end.
Definition f_default (f : field) := match f with mkField _ _ _ _ d _ => d end.
Definition f_addl (f : field) := match f with mkField _ _ _ _ _ a => a end.

(* validatorDesc *)
Definition v_before (v : validator) : bool :=
  match v with VRequired _ | VAnyOf _ => true | _ => false end.
Definition v_raw_after (v : validator) : bool :=
  match v with VNullType _ _ _ | VDefault _ _ _ _ => true | _ => false end.
Definition v_has_error (v : validator) : bool :=
  match v with VDefault _ _ _ _ => false | _ => true end.

(* Type.IsNillable of pkg/codegen/model.go; [rn]: is the declared type of a definition nillable *)
Definition nillable_ty (rn : str -> bool) (t : gty) : bool :=
  match t with
  | TPtr _ | TSlice _ _ | TMap _ | TIface | TNullT => true
  | TNamed _ u _ => match u with TPtr _ | TSlice _ _ | TMap _ | TIface | TNullT => true | _ => false end
  | TRef d => rn d
  | _ => false
  end.
Definition is_named_ty (t : gty) : bool :=
  match t with
  | TRef _ | TStruct (_ :: _) _ _ | TNamed _ _ _ | TEnum _ _ _ _ => true
  | TPtr (TRef _) | TPtr (TStruct (_ :: _) _ _) | TPtr (TNamed _ _ _) | TPtr (TEnum _ _ _ _) => true
  | _ => false
  end.

(* ---------- Go values ---------- *)
Inductive gval :=
| GNil                           (* nil pointer / slice / map / interface *)
| GS (s : str) | GB (b : bool) | GI (z : Z) | GF (q : Q)
| GFm (s : option str)           (* a format-typed value: None = zero value, Some s = parsed from s *)
| GP (v : gval)                  (* non-nil pointer *)
| GL (l : list gval)             (* non-nil slice *)
| GM (kv : list (str * gval))    (* non-nil map *)
| GSt (fs : list (str * gval))   (* struct, by Go field name *)
| GJ (j : json).                 (* interface{} holding a decoded non-null JSON value *)

Inductive outcome (A : Type) := Ok (a : A) | Err | Crash | NoFuel.
Arguments Ok {A} a. Arguments Err {A}. Arguments Crash {A}. Arguments NoFuel {A}.

Definition obind {A B} (o : outcome A) (f : A -> outcome B) : outcome B :=
  match o with Ok a => f a | Err => Err | Crash => Crash | NoFuel => NoFuel end.

Fixpoint omap {A B} (f : A -> outcome B) (l : list A) : outcome (list B) :=
  match l with
  | [] => Ok []
  | x :: r => obind (f x) (fun y => obind (omap f r) (fun ys => Ok (y :: ys)))
  end.
