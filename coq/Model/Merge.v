(* The merge of allOf branches (pkg/schemas/model.go:269-327: MergeTypes = mergo.Merge into a fresh
   Type, branch after branch, with AppendSlice and a transformer that leaves a non-nil type list alone),
   transcribed on the modelled keywords:
     - slices (required, enum, allOf, anyOf) are appended; the type list keeps the first non-empty one;
     - ints / strings / bools keep the first non-zero value;
     - pointers and interface values (minimum ..., multipleOf, default, items, additionalProperties) keep the
       first non-nil one; two non-nil pointers are merged through the pointer (deep merge): for numbers the
       pointee is overwritten when it is 0; for sub-schemas this is outside the model ([None]);
     - maps (properties) are merged key by key; a key present on both sides is deep-merged: outside the model.
   [None] = this list of branches is not modelled (the caller answers GUnmod). *)
From GJS Require Export Base Bounds Regex Schema.

Definition first_nat (a b : nat) : nat := if Nat.eqb a 0 then b else a.
Definition first_opt {A} (a b : option A) : option A := match a with Some _ => a | None => b end.
(* *float64 fields: first non-nil; both non-nil: deep merge of the pointees = overwrite a zero *)
Definition first_qptr (a b : option Q) : option Q :=
  match a, b with
  | None, _ => b
  | Some x, Some y => if Qeq_bool x 0 then Some y else a
  | Some _, None => a
  end.
Definition merge_bounds (a b : bounds) : bounds :=
  mkBounds (first_qptr (b_min a) (b_min b)) (first_qptr (b_max a) (b_max b))
           (first_opt (b_exmin a) (b_exmin b)) (first_opt (b_exmax a) (b_exmax b)).   (* *any: the pointee is not settable *)

Definition merge_enum (a b : option (list json)) : option (list json) :=
  match a, b with
  | None, _ => b
  | Some x, None => Some x
  | Some x, Some y => Some (x ++ y)
  end.

Definition merge_con (a b : scon) : scon :=
  mkC (match c_types a with [] => c_types b | _ => c_types a end)
      (first_opt (c_ref a) (c_ref b))
      (merge_enum (c_enum a) (c_enum b))
      (c_required a ++ c_required b)
      (first_nat (c_min_items a) (c_min_items b)) (first_nat (c_max_items a) (c_max_items b))
      (first_nat (c_min_len a) (c_min_len b)) (first_nat (c_max_len a) (c_max_len b))
      (first_opt (c_pattern a) (c_pattern b))
      (first_qptr (c_mult a) (c_mult b))
      (merge_bounds (c_bounds a) (c_bounds b))
      (first_opt (c_default a) (c_default b))
      (first_opt (c_format a) (c_format b)).

Definition keys_disjoint {A B} (p : list (str * A)) (q : list (str * B)) : bool :=
  forallb (fun kv => negb (mem (fst kv) (map fst q))) p.

(* one mergo.Merge(result, branch) *)
Definition merge2 (d s : schema) : option schema :=
  if negb (keys_disjoint (s_props s) (s_props d)) then None            (* deep merge of a shared property *)
  else
    match (match s_addl d, s_addl s with Some _, Some _ => None | a, b => Some (first_opt a b) end),
          (match s_items d, s_items s with Some _, Some _ => None | a, b => Some (first_opt a b) end) with
    | Some addl, Some items =>
        (* additionalProperties:false is a non-nil pointer too *)
        if (s_addl_false d && (s_addl_false s || match s_addl s with Some _ => true | None => false end))
           || (s_addl_false s && match s_addl d with Some _ => true | None => false end) then None
        else Some (Sch (merge_con (s_con d) (s_con s)) (s_props d ++ s_props s) addl (s_addl_false d || s_addl_false s) items
                       (s_all_of d ++ s_all_of s) (s_any_of d ++ s_any_of s))
    | _, _ => None
    end.

Fixpoint merge_into (d : schema) (bs : list schema) : option schema :=
  match bs with
  | [] => Some d
  | b :: r => match merge2 d b with Some d' => merge_into d' r | None => None end
  end.

(* isPrimitiveTypeList (model.go): all branches of primitive type: nothing is merged *)
Definition prim_or_untyped (b : schema) : bool :=
  match c_types (s_con b) with [] => true | t :: _ => is_prim_sty t end.
Definition merge_types (bs : list schema) : option schema :=
  match bs with
  | [] => None                      (* ErrEmptyTypesList *)
  | _ => if forallb prim_or_untyped bs then Some empty_schema else merge_into empty_schema bs
  end.
