(* The merge of allOf branches (pkg/schemas/model.go:269-327: MergeTypes = mergo.Merge into a fresh
   Type, branch after branch, with AppendSlice and a transformer that leaves a non-nil type list alone),
   transcribed on the modelled keywords:
     - slices (required, enum, allOf, anyOf) are appended; the type list keeps the first non-empty one;
     - ints / strings / bools keep the first non-zero value;
     - pointers and interface values (minimum ..., multipleOf, default, items, additionalProperties) keep the
       first non-nil one; two non-nil pointers are merged through the pointer (deep merge): for numbers the
       pointee is overwritten when it is 0; for sub-schemas (items, additionalProperties) the pointees are merged by these same rules;
     - maps (properties) are merged key by key; a key present on both sides is deep-merged by these same rules.
   The merge writes through the pointers of the first branch (a definition that is the first branch is modified in place): the model is
   pure, the effect of that mutation on OTHER users of the definition is a recorded finding (C11-overlay-leaks-into-shared-definition).
   [None] = this list of branches is not modelled (the caller answers GUnmod). *)
From GJS Require Export Base Bounds Regex Schema.

Definition first_nat (a b : nat) : nat := if Nat.eqb a 0 then b else a.
Definition first_opt {A} (a b : option A) : option A := match a with Some _ => a | None => b end.
(* *float64 fields: first non-nil; both non-nil: deep merge of the pointees = overwrite a zero *)
Definition first_qptr (a b : option Q) : option Q :=
  match a, b with
  | None, _ => b
  | Some x, Some y => if Qeq_bool x 0 then Some y else a
  | Some _, None => a
  end.
Definition merge_bounds (a b : bounds) : bounds :=
  mkBounds (first_qptr (b_min a) (b_min b)) (first_qptr (b_max a) (b_max b))
           (first_opt (b_exmin a) (b_exmin b)) (first_opt (b_exmax a) (b_exmax b)).   (* *any: the pointee is not settable *)

Definition merge_enum (a b : option (list json)) : option (list json) :=
  match a, b with
  | None, _ => b
  | Some x, None => Some x
  | Some x, Some y => Some (x ++ y)
  end.

Definition merge_con (a b : scon) : scon :=
  mkC (match c_types a with [] => c_types b | _ => c_types a end)
      (first_opt (c_ref a) (c_ref b))
      (merge_enum (c_enum a) (c_enum b))
      (c_required a ++ c_required b)
      (first_nat (c_min_items a) (c_min_items b)) (first_nat (c_max_items a) (c_max_items b))
      (first_nat (c_min_len a) (c_min_len b)) (first_nat (c_max_len a) (c_max_len b))
      (first_opt (c_pattern a) (c_pattern b))
      (first_qptr (c_mult a) (c_mult b))
      (merge_bounds (c_bounds a) (c_bounds b))
      (first_opt (c_default a) (c_default b))
      (first_opt (c_format a) (c_format b)).

Definition keys_disjoint {A B} (p : list (str * A)) (q : list (str * B)) : bool :=
  forallb (fun kv => negb (mem (fst kv) (map fst q))) p.

(* one mergo.Merge(result, branch).  A property (or items / additionalProperties schema) present on both sides is merged
   through the pointer, field by field, by the same rules (deep merge); [fuel] bounds the nesting depth. *)
Fixpoint omapo {A B} (f : A -> option B) (l : list A) : option (list B) :=
  match l with
  | [] => Some []
  | x :: r => match f x, omapo f r with Some y, Some ys => Some (y :: ys) | _, _ => None end
  end.

Fixpoint merge2 (fuel : nat) (d s : schema) {struct fuel} : option schema :=
  match fuel with
  | O => None
  | S f =>
      let sub (a b : option schema) : option (option schema) :=
        match a, b with
        | Some x, Some y => match merge2 f x y with Some m => Some (Some m) | None => None end
        | _, _ => Some (first_opt a b)
        end in
      match omapo (fun kv : str * schema =>
                     match lookup (fst kv) (s_props s) with
                     | Some sp => match merge2 f (snd kv) sp with Some m => Some (fst kv, m) | None => None end
                     | None => Some kv
                     end) (s_props d),
            sub (s_addl d) (s_addl s), sub (s_items d) (s_items s) with
      | Some dprops, Some addl, Some items =>
          (* additionalProperties:false is a non-nil pointer too (to a schema that cannot be written in the model) *)
          if (s_addl_false d && (s_addl_false s || match s_addl s with Some _ => true | None => false end))
             || (s_addl_false s && match s_addl d with Some _ => true | None => false end) then None
          else Some (Sch (merge_con (s_con d) (s_con s))
                         (dprops ++ filter (fun kv => negb (mem (fst kv) (map fst (s_props d)))) (s_props s))
                         addl (s_addl_false d || s_addl_false s) items
                         (s_all_of d ++ s_all_of s) (s_any_of d ++ s_any_of s))
      | _, _, _ => None
      end
  end.

Definition merge_fuel : nat := 12.

Fixpoint merge_into (d : schema) (bs : list schema) : option schema :=
  match bs with
  | [] => Some d
  | b :: r => match merge2 merge_fuel d b with Some d' => merge_into d' r | None => None end
  end.

(* isPrimitiveTypeList (model.go): all branches of primitive type: nothing is merged *)
Definition prim_or_untyped (b : schema) : bool :=
  match c_types (s_con b) with [] => true | t :: _ => is_prim_sty t end.
Definition merge_types (bs : list schema) : option schema :=
  match bs with
  | [] => None                      (* ErrEmptyTypesList *)
  | _ => if forallb prim_or_untyped bs then Some empty_schema else merge_into empty_schema bs
  end.
