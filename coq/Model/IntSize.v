(* Transcription of pkg/codegen/utils.go:132-154 (the integer case of
   PrimitiveTypeFromJSONSchemaType under --min-sized-ints) and :173-258 (getMinIntType,
   adjustForSignedBounds, adjustForUnsignedBounds).  Schema constants are the float64
   values the parser produced, held as exact rationals; float64(math.MaxInt64) is 2^63
   and float64(math.MaxUint64) is 2^64, exactly as the Go comparisons see them. *)
From GJS Require Export Base Bounds.

Inductive intk := KInt | KI8 | KI16 | KI32 | KI64 | KU8 | KU16 | KU32 | KU64.

Definition intk_eqb (a b : intk) : bool :=
  match a, b with
  | KInt, KInt | KI8, KI8 | KI16, KI16 | KI32, KI32 | KI64, KI64
  | KU8, KU8 | KU16, KU16 | KU32, KU32 | KU64, KU64 => true
  | _, _ => false
  end.

Definition int_range (k : intk) : Z * Z :=
  match k with
  | KInt | KI64 => (- 2 ^ 63, 2 ^ 63 - 1)
  | KI8 => (- 2 ^ 7, 2 ^ 7 - 1)
  | KI16 => (- 2 ^ 15, 2 ^ 15 - 1)
  | KI32 => (- 2 ^ 31, 2 ^ 31 - 1)
  | KU8 => (0, 2 ^ 8 - 1)
  | KU16 => (0, 2 ^ 16 - 1)
  | KU32 => (0, 2 ^ 32 - 1)
  | KU64 => (0, 2 ^ 64 - 1)
  end%Z.
Definition in_range (k : intk) (z : Z) : bool :=
  let '(lo, hi) := int_range k in (lo <=? z)%Z && (z <=? hi)%Z.
Definition int_width (k : intk) : nat :=
  match k with KI8 | KU8 => 8 | KI16 | KU16 => 16 | KI32 | KU32 => 32 | KInt | KI64 | KU64 => 64 end.
Definition int_signed (k : intk) : bool :=
  match k with KU8 | KU16 | KU32 | KU64 => false | _ => true end.

(* math.Round: nearest integer, halves away from zero *)
Definition Qround_z (q : Q) : Z :=
  if Qle_bool 0 q then Qfloor_z (Qplus q (1 # 2)) else Z.opp (Qfloor_z (Qplus (Qopp q) (1 # 2))).

Definition zeq (a b : Z) : bool := Z.eqb a b.

(* adjustForSignedBounds *)
Definition signed_type (mn mx : option Q) : intk * bool * bool :=
  let rmin := match mn with Some q => Qround_z q | None => 0%Z end in
  let rmax := match mx with Some q => Qround_z q | None => 0%Z end in
  match mn, mx with
  | None, None => (KI64, false, false)
  | None, Some _ => (KI64, false, zeq rmax (2 ^ 63))
  | Some _, None => (KI64, zeq rmin (- 2 ^ 63), false)
  | Some _, Some _ =>
      if (rmin <? - 2 ^ 31)%Z || (2 ^ 31 - 1 <? rmax)%Z then (KI64, zeq rmin (- 2 ^ 63), zeq rmax (2 ^ 63))
      else if (rmin <? - 2 ^ 15)%Z || (2 ^ 15 - 1 <? rmax)%Z then (KI32, zeq rmin (- 2 ^ 31), zeq rmax (2 ^ 31 - 1))
      else if (rmin <? - 2 ^ 7)%Z || (2 ^ 7 - 1 <? rmax)%Z then (KI16, zeq rmin (- 2 ^ 15), zeq rmax (2 ^ 15 - 1))
      else (KI8, zeq rmin (- 2 ^ 7), zeq rmax (2 ^ 7 - 1))
  end.

(* adjustForUnsignedBounds *)
Definition unsigned_type (mn mx : option Q) : intk * bool * bool :=
  let remove_min := match mn with Some q => Qeq_bool q 0 | None => false end in
  let rmax := match mx with Some q => Qround_z q | None => 0%Z end in
  match mx with
  | None => (KU64, remove_min, false)
  | Some _ =>
      if (2 ^ 32 - 1 <? rmax)%Z then (KU64, remove_min, zeq rmax (2 ^ 64))
      else if (2 ^ 16 - 1 <? rmax)%Z then (KU32, remove_min, zeq rmax (2 ^ 32 - 1))
      else if (2 ^ 8 - 1 <? rmax)%Z then (KU16, remove_min, zeq rmax (2 ^ 16 - 1))
      else (KU8, remove_min, zeq rmax (2 ^ 8 - 1))
  end.

(* getMinIntType: (type, removeMin, removeMax) *)
Definition min_int_type (b : bounds) : intk * bool * bool :=
  let '(mn, mx, emn, emx) := normalize_bounds b in
  let mn' := if emn then option_map (fun v => Qplus v 1) mn else mn in
  let mx' := if emx then option_map (fun v => Qminus v 1) mx else mx in
  match mn' with
  | Some m => if Qle_bool 0 m then unsigned_type mn' mx' else signed_type mn' mx'
  | None => signed_type mn' mx'
  end.

(* the integer case of PrimitiveTypeFromJSONSchemaType: chosen kind and the bounds left
   in the schema node (removeMin clears minimum and exclusiveMinimum, removeMax the other two) *)
Definition clear_bounds (b : bounds) (rmin rmax : bool) : bounds :=
  mkBounds (if rmin then None else b_min b) (if rmax then None else b_max b)
           (if rmin then None else b_exmin b) (if rmax then None else b_exmax b).

Definition primitive_int (min_sized : bool) (b : bounds) : intk * bounds :=
  if min_sized then
    let '(k, rmin, rmax) := min_int_type b in (k, clear_bounds b rmin rmax)
  else (KInt, b).

(* What the generated code accepts for an integer field of kind k whose schema node
   carries bounds b' and multipleOf m: encoding/json rejects integers outside the kind,
   then the numeric validator runs on the decoded value. *)
Definition accept_int_field (k : intk) (mult : option Q) (b' : bounds) (x : Z) : bool :=
  in_range k x && accept_numeric true mult b' (inject_Z x).

Definition accept_flag (flag : bool) (mult : option Q) (b : bounds) (x : Z) : bool :=
  let '(k, b') := primitive_int flag b in accept_int_field k mult b' x.
