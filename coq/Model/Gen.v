(* The generator's decisions (pkg/generator/schema_generator.go), from schema trees to the
   type tree of Model/GoType.v.  One clause per branch of the Go code; line numbers refer
   to schema_generator.go.  Naming tables (declsByName, unique suffixes) are not part of
   this file: a declared type carries the name its scope gives it (Model/Ident.v has the
   de-duplication).  allOf: the branches are resolved and merged (Model/Merge.v) and the merged schema is generated inline; anyOf (inline branches): the branch types, and the merged struct with the anyOf validator. *)
From GJS Require Export Base Bounds IntSize Regex Schema GoType Ident Merge.

Inductive res (A : Type) := Done (a : A) | GErr | GUnmod | GFuel.
Arguments Done {A} a. Arguments GErr {A}. Arguments GUnmod {A}. Arguments GFuel {A}.
Definition rbind {A B} (r : res A) (f : A -> res B) : res B :=
  match r with Done a => f a | GErr => GErr | GUnmod => GUnmod | GFuel => GFuel end.
Fixpoint rmap {A B} (f : A -> res B) (l : list A) : res (list B) :=
  match l with
  | [] => Done []
  | x :: r => rbind (f x) (fun y => rbind (rmap f r) (fun ys => Done (y :: ys)))
  end.

Record cfg := mkCfg { g_minsized : bool; g_only_models : bool }.

Inductive mode := MInline | MDeclared | MType.

Definition s_Elem : str := [69; 108; 101; 109]%N.
Definition s_Value : str := [86; 97; 108; 117; 101]%N.
Definition s_AdditionalProperties : str :=
  [65; 100; 100; 105; 116; 105; 111; 110; 97; 108; 80; 114; 111; 112; 101; 114; 116; 105; 101; 115]%N.

Definition wrap_ptr (ptr : bool) (t : gty) : gty :=
  if ptr then match t with TPtr _ => t | _ => TPtr t end else t.

Section Gen.
Variable idf : str -> str.            (* Caser.Identifierize under the configured capitalisations *)
Variable cf : cfg.
Variable defs : list (str * schema).  (* the definitions of the file *)

(* codegen.PrimitiveTypeFromJSONSchemaType: the Go type and the bounds left in the node *)
Definition primitive (t : sty) (fmt : option fmtk) (ptr : bool) (b : bounds) : res (gty * bounds) :=
  match t with
  | SString => Done (wrap_ptr ptr (match fmt with Some f => TFmt f | None => TString end), b)
  | SNumber => Done (wrap_ptr ptr TFloat, b)
  | SInteger => let '(k, b') := primitive_int (g_minsized cf) b in Done (wrap_ptr ptr (TInt k), b')
  | SBoolean => Done (wrap_ptr ptr TBool, b)
  | SNull => Done (TNullT, b)
  | SObject | SArray | SUnknown => GErr
  end.

(* determineTypeName (539-604), without the allOf/anyOf inference *)
Definition determine_type (c : scon) : sty * bool :=
  match c_types c with
  | [] => (SNull, false)
  | [t] => (t, false)
  | [a; b] =>
      (if sty_eqb b SNull then (if sty_eqb a SNull then a else a) else b,
       sty_eqb a SNull || sty_eqb b SNull)
  | _ => (SNull, false)
  end.

(* is the declared type of definition X nillable (NamedType.IsNillable), X not in progress *)
Fixpoint def_nillable (fuel : nat) (x : str) : bool :=
  match fuel with
  | O => false
  | S f =>
      match lookup x defs with
      | None => false
      | Some d =>
          let c := s_con d in
          match c_enum c with
          | Some _ => false
          | None =>
              match c_ref c with
              | Some y => def_nillable f y
              | None =>
                  match determine_type c with
                  | (SArray, _) => true
                  | (SObject, _) => match s_props d, s_all_of d, s_any_of d with [], [], [] => true | _, _, _ => false end
                  | (SNull, _) => true
                  | (_, ptr) => ptr
                  end
              end
          end
      end
  end.

Definition has_bound_kw (mult : option Q) (b : bounds) : bool :=
  match mult, b_min b, b_max b, b_exmin b, b_exmax b with
  | None, None, None, None, None => false
  | _, _, _, _, _ => true
  end.

(* structFieldValidators, the array loop (416-440): every level is checked against the
   field's own (outermost) minItems/maxItems *)
Fixpoint array_validators (fname jname : str) (mn mx depth : nat) (t : gty) : list validator :=
  match t with
  | TSlice true e =>
      match e with
      | TNullT => [VNullType fname jname depth]
      | _ => (if negb (Nat.eqb mn 0) || negb (Nat.eqb mx 0) then [VArray fname jname depth mn mx] else [])
             ++ array_validators fname jname mn mx (S depth) e
      end
  | _ => []
  end.

(* structFieldValidators (359-443); [b]: the bounds left in the node after type generation *)
Fixpoint field_validators (fname jname : str) (c : scon) (b : bounds) (t : gty) (nillable : bool) : list validator :=
  match t with
  | TNullT => [VNullType fname jname 0]
  | TPtr t' => field_validators fname jname c b t' true
  | TString => if has_string_kw c then [VString fname jname nillable (c_min_len c) (c_max_len c) (c_pattern c)] else []
  | TInt _ => if has_bound_kw (c_mult c) b then [VNumeric fname jname nillable true (c_mult c) b] else []
  | TFloat => if has_bound_kw (c_mult c) b then [VNumeric fname jname nillable false (c_mult c) b] else []
  | TSlice true _ => array_validators fname jname (c_min_items c) (c_max_items c) 1 t
  | _ => []
  end.

(* defaultPropertyValue (868-902): a typed additionalProperties replaces the declared default
   by an empty map (D36) *)
Definition default_property_value (p : schema) (dv : json) : json :=
  match s_addl p with
  | Some a =>
      match c_types (s_con a) with
      | [SString] | [SArray] | [SNumber] | [SInteger] | [SBoolean] => JObj []
      | _ => dv
      end
  | None => dv
  end.

(* enum values -> table entries (1010-1082) *)
Definition ev_of_json (j : json) : option ev :=
  match j with
  | JNull => Some EVNil | JBool b => Some (EVBool b) | JNum n => Some (EVFloat (nq n)) | JStr s => Some (EVStr s)
  | _ => None
  end.
Fixpoint all_numbers_to_int (l : list json) : option (list ev) :=
  match l with
  | [] => Some []
  | JNum n :: r =>
      (* an integral member inside the int range becomes an int; any other number stays the float64 it was decoded as (it can never equal an int) *)
      match all_numbers_to_int r with
      | Some es => Some ((if Qis_int (nq n) && in_range KInt (Qtrunc_z (nq n)) then EVInt (Qtrunc_z (nq n)) else EVFloat (nq n)) :: es)
      | None => None
      end
  | _ => None
  end.
Inductive vkind := VKNone | VKIface | VKStr | VKNum | VKBool.
Definition vkind_eqb (a b : vkind) : bool :=
  match a, b with VKNone, VKNone | VKIface, VKIface | VKStr, VKStr | VKNum, VKNum | VKBool, VKBool => true | _, _ => false end.
(* the inference loop; None = a non-primitive value was met before the loop broke *)
Fixpoint infer_kind (l : list json) (cur : vkind) : option vkind :=
  match l with
  | [] => Some cur
  | v :: r =>
      match (match v with JNull => Some VKIface | JStr _ => Some VKStr | JNum _ => Some VKNum | JBool _ => Some VKBool | _ => None end) with
      | None => None
      | Some k =>
          if vkind_eqb cur VKNone then infer_kind r k
          else if vkind_eqb cur k then infer_kind r cur
          else Some VKIface            (* break *)
      end
  end.

(* generateDeclaredType, after the type has been generated (285-357): named types are not declared
   again; a struct / primitive keeps its validators as a method *)
Definition declare (scope : str) (sub : bool) (c : scon) (r : gty * bounds) : res (gty * bounds) :=
  let '(t, b) := r in
  if is_named_ty t then Done (t, b)
  else
    let om (vs : list validator) (force : bool) : option (list validator) :=
      if g_only_models cf then None
      else if force || sub || negb (Nat.eqb (length vs) 0) then Some vs else None in
    match t with
    | TStruct [] fs (Some vs) => Done (TStruct scope fs (om vs false), b)
    | TStruct [] fs None => Done (TStruct scope fs (om [] false), b)
    | TString | TBool | TFloat | TInt _ =>
        Done (TNamed scope t (om (field_validators [] [] c b t false) false), b)
    | TMap _ => Done (TNamed scope t (if g_only_models cf then None else if sub then Some [] else None), b)
    | _ => Done (TNamed scope t None, b)
    end.

(* addStructField (727-807), given the type generated for the property *)
Definition ref_nillable (self : option str) (x : str) : bool :=
  match self with
  | Some me => if str_eqb me x then false else def_nillable (S (length defs)) x
  | None => def_nillable (S (length defs)) x
  end.

Definition finfo := (field * bool * list validator)%type.     (* field, counts as required, its validators *)

Definition make_field (c : scon) (self : option str) (fname k : str) (p : schema) (ty : gty) (bp : bounds) : finfo :=
  let required := mem k (c_required c) in
  let pc := s_con p in
  match c_default pc with
  | Some dv =>
      let dv' := default_property_value p dv in
      (mkField fname k (negb required) ty (Some dv') false, false,
       VDefault fname k ty dv' :: field_validators fname k pc bp ty false)
  | None =>
      if required then (mkField fname k false ty None false, true, field_validators fname k pc bp ty false)
      else
        let ty' := if nillable_ty (ref_nillable self) ty then ty else TPtr ty in
        (mkField fname k true ty' None false, false, field_validators fname k pc bp ty' false)
  end.

Definition gen_field (rec : schema -> str -> res (gty * bounds)) (c : scon) (self : option str) (scope : str)
                     (np : str * (str * schema)) : res finfo :=
  let '(fname, (k, p)) := np in
  rbind (rec p (scope ++ fname)) (fun r => Done (make_field c self fname k p (fst r) (snd r))).

(* the struct type and its validator list: required checks first, then per field in order (301-338),
   then the additionalProperties field (653-718) *)
Definition build_struct (s : schema) (b0 : bounds) (infos : list finfo) : res (gty * bounds) :=
  let fields := map (fun i : finfo => fst (fst i)) infos in
  let reqs := flat_map (fun i : finfo => if snd (fst i) then [VRequired (f_json (fst (fst i)))] else []) infos in
  let fvs := flat_map (fun i : finfo => snd i) infos in
  match s_addl s, s_addl_false s with
  | Some a, false =>
      match c_types (s_con a) with
      | _ :: _ :: _ => GErr
      | [t] =>
          let vt := match t with
                    | SString => TString | SArray => TSlice false TIface | SNumber => TFloat
                    | SInteger => TInt KInt | SBoolean => TBool | _ => TIface end in
          let fa := mkField s_AdditionalProperties [] false (TMap vt) (Some (JObj [])) true in
          Done (TStruct [] (fields ++ [fa]) (Some (reqs ++ fvs ++ [VDefault s_AdditionalProperties [] (TMap vt) (JObj [])])), b0)
      | [] =>
          let fa := mkField s_AdditionalProperties [] false TIface None true in
          Done (TStruct [] (fields ++ [fa]) (Some (reqs ++ fvs)), b0)
      end
  | _, _ => Done (TStruct [] fields (Some (reqs ++ fvs)), b0)
  end.

(* resolveRefs (1150-1186): a branch given by reference is replaced by the schema of the definition it names;
   definitions that are themselves references, enums or composites are outside the model *)
Definition resolve_branches (bs : list schema) : res (list schema) :=
  rmap (fun b =>
          match c_ref (s_con b) with
          | None => Done b
          | Some x =>
              match lookup x defs with
              | None => GErr
              | Some d =>
                  match c_ref (s_con d), c_enum (s_con d), s_all_of d, s_any_of d, c_types (s_con d), s_props d with
                  | None, None, [], [], _ :: _, _ | None, None, [], [], _, _ :: _ => Done d
                  | _, _, _, _, _, _ => GUnmod
                  end
              end
          end) bs.

(* generateAllOfType (857-869): resolve, merge, generate the merged schema inline *)
Definition all_of_schema (bs : list schema) : res schema :=
  rbind (resolve_branches bs) (fun rs =>
    if existsb (fun b => match s_all_of b, s_any_of b with [], [] => false | _, _ => true end) rs then GUnmod
    else match merge_types rs with Some m => Done m | None => GUnmod end).

Definition prop_names (props : list (str * schema)) : list (str * (str * schema)) :=
  let sorted := sort_props props in
  combine (field_names (map (fun kp => idf (fst kp)) sorted)) sorted.

Fixpoint gen (fuel : nat) (m : mode) (self : option str) (sub : bool) (s : schema) (scope : str) {struct fuel}
  : res (gty * bounds) :=
  match fuel with
  | O => GFuel
  | S f =>
  let c := s_con s in
  let b0 := c_bounds c in
  match m with
  (* ---------------- generateTypeInline (904-999) ---------------- *)
  | MInline =>
      match c_enum c, c_ref c with
      | None, None =>
          match s_any_of s, s_all_of s with
          | (_ :: _) as bs, _ =>
              (* generateAnyOfType (822-865): every branch is generated inline as <scope>_<i> (a sub-schema element: it always gets a method), the
                 branches are merged like allOf members and the merged struct <scope> gets the anyOf validator alone.  A branch given by reference
                 is the declared type of the definition it names (which keeps its own method).  Composite branches and references to the
                 definition being generated (cycles) are outside the model. *)
              if existsb (fun b => match s_all_of b, s_any_of b with [], [] => false | _, _ => true end) bs then GUnmod
              else if existsb (fun b => match c_ref (s_con b), self with Some x, Some me => str_eqb x me | _, _ => false end) bs then GUnmod
              else
                rbind (resolve_branches bs) (fun rs =>
                if existsb (fun b => match s_all_of b, s_any_of b with [], [] => false | _, _ => true end) rs then GUnmod
                else
                rbind (rmap (fun ib => match c_ref (s_con (snd ib)) with
                                       | Some x => Done (TRef x, c_bounds (s_con (snd ib)))       (* the declared type of the definition *)
                                       | None => gen f MInline self true (snd ib) (suffixed scope (fst ib))
                                       end) (combine (seq 0 (length bs)) bs)) (fun brs =>
                  match merge_types rs with
                  | None => GUnmod
                  | Some m =>
                      rbind (gen f MInline self false m scope) (fun r =>
                        match fst r with
                        | TStruct (ch :: nm) fs _ =>
                            Done (TStruct (ch :: nm) fs (if g_only_models cf then None else Some [VAnyOf (map fst brs)]), snd r)
                        | _ => GUnmod
                        end)
                  end))
          | [], (_ :: _) as bs => rbind (all_of_schema bs) (fun m => gen f MInline self false m scope)
          | [], [] =>
              match c_types c with
              | [] => Done (TIface, b0)
              | _ =>
                  let '(t, ptr) := determine_type c in
                  if (2 <? length (c_types c)) || ((length (c_types c) =? 2) && negb ptr) then Done (TIface, b0)
                  else if is_prim_sty t then
                    (if sub then GUnmod else primitive t (c_format c) ptr b0)
                  else match t with
                       | SArray =>
                           match s_items s with
                           | None => Done (TSlice true TIface, b0)
                           | Some it => rbind (gen f MInline self false it (scope ++ s_Elem)) (fun r => Done (TSlice true (fst r), b0))
                           end
                       | _ => gen f MDeclared self sub s scope
                       end
              end
          end
      | _, _ => gen f MDeclared self sub s scope
      end
  (* ---------------- generateDeclaredType (236-357) ---------------- *)
  | MDeclared =>
      match c_enum c with
      | Some _ => gen f MType self sub s scope       (* generateEnumType, shared with generateType *)
      | None =>
          rbind (gen f MType self sub s scope) (declare scope sub c)
      end
  (* ---------------- generateType (472-537) ---------------- *)
  | MType =>
      match c_enum c with
      | Some vals =>
          (* generateEnumType (1001-1149) *)
          match vals with
          | [] => GErr
          | _ =>
              match c_types c with
              | [t] =>
                  rbind (primitive t (c_format c) false b0) (fun r =>
                    let '(carrier, b) := r in
                    match t with
                    | SInteger =>
                        match all_numbers_to_int vals with
                        | Some es => Done (TEnum scope carrier false es, b)
                        | None => GErr
                        end
                    | _ =>
                        match rmap (fun v => match ev_of_json v with Some e => Done e | None => GUnmod end) vals with
                        | Done es => Done (TEnum scope carrier (sty_eqb t SNull) es, b)
                        | _ => GUnmod
                        end
                    end)
              | _ =>
                  match infer_kind vals VKNone with
                  | None => GErr
                  | Some k =>
                      let carrier := match k with VKStr => TString | VKNum => TFloat | VKBool => TBool | _ => TIface end in
                      match rmap (fun v => match ev_of_json v with Some e => Done e | None => GUnmod end) vals with
                      | Done es => Done (TEnum scope carrier (vkind_eqb k VKIface) es, b0)
                      | _ => GUnmod
                      end
                  end
              end
          end
      | None =>
      match c_ref c with
      | Some x =>
          (* generateReferencedType (73-198), same file *)
          match lookup x defs with
          | None => GErr
          | Some d =>
              match c_types (s_con d), s_props d with
              | [], [] => Done (TIface, b0)
              | _, _ => Done (TRef x, b0)
              end
          end
      | None =>
          match s_any_of s, s_all_of s, c_types c with
          | _ :: _, _, [] => GUnmod
          | _, _ :: _, [] => GUnmod
          | _, _, _ =>
          let '(t, ptr) := determine_type c in
          match t with
          | SArray =>
              match s_items s with
              | None => GErr
              | Some it => rbind (gen f MType self false it (scope ++ s_Elem)) (fun r => Done (TSlice false (fst r), b0))
              end
          | SObject =>
              (* generateStructType (606-725) *)
              match s_props s, s_all_of s, s_any_of s with
              | [], [], [] =>
                  match s_addl s with
                  | Some a => rbind (gen f MType self false a (scope ++ s_Value)) (fun r => Done (TMap (fst r), b0))
                  | None => Done (TMap TIface, b0)
                  end
              | _, _ :: _, _ | _, _, _ :: _ => GUnmod
              | props, [], [] =>
                  rbind (rmap (gen_field (fun p sc => gen f MInline self false p sc) c self scope) (prop_names props))
                        (build_struct s b0)
              end
          | SNull => Done (TIface, b0)
          | _ => primitive t (c_format c) ptr b0
          end
          end
      end
      end
  end
  end.

End Gen.

(* ---------- a whole file: definitions in sorted order, then the root (45-71) ---------- *)
Record program := mkProg { p_defs : list (str * gty); p_root : option gty }.

Definition gen_fuel : nat := 60.

Definition gen_file (idf : str -> str) (cf : cfg) (defs : list (str * schema)) (root : schema) (root_name : str) : res program :=
  rbind (rmap (fun kd => rbind (gen idf cf defs gen_fuel MDeclared (Some (fst kd)) false (snd kd) (idf (fst kd)))
                          (fun r => Done (fst kd, fst r)))
              (sort_props defs))
        (fun ds =>
           match c_types (s_con root) with
           | [] => Done (mkProg ds None)
           | _ => rbind (gen idf cf defs gen_fuel MDeclared None false root root_name) (fun r => Done (mkProg ds (Some (fst r))))
           end).
