(* Decoding of the keywords that have more than one spelling (pkg/schemas/model.go:48-75,
   86-110, 229-267; schema_generator.go:200-234 extractRefNames), over JSON trees. *)
From GJS Require Export Base.

Definition k_id : str := [36; 105; 100]%N.                 (* "$id" *)
Definition k_legacy_id : str := [105; 100]%N.              (* "id" *)
Definition k_defs : str := [36; 100; 101; 102; 115]%N.     (* "$defs" *)
Definition k_definitions : str := [100; 101; 102; 105; 110; 105; 116; 105; 111; 110; 115]%N.
Definition k_dependent_schemas : str := [100; 101; 112; 101; 110; 100; 101; 110; 116; 83; 99; 104; 101; 109; 97; 115]%N.
Definition k_dependencies : str := [100; 101; 112; 101; 110; 100; 101; 110; 99; 105; 101; 115]%N.
Definition k_not : str := [110; 111; 116]%N.

Definition obj := list (str * json).

Definition str_field (k : str) (o : obj) : str := match lookup k o with Some (JStr s) => s | _ => [] end.

(* Schema.UnmarshalJSON: fall back to id if $id is not present (empty) *)
Definition decode_id (o : obj) : str := match str_field k_id o with [] => str_field k_legacy_id o | s => s end.

(* $defs wins; definitions is used when $defs is absent (or null) *)
Definition present (k : str) (o : obj) : option json := match lookup k o with Some JNull | None => None | Some j => Some j end.
Definition decode_defs (o : obj) : option json := match present k_defs o with Some d => Some d | None => present k_definitions o end.
Definition decode_dependents (o : obj) : option json :=
  match present k_dependent_schemas o with Some d => Some d | None => present k_dependencies o end.

(* TypeList.UnmarshalJSON: a string or a list of strings *)
Fixpoint all_strings (l : list json) : option (list str) :=
  match l with
  | [] => Some []
  | JStr s :: r => match all_strings r with Some ss => Some (s :: ss) | None => None end
  | _ => None
  end.
Definition decode_type_list (j : json) : option (list str) :=
  match j with
  | JStr [] => Some []
  | JStr s => Some [s]
  | JArr l => all_strings l
  | _ => None
  end.

(* Type.UnmarshalJSON: true is {} and false is {"not": {}} *)
Definition decode_bool_schema (j : json) : json :=
  match j with
  | JBool true => JObj []
  | JBool false => JObj [(k_not, JObj [])]
  | _ => j
  end.

(* extractRefNames: file part, and the definition name after a case-insensitively matched pointer prefix *)
Definition ascii_lower (c : N) : N := if N.leb 65 c && N.leb c 90 then (c + 32)%N else c.
Definition p_defs : str := [47; 36; 100; 101; 102; 115; 47]%N.                          (* "/$defs/" *)
Definition p_definitions : str := [47; 100; 101; 102; 105; 110; 105; 116; 105; 111; 110; 115; 47]%N.   (* "/definitions/" *)
Fixpoint is_prefix_s (a b : str) : bool :=
  match a, b with [], _ => true | x :: a', y :: b' => N.eqb x y && is_prefix_s a' b' | _, _ => false end.
Fixpoint split_hash (s : str) : str * option str :=
  match s with
  | [] => ([], None)
  | c :: r => if N.eqb c 35 then ([], Some r) else let '(a, b) := split_hash r in (c :: a, b)
  end.
(* Some (definition name, file name) | None = error *)
Definition extract_ref_names (r : str) : option (str * str) :=
  match split_hash r with
  | (file, None) => Some ([], file)
  | (file, Some scope) =>
      let low := map ascii_lower scope in
      if is_prefix_s p_defs low then Some (skipn (length p_defs) scope, file)
      else if is_prefix_s p_definitions low then Some (skipn (length p_definitions) scope, file)
      else None
  end.
