(* What the emitted code does at run time: encoding/json decoding into the generated types,
   the Unmarshal methods laid out by json_formatter.go, and the validators of validator.go.
   The runtime rules transcribed here (DESIGN.md, appendix "runtime rules") were each probed
   on the real runtime; this file is a model of Go library behaviour and is listed in the
   trusted base.  Outcomes: Ok v | Err (the method returns an error) | Crash (panic, or code
   that cannot have compiled) | NoFuel. *)
From GJS Require Export Base Bounds IntSize Regex Schema GoType.

Section Exec.
Variable fmt_ok : fmtk -> str -> bool.      (* does the format's parser accept this text (oracle) *)
Variable env : list (str * gty).            (* declared type of every definition *)

Definition has_method (t : gty) : bool :=
  match t with
  | TStruct (_ :: _) _ (Some _) | TNamed _ _ (Some _) | TEnum _ _ _ _ => true
  | _ => false
  end.

Definition s_Value_f : str := [86; 97; 108; 117; 101]%N.

(* ---------- zero values ---------- *)
(* the zero value of a field that the document does not mention.  A by-value reference to a
   definition is only left at its zero value when the key is required (rejected before) or nillable
   (nil): GNil stands for it. *)
Fixpoint zero (t : gty) : gval :=
  match t with
  | TString => GS [] | TBool => GB false | TFloat => GF 0 | TInt _ => GI 0
  | TIface | TNullT | TPtr _ | TSlice _ _ | TMap _ => GNil
  | TFmt _ => GFm None
  | TStruct _ fs _ =>
      GSt ((fix go (fs : list field) : list (str * gval) :=
              match fs with [] => [] | mkField n _ _ ty _ _ :: r => (n, zero ty) :: go r end) fs)
  | TNamed _ u _ => zero u
  | TEnum _ c w _ => if w then GSt [(s_Value_f, GNil)] else zero c
  | TRef _ => GNil
  end.

(* ---------- struct state ---------- *)
Fixpoint set_field (n : str) (v : gval) (fs : list (str * gval)) : list (str * gval) :=
  match fs with
  | [] => []
  | (k, x) :: r => if str_eqb n k then (k, v) :: r else (k, x) :: set_field n v r
  end.
(* plain.<fname>; fname = [] is `plain` itself *)
Definition get_plain (fname : str) (st : gval) : option gval :=
  match fname with
  | [] => Some st
  | _ => match st with GSt fs => lookup fname fs | _ => None end
  end.
Definition set_plain (fname : str) (v : gval) (st : gval) : option gval :=
  match fname with
  | [] => Some v
  | _ => match st with GSt fs => match lookup fname fs with Some _ => Some (GSt (set_field fname v fs)) | None => None end | _ => None end
  end.

(* ---------- validators that run after the typed decode ---------- *)
(* arrayValidator.generate: loops over levels 1..depth-1, then checks the lengths at the innermost level *)
Fixpoint check_array (depth : nat) (mn mx : nat) (v : gval) : outcome unit :=
  match depth with
  | O => Crash
  | S O =>
      match v with
      | GNil => (* len(nil) = 0; the min check is guarded by != nil *)
          Ok tt
      | GL l =>
          if negb (Nat.eqb mn 0) && Nat.ltb (length l) mn then Err
          else if negb (Nat.eqb mx 0) && Nat.ltb mx (length l) then Err else Ok tt
      | _ => Crash
      end
  | S d =>
      match v with
      | GNil => Ok tt
      | GL l => fold_left (fun acc x => obind acc (fun _ => check_array d mn mx x)) l (Ok tt)
      | _ => Crash
      end
  end.

(* nullTypeValidator.generate: depth loops, then `!= nil` *)
Fixpoint check_null (depth : nat) (v : gval) : outcome unit :=
  match depth with
  | O => match v with GNil => Ok tt | GJ _ => Err | _ => Crash end
  | S d =>
      match v with
      | GNil => Ok tt
      | GL l => fold_left (fun acc x => obind acc (fun _ => check_null d x)) l (Ok tt)
      | _ => Crash
      end
  end.

Definition check_string (mn mx : nat) (p : option pat) (s : str) : outcome unit :=
  if match p with Some pt => negb (pat_match pt s) | None => false end then Err
  else if negb (Nat.eqb mn 0) && Nat.ltb (utf8_len s) mn then Err
  else if negb (Nat.eqb mx 0) && Nat.ltb mx (utf8_len s) then Err
  else Ok tt.

Definition num_of (v : gval) : option Q :=
  match v with GI z => Some (inject_Z z) | GF q => Some q | _ => None end.

(* literal of a default value assigned to a field of type t (litter.Sdump of the parsed JSON) *)
Fixpoint default_val (fuel : nat) (t : gty) (dv : json) : option gval :=
  match fuel with
  | O => None
  | S f =>
      match t, dv with
      | TString, JStr s => Some (GS s)
      | TBool, JBool b => Some (GB b)
      | TFloat, JNum n => Some (GF (nq n))
      | TInt k, JNum n => if Qis_int (nq n) && in_range k (Qfloor_z (nq n)) then Some (GI (Qfloor_z (nq n))) else None
      | TIface, JNull => None
      | TIface, j => Some (GJ j)
      | TSlice _ e, JArr l =>
          match (fix go (l : list json) : option (list gval) :=
                   match l with
                   | [] => Some []
                   | x :: r => match default_val f e x, go r with Some v, Some vs => Some (v :: vs) | _, _ => None end
                   end) l with
          | Some vs => Some (GL vs)
          | None => None
          end
      | TMap _, JObj [] => Some (GM [])
      | TEnum _ c false _, j => default_val f c j
      | TNamed _ u _, j => default_val f u j
      | TRef d, j => match lookup d env with Some u => default_val f u j | None => None end
      | _, _ => None
      end
  end.

Definition dv_fuel : nat := 50.
Arguments default_val : simpl never.

(* reflect.DeepEqual of a decoded carrier value with a table entry: same dynamic type, same value.
   Table integers are Go `int`; a sized carrier never equals them (D15). *)
Definition enum_eq (carrier : gty) (v : gval) (e : ev) : bool :=
  match v, e with
  | GNil, EVNil => true
  | GS a, EVStr b => str_eqb a b
  | GB a, EVBool b => Bool.eqb a b
  | GF a, EVFloat b => Qeq_bool a b
  | GI a, EVInt b => match carrier with TInt KInt => Z.eqb a b | _ => false end
  | GJ (JStr a), EVStr b => str_eqb a b
  | GJ (JBool a), EVBool b => Bool.eqb a b
  | GJ (JNum a), EVFloat b => Qeq_bool (nq a) b
  | _, _ => false
  end.

(* mapstructure.Decode of one raw value into the typed additional-properties map *)
Definition ms_decode (vt : gty) (j : json) : outcome gval :=
  match vt, j with
  | TIface, JNull => Ok GNil
  | TIface, _ => Ok (GJ j)
  | TString, JStr s => Ok (GS s)
  | TBool, JBool b => Ok (GB b)
  | TFloat, JNum n => Ok (GF (nq n))
  | TInt _, JNum n => Ok (GI (Qtrunc_z (nq n)))          (* float64 -> int truncates (D13) *)
  | TSlice _ TIface, JArr l => Ok (GL (map (fun x => match x with JNull => GNil | _ => GJ x end) l))
  | TString, JNull | TBool, JNull | TFloat, JNull | TInt _, JNull => Ok (match vt with TString => GS [] | TBool => GB false | TFloat => GF 0 | _ => GI 0 end)
  | TSlice _ TIface, JNull => Ok GNil
  | _, _ => Err
  end.

Fixpoint remove_keys (ks : list str) (kv : list (str * json)) : list (str * json) :=
  match kv with
  | [] => []
  | (k, v) :: r => if mem k ks then remove_keys ks r else (k, v) :: remove_keys ks r
  end.

(* ---------- the Unmarshal method laid out by json_formatter.generate ---------- *)
(* [decf]: decoding of component types (the recursive knot is tied in [dec] below);
   [zf]: zero values;  [dvf]: default literals *)
Section Method.
Variable decf : gty -> json -> outcome gval.
Variable zf : gty -> gval.
Variable dvf : gty -> json -> option gval.

(* json.Unmarshal(value, &plain) for the method-less shadow type of a struct *)
Definition plain_fields (fs : list field) (j : json) : outcome gval :=
  match j with
  | JNull => Ok (GSt (map (fun fl => (f_name fl, zf (f_ty fl))) fs))
  | JObj kv =>
      obind (omap (fun fl =>
               if f_addl fl then Ok (f_name fl, zf (f_ty fl))
               else match lookup (f_json fl) kv with
                    | Some x => obind (decf (f_ty fl) x) (fun v => Ok (f_name fl, v))
                    | None => Ok (f_name fl, zf (f_ty fl))
                    end) fs)
            (fun vs => Ok (GSt vs))
  | _ => Err
  end.

Definition raw_t := option (option (list (str * json))).   (* None: `raw` not declared; Some None: nil map *)

(* one validator that runs after the typed decode *)
Definition after_step (raw : raw_t) (st : gval) (v : validator) : outcome gval :=
  match v with
  | VRequired _ | VAnyOf _ => Ok st
  | VNullType fname _ depth =>
      match get_plain fname st with
      | Some x => obind (check_null depth x) (fun _ => Ok st)
      | None => Crash
      end
  | VDefault fname jname ty dv =>
      match raw with
      | None => Crash                   (* `raw` undeclared *)
      | Some r =>
          let missing := match r with
                         | None => true
                         | Some kv => match lookup jname kv with None | Some JNull => true | _ => false end
                         end in
          if missing then
            match dvf ty dv with
            | Some d => match set_plain fname d st with Some st' => Ok st' | None => Crash end
            | None => Crash             (* literal not assignable: does not compile *)
            end
          else Ok st
      end
  | VArray fname _ depth mn mx =>
      match get_plain fname st with
      | Some x => obind (check_array depth mn mx x) (fun _ => Ok st)
      | None => Crash
      end
  | VString fname _ nillable mn mx p =>
      match get_plain fname st, nillable with
      | Some GNil, true => Ok st
      | Some (GP (GS s)), true => obind (check_string mn mx p s) (fun _ => Ok st)
      | Some (GS s), false => obind (check_string mn mx p s) (fun _ => Ok st)
      | _, _ => Crash
      end
  | VNumeric fname _ nillable rnd mult b =>
      let chk x := match num_of x with
                   | Some q => if accept_numeric rnd mult b q then Ok st else Err
                   | None => Crash
                   end in
      match get_plain fname st, nillable with
      | Some GNil, true => Ok st
      | Some (GP x), true => chk x
      | Some x, false => match x with GI _ | GF _ => chk x | _ => Crash end
      | _, _ => Crash
      end
  end.

Definition run_after (vs : list validator) (raw : raw_t) (st : gval) : outcome gval :=
  fold_left (fun acc v => obind acc (fun st => after_step raw st v)) vs (Ok st).

(* one validator that runs before the typed decode *)
Definition before_step (raw : raw_t) (j : json) (v : validator) : outcome unit :=
  match v with
  | VRequired k =>
      match raw with
      | Some (Some kv) => match lookup k kv with Some _ => Ok tt | None => Err end
      | Some None => Ok tt
      | None => Crash
      end
  | VAnyOf branches =>
      let results := map (fun bt => decf bt j) branches in
      if existsb (fun r => match r with Crash => true | _ => false end) results then Crash
      else if existsb (fun r => match r with NoFuel => true | _ => false end) results then NoFuel
      else if existsb (fun r => match r with Ok _ => true | _ => false end) results then Ok tt else Err
  | _ => Ok tt
  end.

Definition run_before (vs : list validator) (raw : raw_t) (j : json) : outcome unit :=
  fold_left (fun acc v => obind acc (fun _ => before_step raw j v)) vs (Ok tt).

(* the additional-properties block (json_formatter.go:70-89) *)
Definition addl_block (fl : list field) (raw : raw_t) (st : gval) : outcome gval :=
  match find f_addl fl with
  | None => Ok st
  | Some fa =>
      match raw with
      | None => Crash                                    (* `raw` undeclared (D5) *)
      | Some r =>
          let known := map f_name fl ++ map f_json fl in
          match f_ty fa, r with
          | TIface, None => Ok st                        (* Decode(nil map, &interface{}) *)
          | TIface, Some kv =>
              match set_plain (f_name fa) (GJ (JObj (remove_keys known kv))) st with Some st' => Ok st' | None => Crash end
          | TMap vt, None => Crash                       (* nil map into a typed map panics (D30) *)
          | TMap vt, Some kv =>
              obind (omap (fun p => obind (ms_decode vt (snd p)) (fun v => Ok (fst p, v))) (remove_keys known kv))
                    (fun m => match set_plain (f_name fa) (GM m) st with Some st' => Ok st' | None => Crash end)
          | _, _ => Crash
          end
      end
  end.

(* [fs]: Some fields for a struct, None for a named non-struct type whose underlying type is [under] *)
Definition run_method (fs : option (list field)) (under : gty) (vs : list validator) (j : json) : outcome gval :=
  let need_raw := existsb v_before vs || existsb v_raw_after vs in
  let rawo : outcome raw_t :=
    if need_raw then
      match j with
      | JNull => Ok (Some None)
      | JObj kv => Ok (Some (Some kv))
      | _ => Err
      end
    else Ok None in
  obind rawo (fun raw =>
  obind (run_before vs raw j) (fun _ =>
  obind (match fs with Some fl => plain_fields fl j | None => decf under j end) (fun st =>
  obind (run_after vs raw st) (fun st =>
  match fs with Some fl => addl_block fl raw st | None => Ok st end)))).
End Method.

(* ---------- decoding ---------- *)
Fixpoint dec (fuel : nat) (t : gty) (j : json) {struct fuel} : outcome gval :=
  match fuel with
  | O => NoFuel
  | S f =>
  match t with
  | TString => match j with JStr s => Ok (GS s) | JNull => Ok (GS []) | _ => Err end
  | TBool => match j with JBool b => Ok (GB b) | JNull => Ok (GB false) | _ => Err end
  | TFloat => match j with JNum n => Ok (GF (nq n)) | JNull => Ok (GF 0) | _ => Err end
  | TInt k =>
      match j with
      | JNum n => if nlit_int n && Qis_int (nq n) && in_range k (Qfloor_z (nq n)) then Ok (GI (Qfloor_z (nq n))) else Err
      | JNull => Ok (GI 0)
      | _ => Err
      end
  | TIface | TNullT => match j with JNull => Ok GNil | _ => Ok (GJ j) end
  | TFmt k =>
      match j with
      | JStr s => if fmt_ok k s then Ok (GFm (Some s)) else Err
      | JNull => Ok (GFm None)
      | _ => Err
      end
  | TPtr u => match j with JNull => Ok GNil | _ => obind (dec f u j) (fun v => Ok (GP v)) end
  | TSlice _ e =>
      match j with
      | JNull => Ok GNil
      | JArr l => obind (omap (dec f e) l) (fun vs => Ok (GL vs))
      | _ => Err
      end
  | TMap e =>
      match j with
      | JNull => Ok GNil
      | JObj kv => obind (omap (fun p => obind (dec f e (snd p)) (fun v => Ok (fst p, v))) kv) (fun m => Ok (GM m))
      | _ => Err
      end
  | TStruct name fs plan =>
      match name, plan with
      | _ :: _, Some vs => run_method (dec f) zero (default_val dv_fuel) (Some fs) t vs j
      | _, _ => plain_fields (dec f) zero fs j
      end
  | TNamed _ u plan =>
      match plan with
      | Some vs => run_method (dec f) zero (default_val dv_fuel) None u vs j
      | None => dec f u j
      end
  | TEnum _ c w vals =>
      (* enumUnmarshal: decode into the carrier (or .Value), then the membership loop *)
      obind (dec f c j) (fun v =>
        if existsb (enum_eq c v) vals then Ok (if w then GSt [(s_Value_f, v)] else v) else Err)
  | TRef d => match lookup d env with Some u => dec f u j | None => Crash end
  end
  end.

End Exec.

Definition exec_fuel : nat := 200.
