(* Shared vocabulary: strings as code-point lists, JSON trees, exact numbers. *)
From Coq Require Export List NArith ZArith QArith Bool Lia.
Export ListNotations.
Close Scope Q_scope.
Open Scope nat_scope.

Definition str := list N.

Fixpoint str_eqb (a b : str) : bool :=
  match a, b with
  | [], [] => true
  | x :: a', y :: b' => N.eqb x y && str_eqb a' b'
  | _, _ => false
  end.

Lemma str_eqb_eq a b : str_eqb a b = true <-> a = b.
Proof.
  revert b; induction a as [|x a IH]; destruct b as [|y b]; cbn; try (split; congruence).
  rewrite andb_true_iff, N.eqb_eq, IH.
  split; [intros [-> ->]; reflexivity | intros H; inversion H; auto].
Qed.

Lemma str_eqb_refl a : str_eqb a a = true.
Proof. apply str_eqb_eq; reflexivity. Qed.

Lemma str_eqb_neq a b : str_eqb a b = false <-> a <> b.
Proof.
  split.
  - intros H E. subst. rewrite str_eqb_refl in H. discriminate.
  - intros H. destruct (str_eqb a b) eqn:E; [|reflexivity]. apply str_eqb_eq in E. contradiction.
Qed.

Lemma str_eqb_sym a b : str_eqb a b = str_eqb b a.
Proof.
  destruct (str_eqb a b) eqn:E; symmetry.
  - apply str_eqb_eq in E; subst; apply str_eqb_refl.
  - apply str_eqb_neq. apply str_eqb_neq in E. congruence.
Qed.

Lemma str_eq_dec (a b : str) : {a = b} + {a <> b}.
Proof. destruct (str_eqb a b) eqn:E; [left; apply str_eqb_eq; auto | right; apply str_eqb_neq; auto]. Defined.

(* lexicographic order on code points = Go's string order on valid UTF-8 *)
Fixpoint str_ltb (a b : str) : bool :=
  match a, b with
  | [], [] => false
  | [], _ :: _ => true
  | _ :: _, [] => false
  | x :: a', y :: b' => if N.ltb x y then true else if N.eqb x y then str_ltb a' b' else false
  end.
Definition str_leb (a b : str) : bool := negb (str_ltb b a).

Definition mem (k : str) (l : list str) : bool := existsb (str_eqb k) l.

Lemma mem_In k l : mem k l = true <-> In k l.
Proof.
  unfold mem. rewrite existsb_exists. split.
  - intros [x [Hin E]]. apply str_eqb_eq in E. subst; auto.
  - intros H. exists k. split; auto. apply str_eqb_refl.
Qed.

Fixpoint lookup {A} (k : str) (kv : list (str * A)) : option A :=
  match kv with
  | [] => None
  | (k', v) :: r => if str_eqb k k' then Some v else lookup k r
  end.

Lemma lookup_In {A} k (kv : list (str * A)) v : lookup k kv = Some v -> In (k, v) kv.
Proof.
  induction kv as [|[k' v'] r IH]; cbn; [discriminate|].
  destruct (str_eqb k k') eqn:E.
  - apply str_eqb_eq in E. subst. intros H; inversion H; auto.
  - auto.
Qed.

Lemma lookup_None {A} k (kv : list (str * A)) : lookup k kv = None <-> ~ In k (map fst kv).
Proof.
  induction kv as [|[k' v'] r IH]; cbn; [tauto|].
  destruct (str_eqb k k') eqn:E.
  - apply str_eqb_eq in E. subst. split; [discriminate | intros H; exfalso; apply H; auto].
  - apply str_eqb_neq in E. rewrite IH. split; [intros H [H1|H1]; [congruence|auto] | tauto].
Qed.

Lemma lookup_NoDup_In {A} k (v : A) kv : NoDup (map fst kv) -> In (k, v) kv -> lookup k kv = Some v.
Proof.
  induction kv as [|[k' v'] r IH]; cbn; [tauto|].
  intros ND [H|H].
  - inversion H; subst. rewrite str_eqb_refl. reflexivity.
  - inversion ND as [|? ? Hn ND']; subst.
    destruct (str_eqb k k') eqn:E.
    + apply str_eqb_eq in E; subst. exfalso. apply Hn. change k' with (fst (k', v)). apply in_map; auto.
    + auto.
Qed.

(* ---------- numbers: exact rationals with the way they were written ---------- *)
(* nlit_int: written as a bare integer literal (no '.', no exponent).  encoding/json
   rejects 5.0 and 1e2 for Go integer kinds although they denote integers. *)
Record num := mkNum { nq : Q; nlit_int : bool }.

Definition Qis_int (q : Q) : bool := Z.eqb (Z.rem (Qnum q) (Z.pos (Qden q))) 0.
Definition Qfloor_z (q : Q) : Z := Z.div (Qnum q) (Z.pos (Qden q)).
Definition Qtrunc_z (q : Q) : Z := Z.quot (Qnum q) (Z.pos (Qden q)).   (* Go's int64(f) *)

Definition Qltb (a b : Q) : bool := negb (Qle_bool b a).
Definition Qgtb (a b : Q) : bool := negb (Qle_bool a b).
Definition Qgeb (a b : Q) : bool := Qle_bool b a.

Lemma Qle_bool_spec a b : reflect (a <= b)%Q (Qle_bool a b).
Proof. apply iff_reflect. symmetry. apply Qle_bool_iff. Qed.

Lemma Qeq_bool_spec a b : reflect (a == b)%Q (Qeq_bool a b).
Proof. apply iff_reflect. symmetry. apply Qeq_bool_iff. Qed.

(* ---------- JSON ---------- *)
Inductive json :=
| JNull
| JBool (b : bool)
| JNum (n : num)
| JStr (s : str)
| JArr (l : list json)
| JObj (kv : list (str * json)).

Definition JInt (z : Z) : json := JNum (mkNum (inject_Z z) true).
Definition JQ (q : Q) : json := JNum (mkNum q false).

Inductive jtype := JTNull | JTBool | JTNum | JTStr | JTArr | JTObj.
Definition json_type (j : json) : jtype :=
  match j with
  | JNull => JTNull | JBool _ => JTBool | JNum _ => JTNum | JStr _ => JTStr | JArr _ => JTArr | JObj _ => JTObj
  end.

(* structural induction principle that reaches inside arrays and objects *)
Section JsonInd.
  Variable P : json -> Prop.
  Hypothesis Hnull : P JNull.
  Hypothesis Hbool : forall b, P (JBool b).
  Hypothesis Hnum : forall n, P (JNum n).
  Hypothesis Hstr : forall s, P (JStr s).
  Hypothesis Harr : forall l, Forall P l -> P (JArr l).
  Hypothesis Hobj : forall kv, Forall (fun p => P (snd p)) kv -> P (JObj kv).
  Fixpoint json_ind' (j : json) : P j :=
    match j with
    | JNull => Hnull
    | JBool b => Hbool b
    | JNum n => Hnum n
    | JStr s => Hstr s
    | JArr l => Harr l ((fix go (l : list json) : Forall P l :=
                           match l with [] => Forall_nil _ | x :: r => Forall_cons _ (json_ind' x) (go r) end) l)
    | JObj kv => Hobj kv ((fix go (kv : list (str * json)) : Forall (fun p => P (snd p)) kv :=
                           match kv with [] => Forall_nil _ | (k, x) :: r => Forall_cons (k, x) (json_ind' x) (go r) end) kv)
    end.
End JsonInd.

(* JSON equality as JSON Schema defines it (numbers by value, objects as maps) *)
Fixpoint json_eqb (a b : json) {struct a} : bool :=
  match a, b with
  | JNull, JNull => true
  | JBool x, JBool y => Bool.eqb x y
  | JNum x, JNum y => Qeq_bool (nq x) (nq y)
  | JStr x, JStr y => str_eqb x y
  | JArr x, JArr y =>
      (fix go (x y : list json) : bool :=
         match x, y with
         | [], [] => true
         | u :: x', v :: y' => json_eqb u v && go x' y'
         | _, _ => false
         end) x y
  | JObj x, JObj y =>
      Nat.eqb (length x) (length y) &&
      (fix go (x : list (str * json)) : bool :=
         match x with
         | [] => true
         | (k, u) :: x' => match lookup k y with Some v => json_eqb u v | None => false end && go x'
         end) x
  | _, _ => false
  end.

(* UTF-8 length of a code point / string: Go's len() counts bytes *)
Definition utf8_len1 (c : N) : nat :=
  if N.ltb c 128 then 1 else if N.ltb c 2048 then 2 else if N.ltb c 65536 then 3 else 4.
Definition utf8_len (s : str) : nat := fold_right (fun c n => utf8_len1 c + n) 0 s.

Lemma utf8_len_ascii s : Forall (fun c => (c < 128)%N) s -> utf8_len s = length s.
Proof.
  induction 1 as [|c s Hc _ IH]; cbn; [reflexivity|].
  unfold utf8_len1. destruct (N.ltb_spec c 128); [|lia]. cbn. f_equal. exact IH.
Qed.
