(* The static plan tie compares, per emitted method, the lines [Render.plan_lines] gives the model's validator list with the same lines
   read off the emitted text.  Those lines are a rendering of [Render.vsig_of].  Here: the behaviour of every check is a function of
   that signature and of the residue the lines leave out (the default literal, the text of the pattern, the branch types of an anyOf,
   which other parts of the tie compare: decoded values, verdicts, declarations). *)
From GJS Require Import Base Bounds BoundsP NumericP Regex Schema GoType Render Exec.
Open Scope Q_scope.

Definition residue (v : validator) : option (gty * json) * option pat * list gty :=
  match v with
  | VDefault _ _ ty dv => (Some (ty, dv), None, [])
  | VString _ _ _ _ _ p => (None, p, [])
  | VAnyOf bs => (None, None, bs)
  | _ => (None, None, [])
  end.

Definition accept_sig (rnd : bool) (m : option Q) (up lo : option Q * bool) (x : Q) : bool :=
  accept_multiple rnd m x && accept_upper up x && accept_lower lo x.

Lemma accept_multiple_value_of rnd m x : accept_multiple rnd (option_map (value_of rnd) m) x = accept_multiple rnd m x.
Proof.
  destruct m as [q|]; [|reflexivity]. destruct rnd; cbn [option_map value_of accept_multiple]; [|reflexivity].
  rewrite Qtrunc_inject. reflexivity.
Qed.

Lemma accept_numeric_sig rnd m b x :
  accept_numeric rnd m b x =
  accept_sig rnd (option_map (value_of rnd) m) (trunc_opt rnd (norm_max (b_max b) (b_exmax b))) (trunc_opt rnd (norm_min (b_min b) (b_exmin b))) x.
Proof. unfold accept_numeric, accept_sig. rewrite accept_multiple_value_of. reflexivity. Qed.

Definition same_plan (v1 v2 : validator) : Prop := vsig_of v1 = vsig_of v2 /\ residue v1 = residue v2.

Section Plan.
Variable decf : gty -> json -> outcome gval.
Variable zf : gty -> gval.
Variable dvf : gty -> json -> option gval.

Lemma same_plan_after raw st v1 v2 : same_plan v1 v2 -> after_step dvf raw st v1 = after_step dvf raw st v2.
Proof.
  intros [Hs Hr].
  destruct v1, v2; cbn [vsig_of] in Hs; try discriminate Hs; cbn [residue] in Hr.
  - reflexivity.
  - inversion Hs; subst. reflexivity.
  - inversion Hs; inversion Hr; subst. reflexivity.
  - inversion Hs; subst. reflexivity.
  - inversion Hs; inversion Hr; subst. reflexivity.
  - assert (Hf : fname = fname0) by congruence. assert (Hn : nillable = nillable0) by congruence.
    assert (Hrnd : round_to_int = round_to_int0) by congruence. subst.
    assert (Hm : option_map (value_of round_to_int0) mult = option_map (value_of round_to_int0) mult0) by congruence.
    assert (Hup : trunc_opt round_to_int0 (norm_max (b_max b) (b_exmax b)) = trunc_opt round_to_int0 (norm_max (b_max b0) (b_exmax b0))) by congruence.
    assert (Hlo : trunc_opt round_to_int0 (norm_min (b_min b) (b_exmin b)) = trunc_opt round_to_int0 (norm_min (b_min b0) (b_exmin b0))) by congruence.
    clear Hs. cbn [after_step].
    assert (E : forall x, accept_numeric round_to_int0 mult b x = accept_numeric round_to_int0 mult0 b0 x).
    { intros x. rewrite !accept_numeric_sig, Hm, Hup, Hlo. reflexivity. }
    destruct (get_plain fname0 st) as [g|]; [|reflexivity].
    destruct nillable0; destruct g; try reflexivity;
      repeat match goal with |- context [num_of ?y] => destruct (num_of y) end; rewrite ?E; reflexivity.
  - reflexivity.
Qed.

Lemma same_plan_before raw j v1 v2 : same_plan v1 v2 -> before_step decf raw j v1 = before_step decf raw j v2.
Proof.
  intros [Hs Hr].
  destruct v1, v2; cbn [vsig_of] in Hs; try discriminate Hs; cbn [residue] in Hr; try reflexivity.
  - inversion Hs; subst. reflexivity.
  - inversion Hr; subst. reflexivity.
Qed.

Lemma same_plan_flags v1 v2 : same_plan v1 v2 -> v_before v1 = v_before v2 /\ v_raw_after v1 = v_raw_after v2.
Proof. intros [Hs _]. destruct v1, v2; cbn [vsig_of] in Hs; try discriminate Hs; split; reflexivity. Qed.

Lemma same_plans_after vs1 vs2 : Forall2 same_plan vs1 vs2 -> forall raw acc,
  fold_left (fun acc v => obind acc (fun st => after_step dvf raw st v)) vs1 acc =
  fold_left (fun acc v => obind acc (fun st => after_step dvf raw st v)) vs2 acc.
Proof.
  induction 1 as [|a b l1 l2 Hab _ IH]; intros raw acc; [reflexivity|].
  cbn [fold_left]. rewrite IH. f_equal. destruct acc; cbn [obind]; try reflexivity. apply same_plan_after, Hab.
Qed.

Lemma same_plans_before vs1 vs2 : Forall2 same_plan vs1 vs2 -> forall raw j acc,
  fold_left (fun acc v => obind acc (fun _ => before_step decf raw j v)) vs1 acc =
  fold_left (fun acc v => obind acc (fun _ => before_step decf raw j v)) vs2 acc.
Proof.
  induction 1 as [|a b l1 l2 Hab _ IH]; intros raw j acc; [reflexivity|].
  cbn [fold_left]. rewrite IH. f_equal. destruct acc; cbn [obind]; try reflexivity. apply same_plan_before, Hab.
Qed.

Lemma same_plans_exists (f : validator -> bool) vs1 vs2 :
  (forall a b, same_plan a b -> f a = f b) -> Forall2 same_plan vs1 vs2 -> existsb f vs1 = existsb f vs2.
Proof. intros Hf; induction 1 as [|a b l1 l2 Hab _ IH]; [reflexivity|]. cbn [existsb]. rewrite IH, (Hf a b Hab). reflexivity. Qed.

(* two validator lists with the same plan lines and the same residue give the same method: same verdict and same value on every document *)
Theorem plan_determines_method fs under vs1 vs2 j :
  Forall2 same_plan vs1 vs2 -> run_method decf zf dvf fs under vs1 j = run_method decf zf dvf fs under vs2 j.
Proof.
  intros H. unfold run_method, run_before, run_after.
  rewrite (same_plans_exists v_before vs1 vs2), (same_plans_exists v_raw_after vs1 vs2); try exact H;
    try (intros a b Hab; apply (same_plan_flags a b Hab)).
  destruct (if existsb v_before vs2 || existsb v_raw_after vs2 then _ else _) as [raw| | |]; cbn [obind]; try reflexivity.
  rewrite (same_plans_before vs1 vs2 H).
  destruct (fold_left _ vs2 (Ok tt)); cbn [obind]; try reflexivity.
  destruct (match fs with Some fl => plain_fields decf zf fl j | None => decf under j end); cbn [obind]; try reflexivity.
  rewrite (same_plans_after vs1 vs2 H). reflexivity.
Qed.

(* and the lines are a function of the signature *)
Lemma same_plan_lines fs vs1 vs2 : Forall2 same_plan vs1 vs2 -> plan_lines fs vs1 = plan_lines fs vs2.
Proof.
  intros H. unfold plan_lines.
  rewrite (same_plans_exists v_before vs1 vs2), (same_plans_exists v_raw_after vs1 vs2); try exact H;
    try (intros a b Hab; apply (same_plan_flags a b Hab)).
  assert (Hf : forall (p : validator -> bool), (forall a b, same_plan a b -> p a = p b) ->
            flat_map vline (filter p vs1) = flat_map vline (filter p vs2)).
  { intros p Hp. induction H as [|a b l1 l2 Hab _ IH]; [reflexivity|]. cbn [filter]. rewrite (Hp a b Hab).
    destruct (p b); cbn [flat_map]; rewrite IH; [|reflexivity]. unfold vline. destruct Hab as [Hs _]. rewrite Hs. reflexivity. }
  rewrite (Hf v_before), (Hf (fun v => negb (v_before v))); try reflexivity.
  - intros a b Hab. f_equal. apply (same_plan_flags a b Hab).
  - intros a b Hab. apply (same_plan_flags a b Hab).
Qed.
End Plan.

(* non-vacuity: two different validators (a draft-4 and a draft-6 spelling of one exclusive bound, different json names aside) with one plan *)
Example plan_inhabited :
  let v1 := VNumeric [78%N] [110%N] false false None (mkBounds (Some (3 # 1)) None (Some (ExBool true)) None) in
  let v2 := VNumeric [78%N] [110%N] false false None (mkBounds None None (Some (ExNum (3 # 1))) None) in
  v1 <> v2 /\ same_plan v1 v2.
Proof. cbn zeta. split; [discriminate|]. split; reflexivity. Qed.
