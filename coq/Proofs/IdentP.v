(* Proofs about identifier synthesis (Model/Ident.v). *)
From GJS Require Import Base Ident.
From Coq Require DecimalNat Decimal.

Section IdentP.
Variable U : uinfo.

Notation classify := (classify U).
Notation split_go := (split_go U).
Notation split_ident := (split_ident U).

Definition keeps (r : N) : bool := negb (is_delim (classify r)).

(* ---------- the splitter only drops separator runs ---------- *)
Lemma concat_push part acc : concat (rev (push_part part acc)) = concat (rev acc) ++ rev part.
Proof.
  unfold push_part. destruct part as [|x p]; cbn [nonempty].
  - cbn. rewrite app_nil_r. reflexivity.
  - cbn [rev]. rewrite concat_app. cbn. rewrite app_nil_r. reflexivity.
Qed.

Lemma cstate_eqb_eq a b : cstate_eqb a b = true -> a = b.
Proof. destruct a, b; cbn; congruence. Qed.

Lemma split_go_concat rest : forall cur part acc,
  concat (split_go rest cur part acc)
  = concat (rev acc) ++ (if is_delim cur then [] else rev part) ++ filter keeps rest.
Proof.
  induction rest as [|r rest IH]; intros cur part acc; cbn [Ident.split_go filter].
  - destruct (is_delim cur); cbn [app]; [rewrite app_nil_r; reflexivity|].
    rewrite concat_push, app_nil_r. reflexivity.
  - unfold keeps at 1. destruct (cstate_eqb (classify r) cur) eqn:E.
    + apply cstate_eqb_eq in E. rewrite IH, E. destruct (is_delim cur) eqn:D; cbn [negb].
      * reflexivity.
      * cbn [rev]. rewrite <- !app_assoc. reflexivity.
    + destruct (is_delim cur) eqn:D.
      * rewrite IH. destruct (is_delim (classify r)) eqn:D2.
        -- destruct cur; try discriminate. destruct (classify r); discriminate.
        -- cbn. reflexivity.
      * assert (G : concat (split_go rest (classify r) (if is_delim (classify r) then [] else [r]) (push_part part acc))
                    = concat (rev acc) ++ rev part ++ filter keeps (r :: rest)).
        { rewrite IH, concat_push. cbn [filter]. unfold keeps at 2.
          destruct (is_delim (classify r)); cbn [negb rev app]; rewrite <- !app_assoc; reflexivity. }
        cbn [filter] in G. unfold keeps at 1 in G.
        destruct cur, (classify r) eqn:C; try discriminate; try exact G.
        (* Upper -> Lower: no split *)
        rewrite IH. cbn [is_delim negb rev]. rewrite <- !app_assoc. reflexivity.
Qed.

Theorem split_concat s : concat (split_ident s) = filter keeps s.
Proof. unfold Ident.split_ident. rewrite split_go_concat. reflexivity. Qed.

(* every part is non-empty *)
Lemma push_part_nonempty part acc : Forall (fun p => p <> []) acc -> Forall (fun p => p <> []) (push_part part acc).
Proof.
  unfold push_part. destruct part as [|x p]; cbn [nonempty]; auto.
  intros H. constructor; auto. cbn [rev]. intros E. apply app_eq_nil in E. destruct E; discriminate.
Qed.

Lemma split_go_nonempty rest : forall cur part acc,
  Forall (fun p => p <> []) acc -> Forall (fun p => p <> []) (split_go rest cur part acc).
Proof.
  induction rest as [|r rest IH]; intros cur part acc H; cbn [Ident.split_go].
  - apply Forall_rev. destruct (is_delim cur); auto using push_part_nonempty.
  - destruct (cstate_eqb (classify r) cur); [apply IH; auto|].
    destruct (is_delim cur); [apply IH; auto|].
    destruct cur, (classify r); apply IH; auto using push_part_nonempty.
Qed.

Theorem split_parts_nonempty s : Forall (fun p => p <> []) (split_ident s).
Proof. apply split_go_nonempty. constructor. Qed.

(* ---------- validity of the synthesised identifier ---------- *)
(* the characters for which the construction is sound (guard G14): *)
Definition nice (r : N) : bool :=
  if u_lower U r then u_letter U r && u_upper U (u_to_upper U r) && u_letter U (u_to_upper U r)
  else if u_upper U r then u_letter U r && u_upper U (u_to_upper U r) && u_letter U (u_to_upper U r)
  else if u_number U r then u_digit U r
  else true.       (* separators are dropped, caseless letters are letters *)

Lemma keeps_nice_char r : nice r = true -> keeps r = true -> go_ident_char U r = true.
Proof.
  unfold nice, keeps, Ident.classify, go_ident_char.
  destruct (u_lower U r); [intros H _; apply andb_true_iff in H; destruct H as [H _]; apply andb_true_iff in H; destruct H as [-> _]; reflexivity|].
  destruct (u_upper U r); [intros H _; apply andb_true_iff in H; destruct H as [H _]; apply andb_true_iff in H; destruct H as [-> _]; reflexivity|].
  destruct (u_number U r); [intros -> _; rewrite !orb_true_r; reflexivity|].
  destruct (u_letter U r); cbn; [reflexivity|discriminate].
Qed.

(* ToUpper leaves non-cased characters alone (true of Go's tables for every code point in use;
   checked on the dumped table by the harness) *)
Definition stable (r : N) : bool :=
  if u_lower U r || u_upper U r then true else N.eqb (u_to_upper U r) r.

Definition good (r : N) : bool := nice r && stable r.

Lemma good_upper_char r : good r = true -> keeps r = true -> go_ident_char U (u_to_upper U r) = true.
Proof.
  unfold good. intros H K. apply andb_true_iff in H. destruct H as [Hn Hs].
  pose proof (keeps_nice_char r Hn K) as Hc.
  unfold nice in Hn. unfold stable in Hs. unfold go_ident_char.
  destruct (u_lower U r); [apply andb_true_iff in Hn; destruct Hn as [_ ->]; reflexivity|].
  destruct (u_upper U r); [apply andb_true_iff in Hn; destruct Hn as [_ ->]; reflexivity|].
  cbn [orb] in Hs. apply N.eqb_eq in Hs. rewrite Hs. exact Hc.
Qed.

Lemma capitalize_chars caps p :
  Forall (fun c => forallb (go_ident_char U) c = true) caps ->
  forallb good p = true -> forallb keeps p = true ->
  forallb (go_ident_char U) (capitalize U caps p) = true.
Proof.
  intros Hcaps Hg Hk. unfold capitalize. destruct p as [|r rest]; [reflexivity|].
  destruct (find (fun c => equal_fold U c (r :: rest)) caps) as [c|] eqn:F.
  - apply find_some in F. destruct F as [Hin _]. rewrite Forall_forall in Hcaps. apply Hcaps; exact Hin.
  - cbn [forallb] in *. apply andb_true_iff in Hg. apply andb_true_iff in Hk. destruct Hg as [Hg1 Hg2], Hk as [Hk1 Hk2].
    apply andb_true_iff. split; [apply good_upper_char; assumption|].
    apply forallb_forall. intros x Hx. rewrite forallb_forall in Hg2, Hk2.
    specialize (Hg2 x Hx). specialize (Hk2 x Hx). unfold good in Hg2. apply andb_true_iff in Hg2. destruct Hg2 as [Hn _].
    apply keeps_nice_char; assumption.
Qed.

Lemma forallb_concat {A} (f : A -> bool) (ls : list (list A)) :
  forallb f (concat ls) = forallb (forallb f) ls.
Proof. induction ls as [|l ls IH]; cbn; [reflexivity|]. rewrite forallb_app, IH. reflexivity. Qed.

Lemma forallb_flat_map {A B} (f : B -> bool) (g : A -> list B) (l : list A) :
  forallb f (flat_map g l) = forallb (fun a => forallb f (g a)) l.
Proof. induction l as [|a l IH]; cbn; [reflexivity|]. rewrite forallb_app, IH. reflexivity. Qed.

Lemma forallb_filter_id {A} (f : A -> bool) (l : list A) : forallb f (filter f l) = true.
Proof. induction l as [|a l IH]; cbn; [reflexivity|]. destruct (f a) eqn:E; cbn; rewrite ?E; auto. Qed.

Lemma forallb_filter_mono {A} (f g : A -> bool) (l : list A) : forallb g l = true -> forallb g (filter f l) = true.
Proof.
  induction l as [|a l IH]; cbn; [reflexivity|]. intros H. apply andb_true_iff in H. destruct H as [H1 H2].
  destruct (f a); cbn; rewrite ?H1; auto.
Qed.

Lemma parts_good s : forallb good s = true ->
  forallb (fun p => forallb good p && forallb keeps p) (split_ident s) = true.
Proof.
  intros Hg.
  assert (H : forallb (fun r => good r && keeps r) (concat (split_ident s)) = true).
  { rewrite split_concat. apply forallb_forall. intros x Hx. apply filter_In in Hx. destruct Hx as [Hin Hk].
    rewrite forallb_forall in Hg. rewrite (Hg x Hin), Hk. reflexivity. }
  rewrite forallb_concat in H. apply forallb_forall. intros p Hp. rewrite forallb_forall in H. specialize (H p Hp).
  apply andb_true_iff. split; apply forallb_forall; intros x Hx; rewrite forallb_forall in H; specialize (H x Hx);
    apply andb_true_iff in H; tauto.
Qed.

Definition caps_ok (caps : list str) : Prop :=
  Forall (fun c => forallb (go_ident_char U) c = true) caps.

Definition blank_ok : Prop :=
  go_ident U s_Blank = true /\ exported U s_Blank = true /\ go_ident U s_Wildcard = true /\ exported U s_Wildcard = true /\
  go_ident U s_Undefined = true /\ exported U s_Undefined = true /\ u_letter U c_A = true /\ u_upper U c_A = true.

(* Identifierize yields a valid Go identifier ... *)
Theorem identifierize_valid caps s :
  blank_ok -> caps_ok caps -> forallb good s = true -> go_ident U (identifierize U caps s) = true.
Proof.
  intros Hb Hc Hg. destruct Hb as (B1 & B2 & B3 & B4 & B5 & B6 & B7 & B8).
  unfold identifierize. destruct (str_eqb s []); [assumption|]. destruct (str_eqb s [42%N]); [assumption|].
  unfold ident_body.
  assert (Hall : forallb (go_ident_char U) (flat_map (capitalize U caps) (split_ident s)) = true).
  { rewrite forallb_flat_map. pose proof (parts_good s Hg) as HP.
    apply forallb_forall. intros p Hp. rewrite forallb_forall in HP. specialize (HP p Hp).
    apply andb_true_iff in HP. destruct HP. apply capitalize_chars; assumption. }
  destruct (flat_map (capitalize U caps) (split_ident s)) as [|r0 rest] eqn:EI; [assumption|].
  destruct (negb (u_letter U r0) || not_case_sensitive U r0) eqn:EP.
  - cbn [go_ident]. unfold go_ident_start. rewrite Hall. replace (u_letter U c_A) with true by (symmetry; assumption). reflexivity.
  - cbn [go_ident]. cbn [forallb] in Hall. apply andb_true_iff in Hall. destruct Hall as [_ Hrest]. rewrite Hrest.
    apply orb_false_iff in EP. destruct EP as [EL _]. apply negb_false_iff in EL. unfold go_ident_start. rewrite EL. reflexivity.
Qed.

(* a capitalisation entry is usable when it starts with an upper-case letter, a caseless letter
   or a non-letter (the last two get the "A" prefix); one starting in lower case would yield an
   unexported identifier: excluded by the guard *)
Definition cap_start_ok (c : str) : Prop :=
  match c with
  | [] => False
  | r :: _ => u_upper U r = true \/ (u_lower U r = false /\ u_upper U r = false) \/ u_letter U r = false
  end.

(* ... and an exported one *)
Theorem identifierize_exported caps s :
  blank_ok -> Forall cap_start_ok caps -> forallb good s = true -> exported U (identifierize U caps s) = true.
Proof.
  intros Hb Hc Hg. destruct Hb as (B1 & B2 & B3 & B4 & B5 & B6 & B7 & B8).
  unfold identifierize. destruct (str_eqb s []); [assumption|]. destruct (str_eqb s [42%N]); [assumption|].
  unfold ident_body.
  destruct (flat_map (capitalize U caps) (split_ident s)) as [|r0 rest] eqn:EI; [assumption|].
  destruct (negb (u_letter U r0) || not_case_sensitive U r0) eqn:EP; [cbn; assumption|].
  cbn [exported]. apply orb_false_iff in EP. destruct EP as [EL EC]. apply negb_false_iff in EL.
  unfold not_case_sensitive in EC.
  pose proof (split_parts_nonempty s) as HNE. pose proof (parts_good s Hg) as HP.
  destruct (split_ident s) as [|p ps]; [discriminate EI|].
  inversion HNE as [|? ? Hp _]; subst. cbn [flat_map] in EI.
  destruct p as [|r rest0]; [contradiction|]. cbn [forallb] in HP. apply andb_true_iff in HP. destruct HP as [HP _].
  apply andb_true_iff in HP. destruct HP as [HG HK]. cbn [forallb] in HG, HK.
  apply andb_true_iff in HG. destruct HG as [HG _]. apply andb_true_iff in HK. destruct HK as [HK _].
  unfold capitalize in EI.
  destruct (find (fun c => equal_fold U c (r :: rest0)) caps) as [c|] eqn:F.
  - apply find_some in F. destruct F as [Hin _]. rewrite Forall_forall in Hc. specialize (Hc c Hin).
    destruct c as [|c0 c']; [contradiction|]. cbn in EI. inversion EI; subst.
    destruct Hc as [Hu|[[Hl Hu]|Hl]]; [exact Hu| |congruence].
    rewrite Hl, Hu in EC. discriminate EC.
  - cbn in EI. inversion EI; subst.
    unfold good in HG. apply andb_true_iff in HG. destruct HG as [Hn Hs]. unfold nice in Hn. unfold stable in Hs.
    destruct (u_lower U r) eqn:L1; [apply andb_true_iff in Hn; destruct Hn as [Hn _]; apply andb_true_iff in Hn; tauto|].
    destruct (u_upper U r) eqn:U1; [apply andb_true_iff in Hn; destruct Hn as [Hn _]; apply andb_true_iff in Hn; tauto|].
    cbn [orb] in Hs. apply N.eqb_eq in Hs. rewrite Hs in EC. rewrite L1, U1 in EC. discriminate EC.
Qed.

(* every character of the synthesised identifier satisfies any predicate that holds of the kept
   characters, of their upper-case images, of the capitalisation entries and of the fixed words *)
Theorem identifierize_chars (Q : N -> bool) caps s :
  (forall r, good r = true -> keeps r = true -> Q r = true /\ Q (u_to_upper U r) = true) ->
  Forall (fun c => forallb Q c = true) caps ->
  forallb Q s_Blank = true -> forallb Q s_Wildcard = true -> forallb Q s_Undefined = true -> Q c_A = true ->
  forallb good s = true -> forallb Q (identifierize U caps s) = true.
Proof.
  intros HQ Hcaps HB HW HU HA Hg.
  unfold identifierize. destruct (str_eqb s []); [assumption|]. destruct (str_eqb s [42%N]); [assumption|].
  unfold ident_body.
  assert (Hall : forallb Q (flat_map (capitalize U caps) (split_ident s)) = true).
  { rewrite forallb_flat_map. pose proof (parts_good s Hg) as HP.
    apply forallb_forall. intros p Hp. rewrite forallb_forall in HP. specialize (HP p Hp).
    apply andb_true_iff in HP. destruct HP as [Hgp Hkp].
    unfold capitalize. destruct p as [|r rest]; [reflexivity|].
    destruct (find (fun c => equal_fold U c (r :: rest)) caps) as [c|] eqn:F.
    - apply find_some in F. destruct F as [Hin _]. rewrite Forall_forall in Hcaps. apply Hcaps; exact Hin.
    - cbn [forallb] in *. apply andb_true_iff in Hgp. apply andb_true_iff in Hkp. destruct Hgp as [G1 G2], Hkp as [K1 K2].
      apply andb_true_iff. split; [apply (HQ r G1 K1)|].
      apply forallb_forall. intros x Hx. rewrite forallb_forall in G2, K2. apply (HQ x (G2 x Hx) (K2 x Hx)). }
  destruct (flat_map (capitalize U caps) (split_ident s)) as [|r0 rest]; [assumption|].
  destruct (negb (u_letter U r0) || not_case_sensitive U r0); [cbn [forallb]; rewrite HA; exact Hall|exact Hall].
Qed.

End IdentP.
