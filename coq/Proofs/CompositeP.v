(* C11 end to end for allOf: the struct generated for an allOf node accepts a JSON object iff every (resolved) member is valid -
   generator (the node is generated as the merge of its members), merge (the merge is the conjunction for compatible members) and
   decoder (the declared struct accepts iff valid, at any nesting depth) composed. *)
From GJS Require Import Base Bounds IntSize Regex Schema Merge GoType Ident Gen Exec Valid ExecP GenP CoreP MethodP LevelP NestedP MergeP AnyOfP.

Section AllOfExact.
Variable idf : str -> str.
Variable cf : cfg.
Variable defs : list (str * schema).
Variable fmt_ok : fmtk -> str -> bool.
Variable env : list (str * gty).
Variable sdefs : list (str * schema).
Hypothesis Hms : g_minsized cf = false.
Hypothesis Hom : g_only_models cf = false.
Notation gen := (Gen.gen idf cf defs).
Notation dec := (Exec.dec fmt_ok env).
Notation valid := (Valid.valid fmt_ok sdefs).

Lemma all_of_schema_inv bs m : all_of_schema defs bs = Done m ->
  exists rs, resolve_branches defs bs = Done rs /\ merge_types rs = Some m.
Proof.
  unfold all_of_schema. destruct (resolve_branches defs bs) as [rs| | |]; cbn [rbind]; try discriminate.
  destruct (existsb _ rs); [discriminate|]. destruct (merge_types rs) as [m'|] eqn:Em; [|discriminate].
  intros H; inversion H; subst. exists rs. split; [reflexivity|exact Em].
Qed.

Theorem allof_objects_exact n a b0 c0 self sub c props addl af items b bs scope t bb kv rs m :
  c_enum c = None -> c_ref c = None -> scope <> [] ->
  resolve_branches defs (b :: bs) = Done rs -> merge_types rs = Some m ->
  all_of_schema defs (b :: bs) = Done m ->
  forallb prim_or_untyped rs = false -> compat_all empty_schema rs = true ->
  sobj idf cf defs env sdefs n m -> dok idf cf defs env sdefs n m kv ->
  gen (S (S (fuelG n a))) MInline self sub (Sch c props addl af items (b :: bs) []) scope = Done (t, bb) ->
  is_ok (dec (fuelD n b0) t (JObj kv)) = forallb (fun r => valid (fuelV n c0) r (JObj kv)) rs.
Proof.
  intros He Hr Hsc Hres Hmt Hall Hnp Hcompat Hs Hk Hg.
  rewrite (allof_generated idf cf defs _ self sub c props addl af items b bs scope m He Hr Hall) in Hg.
  destruct (sobj_facts idf cf defs env sdefs n m Hs) as (Pp & Pty & _). pose proof Pp as (Pe & Pr & _ & _ & Pall & Pany).
  rewrite (gen_inline_object_eq idf cf defs _ self false m scope Pe Pr Pall Pany Pty) in Hg.
  rewrite (nested_object_exact idf cf defs fmt_ok env sdefs Hms Hom n a b0 c0 self false m scope t bb kv Hsc Hs Hk Hg).
  destruct (fuelV_SS n c0) as [x Hx]. rewrite Hx.
  exact (merge_is_conjunction fmt_ok sdefs rs m (S x) (JObj kv) Hnp Hcompat Hmt).
Qed.

(* anyOf: the carrier's method accepts a JSON object iff some branch is VALID (reference semantics) and the object decodes into the carrier's
   merged fields - for branches that are scalar objects of depth n, whose types were generated from them, once every branch decode is decided
   (no crash: C19_total under wf_ty; fuel enough: checked per instance) *)
Theorem anyof_objects_exact n b0 c0 ch nm fs (bs : list schema) (brs : list gty) kv :
  Forall2 (fun b bt => exists a self sub sc bb, sc <> [] /\ sobj idf cf defs env sdefs n b /\ dok idf cf defs env sdefs n b kv /\
                       gen (fuelG n a) MDeclared self sub b sc = Done (bt, bb)) bs brs ->
  (forall bt, In bt brs -> dec (fuelD n b0) bt (JObj kv) <> Crash /\ dec (fuelD n b0) bt (JObj kv) <> NoFuel) ->
  is_ok (dec (S (fuelD n b0)) (TStruct (ch :: nm) fs (Some [VAnyOf brs])) (JObj kv)) =
  existsb (fun b => valid (fuelV n c0) b (JObj kv)) bs &&
  is_ok (obind (plain_fields (dec (fuelD n b0)) zero fs (JObj kv)) (fun st => addl_block fs (Some (Some kv)) st)).
Proof.
  intros Hrel Hdec. rewrite (anyof_method fmt_ok env). cbn zeta. rewrite (anyof_step _ _ _ _ Hdec).
  assert (Hex : existsb (fun bt => is_ok (dec (fuelD n b0) bt (JObj kv))) brs = existsb (fun b => valid (fuelV n c0) b (JObj kv)) bs).
  { clear Hdec. induction Hrel as [|b bt l1 l2 (a & self & sub & sc & bb & Hsc & Hs & Hk & Hg) _ IH]; [reflexivity|].
    cbn [existsb]. rewrite IH. f_equal.
    exact (nested_object_exact idf cf defs fmt_ok env sdefs Hms Hom n a b0 c0 self sub b sc bt bb kv Hsc Hs Hk Hg). }
  rewrite Hex. destruct (existsb _ bs); cbn [obind is_ok andb]; reflexivity.
Qed.
End AllOfExact.

(* ---------- an instance: allOf of {a: string minLength 2 (required), s: string maxLength 4} and {b: string (required), s: minLength 2} ---------- *)
Definition co_m1 : schema :=
  Sch (mkC [SObject] None None [[97]%N] 0 0 0 0 None None (mkBounds None None None None) None None)
      [([97]%N, ex_leaf 2 0 None); ([115]%N, ex_leaf 0 4 None)] None false None [] [].
Definition co_m2 : schema :=
  Sch (mkC [SObject] None None [[98]%N] 0 0 0 0 None None (mkBounds None None None None) None None)
      [([98]%N, ex_leaf 0 0 None);
       ([115]%N, Sch (mkC [] None None [] 0 0 2 0 None None (mkBounds None None None None) None None) [] None false None [] [])] None false None [] [].
Definition co_node : schema := Sch empty_con [] None false None [co_m1; co_m2] [].
Definition co_merged : schema := Eval vm_compute in match merge_types [co_m1; co_m2] with Some m => m | None => empty_schema end.
Definition co_ok : list (str * json) := [([97]%N, JStr [120; 121]%N); ([98]%N, JStr [122]%N); ([115]%N, JStr [112; 113; 114]%N)].
Definition co_short : list (str * json) := [([97]%N, JStr [120; 121]%N); ([98]%N, JStr [122]%N); ([115]%N, JStr [112]%N)].       (* s violates the second member *)
Definition co_missing : list (str * json) := [([97]%N, JStr [120; 121]%N); ([115]%N, JStr [112; 113]%N)].                      (* b, required by the second member *)

Lemma co_merged_sobj : sobj (fun s => s) (mkCfg false false) [] [] [] 0 co_merged.
Proof.
  cbn [sobj]. repeat split; try reflexivity; try discriminate.
  - repeat constructor; cbn; intuition discriminate.
  - intros k [H|[H|[]]]; subst; cbn; auto.
  - vm_compute. repeat constructor; cbn; intuition discriminate.
  - intros fname kp H. vm_compute in H. destruct H as [H|[H|[H|[]]]]; inversion H; subst; discriminate.
  - intros k p [H|[H|[H|[]]]]; inversion H; subst; left; left; eexists; repeat split; reflexivity.
Qed.

Example allof_exact_inhabited :
  exists t b, Gen.gen (fun s => s) (mkCfg false false) [] (S (S (fuelG 0 1))) MInline None false co_node [84]%N = Done (t, b) /\
    (forall kv, In kv [co_ok; co_short; co_missing] ->
       is_ok (Exec.dec (fun _ _ => true) [] (fuelD 0 0) t (JObj kv)) = forallb (fun r => Valid.valid (fun _ _ => true) [] (fuelV 0 0) r (JObj kv)) [co_m1; co_m2]) /\
    map (fun kv => forallb (fun r => Valid.valid (fun _ _ => true) [] (fuelV 0 0) r (JObj kv)) [co_m1; co_m2]) [co_ok; co_short; co_missing] = [true; false; false].
Proof.
  eexists. eexists. split; [vm_compute; reflexivity|].
  assert (Hgen : Gen.gen (fun s => s) (mkCfg false false) [] (S (S (fuelG 0 1))) MInline None false co_node [84]%N = Done _) by (vm_compute; reflexivity).
  split; [|vm_compute; reflexivity].
  intros kv Hkv.
  eapply (allof_objects_exact (fun s => s) (mkCfg false false) [] (fun _ _ => true) [] [] eq_refl eq_refl 0 1 0 0 None false empty_con [] None false None co_m1 [co_m2] [84]%N _ _ kv [co_m1; co_m2] co_merged);
    try reflexivity; try discriminate; try exact co_merged_sobj; try exact Hgen.
  cbn [dok]. split.
  - destruct Hkv as [<-|[<-|[<-|[]]]]; repeat constructor; cbn; intuition discriminate.
  - intros k p x Hin Hl.
    assert (Hx : x <> JNull /\ (forall s0, x = JStr s0 -> utf8_len s0 = length s0)).
    { destruct Hkv as [<-|[<-|[<-|[]]]]; vm_compute in Hl;
        repeat (match type of Hl with (if ?c then _ else _) = _ => destruct c end); inversion Hl; subst; (split; [discriminate|]); intros s0 E; inversion E; reflexivity. }
    destruct Hx as [H1 H2]. split; [exact H1|]. split; [intros _; exact H2|].
    assert (Hp : exists mn mx, p = ex_leaf mn mx None) by (destruct Hin as [Hin|[Hin|[Hin|[]]]]; inversion Hin; subst; eexists; eexists; reflexivity).
    destruct Hp as (mn & mx & ->). split; [|split; [|split; [|split; [|exact I]]]].
    + intros (c & m & E & Ht & _). inversion E; subst c; discriminate.
    + intros (ik & c & it & E & _). inversion E.
    + intros (ik & c & a & E & _). inversion E.
    + intros (c & l & E & Ht & _). inversion E; subst c; discriminate.
Qed.

(* ---------- an instance of the anyOf statement: anyOf of {a: string, required} and {b: integer, required} (AnyOfP.ex_any) ---------- *)
Definition an_b0 : gty := Eval vm_compute in match Gen.gen (fun s => s) (mkCfg false false) [] (fuelG 0 0) MDeclared None true (ob [97]%N SString) [84; 95; 48]%N with Done (t, _) => t | _ => TIface end.
Definition an_b1 : gty := Eval vm_compute in match Gen.gen (fun s => s) (mkCfg false false) [] (fuelG 0 0) MDeclared None true (ob [98]%N SInteger) [84; 95; 49]%N with Done (t, _) => t | _ => TIface end.
Definition an_docs : list (list (str * json)) :=
  [[([97]%N, JStr [120]%N)]; [([98]%N, JInt 1)]; []; [([97]%N, JStr [120]%N); ([98]%N, JStr [121]%N)]].   (* first branch, second branch, neither, first branch but b is not an integer *)

Lemma ob_sobj k t : k <> [] -> (t = SString \/ t = SInteger) -> sobj (fun s => s) (mkCfg false false) [] [] [] 0 (ob k t).
Proof.
  intros Hk Ht. cbn [sobj]. repeat split; try reflexivity; try discriminate.
  - repeat constructor. intros [].
  - intros x [H|[]]. subst. left; reflexivity.
  - cbn. repeat constructor. intros [].
  - intros fname kp H. cbn in H. destruct H as [H|[]]. inversion H; subst. exact Hk.
  - intros k0 p [H|[]]. inversion H; subst. left. destruct Ht as [-> | ->].
    + left. eexists. repeat split; reflexivity.
    + right. left. exists (mkC [SInteger] None None [] 0 0 0 0 None None (mkBounds None None None None) None None), None.
      repeat split; try reflexivity; try discriminate.
Qed.

Example anyof_exact_inhabited :
  exists t bb fs, Gen.gen (fun s => s) (mkCfg false false) [] 6 MInline None false ex_any ex_t = Done (t, bb) /\ t = TStruct ex_t fs (Some [VAnyOf [an_b0; an_b1]]) /\
    (forall kv, In kv an_docs ->
       is_ok (Exec.dec (fun _ _ => true) [] (S (fuelD 0 0)) t (JObj kv)) =
       existsb (fun b => Valid.valid (fun _ _ => true) [] (fuelV 0 0) b (JObj kv)) [ob [97]%N SString; ob [98]%N SInteger] &&
       is_ok (obind (plain_fields (Exec.dec (fun _ _ => true) [] (fuelD 0 0)) zero fs (JObj kv)) (fun st => addl_block fs (Some (Some kv)) st))) /\
    map (fun kv => is_ok (Exec.dec (fun _ _ => true) [] (S (fuelD 0 0)) t (JObj kv))) an_docs = [true; true; false; false] /\
    map (fun kv => existsb (fun b => Valid.valid (fun _ _ => true) [] (fuelV 0 0) b (JObj kv)) [ob [97]%N SString; ob [98]%N SInteger]) an_docs = [true; true; false; true].
Proof.
  eexists. eexists. eexists. split; [vm_compute; reflexivity|]. split; [reflexivity|]. split; [|split; vm_compute; reflexivity].
  intros kv Hkv.
  apply (anyof_objects_exact (fun s => s) (mkCfg false false) [] (fun _ _ => true) [] [] eq_refl eq_refl 0 0 0).
  - constructor; [|constructor; [|constructor]].
    + exists 0, None, true, [84; 95; 48]%N. eexists. split; [discriminate|]. split; [apply ob_sobj; [discriminate|left; reflexivity]|]. split; [|vm_compute; reflexivity].
      cbn [dok]. split; [destruct Hkv as [<-|[<-|[<-|[<-|[]]]]]; repeat constructor; cbn; intuition discriminate|].
      intros k p x Hin Hl. destruct Hin as [Hin|[]]. inversion Hin; subst k p.
      assert (Hx : x = JStr [120]%N) by (destruct Hkv as [<-|[<-|[<-|[<-|[]]]]]; vm_compute in Hl; inversion Hl; reflexivity). subst x.
      split; [discriminate|]. split; [intros _ s0 E; inversion E; reflexivity|]. split; [intros (c & m & E & Ht & _); inversion E; subst c; discriminate|].
      split; [intros (ik & c & it & E & _); inversion E|]. split; [intros (ik & c & a & E & _); inversion E|].
      split; [intros (c & l & E & Ht & _); inversion E; subst c; discriminate|exact I].
    + exists 0, None, true, [84; 95; 49]%N. eexists. split; [discriminate|]. split; [apply ob_sobj; [discriminate|right; reflexivity]|]. split; [|vm_compute; reflexivity].
      cbn [dok]. split; [destruct Hkv as [<-|[<-|[<-|[<-|[]]]]]; repeat constructor; cbn; intuition discriminate|].
      intros k p x Hin Hl. destruct Hin as [Hin|[]]. inversion Hin; subst k p.
      assert (Hx : x = JInt 1 \/ x = JStr [121]%N) by (destruct Hkv as [<-|[<-|[<-|[<-|[]]]]]; vm_compute in Hl; inversion Hl; auto).
      split; [destruct Hx as [-> | ->]; discriminate|]. split; [intros (c & E & Ht & _); inversion E; subst c; discriminate|].
      split; [|split; [intros (ik & c & it & E & _); inversion E|split; [intros (ik & c & a & E & _); inversion E|split; [intros (c & l & E & _ & _ & He & _); inversion E; subst c; discriminate|exact I]]]].
      intros _. split; [destruct Hx as [-> | ->]; discriminate|]. intros n0 E. destruct Hx as [-> | ->]; inversion E. exists 1%Z. split; reflexivity.
  - intros bt [<-|[<-|[]]]; destruct Hkv as [<-|[<-|[<-|[<-|[]]]]]; vm_compute; split; discriminate.
Qed.
