(* C09 for a whole method: the struct method whose validators are default assignments returns the typed decode of the document with, for every
   defaulted field whose key is missing or null, the default literal in its place - every other field (defaulted or not) keeps the decoded value.
   By induction over the validator list, for every document, field list and list of defaults over distinct fields. *)
From GJS Require Import Base Bounds Regex Schema GoType Exec ExecP.

Section Defaults.
Variable decf : gty -> json -> outcome gval.
Variable zf : gty -> gval.
Variable dvf : gty -> json -> option gval.

Definition dname (v : validator) : str := match v with VDefault fn _ _ _ => fn | _ => [] end.
Definition is_default_of (f : str) (v : validator) : bool := str_eqb (dname v) f.
(* a default assignment over an existing, named field whose literal fits *)
Definition dflt_wf (flds : list (str * gval)) (v : validator) : Prop :=
  exists f j ty dv d, v = VDefault f j ty dv /\ f <> [] /\ (exists x, lookup f flds = Some x) /\ dvf ty dv = Some d.

(* what field f holds afterwards *)
Definition expected (raw : raw_t) (flds0 : list (str * gval)) (vs : list validator) (f : str) : option gval :=
  match find (is_default_of f) vs with
  | Some (VDefault _ j ty dv) => if raw_missing raw j then dvf ty dv else lookup f flds0
  | _ => lookup f flds0
  end.

Lemma lookup_set_field_same n (v : gval) fs x : lookup n fs = Some x -> lookup n (set_field n v fs) = Some v.
Proof.
  induction fs as [|[k y] r IH]; cbn; [discriminate|].
  destruct (str_eqb n k) eqn:E; cbn; rewrite ?E; [reflexivity|]. exact IH.
Qed.

Lemma set_field_keeps_keys n (v : gval) fs m : (exists x, lookup m fs = Some x) -> exists x, lookup m (set_field n v fs) = Some x.
Proof.
  intros [x Hx]. destruct (str_eqb m n) eqn:E.
  - apply str_eqb_eq in E. subst m. exists v. exact (lookup_set_field_same n v fs x Hx).
  - exists x. rewrite lookup_set_field_other; [exact Hx|]. intros ->. rewrite str_eqb_refl in E. discriminate.
Qed.

Lemma dflt_wf_set n v flds w : dflt_wf flds w -> dflt_wf (set_field n v flds) w.
Proof.
  intros (f & j & ty & dv & d & -> & Hn & Hx & Hd). exists f, j, ty, dv, d. repeat split; try assumption.
  apply set_field_keeps_keys. exact Hx.
Qed.

Lemma no_default_in_tail f vs : ~ In f (map dname vs) -> find (is_default_of f) vs = None.
Proof.
  induction vs as [|v r IH]; intros H; [reflexivity|]. cbn [find]. unfold is_default_of at 1.
  destruct (str_eqb (dname v) f) eqn:E.
  - exfalso. apply H. left. apply str_eqb_eq. exact E.
  - apply IH. intros Hin. apply H. right. exact Hin.
Qed.

Theorem defaults_run raw vs : raw <> None -> forall flds, Forall (dflt_wf flds) vs -> NoDup (map dname vs) ->
  exists flds', run_after dvf vs raw (GSt flds) = Ok (GSt flds') /\ forall f, f <> [] -> lookup f flds' = expected raw flds vs f.
Proof.
  intros Hraw. induction vs as [|v r IH]; intros flds Hwf Nd.
  - exists flds. split; [reflexivity|]. intros f _. reflexivity.
  - inversion Hwf as [|v0 r0 Hv Hr]; subst. inversion Nd as [|n0 l0 Hnotin Nd']; subst.
    destruct Hv as (fn & j & ty & dv & d & -> & Hfn & [x Hx] & Hd). cbn [dname] in Hnotin.
    unfold run_after. cbn [fold_left obind]. fold (run_after dvf r raw).
    destruct (raw_missing raw j) eqn:Hm.
    + assert (Hs : set_plain fn d (GSt flds) = Some (GSt (set_field fn d flds))).
      { destruct fn as [|c0 n0]; [contradiction|]. cbn [set_plain]. rewrite Hx. reflexivity. }
      rewrite (vdefault_applies dvf raw (GSt flds) fn j ty dv d _ Hraw Hm Hd Hs).
      destruct (IH (set_field fn d flds)) as (flds' & Hrun & Hval); [|exact Nd'|].
      { eapply Forall_impl; [|exact Hr]. intros w Hw. apply dflt_wf_set. exact Hw. }
      exists flds'. split; [exact Hrun|]. intros f Hf. rewrite (Hval f Hf). unfold expected. cbn [find]. unfold is_default_of at 2. cbn [dname].
      destruct (str_eqb fn f) eqn:E.
      * apply str_eqb_eq in E. subst f. rewrite (no_default_in_tail fn r Hnotin), Hm, Hd. exact (lookup_set_field_same fn d flds x Hx).
      * assert (Hne : f <> fn) by (intros ->; rewrite str_eqb_refl in E; discriminate).
        destruct (find (is_default_of f) r) as [[| | fn' j' ty' dv' | | | |]|]; rewrite ?(lookup_set_field_other f fn d flds Hne); reflexivity.
    + rewrite (vdefault_present dvf raw (GSt flds) fn j ty dv Hraw Hm).
      destruct (IH flds Hr Nd') as (flds' & Hrun & Hval).
      exists flds'. split; [exact Hrun|]. intros f Hf. rewrite (Hval f Hf). unfold expected. cbn [find]. unfold is_default_of at 2. cbn [dname].
      destruct (str_eqb fn f) eqn:E; [|reflexivity].
      apply str_eqb_eq in E. subst f. rewrite (no_default_in_tail fn r Hnotin), Hm. reflexivity.
Qed.

(* the whole method of a struct whose validators are defaults (at least one) *)
Theorem defaults_method fs under vs kv flds :
  find f_addl fs = None -> plain_fields decf zf fs (JObj kv) = Ok (GSt flds) ->
  Forall (dflt_wf flds) vs -> NoDup (map dname vs) ->
  exists flds', run_method decf zf dvf (Some fs) under vs (JObj kv) = Ok (GSt flds') /\
                forall f, f <> [] -> lookup f flds' = expected (Some (Some kv)) flds vs f.
Proof.
  intros Ha Hp Hwf Nd. unfold run_method.
  destruct vs as [|v0 r0].
  { cbn [existsb orb obind run_before run_after fold_left]. rewrite Hp. cbn [obind]. unfold addl_block. rewrite Ha. exists flds. split; [reflexivity|]. intros f _. reflexivity. }
  assert (Hraw : existsb v_before (v0 :: r0) || existsb v_raw_after (v0 :: r0) = true).
  { inversion Hwf as [|v1 r1 Hv _]; subst.
    destruct Hv as (fn & j & ty & dv & d & -> & _). cbn [existsb v_before v_raw_after orb]. apply orb_true_r. }
  remember (v0 :: r0) as vs eqn:Evs. clear Evs v0 r0.
  rewrite Hraw. cbn [obind].
  assert (Hb : run_before decf vs (Some (Some kv)) (JObj kv) = Ok tt).
  { unfold run_before. clear Hraw Nd. revert Hwf. generalize flds. induction vs as [|v r IH]; intros fl Hwf; [reflexivity|].
    inversion Hwf as [|v0 r0 Hv Hr]; subst. destruct Hv as (fn & j & ty & dv & d & -> & _). cbn [fold_left obind before_step]. exact (IH fl Hr). }
  rewrite Hb. cbn [obind]. rewrite Hp. cbn [obind].
  destruct (defaults_run (Some (Some kv)) vs (fun E => ltac:(discriminate E)) flds Hwf Nd) as (flds' & Hrun & Hval).
  rewrite Hrun. cbn [obind]. unfold addl_block. rewrite Ha. exists flds'. split; [reflexivity|exact Hval].
Qed.
End Defaults.

(* non-vacuity: fields a (defaulted "x") and b (defaulted "y"); the document {"a": "z", "b": null} *)
Example defaults_inhabited :
  let fs := [mkField [65]%N [97]%N false TString (Some (JStr [120]%N)) false; mkField [66]%N [98]%N false TString (Some (JStr [121]%N)) false] in
  let vs := [VDefault [65]%N [97]%N TString (JStr [120]%N); VDefault [66]%N [98]%N TString (JStr [121]%N)] in
  let kv := [([97]%N, JStr [122]%N); ([98]%N, JNull)] in
  run_method (dec (fun _ _ => true) [] 3) zero (default_val [] 3) (Some fs) TString vs (JObj kv) = Ok (GSt [([65]%N, GS [122]%N); ([66]%N, GS [121]%N)]).
Proof. vm_compute. reflexivity. Qed.

(* ---------- the generator produces such methods: an object all of whose properties are plain strings with a string default ---------- *)
From GJS Require Import Ident Gen GenP.

Definition dstr_leaf (p : schema) : Prop :=
  exists c s0, p = Sch c [] None false None [] [] /\ c_types c = [SString] /\ c_ref c = None /\ c_enum c = None /\ c_default c = Some (JStr s0) /\
               c_format c = None /\ has_string_kw c = false.

Section GenDefaults.
Variable idf : str -> str.
Variable cf : cfg.
Variable defs : list (str * schema).
Notation gen := (Gen.gen idf cf defs).

Lemma gen_dstr_leaf f self sc p : dstr_leaf p -> gen (S f) MInline self false p sc = Done (TString, c_bounds (s_con p)).
Proof.
  intros (c & s0 & -> & Ht & Hr & He & _ & Hf & _). cbn [Gen.gen s_con s_any_of s_all_of]. rewrite He, Hr, Ht. unfold determine_type. rewrite Ht. cbn.
  unfold primitive. rewrite Hf. reflexivity.
Qed.

(* what make_field gives for such a property: a value field and exactly one validator, the default assignment *)
Lemma make_field_dstr c self fname k p : dstr_leaf p ->
  exists s0, c_default (s_con p) = Some (JStr s0) /\
    make_field defs c self fname k p TString (c_bounds (s_con p)) =
    (mkField fname k (negb (mem k (c_required c))) TString (Some (JStr s0)) false, false, [VDefault fname k TString (JStr s0)]).
Proof.
  intros (pc & s0 & -> & Ht & Hr & He & Hd & Hf & Hk). exists s0. cbn [s_con]. split; [exact Hd|].
  unfold make_field. cbn [s_con]. rewrite Hd. unfold default_property_value. cbn [s_addl field_validators]. rewrite Hk. reflexivity.
Qed.

Definition dinfo (i : finfo) : Prop :=
  exists fname k o s0, i = (mkField fname k o TString (Some (JStr s0)) false, false, [VDefault fname k TString (JStr s0)]).

Theorem object_method_defaults_only f self sub s scope t b :
  plain_object s -> s_addl s = None -> (forall k p, In (k, p) (s_props s) -> dstr_leaf p) ->
  gen (S (S f)) MType self sub s scope = Done (t, b) ->
  exists fs vs, t = TStruct [] fs (Some vs) /\ find f_addl fs = None /\ map dname vs = map f_name fs /\
                map f_name fs = map fst (prop_names idf (s_props s)) /\
                Forall (fun v => exists fn j s0, v = VDefault fn j TString (JStr s0)) vs.
Proof.
  intros Hp Ha Hd Hg. destruct (gen_type_object idf cf defs (S f) self sub s scope t b Hp Hg) as [infos [H1 H2]].
  assert (Hinfos : Forall2 (fun np i => fst (fst i) = mkField (fst np) (fst (snd np)) (f_omit (fst (fst i))) TString (f_default (fst (fst i))) false /\ dinfo i /\ f_name (fst (fst i)) = fst np)
                           (prop_names idf (s_props s)) infos).
  { apply rmap_Done in H1. assert (Hin : forall np, In np (prop_names idf (s_props s)) -> In (snd np) (s_props s)).
    { intros [fname kp] Hnp. unfold prop_names in Hnp. apply in_combine_r in Hnp. rewrite sort_props_In in Hnp. exact Hnp. }
    clear H2 Hg. set (nps := prop_names idf (s_props s)) in *. clearbody nps. revert Hin.
    induction H1 as [|np i l1 l2 Hnp _ IH]; intros Hin; [constructor|]. constructor.
    - destruct np as [fname [k p]]. unfold gen_field in Hnp.
      assert (Hl : dstr_leaf p) by (apply (Hd k); exact (Hin (fname, (k, p)) (or_introl eq_refl))).
      rewrite (gen_dstr_leaf f self (scope ++ fname) p Hl) in Hnp. cbn [rbind fst snd] in Hnp. inversion Hnp as [Hi]. clear Hnp.
      destruct (make_field_dstr (s_con s) self fname k p Hl) as (s0 & _ & Hm). rewrite Hm. cbn [fst snd f_omit f_default f_name].
      split; [reflexivity|]. split; [|reflexivity]. exists fname, k, (negb (mem k (c_required (s_con s)))), s0. reflexivity.
    - apply IH. intros np1 Hin1. apply Hin. right; exact Hin1. }
  unfold build_struct in H2. rewrite Ha in H2. inversion H2; subst. clear H2.
  eexists. eexists. split; [reflexivity|].
  assert (Hreq : flat_map (fun i : finfo => if snd (fst i) then [VRequired (f_json (fst (fst i)))] else []) infos = []).
  { clear Hg H1. induction Hinfos as [|np i l1 l2 (_ & (fn & k & o & s0 & ->) & _) _ IH]; [reflexivity|]. cbn [flat_map fst snd]. exact IH. }
  rewrite Hreq. cbn [app].
  split; [|split; [|split]].
  - clear Hg H1 Hreq. induction Hinfos as [|np i l1 l2 (_ & (fn & k & o & s0 & ->) & _) _ IH]; [reflexivity|]. cbn [map find fst f_addl]. exact IH.
  - clear Hg H1 Hreq. induction Hinfos as [|np i l1 l2 (_ & (fn & k & o & s0 & ->) & _) _ IH]; [reflexivity|]. cbn [flat_map map fst snd app dname f_name]. rewrite IH. reflexivity.
  - clear Hg H1 Hreq. induction Hinfos as [|np i l1 l2 (_ & _ & Hn) _ IH]; [reflexivity|]. cbn [map]. rewrite Hn, IH. reflexivity.
  - clear Hg H1 Hreq. induction Hinfos as [|np i l1 l2 (_ & (fn & k & o & s0 & ->) & _) _ IH]; [constructor|]. cbn [flat_map snd app]. constructor; [|exact IH].
    exists fn, k, s0. reflexivity.
Qed.
End GenDefaults.

(* ---------- composed: generator + method, for every object of defaulted strings and every document ---------- *)
Lemma omap_fst_names (decf : gty -> json -> outcome gval) (zf : gty -> gval) kv : forall fs vs,
  omap (fun fl => if f_addl fl then Ok (f_name fl, zf (f_ty fl))
                  else match lookup (f_json fl) kv with
                       | Some x => obind (decf (f_ty fl) x) (fun v => Ok (f_name fl, v))
                       | None => Ok (f_name fl, zf (f_ty fl))
                       end) fs = Ok vs -> map fst vs = map f_name fs.
Proof.
  induction fs as [|fl r IH]; intros vs H; cbn [omap] in H.
  - inversion H. reflexivity.
  - destruct (f_addl fl).
    + cbn [obind] in H. destruct (omap _ r) as [ys| | |] eqn:E; cbn [obind] in H; try discriminate. inversion H; subst. cbn [map fst]. rewrite (IH ys eq_refl). reflexivity.
    + destruct (lookup (f_json fl) kv) as [x|].
      * destruct (decf (f_ty fl) x) as [v| | |]; cbn [obind] in H; try discriminate.
        destruct (omap _ r) as [ys| | |] eqn:E; cbn [obind] in H; try discriminate. inversion H; subst. cbn [map fst]. rewrite (IH ys eq_refl). reflexivity.
      * cbn [obind] in H. destruct (omap _ r) as [ys| | |] eqn:E; cbn [obind] in H; try discriminate. inversion H; subst. cbn [map fst]. rewrite (IH ys eq_refl). reflexivity.
Qed.

Lemma plain_fields_names decf zf fs kv flds : plain_fields decf zf fs (JObj kv) = Ok (GSt flds) -> map fst flds = map f_name fs.
Proof.
  unfold plain_fields. intros H. destruct (omap _ fs) as [vs| | |] eqn:E; cbn [obind] in H; try discriminate. inversion H; subst. exact (omap_fst_names decf zf kv fs flds E).
Qed.

Lemma lookup_in_keys (n : str) (flds : list (str * gval)) : In n (map fst flds) -> exists x, lookup n flds = Some x.
Proof.
  induction flds as [|[k y] r IH]; cbn; [contradiction|]. intros [E|Hin].
  - subst k. rewrite str_eqb_refl. eexists; reflexivity.
  - destruct (str_eqb n k); [eexists; reflexivity|exact (IH Hin)].
Qed.

Theorem defaulted_object_method idf cf defs f self sub s scope t b :
  plain_object s -> s_addl s = None -> (forall k p, In (k, p) (s_props s) -> dstr_leaf p) ->
  NoDup (map fst (prop_names idf (s_props s))) -> (forall fname kp, In (fname, kp) (prop_names idf (s_props s)) -> fname <> []) ->
  Gen.gen idf cf defs (S (S f)) MType self sub s scope = Done (t, b) ->
  exists fs vs, t = TStruct [] fs (Some vs) /\
    forall decf zf dvf under kv flds,
      (forall s0, dvf TString (JStr s0) = Some (GS s0)) ->
      plain_fields decf zf fs (JObj kv) = Ok (GSt flds) ->
      exists flds', run_method decf zf dvf (Some fs) under vs (JObj kv) = Ok (GSt flds') /\
                    forall fn, fn <> [] -> lookup fn flds' = expected dvf (Some (Some kv)) flds vs fn.
Proof.
  intros Hp Ha Hd Nn Hne Hg.
  destruct (object_method_defaults_only idf cf defs f self sub s scope t b Hp Ha Hd Hg) as (fs & vs & -> & Hfa & Hdn & Hfn & Hall).
  exists fs, vs. split; [reflexivity|]. intros decf zf dvf under kv flds Hdv Hpf.
  apply (defaults_method decf zf dvf fs under vs kv flds Hfa Hpf).
  - pose proof (plain_fields_names decf zf fs kv flds Hpf) as Hk.
    assert (Hnames : forall fn, In fn (map dname vs) -> fn <> [] /\ exists x, lookup fn flds = Some x).
    { intros fn Hin. rewrite Hdn in Hin. split.
      - rewrite Hfn in Hin. apply in_map_iff in Hin. destruct Hin as ([fname kp] & <- & Hin). exact (Hne fname kp Hin).
      - apply lookup_in_keys. rewrite Hk. exact Hin. }
    clear Hdn Hg. revert Hnames. induction Hall as [|v r (fn & j & s0 & ->) _ IH]; intros Hnames; [constructor|]. constructor.
    + assert (Hin0 : In fn (map dname (VDefault fn j TString (JStr s0) :: r))) by (left; reflexivity).
      destruct (Hnames fn Hin0) as [H1 H2]. exists fn, j, TString, (JStr s0), (GS s0). repeat split; try assumption. apply Hdv.
    + apply IH. intros fn' Hin. apply Hnames. right. exact Hin.
  - rewrite Hdn, Hfn. exact Nn.
Qed.

(* non-vacuity of [defaulted_object_method]: {a: string default "x", b: string default "y"} *)
Definition ex_dstr (d : str) : schema := Sch (mkC [SString] None None [] 0 0 0 0 None None (mkBounds None None None None) (Some (JStr d)) None) [] None false None [] [].
Definition ex_dobj : schema :=
  Sch (mkC [SObject] None None [] 0 0 0 0 None None (mkBounds None None None None) None None) [([97]%N, ex_dstr [120]%N); ([98]%N, ex_dstr [121]%N)] None false None [] [].
Example defaulted_object_inhabited :
  plain_object ex_dobj /\ s_addl ex_dobj = None /\ (forall k p, In (k, p) (s_props ex_dobj) -> dstr_leaf p) /\
  NoDup (map fst (prop_names (fun s => s) (s_props ex_dobj))) /\ (forall fname kp, In (fname, kp) (prop_names (fun s => s) (s_props ex_dobj)) -> fname <> []) /\
  exists t b, Gen.gen (fun s => s) (mkCfg false false) [] 3 MType None false ex_dobj [82]%N = Done (t, b).
Proof.
  split; [repeat split; try reflexivity; discriminate|]. split; [reflexivity|]. split.
  - intros k p [H|[H|[]]]; inversion H; subst; eexists; eexists; repeat split; reflexivity.
  - split; [vm_compute; repeat constructor; cbn; intuition discriminate|]. split.
    + intros fname kp H. vm_compute in H. destruct H as [H|[H|[]]]; inversion H; subst; discriminate.
    + eexists. eexists. vm_compute. reflexivity.
Qed.
