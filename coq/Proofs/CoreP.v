(* Generator + run time together: what the type generated for a schema does with documents. *)
From GJS Require Import Base Bounds BoundsP NumericP IntSize Regex Schema GoType Ident Gen Exec Valid ExecP GenP.

Section CoreP.
Variable fmt_ok : fmtk -> str -> bool.
Variable env : list (str * gty).
Variable idf : str -> str.
Variable cf : cfg.
Variable defs : list (str * schema).
Notation dec := (dec fmt_ok env).
Notation gen := (gen idf cf defs).

(* ------------------------------------------------------------------ C04: required, at every depth *)
(* [s] is a plain object schema generated as a property / array item (generateTypeInline) into
   the type [t]; the object value sits anywhere inside the document [J] decoded as [T] *)
Theorem required_enforced_inline f self sub s scope t b k p T J kv :
  plain_object s -> c_types (s_con s) = [SObject] -> g_only_models cf = false -> scope <> [] ->
  gen (S (S (S f))) MInline self sub s scope = Done (t, b) ->
  In (k, p) (s_props s) -> mem k (c_required (s_con s)) = true -> c_default (s_con p) = None ->
  lookup k kv = None -> inside_star env T J t (JObj kv) ->
  forall fuel, is_ok (dec fuel T J) = false.
Proof.
  intros Hobj Ht Hom Hsc Hg Hin Hreq Hdef Hk Hins.
  destruct (inline_object idf cf defs f self sub s scope t b k p Hobj Ht Hom Hsc Hg Hin Hreq Hdef) as (c & name & fs & plan & -> & Hp).
  apply inside_star_fails with (t' := TStruct (c :: name) fs (Some plan)) (j' := JObj kv); [exact Hins|].
  intros f0. apply struct_rejects_missing_required with (k := k); assumption.
Qed.

(* the same for a definition or the root (generateDeclaredType) *)
Theorem required_enforced_declared f self sub s scope t b k p T J kv :
  plain_object s -> g_only_models cf = false -> scope <> [] ->
  gen (S (S f)) MDeclared self sub s scope = Done (t, b) ->
  In (k, p) (s_props s) -> mem k (c_required (s_con s)) = true -> c_default (s_con p) = None ->
  lookup k kv = None -> inside_star env T J t (JObj kv) ->
  forall fuel, is_ok (dec fuel T J) = false.
Proof.
  intros Hobj Hom Hsc Hg Hin Hreq Hdef Hk Hins.
  destruct (declared_object idf cf defs f self sub s scope t b k p Hobj Hom Hsc Hg Hin Hreq Hdef) as (c & name & fs & plan & -> & Hp).
  apply inside_star_fails with (t' := TStruct (c :: name) fs (Some plan)) (j' := JObj kv); [exact Hins|].
  intros f0. apply struct_rejects_missing_required with (k := k); assumption.
Qed.

(* ------------------------------------------------------------------ which validators the generator attaches *)
Lemma string_validator_attached fname jn c b nillable :
  has_string_kw c = true ->
  field_validators fname jn c b TString nillable = [VString fname jn nillable (c_min_len c) (c_max_len c) (c_pattern c)].
Proof. intros H. cbn. rewrite H. reflexivity. Qed.
Lemma string_validator_attached_ptr fname jn c b nillable :
  has_string_kw c = true ->
  field_validators fname jn c b (TPtr TString) nillable = [VString fname jn true (c_min_len c) (c_max_len c) (c_pattern c)].
Proof. intros H. cbn. rewrite H. reflexivity. Qed.
Lemma string_validator_absent fname jn c b nillable : has_string_kw c = false -> field_validators fname jn c b TString nillable = [].
Proof. intros H. cbn. rewrite H. reflexivity. Qed.

Lemma numeric_validator_attached_int fname jn c b k nillable :
  has_bound_kw (c_mult c) b = true ->
  field_validators fname jn c b (TInt k) nillable = [VNumeric fname jn nillable true (c_mult c) b].
Proof. intros H. cbn. rewrite H. reflexivity. Qed.
Lemma numeric_validator_attached_float fname jn c b nillable :
  has_bound_kw (c_mult c) b = true ->
  field_validators fname jn c b TFloat nillable = [VNumeric fname jn nillable false (c_mult c) b].
Proof. intros H. cbn. rewrite H. reflexivity. Qed.
Lemma numeric_validator_attached_ptr fname jn c b k nillable :
  has_bound_kw (c_mult c) b = true ->
  field_validators fname jn c b (TPtr (TInt k)) nillable = [VNumeric fname jn true true (c_mult c) b].
Proof. intros H. cbn. rewrite H. reflexivity. Qed.

(* the array loop: one validator per nesting level of an inline array, all with the field's own limits *)
Fixpoint nest (d : nat) (e : gty) : gty := match d with O => e | S d' => TSlice true (nest d' e) end.
Definition not_inline_slice (e : gty) : bool := match e with TSlice true _ | TNullT => false | _ => true end.

Lemma array_validators_slice fname jn mn mx depth e : e <> TNullT ->
  array_validators fname jn mn mx depth (TSlice true e)
  = (if negb (Nat.eqb mn 0) || negb (Nat.eqb mx 0) then [VArray fname jn depth mn mx] else [])
    ++ array_validators fname jn mn mx (S depth) e.
Proof. intros H. destruct e; try reflexivity. congruence. Qed.

Lemma nest_not_null d e : not_inline_slice e = true -> nest d e <> TNullT.
Proof. intros H. destruct d; cbn; [destruct e; try discriminate; congruence|discriminate]. Qed.

Lemma array_validators_nest fname jn mn mx e : not_inline_slice e = true -> (mn <> 0 \/ mx <> 0) ->
  forall d depth, array_validators fname jn mn mx depth (nest d e) = map (fun i => VArray fname jn (depth + i) mn mx) (seq 0 d).
Proof.
  intros He Hl. assert (Hc : negb (Nat.eqb mn 0) || negb (Nat.eqb mx 0) = true) by (natb; cbn; auto; lia).
  induction d as [|d IH]; intros depth.
  - cbn. destruct e as [| | | | | | | |[] ?| | | | |]; try reflexivity; discriminate.
  - cbn [nest]. rewrite array_validators_slice by (apply nest_not_null; exact He).
    rewrite Hc, IH. cbn [seq map app]. rewrite Nat.add_0_r. f_equal.
    rewrite <- seq_shift, map_map. apply map_ext. intros i. f_equal. lia.
Qed.

(* ------------------------------------------------------------------ a struct method enforces the validators of its fields *)
(* required / defaulted positions hold the value itself; optional and nullable ones a pointer *)
Theorem struct_enforces_string f c0 name fs vs kv fl jn (nillable : bool) mn mx p s :
  NoDup (map f_name fs) -> In fl fs -> f_addl fl = false -> f_name fl <> [] ->
  f_ty fl = (if nillable then TPtr TString else TString) ->
  lookup (f_json fl) kv = Some (JStr s) ->
  In (VString (f_name fl) jn nillable mn mx p) vs -> (forall v', In v' vs -> touches (f_name fl) v' = false) ->
  spec_string_bytes mn mx p s = false ->
  is_ok (dec f (TStruct (c0 :: name) fs (Some vs)) (JObj kv)) = false.
Proof.
  intros Hnd Hin Ha Hn Hty Hl Hv Ht Hs. destruct f as [|f]; [reflexivity|]. cbn [Exec.dec].
  destruct f as [|f].
  { (* no fuel for the field: the field decode itself is not Ok *)
    apply run_method_inner. eapply plain_fields_inner; eauto; reflexivity. }
  destruct nillable.
  - destruct f as [|f]; [apply run_method_inner; eapply plain_fields_inner; eauto; rewrite Hty; reflexivity|].
    eapply method_rejects_field with (fl := fl) (x := GP (GS s)) (v := VString (f_name fl) jn true mn mx p); eauto.
    + rewrite Hty. reflexivity.
    + intros raw st0 Hg. rewrite vstring_pointer with (s := s) by exact Hg. rewrite Hs. reflexivity.
  - eapply method_rejects_field with (fl := fl) (x := GS s) (v := VString (f_name fl) jn false mn mx p); eauto.
    + rewrite Hty. reflexivity.
    + intros raw st0 Hg. rewrite vstring_value with (s := s) by exact Hg. rewrite Hs. reflexivity.
Qed.

Theorem struct_enforces_number f c0 name fs vs kv fl jn (nillable : bool) mult b n :
  NoDup (map f_name fs) -> In fl fs -> f_addl fl = false -> f_name fl <> [] ->
  f_ty fl = (if nillable then TPtr TFloat else TFloat) ->
  lookup (f_json fl) kv = Some (JNum n) ->
  In (VNumeric (f_name fl) jn nillable false mult b) vs -> (forall v', In v' vs -> touches (f_name fl) v' = false) ->
  accept_numeric false mult b (nq n) = false ->
  is_ok (dec f (TStruct (c0 :: name) fs (Some vs)) (JObj kv)) = false.
Proof.
  intros Hnd Hin Ha Hn Hty Hl Hv Ht Hs. destruct f as [|f]; [reflexivity|]. cbn [Exec.dec].
  destruct f as [|f].
  { apply run_method_inner. eapply plain_fields_inner; eauto; reflexivity. }
  destruct nillable.
  - destruct f as [|f]; [apply run_method_inner; eapply plain_fields_inner; eauto; rewrite Hty; reflexivity|].
    eapply method_rejects_field with (fl := fl) (x := GP (GF (nq n))) (v := VNumeric (f_name fl) jn true false mult b); eauto.
    + rewrite Hty. reflexivity.
    + intros raw st0 Hg. rewrite vnumeric_pointer with (x := GF (nq n)) (q := nq n) by (auto; reflexivity). rewrite Hs. reflexivity.
  - eapply method_rejects_field with (fl := fl) (x := GF (nq n)) (v := VNumeric (f_name fl) jn false false mult b); eauto.
    + rewrite Hty. reflexivity.
    + intros raw st0 Hg. rewrite vnumeric_value with (x := GF (nq n)) (q := nq n) by (auto; reflexivity). rewrite Hs. reflexivity.
Qed.

Theorem struct_enforces_integer f c0 name fs vs kv fl jn (nillable : bool) mult b k z :
  NoDup (map f_name fs) -> In fl fs -> f_addl fl = false -> f_name fl <> [] ->
  f_ty fl = (if nillable then TPtr (TInt k) else TInt k) ->
  lookup (f_json fl) kv = Some (JInt z) -> in_range k z = true ->
  In (VNumeric (f_name fl) jn nillable true mult b) vs -> (forall v', In v' vs -> touches (f_name fl) v' = false) ->
  accept_numeric true mult b (inject_Z z) = false ->
  is_ok (dec f (TStruct (c0 :: name) fs (Some vs)) (JObj kv)) = false.
Proof.
  intros Hnd Hin Ha Hn Hty Hl Hr Hv Ht Hs. destruct f as [|f]; [reflexivity|]. cbn [Exec.dec].
  destruct f as [|f].
  { apply run_method_inner. eapply plain_fields_inner; eauto; reflexivity. }
  assert (Hdec : forall f', Exec.dec fmt_ok env (S f') (TInt k) (JInt z) = Ok (GI z)).
  { intros f'. cbn. unfold Qis_int, Qfloor_z; cbn. rewrite Z.rem_1_r, Z.div_1_r, Hr. reflexivity. }
  destruct nillable.
  - destruct f as [|f]; [apply run_method_inner; eapply plain_fields_inner; eauto; rewrite Hty; reflexivity|].
    eapply method_rejects_field with (fl := fl) (x := GP (GI z)) (v := VNumeric (f_name fl) jn true true mult b); eauto.
    + rewrite Hty. change (Exec.dec fmt_ok env (S (S f)) (TPtr (TInt k)) (JInt z)) with (obind (Exec.dec fmt_ok env (S f) (TInt k) (JInt z)) (fun v => Ok (GP v))).
      rewrite Hdec. reflexivity.
    + intros raw st0 Hg. rewrite vnumeric_pointer with (x := GI z) (q := inject_Z z) by (auto; reflexivity). rewrite Hs. reflexivity.
  - eapply method_rejects_field with (fl := fl) (x := GI z) (v := VNumeric (f_name fl) jn false true mult b); eauto.
    + rewrite Hty. apply Hdec.
    + intros raw st0 Hg. rewrite vnumeric_value with (x := GI z) (q := inject_Z z) by (auto; reflexivity). rewrite Hs. reflexivity.
Qed.

(* ------------------------------------------------------------------ defaults (C09) *)
(* a property with a default: the field is a value (never pointer-wrapped by the optional rule), it does not
   count as required, and its `default` assignment precedes its own validators *)
Lemma make_field_default c self fname k p ty bp dv :
  c_default (s_con p) = Some dv ->
  make_field defs c self fname k p ty bp
  = (mkField fname k (negb (mem k (c_required c))) ty (Some (default_property_value p dv)) false, false,
     VDefault fname k ty (default_property_value p dv) :: field_validators fname k (s_con p) bp ty false).
Proof. intros H. unfold make_field. rewrite H. reflexivity. Qed.

(* an optional property without default becomes a pointer unless its type is nillable *)
Lemma make_field_optional c self fname k p ty bp :
  c_default (s_con p) = None -> mem k (c_required c) = false -> nillable_ty (ref_nillable defs self) ty = false ->
  fst (fst (make_field defs c self fname k p ty bp)) = mkField fname k true (TPtr ty) None false.
Proof. intros H1 H2 H3. unfold make_field. rewrite H1, H2, H3. reflexivity. Qed.

End CoreP.
