(* The generated Unmarshal method, characterised exactly (C02, C03, C04, C05, C06 at the level of one method):
   for a method whose validators are presence and value checks (no default assignment, no composite), a JSON object is
   accepted iff  every required key is present,  every present key decodes into its field's type,  and every check
   passes on the decoded fields.  Both directions, every field list, every validator list, every document. *)
From GJS Require Import Base Bounds IntSize Regex Schema GoType Exec ExecP.

Section MethodP.
Variable decf : gty -> json -> outcome gval.
Variable zf : gty -> gval.
Variable dvf : gty -> json -> option gval.

Definition check_only (v : validator) : bool := match v with VDefault _ _ _ _ | VAnyOf _ => false | _ => true end.

Lemma after_step_same raw st v st' : check_only v = true -> after_step dvf raw st v = Ok st' -> st' = st.
Proof.
  destruct v; cbn [check_only after_step]; try discriminate; intros _ H.
  all: repeat (cbn [obind] in H; match type of H with
         | Ok _ = Ok _ => inversion H; reflexivity
         | context [obind ?o _] => destruct o eqn:?; try discriminate
         | context [match ?y with _ => _ end] => destruct y eqn:?; try discriminate
         | context [if ?c then _ else _] => destruct c eqn:?; try discriminate
         end).
Qed.

Lemma run_after_exact raw vs : forall st, forallb check_only vs = true ->
  is_ok (run_after dvf vs raw st) = forallb (fun v => is_ok (after_step dvf raw st v)) vs /\
  (is_ok (run_after dvf vs raw st) = true -> run_after dvf vs raw st = Ok st).
Proof.
  unfold run_after. induction vs as [|v r IH]; intros st Hc; [split; reflexivity|].
  cbn [forallb] in Hc. apply andb_true_iff in Hc. destruct Hc as [Hv Hr].
  cbn [fold_left forallb obind]. destruct (after_step dvf raw st v) as [st'| | |] eqn:E.
  - rewrite (after_step_same _ _ _ _ Hv E). cbn [is_ok andb]. exact (IH st Hr).
  - split; [apply fold_after_stuck; reflexivity|]. intros H. rewrite fold_after_stuck in H by reflexivity. discriminate.
  - split; [apply fold_after_stuck; reflexivity|]. intros H. rewrite fold_after_stuck in H by reflexivity. discriminate.
  - split; [apply fold_after_stuck; reflexivity|]. intros H. rewrite fold_after_stuck in H by reflexivity. discriminate.
Qed.

Lemma run_before_exact raw j vs :
  is_ok (run_before decf vs raw j) = forallb (fun v => is_ok (before_step decf raw j v)) vs.
Proof.
  unfold run_before. induction vs as [|v r IH]; [reflexivity|].
  cbn [fold_left forallb obind]. destruct (before_step decf raw j v) as [[]| | |] eqn:E; cbn [is_ok andb]; [exact IH| | |]; apply fold_before_stuck; reflexivity.
Qed.

Lemma omap_is_ok {A B} (g : A -> outcome B) (l : list A) : is_ok (omap g l) = true <-> forallb (fun x => is_ok (g x)) l = true.
Proof.
  induction l as [|x r IH]; [split; reflexivity|]. cbn [omap forallb]. destruct (g x) as [y| | |]; cbn [obind is_ok andb]; try (split; discriminate).
  rewrite <- IH. destruct (omap g r); cbn; split; auto.
Qed.

(* which keys must decode *)
Definition field_decodes (kv : list (str * json)) (fl : field) : bool :=
  f_addl fl || match lookup (f_json fl) kv with Some x => is_ok (decf (f_ty fl) x) | None => true end.

Lemma plain_fields_is_ok fs kv : is_ok (plain_fields decf zf fs (JObj kv)) = true <-> forallb (field_decodes kv) fs = true.
Proof.
  cbn [plain_fields]. set (g := fun fl : field => if f_addl fl then Ok (f_name fl, zf (f_ty fl)) else match lookup (f_json fl) kv with
      | Some x => obind (decf (f_ty fl) x) (fun v => Ok (f_name fl, v)) | None => Ok (f_name fl, zf (f_ty fl)) end).
  assert (H : is_ok (obind (omap g fs) (fun vs => Ok (GSt vs))) = is_ok (omap g fs)) by (destruct (omap g fs); reflexivity).
  rewrite H, omap_is_ok. assert (He : forall fl, is_ok (g fl) = field_decodes kv fl).
  { intros fl. unfold g, field_decodes. destruct (f_addl fl); [reflexivity|]. destruct (lookup (f_json fl) kv); [|reflexivity]. destruct (decf (f_ty fl) j); reflexivity. }
  rewrite (forallb_ext_in _ (field_decodes kv) fs (fun x _ => He x)). tauto.
Qed.

Definition raw_of (vs : list validator) (kv : list (str * json)) : raw_t :=
  if existsb v_before vs || existsb v_raw_after vs then Some (Some kv) else None.

Definition body (fs : list field) (vs : list validator) (j : json) (raw : raw_t) : outcome gval :=
  obind (run_before decf vs raw j) (fun _ =>
  obind (plain_fields decf zf fs j) (fun st =>
  obind (run_after dvf vs raw st) (fun st => addl_block fs raw st))).

Lemma run_method_body fs under vs kv :
  run_method decf zf dvf (Some fs) under vs (JObj kv) = body fs vs (JObj kv) (raw_of vs kv).
Proof. unfold run_method, raw_of, body. cbv zeta. destruct (existsb v_before vs || existsb v_raw_after vs); reflexivity. Qed.

Lemma body_exact fs vs j raw : forallb check_only vs = true -> find f_addl fs = None ->
  is_ok (body fs vs j raw) =
    forallb (fun v => is_ok (before_step decf raw j v)) vs &&
    match plain_fields decf zf fs j with
    | Ok st => forallb (fun v => is_ok (after_step dvf raw st v)) vs
    | _ => false
    end /\
  forall st, body fs vs j raw = Ok st -> plain_fields decf zf fs j = Ok st.
Proof.
  intros Hc Ha. unfold body. rewrite <- run_before_exact.
  destruct (run_before decf vs raw j) as [[]| | |]; cbn [obind is_ok andb]; try (split; [reflexivity|discriminate]).
  destruct (plain_fields decf zf fs j) as [st| | |]; cbn [obind is_ok]; try (split; [reflexivity|discriminate]).
  destruct (run_after_exact raw vs st Hc) as [H1 H2]. rewrite <- H1.
  destruct (run_after dvf vs raw st) as [st1| | |] eqn:E; cbn [obind is_ok] in *; try (split; [reflexivity|discriminate]).
  specialize (H2 eq_refl). inversion H2; subst st1. unfold addl_block. rewrite Ha. split; [reflexivity|]. intros st0 H; inversion H; reflexivity.
Qed.

(* the method accepts a JSON object iff every before-check passes, every present key decodes, and every after-check passes on the decoded fields *)
Theorem method_exact fs under vs kv : forallb check_only vs = true -> find f_addl fs = None ->
  is_ok (run_method decf zf dvf (Some fs) under vs (JObj kv)) =
    forallb (fun v => is_ok (before_step decf (raw_of vs kv) (JObj kv) v)) vs &&
    match plain_fields decf zf fs (JObj kv) with
    | Ok st => forallb (fun v => is_ok (after_step dvf (raw_of vs kv) st v)) vs
    | _ => false
    end.
Proof. intros Hc Ha. rewrite run_method_body. exact (proj1 (body_exact fs vs _ _ Hc Ha)). Qed.

(* and the accepted value is the decoded struct itself: nothing is lost, nothing is added *)
Theorem method_exact_value fs under vs kv st : forallb check_only vs = true -> find f_addl fs = None ->
  run_method decf zf dvf (Some fs) under vs (JObj kv) = Ok st -> plain_fields decf zf fs (JObj kv) = Ok st.
Proof. intros Hc Ha. rewrite run_method_body. exact (proj2 (body_exact fs vs _ _ Hc Ha) st). Qed.
End MethodP.

(* the same for the decoding of a declared struct type *)
Theorem struct_exact fmt_ok env f c n fs vs kv : forallb check_only vs = true -> find f_addl fs = None ->
  is_ok (Exec.dec fmt_ok env (S f) (TStruct (c :: n) fs (Some vs)) (JObj kv)) =
    forallb (fun v => is_ok (before_step (Exec.dec fmt_ok env f) (raw_of vs kv) (JObj kv) v)) vs &&
    match plain_fields (Exec.dec fmt_ok env f) zero fs (JObj kv) with
    | Ok st => forallb (fun v => is_ok (after_step (default_val env dv_fuel) (raw_of vs kv) st v)) vs
    | _ => false
    end.
Proof. intros Hc Ha. cbn [Exec.dec]. apply method_exact; assumption. Qed.

Theorem struct_exact_value fmt_ok env f c n fs vs kv st : forallb check_only vs = true -> find f_addl fs = None ->
  Exec.dec fmt_ok env (S f) (TStruct (c :: n) fs (Some vs)) (JObj kv) = Ok st ->
  plain_fields (Exec.dec fmt_ok env f) zero fs (JObj kv) = Ok st.
Proof. intros Hc Ha. cbn [Exec.dec]. apply method_exact_value; assumption. Qed.

(* ---------- the generator produces such methods for objects without defaults and without additionalProperties ---------- *)
From GJS Require Import Gen GenP.

Lemma array_validators_check_only fn jn mn mx : forall t d, forallb check_only (array_validators fn jn mn mx d t) = true.
Proof.
  fix IH 1. intros t d. destruct t as [| | | | | | |?|inl e|?|? ? ?|? ? ?|? ? ? ?|?]; try reflexivity.
  destruct inl; [|reflexivity]. pose proof (IH e (S d)) as IHe. clear IH.
  destruct e; cbn [array_validators]; try reflexivity;
    (rewrite forallb_app; apply andb_true_iff; split; [destruct (negb (mn =? 0) || negb (mx =? 0)); reflexivity | first [exact IHe | reflexivity]]).
Qed.

Lemma field_validators_check_only fn jn c b : forall t nl, forallb check_only (field_validators fn jn c b t nl) = true.
Proof.
  fix IH 1. intros t nl. destruct t as [| | | | | | |u|inl e|?|? ? ?|? ? ?|? ? ? ?|?]; cbn [field_validators]; try reflexivity.
  - destruct (has_string_kw c); reflexivity.
  - destruct (has_bound_kw (c_mult c) b); reflexivity.
  - destruct (has_bound_kw (c_mult c) b); reflexivity.
  - exact (IH u true).
  - destruct inl; [|reflexivity]. apply array_validators_check_only.
Qed.

Section GenMethod.
Variable idf : str -> str.
Variable cf : cfg.
Variable defs : list (str * schema).

Definition info_plain (i : finfo) : Prop := f_addl (fst (fst i)) = false /\ forallb check_only (snd i) = true.

Lemma make_field_plain c self fname k p ty bp : c_default (s_con p) = None -> info_plain (make_field defs c self fname k p ty bp).
Proof.
  intros Hd. unfold make_field. rewrite Hd. destruct (mem k (c_required c)); [split; [reflexivity|apply field_validators_check_only]|].
  destruct (nillable_ty (ref_nillable defs self) ty); (split; [reflexivity|apply field_validators_check_only]).
Qed.

Lemma build_struct_plain s b0 infos t b : s_addl s = None -> Forall info_plain infos -> build_struct s b0 infos = Done (t, b) ->
  exists fs vs, t = TStruct [] fs (Some vs) /\ forallb check_only vs = true /\ find f_addl fs = None.
Proof.
  intros Ha Hi. unfold build_struct. rewrite Ha. intros H. inversion H; subst. clear H. eexists. eexists. split; [reflexivity|]. split.
  - rewrite forallb_app. apply andb_true_iff. split.
    + clear. induction infos as [|i r IH]; [reflexivity|]. cbn [flat_map]. rewrite forallb_app, IH. destruct (snd (fst i)); reflexivity.
    + induction Hi as [|i r [_ Hv] _ IH]; [reflexivity|]. cbn [flat_map]. rewrite forallb_app, Hv. exact IH.
  - induction Hi as [|i r [Hf _] _ IH]; [reflexivity|]. cbn [map find]. rewrite Hf. exact IH.
Qed.

(* an object schema none of whose properties has a default, without additionalProperties: its struct has a checks-only method *)
Theorem object_method_checks_only f self sub s scope t b :
  plain_object s -> s_addl s = None -> (forall k p, In (k, p) (s_props s) -> c_default (s_con p) = None) -> s_props s <> [] ->
  Gen.gen idf cf defs (S f) MType self sub s scope = Done (t, b) ->
  exists fs vs, t = TStruct [] fs (Some vs) /\ forallb check_only vs = true /\ find f_addl fs = None.
Proof.
  intros Hp Ha Hd Hne Hg. destruct (gen_type_object idf cf defs f self sub s scope t b Hp Hg) as [infos [H1 H2]].
  apply (build_struct_plain _ _ _ _ _ Ha) in H2; [exact H2|].
  apply rmap_Done in H1. assert (Hin : forall np, In np (prop_names idf (s_props s)) -> In (snd np) (s_props s)).
  { intros [fname kp] Hnp. unfold prop_names in Hnp. apply in_combine_r in Hnp. rewrite sort_props_In in Hnp. exact Hnp. }
  clear H2 Hg. set (nps := prop_names idf (s_props s)) in *. clearbody nps. revert Hin.
  induction H1 as [|np i l1 l2 Hnp _ IH]; intros Hin; [constructor|]. constructor.
  - destruct np as [fname [k p]]. unfold gen_field in Hnp. destruct (Gen.gen idf cf defs f MInline self false p (scope ++ fname)) as [[ty bp]| | |]; cbn in Hnp; try discriminate.
    inversion Hnp; subst. apply make_field_plain. apply (Hd k). exact (Hin (fname, (k, p)) (or_introl eq_refl)).
  - apply IH. intros np1 Hin1. apply Hin. right; exact Hin1.
Qed.
End GenMethod.

(* ---------- C04, both directions: the before-checks of a checks-only method pass iff every required key is present ---------- *)
Definition required_of (vs : list validator) : list str :=
  flat_map (fun v => match v with VRequired k => [k] | _ => [] end) vs.

Lemma before_checks_exact decf vs kv : forallb check_only vs = true ->
  forallb (fun v => is_ok (before_step decf (raw_of vs kv) (JObj kv) v)) vs =
  forallb (fun k => match lookup k kv with Some _ => true | None => false end) (required_of vs).
Proof.
  intros Hc. unfold raw_of. destruct (existsb v_before vs || existsb v_raw_after vs) eqn:En.
  - induction vs as [|v r IH]; [reflexivity|]. cbn [forallb] in Hc. apply andb_true_iff in Hc. destruct Hc as [Hv Hr].
    cbn [forallb required_of flat_map]. fold (required_of r). rewrite forallb_app.
    assert (IH' : forallb (fun v0 => is_ok (before_step decf (Some (Some kv)) (JObj kv) v0)) r =
                  forallb (fun k => match lookup k kv with Some _ => true | None => false end) (required_of r)).
    { clear -Hr. induction r as [|w r IHr]; [reflexivity|]. cbn [forallb] in Hr. apply andb_true_iff in Hr. destruct Hr as [Hw Hr'].
      cbn [forallb required_of flat_map]. fold (required_of r). rewrite forallb_app, (IHr Hr').
      destruct w; cbn [check_only] in Hw; try discriminate; cbn [before_step forallb is_ok andb]; try reflexivity.
      destruct (lookup jname kv); reflexivity. }
    rewrite IH'. destruct v; cbn [check_only] in Hv; try discriminate; cbn [before_step forallb is_ok andb]; try reflexivity.
    destruct (lookup jname kv); reflexivity.
  - (* no validator needs the raw map: no required key at all *)
    apply orb_false_iff in En. destruct En as [Eb _].
    assert (Hn : required_of vs = []).
    { clear -Eb. induction vs as [|v r IH]; [reflexivity|]. cbn [existsb] in Eb. apply orb_false_iff in Eb. destruct Eb as [Ev Er].
      cbn [required_of flat_map]. fold (required_of r). rewrite (IH Er). destruct v; cbn in Ev; try discriminate; reflexivity. }
    rewrite Hn. cbn [forallb].
    clear Hn. induction vs as [|v r IH]; [reflexivity|]. cbn [existsb] in Eb. apply orb_false_iff in Eb. destruct Eb as [Ev Er].
    cbn [forallb] in Hc. apply andb_true_iff in Hc. destruct Hc as [Hv Hr]. cbn [forallb]. rewrite (IH Hr Er), andb_true_r.
    destruct v; cbn in Ev, Hv; try discriminate; reflexivity.
Qed.
