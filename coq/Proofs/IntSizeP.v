(* Proofs about --min-sized-ints (Model/IntSize.v) for integral bounds. *)
From GJS Require Import Base Bounds BoundsP NumericP IntSize.
From Coq Require Import Lqa.

(* ---------- integral bounds, as written in a schema for an integer ---------- *)
Inductive zex := ZExBool (b : bool) | ZExNum (z : Z).
Record zbounds := mkZB { z_min : option Z; z_max : option Z; z_exmin : option zex; z_exmax : option zex }.
Definition ex_of (e : zex) : exb := match e with ZExBool b => ExBool b | ZExNum z => ExNum (inject_Z z) end.
Definition to_bounds (zb : zbounds) : bounds :=
  mkBounds (option_map inject_Z (z_min zb)) (option_map inject_Z (z_max zb))
           (option_map ex_of (z_exmin zb)) (option_map ex_of (z_exmax zb)).

(* the tightest inclusive integer bounds the keywords state *)
Definition z_lower (m : option Z) (e : option zex) : option Z :=
  match m, e with
  | None, None | None, Some (ZExBool _) => None
  | Some a, None | Some a, Some (ZExBool false) => Some a
  | Some a, Some (ZExBool true) => Some (a + 1)%Z
  | None, Some (ZExNum v) => Some (v + 1)%Z
  | Some a, Some (ZExNum v) => Some (Z.max a (v + 1))
  end.
Definition z_upper (m : option Z) (e : option zex) : option Z :=
  match m, e with
  | None, None | None, Some (ZExBool _) => None
  | Some a, None | Some a, Some (ZExBool false) => Some a
  | Some a, Some (ZExBool true) => Some (a - 1)%Z
  | None, Some (ZExNum v) => Some (v - 1)%Z
  | Some a, Some (ZExNum v) => Some (Z.min a (v - 1))
  end.
Definition lo_of (zb : zbounds) := z_lower (z_min zb) (z_exmin zb).
Definition hi_of (zb : zbounds) := z_upper (z_max zb) (z_exmax zb).

Definition ge_opt (l : option Z) (x : Z) : bool := match l with Some a => (a <=? x)%Z | None => true end.
Definition le_opt (h : option Z) (x : Z) : bool := match h with Some a => (x <=? a)%Z | None => true end.

Ltac pow_consts :=
  change (2 ^ 63)%Z with 9223372036854775808%Z in *;
  change (2 ^ 64)%Z with 18446744073709551616%Z in *;
  change (2 ^ 31)%Z with 2147483648%Z in *;
  change (2 ^ 32)%Z with 4294967296%Z in *;
  change (2 ^ 15)%Z with 32768%Z in *;
  change (2 ^ 16)%Z with 65536%Z in *;
  change (2 ^ 7)%Z with 128%Z in *;
  change (2 ^ 8)%Z with 256%Z in *.

(* ---------- Q <-> Z bridges ---------- *)
Lemma Qle_bool_inject a b : Qle_bool (inject_Z a) (inject_Z b) = (a <=? b)%Z.
Proof. unfold Qle_bool, inject_Z; cbn. rewrite !Z.mul_1_r. reflexivity. Qed.

Lemma Qround_z_int q z : (q == inject_Z z)%Q -> Qround_z q = z.
Proof.
  destruct q as [n d]. unfold Qeq, inject_Z; cbn [Qnum Qden]. intros H.
  assert (Hn : n = (z * Z.pos d)%Z) by lia. subst n. clear H.
  unfold Qround_z, Qle_bool, Qfloor_z, Qplus, Qopp; cbn [Qnum Qden].
  destruct (Z.leb_spec (0 * Z.pos d) (z * Z.pos d * 1)) as [H0|H0].
  - replace (z * Z.pos d * Z.pos 2 + 1 * Z.pos d)%Z with (Z.pos d + z * (Z.pos (d * 2)))%Z by lia.
    rewrite Z.div_add by lia. rewrite Z.div_small by lia. lia.
  - replace (- (z * Z.pos d) * Z.pos 2 + 1 * Z.pos d)%Z with (Z.pos d + (- z) * (Z.pos (d * 2)))%Z by lia.
    rewrite Z.div_add by lia. rewrite Z.div_small by lia. lia.
Qed.

Lemma inject_plus1 v : (inject_Z v + 1 == inject_Z (v + 1))%Q.
Proof. rewrite inject_Z_plus. reflexivity. Qed.
Lemma inject_minus1 v : (inject_Z v - 1 == inject_Z (v - 1))%Q.
Proof. unfold Qminus. change (- (1))%Q with (inject_Z (-1)). rewrite <- inject_Z_plus. reflexivity. Qed.

(* an optional rational that denotes an optional integer *)
Definition oq_is (o : option Q) (z : option Z) : Prop :=
  match o, z with
  | None, None => True
  | Some q, Some a => (q == inject_Z a)%Q
  | _, _ => False
  end.

(* Z-level mirror of the type decision *)
Definition signed_z (lo hi : option Z) : intk * bool * bool :=
  match lo, hi with
  | None, None => (KI64, false, false)
  | None, Some h => (KI64, false, zeq h (2 ^ 63))
  | Some l, None => (KI64, zeq l (- 2 ^ 63), false)
  | Some l, Some h =>
      if (l <? - 2 ^ 31)%Z || (2 ^ 31 - 1 <? h)%Z then (KI64, zeq l (- 2 ^ 63), zeq h (2 ^ 63))
      else if (l <? - 2 ^ 15)%Z || (2 ^ 15 - 1 <? h)%Z then (KI32, zeq l (- 2 ^ 31), zeq h (2 ^ 31 - 1))
      else if (l <? - 2 ^ 7)%Z || (2 ^ 7 - 1 <? h)%Z then (KI16, zeq l (- 2 ^ 15), zeq h (2 ^ 15 - 1))
      else (KI8, zeq l (- 2 ^ 7), zeq h (2 ^ 7 - 1))
  end.
Definition unsigned_z (lo hi : option Z) : intk * bool * bool :=
  let rm := match lo with Some l => zeq l 0 | None => false end in
  match hi with
  | None => (KU64, rm, false)
  | Some h =>
      if (2 ^ 32 - 1 <? h)%Z then (KU64, rm, zeq h (2 ^ 64))
      else if (2 ^ 16 - 1 <? h)%Z then (KU32, rm, zeq h (2 ^ 32 - 1))
      else if (2 ^ 8 - 1 <? h)%Z then (KU16, rm, zeq h (2 ^ 16 - 1))
      else (KU8, rm, zeq h (2 ^ 8 - 1))
  end.
Definition mit_z (lo hi : option Z) : intk * bool * bool :=
  match lo with
  | Some l => if (0 <=? l)%Z then unsigned_z lo hi else signed_z lo hi
  | None => signed_z lo hi
  end.

Lemma signed_bridge mn mx lo hi : oq_is mn lo -> oq_is mx hi -> signed_type mn mx = signed_z lo hi.
Proof.
  unfold signed_type, signed_z, oq_is.
  destruct mn as [a|], lo as [l|]; try contradiction; destruct mx as [b|], hi as [h|]; try contradiction; intros H1 H2;
    try rewrite (Qround_z_int _ _ H1); try rewrite (Qround_z_int _ _ H2); reflexivity.
Qed.

Lemma unsigned_bridge mn mx lo hi : oq_is mn lo -> oq_is mx hi -> unsigned_type mn mx = unsigned_z lo hi.
Proof.
  unfold unsigned_type, unsigned_z, oq_is.
  destruct mn as [a|], lo as [l|]; try contradiction; destruct mx as [b|], hi as [h|]; try contradiction; intros H1 H2;
    try rewrite (Qround_z_int _ _ H2); try reflexivity.
  all: assert (E : Qeq_bool a 0 = zeq l 0)
    by (unfold zeq; apply eq_true_iff_eq; rewrite Qeq_bool_iff, Z.eqb_eq, H1; unfold Qeq; cbn; lia);
    rewrite E; reflexivity.
Qed.

(* the adjusted lower bound getMinIntType computes denotes z_lower *)
Lemma lower_bridge m e :
  let '(mn, emn) := norm_min (option_map inject_Z m) (option_map ex_of e) in
  oq_is (if emn then option_map (fun v => Qplus v 1) mn else mn) (z_lower m e).
Proof.
  unfold norm_min, norm_side, Qgeb.
  destruct m as [a|]; destruct e as [[[|]|v]|]; cbn [option_map ex_of z_lower oq_is].
  all: try reflexivity; try apply inject_plus1; try exact I.
  rewrite Qle_bool_inject. destruct (Z.leb_spec a v); cbn [oq_is option_map].
  - rewrite inject_plus1. replace (Z.max a (v + 1)) with (v + 1)%Z by lia. reflexivity.
  - replace (Z.max a (v + 1)) with a by lia. reflexivity.
Qed.

Lemma upper_bridge m e :
  let '(mx, emx) := norm_max (option_map inject_Z m) (option_map ex_of e) in
  oq_is (if emx then option_map (fun v => Qminus v 1) mx else mx) (z_upper m e).
Proof.
  unfold norm_max, norm_side.
  destruct m as [a|]; destruct e as [[[|]|v]|]; cbn [option_map ex_of z_upper oq_is].
  all: try reflexivity; try apply inject_minus1; try exact I.
  rewrite Qle_bool_inject. destruct (Z.leb_spec v a); cbn [oq_is option_map].
  - rewrite inject_minus1. replace (Z.min a (v - 1)) with (v - 1)%Z by lia. reflexivity.
  - replace (Z.min a (v - 1)) with a by lia. reflexivity.
Qed.

Lemma mit_bridge zb : min_int_type (to_bounds zb) = mit_z (lo_of zb) (hi_of zb).
Proof.
  unfold min_int_type, normalize_bounds, to_bounds, lo_of, hi_of; cbn [b_min b_max b_exmin b_exmax].
  pose proof (lower_bridge (z_min zb) (z_exmin zb)) as HL.
  pose proof (upper_bridge (z_max zb) (z_exmax zb)) as HU.
  destruct (norm_min _ _) as [mn emn]. destruct (norm_max _ _) as [mx emx].
  set (mn' := if emn then option_map (fun v => Qplus v 1) mn else mn) in *.
  set (mx' := if emx then option_map (fun v => Qminus v 1) mx else mx) in *.
  unfold mit_z. destruct mn' as [q|] eqn:Eq, (z_lower (z_min zb) (z_exmin zb)) as [l|] eqn:El; cbn [oq_is] in HL; try contradiction.
  - assert (E : Qle_bool 0 q = (0 <=? l)%Z).
    { apply eq_true_iff_eq. rewrite Qle_bool_iff, Z.leb_le, HL. change 0%Q with (inject_Z 0). rewrite <- Zle_Qle. reflexivity. }
    rewrite E. destruct (0 <=? l)%Z; [apply unsigned_bridge | apply signed_bridge]; cbn [oq_is]; assumption.
  - apply signed_bridge; cbn [oq_is]; auto.
Qed.

(* ---------- the decision on integers ---------- *)
Lemma mit_range lo hi k rmin rmax x :
  mit_z lo hi = (k, rmin, rmax) ->
  in_range KInt x = true -> ge_opt lo x = true -> le_opt hi x = true -> in_range k x = true.
Proof.
  unfold mit_z, signed_z, unsigned_z, in_range, ge_opt, le_opt, zeq. intros H HI HL HH.
  destruct lo as [l|], hi as [h|]; cbn [int_range] in *; pow_consts;
    repeat match type of H with
           | context [if ?c then _ else _] => destruct c eqn:?
           end; inversion H; subst; cbn [int_range]; pow_consts; lia.
Qed.

Lemma mit_remove_min lo hi k rmax x :
  mit_z lo hi = (k, true, rmax) -> in_range k x = true -> ge_opt lo x = true.
Proof.
  unfold mit_z, signed_z, unsigned_z, in_range, ge_opt, zeq. intros H HI.
  destruct lo as [l|], hi as [h|]; pow_consts;
    repeat match type of H with
           | context [if ?c then _ else _] => destruct c eqn:?
           end; inversion H; subst; cbn [int_range] in *; pow_consts; lia.
Qed.

Lemma mit_remove_max lo hi k rmin x :
  mit_z lo hi = (k, rmin, true) -> in_range k x = true -> le_opt hi x = true.
Proof.
  unfold mit_z, signed_z, unsigned_z, in_range, le_opt, zeq. intros H HI.
  destruct lo as [l|], hi as [h|]; pow_consts;
    repeat match type of H with
           | context [if ?c then _ else _] => destruct c eqn:?
           end; inversion H; subst; cbn [int_range] in *; pow_consts; lia.
Qed.

(* the chosen type fits a two-sided interval whenever any sized type does, and no sized
   type that fits is narrower; unsigned exactly when the lower bound is non-negative *)
Definition fits (k : intk) (l h : Z) : bool := in_range k l && in_range k h.

Lemma mit_narrowest l h k rmin rmax k' :
  mit_z (Some l) (Some h) = (k, rmin, rmax) -> (l <= h)%Z -> fits k' l h = true ->
  fits k l h = true /\ int_width k <= int_width k' /\ int_signed k = negb (0 <=? l)%Z.
Proof.
  unfold mit_z, signed_z, unsigned_z, fits, in_range, zeq. intros H Hlh Hk'.
  destruct k'; cbn [int_range] in Hk'; pow_consts;
    repeat match type of H with
           | context [if ?c then _ else _] => destruct c eqn:?
           end; inversion H; subst; cbn [int_range int_width int_signed]; pow_consts;
    (split; [lia | split; [lia | reflexivity]]).
Qed.

(* ---------- the numeric validator on integral bounds, in terms of lo/hi ---------- *)
Lemma zbounds_integral zb : bounds_integral (to_bounds zb).
Proof.
  unfold bounds_integral, opt_integral, exb_integral, to_bounds; cbn [b_min b_max b_exmin b_exmax].
  repeat split; intros q H.
  - destruct (z_min zb) as [a|]; inversion H. exists a. reflexivity.
  - destruct (z_max zb) as [a|]; inversion H. exists a. reflexivity.
  - destruct (z_exmin zb) as [[|v]|]; inversion H. exists v. reflexivity.
  - destruct (z_exmax zb) as [[|v]|]; inversion H. exists v. reflexivity.
Qed.

Lemma Qltb_inject a b : Qltb (inject_Z a) (inject_Z b) = (a <? b)%Z.
Proof. unfold Qltb. rewrite Qle_bool_inject. rewrite Z.ltb_antisym. reflexivity. Qed.

Lemma spec_lower_z m e x :
  spec_lower (option_map inject_Z m) (option_map ex_of e) (inject_Z x) = ge_opt (z_lower m e) x.
Proof.
  unfold spec_lower, ge_opt. destruct m as [a|]; destruct e as [[[|]|v]|]; cbn [option_map ex_of z_lower];
    rewrite ?Qle_bool_inject, ?Qltb_inject, ?andb_true_r; try reflexivity;
    apply eq_true_iff_eq; rewrite ?andb_true_iff, ?Z.leb_le, ?Z.ltb_lt; lia.
Qed.
Lemma spec_upper_z m e x :
  spec_upper (option_map inject_Z m) (option_map ex_of e) (inject_Z x) = le_opt (z_upper m e) x.
Proof.
  unfold spec_upper, le_opt. destruct m as [a|]; destruct e as [[[|]|v]|]; cbn [option_map ex_of z_upper];
    rewrite ?Qle_bool_inject, ?Qltb_inject, ?andb_true_r; try reflexivity;
    apply eq_true_iff_eq; rewrite ?andb_true_iff, ?Z.leb_le, ?Z.ltb_lt; lia.
Qed.

Lemma accept_numeric_z (mult : option Z) zb x :
  (forall m, mult = Some m -> m <> 0%Z) ->
  accept_numeric true (option_map inject_Z mult) (to_bounds zb) (inject_Z x)
  = spec_multiple (option_map inject_Z mult) (inject_Z x) && (ge_opt (lo_of zb) x && le_opt (hi_of zb) x).
Proof.
  intros Hnz. rewrite numeric_int_exact by (auto using zbounds_integral).
  unfold spec_numeric, spec_bounds, to_bounds; cbn [b_min b_max b_exmin b_exmax].
  rewrite spec_lower_z, spec_upper_z. reflexivity.
Qed.

Definition zclear (zb : zbounds) (rmin rmax : bool) : zbounds :=
  mkZB (if rmin then None else z_min zb) (if rmax then None else z_max zb)
       (if rmin then None else z_exmin zb) (if rmax then None else z_exmax zb).
Lemma clear_bridge zb rmin rmax : clear_bounds (to_bounds zb) rmin rmax = to_bounds (zclear zb rmin rmax).
Proof. unfold clear_bounds, to_bounds, zclear; cbn. destruct rmin, rmax; reflexivity. Qed.

(* --min-sized-ints never changes which integers are accepted *)
Theorem min_sized_same_accepts (mult : option Z) zb x :
  (forall m, mult = Some m -> m <> 0%Z) -> in_range KInt x = true ->
  accept_flag true (option_map inject_Z mult) (to_bounds zb) x
  = accept_flag false (option_map inject_Z mult) (to_bounds zb) x.
Proof.
  intros Hnz HI. unfold accept_flag, primitive_int, accept_int_field.
  rewrite mit_bridge. destruct (mit_z (lo_of zb) (hi_of zb)) as [[k rmin] rmax] eqn:E.
  rewrite clear_bridge, !accept_numeric_z by exact Hnz. rewrite HI. cbn [andb].
  destruct (spec_multiple _ _); [cbn [andb]|rewrite andb_false_r; reflexivity].
  pose proof (mit_range _ _ _ _ _ x E HI) as HR.
  assert (EL : lo_of (zclear zb rmin rmax) = if rmin then None else lo_of zb) by (destruct rmin; reflexivity).
  assert (EU : hi_of (zclear zb rmin rmax) = if rmax then None else hi_of zb) by (destruct rmax; reflexivity).
  rewrite EL, EU. clear EL EU.
  assert (H1 : rmin = true -> in_range k x = true -> ge_opt (lo_of zb) x = true)
    by (intros ->; apply (mit_remove_min _ _ _ _ x E)).
  assert (H2 : rmax = true -> in_range k x = true -> le_opt (hi_of zb) x = true)
    by (intros ->; apply (mit_remove_max _ _ _ _ x E)).
  destruct rmin, rmax, (in_range k x), (ge_opt (lo_of zb) x), (le_opt (hi_of zb) x); cbn; try reflexivity;
    try (specialize (H1 eq_refl eq_refl)); try (specialize (H2 eq_refl eq_refl));
    try (specialize (HR eq_refl eq_refl)); congruence.
Qed.

(* D27 (kept visible): outside the range of Go's int the flag does change the verdict *)
Lemma min_sized_refuted_beyond_int :
  exists zb x, accept_flag true None (to_bounds zb) x = true /\ accept_flag false None (to_bounds zb) x = false.
Proof. exists (mkZB (Some 0%Z) None None None), (2 ^ 63)%Z. vm_compute. split; reflexivity. Qed.

(* ---------- the statements in terms of the schema's own bounds ---------- *)
Lemma spec_bounds_z zb x : spec_bounds (to_bounds zb) (inject_Z x) = ge_opt (lo_of zb) x && le_opt (hi_of zb) x.
Proof. unfold spec_bounds, to_bounds; cbn [b_min b_max b_exmin b_exmax]. rewrite spec_lower_z, spec_upper_z. reflexivity. Qed.

Theorem min_sized_range zb k rmin rmax x :
  min_int_type (to_bounds zb) = (k, rmin, rmax) -> in_range KInt x = true ->
  spec_bounds (to_bounds zb) (inject_Z x) = true -> in_range k x = true.
Proof.
  rewrite mit_bridge, spec_bounds_z. intros E HI H. apply andb_true_iff in H. destruct H as [HL HU].
  eapply mit_range; eauto.
Qed.

Theorem min_sized_removal_min zb k rmax x :
  min_int_type (to_bounds zb) = (k, true, rmax) -> in_range k x = true ->
  spec_lower (b_min (to_bounds zb)) (b_exmin (to_bounds zb)) (inject_Z x) = true.
Proof.
  rewrite mit_bridge. intros E HI. unfold to_bounds; cbn [b_min b_exmin]. rewrite spec_lower_z.
  eapply mit_remove_min; eauto.
Qed.

Theorem min_sized_removal_max zb k rmin x :
  min_int_type (to_bounds zb) = (k, rmin, true) -> in_range k x = true ->
  spec_upper (b_max (to_bounds zb)) (b_exmax (to_bounds zb)) (inject_Z x) = true.
Proof.
  rewrite mit_bridge. intros E HI. unfold to_bounds; cbn [b_max b_exmax]. rewrite spec_upper_z.
  eapply mit_remove_max; eauto.
Qed.

Theorem min_sized_narrowest zb l h k rmin rmax k' :
  lo_of zb = Some l -> hi_of zb = Some h -> (l <= h)%Z ->
  min_int_type (to_bounds zb) = (k, rmin, rmax) -> fits k' l h = true ->
  fits k l h = true /\ int_width k <= int_width k' /\ int_signed k = negb (0 <=? l)%Z.
Proof. rewrite mit_bridge. intros -> -> Hlh E Hk'. eapply mit_narrowest; eauto. Qed.

(* lo_of / hi_of mean what the keywords say *)
Theorem lo_hi_spec zb x :
  spec_bounds (to_bounds zb) (inject_Z x) = true <->
  (forall l, lo_of zb = Some l -> (l <= x)%Z) /\ (forall h, hi_of zb = Some h -> (x <= h)%Z).
Proof.
  rewrite spec_bounds_z, andb_true_iff. unfold ge_opt, le_opt.
  destruct (lo_of zb) as [l|], (hi_of zb) as [h|]; rewrite ?Z.leb_le; split.
  all: try (intros [H1 H2]; split; intros ? E; inversion E; subst; auto).
  all: try (intros [H1 H2]; split; auto).
Qed.
