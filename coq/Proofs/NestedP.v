(* C02 / C04 / C05 / C06 through every depth: objects whose properties are scalar leaves (constrained strings, integers, booleans,
   numbers with any bounds) or,
   recursively, such objects again - nested to any depth n.  The struct the generator declares for the root accepts a JSON object
   iff the object is valid under the schema (both directions), by induction on n over the one-level theorem [LevelP.level_exact]:
   the check attached to an object-valued property is the method of the nested struct, which is the statement one level down. *)
From GJS Require Import Base Bounds IntSize Regex Schema GoType Ident Gen Exec Valid ExecP GenP CoreP MethodP LevelP EnumP.

Section Nested.
Variable idf : str -> str.
Variable cf : cfg.
Variable defs : list (str * schema).
Variable fmt_ok : fmtk -> str -> bool.
Variable env : list (str * gty).
Variable sdefs : list (str * schema).
Hypothesis Hms : g_minsized cf = false.
Hypothesis Hom : g_only_models cf = false.
Notation gen := (Gen.gen idf cf defs).
Notation dec := (Exec.dec fmt_ok env).
Notation valid := (Valid.valid fmt_ok sdefs).

(* numbers with any combination of the four bounds and no multipleOf: the emitted comparisons are exact on every number *)
Definition num_leaf (p : schema) : Prop :=
  exists c, p = Sch c [] None false None [] [] /\ c_types c = [SNumber] /\ c_ref c = None /\ c_enum c = None /\ c_default c = None /\ c_mult c = None.

(* arrays of plain strings, numbers or booleans (items without keywords of their own) with any item-count limits *)
Inductive ikind := IStr | INum | IBool.
Definition plain_item (k : ikind) (it : schema) : Prop :=
  exists c, it = Sch c [] None false None [] [] /\ c_ref c = None /\ c_enum c = None /\ c_default c = None /\ c_format c = None /\
            c_min_len c = 0 /\ c_max_len c = 0 /\ c_pattern c = None /\ c_mult c = None /\ c_bounds c = mkBounds None None None None /\
            c_types c = [match k with IStr => SString | INum => SNumber | IBool => SBoolean end].
Definition item_go (k : ikind) : gty := match k with IStr => TString | INum => TFloat | IBool => TBool end.
Definition item_spec (k : ikind) (y : json) : bool :=
  match k, y with IStr, JStr _ | INum, JNum _ | IBool, JBool _ => true | _, _ => false end.
Definition arr_leaf_k (k : ikind) (p : schema) : Prop :=
  exists c it, p = Sch c [] None false (Some it) [] [] /\ c_types c = [SArray] /\ c_ref c = None /\ c_enum c = None /\ c_default c = None /\ plain_item k it.
Definition arr_leaf (p : schema) : Prop := exists k, arr_leaf_k k p.

(* maps: a property-less object whose additionalProperties is a plain string / number / boolean schema *)
Definition map_leaf_k (k : ikind) (p : schema) : Prop :=
  exists c a, p = Sch c [] (Some a) false None [] [] /\ c_types c = [SObject] /\ c_ref c = None /\ c_enum c = None /\ c_default c = None /\ c_required c = [] /\ plain_item k a.
Definition map_leaf (p : schema) : Prop := exists k, map_leaf_k k p.
Definition map_value (x : json) : Prop := forall kv, x = JObj kv -> forall y, In y kv -> snd y <> JNull.

(* string enums (C08): a typed string schema that lists its values *)
Definition enum_leaf (p : schema) : Prop :=
  exists c vs, p = Sch c [] None false None [] [] /\ c_types c = [SString] /\ c_ref c = None /\ c_enum c = Some (map JStr vs) /\ vs <> [] /\
               c_default c = None /\ c_format c = None /\ c_min_len c = 0 /\ c_max_len c = 0 /\ c_pattern c = None.

(* number enums (C08): {"type": "number", "enum": [numbers]} with no other keyword *)
Definition num_enum_leaf (p : schema) : Prop :=
  exists c ns, p = Sch c [] None false None [] [] /\ c_types c = [SNumber] /\ c_ref c = None /\ c_enum c = Some (map JNum ns) /\ ns <> [] /\
               c_default c = None /\ c_format c = None /\ has_bound_kw (c_mult c) (c_bounds c) = false.

(* boolean enums (C08): {"type": "boolean", "enum": [booleans]} with no other keyword *)
Definition bool_enum_leaf (p : schema) : Prop :=
  exists c bs, p = Sch c [] None false None [] [] /\ c_types c = [SBoolean] /\ c_ref c = None /\ c_enum c = Some (map JBool bs) /\ bs <> [] /\
               c_default c = None /\ c_format c = None.

Definition leaf (p : schema) : Prop := str_leaf p \/ int_leaf p \/ bool_leaf p \/ num_leaf p \/ arr_leaf p \/ enum_leaf p \/ map_leaf p \/ int_enum_leaf p \/ num_enum_leaf p \/ bool_enum_leaf p.

Lemma rmap_ev_bools (bs : list bool) : rmap (fun v => match ev_of_json v with Some e => Done e | None => GUnmod end) (map JBool bs) = Done (map EVBool bs).
Proof. induction bs as [|v r IH]; [reflexivity|]. cbn [map rmap ev_of_json rbind]. rewrite IH. reflexivity. Qed.

Lemma gen_bool_enum_leaf f self sc p ty bp : bool_enum_leaf p -> gen (S f) MInline self false p sc = Done (ty, bp) ->
  exists bs, c_enum (s_con p) = Some (map JBool bs) /\ ty = TEnum sc TBool false (map EVBool bs) /\ bp = c_bounds (s_con p).
Proof.
  intros (c & bs & -> & Ht & Hr & He & Hne & _ & Hf) H. exists bs. cbn [s_con]. split; [exact He|].
  cbn [Gen.gen s_con] in H. rewrite He in H.
  destruct f as [|f]; [discriminate|]. cbn [Gen.gen s_con] in H. rewrite He in H.
  destruct f as [|f]; [discriminate|]. cbn [Gen.gen s_con] in H. rewrite He, Ht in H.
  destruct bs as [|v0 vr]; [contradiction Hne; reflexivity|]. cbn [map] in H.
  unfold primitive in H. cbn [rbind wrap_ptr] in H.
  change (JBool v0 :: map JBool vr) with (map JBool (v0 :: vr)) in H. rewrite rmap_ev_bools in H. cbn [sty_eqb] in H. inversion H. split; reflexivity.
Qed.

Lemma existsb_json_bools b bs : existsb (json_eqb (JBool b)) (map JBool bs) = existsb (enum_eq TBool (GB b)) (map EVBool bs).
Proof. induction bs as [|v r IH]; [reflexivity|]. cbn [map existsb]. rewrite IH. reflexivity. Qed.

Lemma valid_bool_enum_leaf fv p x bs : bool_enum_leaf p -> c_enum (s_con p) = Some (map JBool bs) ->
  valid (S fv) p x = match x with JBool b => existsb (json_eqb x) (map JBool bs) | _ => false end.
Proof.
  intros (c & bs0 & -> & Ht & Hr & He0 & _ & _ & Hf) He. cbn [s_con] in He. cbn [Valid.valid s_con s_all_of s_any_of]. rewrite Hr, Ht, He. cbn [type_ok existsb forallb].
  destruct x; cbn [type_matches orb andb]; try reflexivity. rewrite ?andb_true_r, ?orb_false_r. reflexivity.
Qed.

Lemma rmap_ev_nums (ns : list num) : rmap (fun v => match ev_of_json v with Some e => Done e | None => GUnmod end) (map JNum ns) = Done (map (fun n => EVFloat (nq n)) ns).
Proof. induction ns as [|v r IH]; [reflexivity|]. cbn [map rmap ev_of_json rbind]. rewrite IH. reflexivity. Qed.

Lemma gen_num_enum_leaf f self sc p ty bp : num_enum_leaf p -> gen (S f) MInline self false p sc = Done (ty, bp) ->
  exists ns, c_enum (s_con p) = Some (map JNum ns) /\ ty = TEnum sc TFloat false (map (fun n => EVFloat (nq n)) ns) /\ bp = c_bounds (s_con p).
Proof.
  intros (c & ns & -> & Ht & Hr & He & Hne & _ & Hf & _) H. exists ns. cbn [s_con]. split; [exact He|].
  cbn [Gen.gen s_con] in H. rewrite He in H.
  destruct f as [|f]; [discriminate|]. cbn [Gen.gen s_con] in H. rewrite He in H.
  destruct f as [|f]; [discriminate|]. cbn [Gen.gen s_con] in H. rewrite He, Ht in H.
  destruct ns as [|v0 vr]; [contradiction Hne; reflexivity|]. cbn [map] in H.
  unfold primitive in H. cbn [rbind wrap_ptr] in H.
  change (JNum v0 :: map JNum vr) with (map JNum (v0 :: vr)) in H. rewrite rmap_ev_nums in H. cbn [sty_eqb] in H. inversion H. split; reflexivity.
Qed.

Lemma existsb_json_numvals n ns : existsb (json_eqb (JNum n)) (map JNum ns) = existsb (enum_eq TFloat (GF (nq n))) (map (fun m => EVFloat (nq m)) ns).
Proof. induction ns as [|v r IH]; [reflexivity|]. cbn [map existsb]. rewrite IH. reflexivity. Qed.

Lemma valid_num_enum_leaf fv p x ns : num_enum_leaf p -> c_enum (s_con p) = Some (map JNum ns) ->
  valid (S fv) p x = match x with JNum n => existsb (json_eqb x) (map JNum ns) | _ => false end.
Proof.
  intros (c & ns0 & -> & Ht & Hr & He0 & _ & _ & Hf & Hb) He. cbn [s_con] in He. cbn [Valid.valid s_con s_all_of s_any_of]. rewrite Hr, Ht, He. cbn [type_ok existsb forallb].
  destruct x; cbn [type_matches orb andb]; try reflexivity.
  rewrite (no_bound_kw _ _ (nq n) Hb). rewrite ?andb_true_r, ?orb_false_r. reflexivity.
Qed.

Lemma rmap_ev_strs (vs : list str) : rmap (fun v => match ev_of_json v with Some e => Done e | None => GUnmod end) (map JStr vs) = Done (map EVStr vs).
Proof. induction vs as [|v r IH]; [reflexivity|]. cbn [map rmap ev_of_json rbind]. rewrite IH. reflexivity. Qed.

Lemma gen_enum_leaf f self sc p ty bp : enum_leaf p -> gen (S f) MInline self false p sc = Done (ty, bp) ->
  exists vs, c_enum (s_con p) = Some (map JStr vs) /\ ty = TEnum sc TString false (map EVStr vs) /\ bp = c_bounds (s_con p).
Proof.
  intros (c & vs & -> & Ht & Hr & He & Hne & _ & Hf & _) H. exists vs. cbn [s_con]. split; [exact He|].
  cbn [Gen.gen s_con] in H. rewrite He in H.
  destruct f as [|f]; [discriminate|]. cbn [Gen.gen s_con] in H. rewrite He in H.
  destruct f as [|f]; [discriminate|]. cbn [Gen.gen s_con] in H. rewrite He, Ht in H.
  destruct vs as [|v0 vr]; [contradiction Hne; reflexivity|]. cbn [map] in H.
  unfold primitive in H. rewrite Hf in H. cbn [rbind wrap_ptr] in H.
  change (JStr v0 :: map JStr vr) with (map JStr (v0 :: vr)) in H. rewrite rmap_ev_strs in H. cbn [sty_eqb] in H. inversion H. split; reflexivity.
Qed.

Lemma existsb_json_strs s vs : existsb (json_eqb (JStr s)) (map JStr vs) = existsb (enum_eq TString (GS s)) (map EVStr vs).
Proof. induction vs as [|v r IH]; [reflexivity|]. cbn [map existsb]. rewrite IH. reflexivity. Qed.

Lemma valid_enum_leaf fv p x vs : enum_leaf p -> c_enum (s_con p) = Some (map JStr vs) ->
  valid (S fv) p x = match x with JStr s => existsb (json_eqb (JStr s)) (map JStr vs) | _ => false end.
Proof.
  intros (c & vs0 & -> & Ht & Hr & He0 & _ & _ & Hf & Hmn & Hmx & Hp) He. cbn [s_con] in He. cbn [Valid.valid s_con s_all_of s_any_of]. rewrite Hr, Ht, He. cbn [type_ok existsb forallb].
  destruct x; cbn [type_matches orb andb]; try reflexivity.
  rewrite Hmn, Hmx, Hp, Hf. rewrite ?andb_true_r, ?orb_false_r. cbn [andb len_ok Nat.eqb orb]. rewrite ?andb_true_r. reflexivity.
Qed.

(* the items of an array value in a document: none is null *)
Definition arr_value (x : json) : Prop := forall l, x = JArr l -> forall y, In y l -> y <> JNull.

Lemma dec_tstring fd y : dec (S fd) TString y = match y with JStr s0 => Ok (GS s0) | JNull => Ok (GS []) | _ => Err end.
Proof. reflexivity. Qed.

Lemma dec_item fd k y : y <> JNull -> dec (S fd) (item_go k) y =
  match k, y with IStr, JStr s0 => Ok (GS s0) | INum, JNum n => Ok (GF (nq n)) | IBool, JBool b => Ok (GB b) | _, _ => Err end.
Proof. intros Hy. destruct k, y; try contradiction; reflexivity. Qed.

Lemma valid_plain_item fv k it y : plain_item k it -> valid (S fv) it y = item_spec k y.
Proof.
  intros (c & -> & Hr & He & _ & Hf & Hmn & Hmx & Hp & Hm & Hb & Ht). cbn [Valid.valid s_con s_all_of s_any_of]. rewrite Hr, Ht, He. cbn [type_ok existsb forallb].
  destruct k, y; cbn [type_matches orb andb item_spec]; try reflexivity.
  - rewrite Hmn, Hmx, Hp, Hf. reflexivity.
  - rewrite Hm, Hb. reflexivity.
Qed.

Lemma valid_arr_leaf fv k p x : arr_leaf_k k p -> valid (S (S fv)) p x =
  match x with
  | JArr l => len_ok (c_min_items (s_con p)) (c_max_items (s_con p)) (length l) && forallb (item_spec k) l
  | _ => false
  end.
Proof.
  intros (c & it & -> & Ht & Hr & He & _ & Hit). set (g := S fv). cbn [Valid.valid s_con s_all_of s_any_of s_items]. rewrite Hr, Ht, He. cbn [type_ok existsb forallb].
  destruct x; cbn [type_matches orb andb]; try reflexivity. rewrite ?andb_true_r, ?orb_false_r. cbn [andb]. f_equal.
  apply forallb_ext_in. intros y _. exact (valid_plain_item fv k it y Hit).
Qed.

Lemma omap_items fd k l : (forall y, In y l -> y <> JNull) ->
  match omap (dec (S fd) (item_go k)) l with
  | Ok vs => forallb (item_spec k) l = true /\ length vs = length l /\ forallb (slice_shaped 0) vs = true
  | Err => forallb (item_spec k) l = false
  | _ => False
  end.
Proof.
  induction l as [|y r IH]; intros Hn; [cbn [omap forallb length]; repeat split; reflexivity|].
  assert (Hy : y <> JNull) by (apply Hn; left; reflexivity).
  specialize (IH (fun z Hz => Hn z (or_intror Hz))).
  cbn [omap]. rewrite (dec_item fd k y Hy).
  destruct k, y; try contradiction; cbn [obind forallb andb item_spec]; try reflexivity;
    (destruct (omap (dec (S fd) _) r) as [vs| | |]; cbn [obind]; try exact IH;
     destruct IH as (H1 & H2 & H3); cbn [length forallb slice_shaped andb]; (split; [exact H1|split; [f_equal; exact H2|exact H3]])).
Qed.

Lemma dec_tslice fd k x : dec (S (S fd)) (TSlice true (item_go k)) x =
  match x with JNull => Ok GNil | JArr l => obind (omap (dec (S fd) (item_go k)) l) (fun vs => Ok (GL vs)) | _ => Err end.
Proof. reflexivity. Qed.

Lemma item_go_not_slice k : match item_go k with TSlice _ _ | TNullT => False | _ => True end.
Proof. destruct k; exact I. Qed.

Lemma array_validators_item fname jn mn mx k :
  array_validators fname jn mn mx 1 (TSlice true (item_go k)) = if negb (mn =? 0) || negb (mx =? 0) then [VArray fname jn 1 mn mx] else [].
Proof. destruct k; cbn [array_validators item_go]; rewrite app_nil_r; reflexivity. Qed.

Lemma arr_field fd fv c self fname k ik p kv :
  arr_leaf_k ik p -> fname <> [] ->
  match lookup k kv with
  | Some x => x <> JNull -> arr_value x ->
      field_ok (dec (S (S fd))) zero (default_val env dv_fuel) kv (pair_of (make_field defs c self fname k p (TSlice true (item_go ik)) (c_bounds (s_con p)))) = valid (S (S fv)) p x
  | None => mem k (c_required c) = false ->
      field_ok (dec (S (S fd))) zero (default_val env dv_fuel) kv (pair_of (make_field defs c self fname k p (TSlice true (item_go ik)) (c_bounds (s_con p)))) = true
  end.
Proof.
  intros Hleaf Hn.
  assert (Hsingle : forall v, get_plain fname (GSt [(fname, v)]) = Some v).
  { intros v. destruct fname as [|c0 n0]; [contradiction|]. cbn [get_plain lookup]. rewrite str_eqb_refl. reflexivity. }
  destruct (lookup k kv) as [x|] eqn:Hl.
  - intros Hnull Harr. rewrite (valid_arr_leaf fv ik p x Hleaf). destruct Hleaf as (pc & it & -> & Ht & Hr & He & Hd & Hit). unfold make_field, pair_of. cbn [s_con]. rewrite Hd.
    assert (Hcore : forall fl vs0, f_json fl = k -> f_ty fl = TSlice true (item_go ik) -> f_name fl = fname ->
              vs0 = array_validators fname k (c_min_items pc) (c_max_items pc) 1 (TSlice true (item_go ik)) ->
              field_ok (dec (S (S fd))) zero (default_val env dv_fuel) kv (fl, vs0) =
              match x with
              | JArr l => len_ok (c_min_items pc) (c_max_items pc) (length l) && forallb (item_spec ik) l
              | _ => false
              end).
    { intros fl vs0 Hj Hty Hnm ->. unfold field_ok. cbn [fst snd]. rewrite Hj, Hty, Hnm, Hl, dec_tslice.
      destruct x as [| | | |l|]; try contradiction; try reflexivity.
      pose proof (omap_items fd ik l (Harr l eq_refl)) as Ho.
      destruct (omap (dec (S fd) (item_go ik)) l) as [vs| | |]; cbn [obind]; try contradiction.
      + destruct Ho as (H1 & H2 & H3). rewrite H1, andb_true_r, array_validators_item.
        destruct (negb (c_min_items pc =? 0) || negb (c_max_items pc =? 0)) eqn:Ek.
        * unfold value_checks. cbn [forallb].
          rewrite (varray_value (default_val env dv_fuel) None _ fname k 1 _ _ (GL vs) ltac:(discriminate) (Hsingle _)) by (cbn [slice_shaped]; exact H3).
          cbn [levels_ok]. rewrite H2, andb_true_r. destruct (len_ok _ _ _); reflexivity.
        * cbn [value_checks forallb]. apply orb_false_iff in Ek. destruct Ek as [E1 E2]. apply negb_false_iff in E1, E2.
          unfold len_ok. rewrite E1, E2. reflexivity.
      + rewrite Ho, andb_false_r. reflexivity. }
    destruct (mem k (c_required c)).
    + apply Hcore; reflexivity.
    + cbn [nillable_ty]. apply Hcore; reflexivity.
  - intros Hm. destruct Hleaf as (pc & it & -> & Ht & Hr & He & Hd & Hit). unfold make_field, pair_of. cbn [s_con]. rewrite Hd, Hm. cbn [nillable_ty].
    unfold field_ok. cbn [fst snd f_json f_ty f_name]. rewrite Hl. cbn [zero field_validators]. rewrite array_validators_item.
    destruct (negb (c_min_items pc =? 0) || negb (c_max_items pc =? 0)); [|reflexivity]. unfold value_checks. cbn [forallb].
    rewrite (varray_nil (default_val env dv_fuel) None _ fname k 1 _ _ ltac:(discriminate) (Hsingle _)). reflexivity.
Qed.

Lemma gen_num_leaf f self sc p : num_leaf p -> gen (S f) MInline self false p sc = Done (TFloat, c_bounds (s_con p)).
Proof.
  intros (c & -> & Ht & Hr & He & _). cbn [Gen.gen s_con s_any_of s_all_of]. rewrite He, Hr, Ht. unfold determine_type. rewrite Ht. cbn. reflexivity.
Qed.

Lemma valid_num_leaf fv p x : num_leaf p -> valid (S fv) p x =
  match x with JNum n => spec_numeric None (c_bounds (s_con p)) (nq n) | _ => false end.
Proof.
  intros (c & -> & Ht & Hr & He & _ & Hm). cbn [Valid.valid s_con s_all_of s_any_of]. rewrite Hr, Ht, He. cbn [type_ok existsb forallb].
  destruct x; cbn [type_matches orb andb]; try reflexivity. rewrite ?andb_true_r, ?orb_false_r, ?Hm. cbn [andb]. reflexivity.
Qed.

Lemma num_exact b x : accept_numeric false None b x = spec_numeric None b x.
Proof.
  unfold accept_numeric, spec_numeric. cbn [accept_multiple spec_multiple andb].
  assert (Hid : forall r, trunc_opt false r = r).
  { intros [[q|] e]; unfold trunc_opt, value_of; reflexivity. }
  rewrite !Hid. exact (BoundsP.bounds_exact b x).
Qed.

Lemma num_field fd fv c self fname k p kv :
  num_leaf p -> fname <> [] ->
  match lookup k kv with
  | Some x => x <> JNull -> field_ok (dec (S (S fd))) zero (default_val env dv_fuel) kv (pair_of (make_field defs c self fname k p TFloat (c_bounds (s_con p)))) = valid (S fv) p x
  | None => mem k (c_required c) = false -> field_ok (dec (S (S fd))) zero (default_val env dv_fuel) kv (pair_of (make_field defs c self fname k p TFloat (c_bounds (s_con p)))) = true
  end.
Proof.
  intros Hleaf Hn.
  assert (Hsingle : forall v, get_plain fname (GSt [(fname, v)]) = Some v).
  { intros v. destruct fname as [|c0 n0]; [contradiction|]. cbn [get_plain lookup]. rewrite str_eqb_refl. reflexivity. }
  destruct (lookup k kv) as [x|] eqn:Hl.
  - intros Hnull. rewrite (valid_num_leaf fv p x Hleaf). destruct Hleaf as (pc & -> & Ht & Hr & He & Hd & Hm). unfold make_field, pair_of. cbn [s_con]. rewrite Hd.
    destruct (mem k (c_required c)).
    + unfold field_ok. cbn [fst snd f_json f_ty f_name]. rewrite Hl. destruct x; try contradiction; cbn [Exec.dec]; try reflexivity.
      cbn [field_validators]. rewrite Hm. destruct (has_bound_kw None (c_bounds pc)) eqn:Ek.
      * unfold value_checks. cbn [forallb]. rewrite (vnumeric_value (default_val env dv_fuel) None _ fname k false _ _ (GF (nq n)) (nq n) (Hsingle _) eq_refl), andb_true_r, num_exact.
        destruct (spec_numeric _ _ _); reflexivity.
      * cbn [value_checks forallb]. rewrite (no_bound_kw _ _ _ Ek). reflexivity.
    + cbn [nillable_ty]. unfold field_ok. cbn [fst snd f_json f_ty f_name]. rewrite Hl. destruct x; try contradiction; cbn [Exec.dec obind]; try reflexivity.
      cbn [field_validators]. rewrite Hm. destruct (has_bound_kw None (c_bounds pc)) eqn:Ek.
      * unfold value_checks. cbn [forallb]. rewrite (vnumeric_pointer (default_val env dv_fuel) None _ fname k false _ _ (GF (nq n)) (nq n) (Hsingle _) eq_refl), andb_true_r, num_exact.
        destruct (spec_numeric _ _ _); reflexivity.
      * cbn [value_checks forallb]. rewrite (no_bound_kw _ _ _ Ek). reflexivity.
  - intros Hm. destruct Hleaf as (pc & -> & Ht & Hr & He & Hd & Hmu). unfold make_field, pair_of. cbn [s_con]. rewrite Hd, Hm. cbn [nillable_ty].
    unfold field_ok. cbn [fst snd f_json f_ty f_name]. rewrite Hl. cbn [zero field_validators]. rewrite Hmu.
    destruct (has_bound_kw None (c_bounds pc)); [|reflexivity]. unfold value_checks. cbn [forallb].
    rewrite (vnumeric_nil (default_val env dv_fuel) None _ fname k _ _ _ (Hsingle _)). reflexivity.
Qed.

(* a property given by reference to a definition *)
Definition ref_prop (p : schema) (x : str) : Prop :=
  exists c, p = Sch c [] None false None [] [] /\ c_ref c = Some x /\ c_enum c = None /\ c_default c = None.

(* fuel: three generator steps, three decoding steps and two validation steps per level (a reference costs one decoding and one validation
   step, an optional field one decoding step, array items one of each at the innermost level) *)
Fixpoint fuelG (n a : nat) : nat := match n with O => S (S (S a)) | S m => S (S (S (fuelG m a))) end.
Fixpoint fuelD (n b : nat) : nat := match n with O => S (S (S (S b))) | S m => S (S (S (fuelD m b))) end.
Fixpoint fuelV (n c : nat) : nat := match n with O => S (S (S c)) | S m => S (S (fuelV m c)) end.

(* a scalar object of nesting depth at most n: its properties are leaves, such objects of depth below n written inline, or references to
   definitions that are such objects of depth below n (the definition is the same one for the generator and for the reference semantics, and
   the environment of declared types holds the type generated for it) *)
Fixpoint sobj (n : nat) (s : schema) : Prop :=
  plain_object s /\ c_types (s_con s) = [SObject] /\ s_addl s = None /\ s_addl_false s = false /\
  NoDup (map fst (s_props s)) /\ incl (c_required (s_con s)) (map fst (s_props s)) /\
  NoDup (map fst (prop_names idf (s_props s))) /\
  (forall fname kp, In (fname, kp) (prop_names idf (s_props s)) -> fname <> []) /\
  forall k p, In (k, p) (s_props s) ->
    leaf p \/
    match n with
    | O => False
    | S m =>
        (sobj m p /\ c_default (s_con p) = None) \/
        (exists x d u a bb, ref_prop p x /\ lookup x defs = Some d /\ lookup x sdefs = Some d /\ sobj m d /\ idf x <> [] /\
                            lookup x env = Some u /\ gen (fuelG m a) MDeclared (Some x) false d (idf x) = Done (u, bb))
    end.

(* the documents the statement is about: no nulls, ASCII strings, integer literals inside Go's int, distinct keys - at every level *)
Fixpoint dok (n : nat) (s : schema) (kv : list (str * json)) : Prop :=
  NoDup (map fst kv) /\
  forall k p x, In (k, p) (s_props s) -> lookup k kv = Some x ->
    x <> JNull /\ (str_leaf p -> forall s0, x = JStr s0 -> utf8_len s0 = length s0) /\ (int_leaf p -> int_value x) /\ (arr_leaf p -> arr_value x) /\ (map_leaf p -> map_value x) /\ (int_enum_leaf p -> int_value x) /\
    match n with
    | O => True
    | S m => forall kv', x = JObj kv' ->
               (sobj m p -> dok m p kv') /\ (forall y d, ref_prop p y -> lookup y sdefs = Some d -> dok m d kv')
    end.

Lemma fuelD_S n b : S (fuelD n b) = fuelD n (S b).
Proof. induction n as [|m IH]; cbn [fuelD]; [reflexivity|]. rewrite <- IH. reflexivity. Qed.
Lemma fuelV_Sc n c : S (fuelV n c) = fuelV n (S c).
Proof. induction n as [|m IH]; cbn [fuelV]; [reflexivity|]. rewrite <- IH. reflexivity. Qed.
Lemma fuelV_SS n c : exists x, fuelV n c = S (S x).
Proof. destruct n; cbn [fuelV]; eexists; reflexivity. Qed.
Lemma fuelD_pos n b : exists x, fuelD n b = S x.
Proof. destruct n; cbn [fuelD]; eexists; reflexivity. Qed.
Lemma fuelG_SSS n a : exists x, fuelG n a = S (S (S x)).
Proof. destruct n; cbn [fuelG]; eexists; reflexivity. Qed.

(* the type declared for a scalar object is a named struct *)
Lemma declared_struct_shape f self sub s scope t b :
  plain_object s -> s_addl s = None ->
  gen (S (S f)) MDeclared self sub s scope = Done (t, b) -> exists fs plan, t = TStruct scope fs plan.
Proof.
  intros Hp Ha Hg. pose proof Hp as (He & _).
  rewrite (gen_declared_eq idf cf defs (S f) self sub s scope He) in Hg.
  destruct (gen (S f) MType self sub s scope) as [[t0 b0]| | |] eqn:Eg; cbn [rbind] in Hg; try discriminate.
  destruct (gen_type_object idf cf defs f self sub s scope t0 b0 Hp Eg) as [infos [_ H2]].
  unfold build_struct in H2. rewrite Ha in H2. inversion H2; subst t0 b0. clear H2.
  unfold declare in Hg. cbn [is_named_ty] in Hg. destruct (g_only_models cf); inversion Hg; eexists; eexists; reflexivity.
Qed.

(* the check attached to an object-valued property is the nested struct's own method *)
Lemma nested_field_present fd c self fname k p sc fs plan b kv x :
  c_default (s_con p) = None -> fname <> [] -> lookup k kv = Some x -> x <> JNull ->
  field_ok (dec (S fd)) zero (default_val env dv_fuel) kv (pair_of (make_field defs c self fname k p (TStruct sc fs plan) b)) =
  is_ok (dec (if mem k (c_required c) then S fd else fd) (TStruct sc fs plan) x).
Proof.
  intros Hd Hn Hl Hnull. unfold make_field, pair_of. rewrite Hd. destruct (mem k (c_required c)).
  - unfold field_ok. cbn [fst snd f_json f_ty f_name field_validators]. rewrite Hl.
    destruct (dec (S fd) (TStruct sc fs plan) x); reflexivity.
  - cbn [nillable_ty]. unfold field_ok. cbn [fst snd f_json f_ty f_name field_validators]. rewrite Hl.
    destruct x; try contradiction; cbn [Exec.dec]; destruct (dec fd (TStruct sc fs plan) _); reflexivity.
Qed.

Lemma nested_field_absent fd c self fname k p sc fs plan b kv :
  c_default (s_con p) = None -> lookup k kv = None -> mem k (c_required c) = false ->
  field_ok (dec fd) zero (default_val env dv_fuel) kv (pair_of (make_field defs c self fname k p (TStruct sc fs plan) b)) = true.
Proof.
  intros Hd Hl Hm. unfold make_field, pair_of. rewrite Hd, Hm. cbn [nillable_ty].
  unfold field_ok. cbn [fst snd f_json f_ty f_name field_validators]. rewrite Hl. reflexivity.
Qed.

Lemma gen_plain_item f self sc k it : plain_item k it -> gen (S f) MInline self false it sc = Done (item_go k, c_bounds (s_con it)).
Proof.
  intros (c & -> & Hr & He & Hd & Hf & Hmn & Hmx & Hp & Hm & Hb & Ht). destruct k.
  - apply (gen_str_leaf idf cf defs f self sc). exists c. repeat split; assumption.
  - apply (gen_num_leaf f self sc). exists c. repeat split; assumption.
  - apply (gen_bool_leaf idf cf defs f self sc). exists c. repeat split; assumption.
Qed.

Lemma gen_arr_leaf f self sc k p ty bp : arr_leaf_k k p -> gen (S f) MInline self false p sc = Done (ty, bp) -> ty = TSlice true (item_go k) /\ bp = c_bounds (s_con p).
Proof.
  intros (c & it & -> & Ht & Hr & He & _ & Hit) H. cbn [Gen.gen s_con s_any_of s_all_of s_items] in H. rewrite He, Hr, Ht in H. unfold determine_type in H. rewrite Ht in H. cbn in H.
  destruct f as [|f]; [discriminate|]. rewrite (gen_plain_item f self _ k it Hit) in H. cbn in H. inversion H. split; reflexivity.
Qed.

Lemma gen_item_mtype f self sc k it : plain_item k it -> gen (S f) MType self false it sc = Done (item_go k, c_bounds (s_con it)).
Proof.
  intros (c & -> & Hr & He & Hd & Hf & Hmn & Hmx & Hp & Hm & Hb & Ht). cbn [Gen.gen s_con s_any_of s_all_of]. rewrite He, Hr. unfold determine_type. rewrite ?Ht.
  destruct k; cbn; unfold primitive; rewrite ?Hf; reflexivity.
Qed.

Lemma gen_map_leaf f self sc k p ty bp : map_leaf_k k p -> gen (S f) MInline self false p sc = Done (ty, bp) ->
  ty = TNamed sc (TMap (item_go k)) None /\ bp = c_bounds (s_con p).
Proof.
  intros (c & a & -> & Ht & Hr & He & _ & _ & Hit) H. cbn [Gen.gen s_con s_any_of s_all_of] in H. rewrite He, Hr, Ht in H. unfold determine_type in H. rewrite Ht in H. cbn in H.
  destruct f as [|f]; [discriminate|]. cbn [Gen.gen s_con] in H. rewrite He in H.
  destruct f as [|f]; [discriminate|]. cbn [Gen.gen s_con s_props s_all_of s_any_of s_addl rbind] in H. rewrite He, Hr in H. unfold determine_type in H. rewrite ?Ht in H. cbn [s_props s_all_of s_any_of s_addl] in H.
  destruct f as [|f]; [discriminate|]. rewrite (gen_item_mtype f self _ k a Hit) in H. cbn [rbind fst] in H.
  unfold declare in H. cbn [is_named_ty] in H. rewrite Hom in H. inversion H. split; reflexivity.
Qed.

Lemma valid_map_leaf fv k p x : map_leaf_k k p -> valid (S (S fv)) p x =
  match x with JObj kv => forallb (fun y => item_spec k (snd y)) kv | _ => false end.
Proof.
  intros (c & a & -> & Ht & Hr & He & _ & Hq & Hit). set (g := S fv). cbn [Valid.valid s_con s_all_of s_any_of s_props s_addl s_addl_false]. rewrite Hr, Ht, He, Hq. cbn [type_ok existsb forallb].
  destruct x; cbn [type_matches orb andb]; try reflexivity. rewrite ?andb_true_r, ?orb_false_r. cbn [andb lookup].
  apply forallb_ext_in. intros y _. exact (valid_plain_item fv k a (snd y) Hit).
Qed.

Lemma omap_map_items fd k kv : (forall y, In y kv -> snd y <> JNull) ->
  is_ok (omap (fun y : str * json => obind (dec (S fd) (item_go k) (snd y)) (fun v => Ok (fst y, v))) kv) = forallb (fun y => item_spec k (snd y)) kv /\
  (omap (fun y : str * json => obind (dec (S fd) (item_go k) (snd y)) (fun v => Ok (fst y, v))) kv <> Crash) /\
  (omap (fun y : str * json => obind (dec (S fd) (item_go k) (snd y)) (fun v => Ok (fst y, v))) kv <> NoFuel).
Proof.
  induction kv as [|[k0 y] r IH]; intros Hn; [cbn; repeat split; discriminate|].
  assert (Hy : y <> JNull) by (apply (Hn (k0, y)); left; reflexivity).
  destruct (IH (fun z Hz => Hn z (or_intror Hz))) as (I1 & I2 & I3).
  cbn [omap snd fst forallb]. rewrite (dec_item fd k y Hy).
  destruct k, y; try contradiction; cbn [obind item_spec andb is_ok]; try (repeat split; discriminate);
    (destruct (omap _ r) as [vs| | |]; cbn [obind is_ok] in *; try contradiction; (split; [exact I1|split; discriminate])).
Qed.

Lemma map_field fd fv c self fname k ik p kv sc :
  map_leaf_k ik p -> fname <> [] ->
  match lookup k kv with
  | Some x => x <> JNull -> map_value x ->
      field_ok (dec (S (S (S fd)))) zero (default_val env dv_fuel) kv (pair_of (make_field defs c self fname k p (TNamed sc (TMap (item_go ik)) None) (c_bounds (s_con p)))) = valid (S (S fv)) p x
  | None => mem k (c_required c) = false ->
      field_ok (dec (S (S (S fd)))) zero (default_val env dv_fuel) kv (pair_of (make_field defs c self fname k p (TNamed sc (TMap (item_go ik)) None) (c_bounds (s_con p)))) = true
  end.
Proof.
  intros Hleaf Hn. destruct (lookup k kv) as [x|] eqn:Hl.
  - intros Hnull Hmv. rewrite (valid_map_leaf fv ik p x Hleaf). destruct Hleaf as (pc & a & -> & Ht & Hr & He & Hd & Hq & Hit). unfold make_field, pair_of. cbn [s_con]. rewrite Hd.
    assert (Hdec : dec (S (S (S fd))) (TNamed sc (TMap (item_go ik)) None) x =
                   match x with JNull => Ok GNil | JObj kv0 => obind (omap (fun y : str * json => obind (dec (S fd) (item_go ik) (snd y)) (fun v => Ok (fst y, v))) kv0) (fun m => Ok (GM m)) | _ => Err end) by reflexivity.
    assert (Hcore : forall fl, f_json fl = k -> f_ty fl = TNamed sc (TMap (item_go ik)) None -> f_name fl = fname ->
              field_ok (dec (S (S (S fd)))) zero (default_val env dv_fuel) kv (fl, []) =
              match x with JObj kv0 => forallb (fun y => item_spec ik (snd y)) kv0 | _ => false end).
    { intros fl Hj Hty Hnm. unfold field_ok. cbn [fst snd]. rewrite Hj, Hty, Hl, Hdec.
      destruct x as [| | | | |kv0]; try contradiction; try reflexivity.
      destruct (omap_map_items fd ik kv0 (Hmv kv0 eq_refl)) as (I1 & I2 & I3). rewrite <- I1.
      destruct (omap _ kv0); cbn [obind is_ok value_checks forallb]; reflexivity. }
    destruct (mem k (c_required c)).
    + apply Hcore; reflexivity.
    + cbn [nillable_ty]. apply Hcore; reflexivity.
  - intros Hm. destruct Hleaf as (pc & a & -> & Ht & Hr & He & Hd & Hq & Hit). unfold make_field, pair_of. cbn [s_con]. rewrite Hd, Hm. cbn [nillable_ty].
    unfold field_ok. cbn [fst snd f_json f_ty f_name field_validators]. rewrite Hl. reflexivity.
Qed.

Lemma dec_tenum fd sc es x : dec (S (S fd)) (TEnum sc TString false es) x =
  obind (dec (S fd) TString x) (fun v => if existsb (enum_eq TString v) es then Ok v else Err).
Proof. reflexivity. Qed.

Lemma enum_field fd fv c self fname k p vs kv sc :
  enum_leaf p -> c_enum (s_con p) = Some (map JStr vs) -> fname <> [] ->
  match lookup k kv with
  | Some x => x <> JNull ->
      field_ok (dec (S (S (S fd)))) zero (default_val env dv_fuel) kv (pair_of (make_field defs c self fname k p (TEnum sc TString false (map EVStr vs)) (c_bounds (s_con p)))) = valid (S fv) p x
  | None => mem k (c_required c) = false ->
      field_ok (dec (S (S (S fd)))) zero (default_val env dv_fuel) kv (pair_of (make_field defs c self fname k p (TEnum sc TString false (map EVStr vs)) (c_bounds (s_con p)))) = true
  end.
Proof.
  intros Hleaf He Hn. destruct (lookup k kv) as [x|] eqn:Hl.
  - intros Hnull. rewrite (valid_enum_leaf fv p x vs Hleaf He). destruct Hleaf as (pc & vs0 & -> & Ht & Hr & He0 & _ & Hd & _). unfold make_field, pair_of. cbn [s_con]. rewrite Hd.
    destruct (mem k (c_required c)).
    + unfold field_ok. cbn [fst snd f_json f_ty f_name field_validators]. rewrite Hl, dec_tenum, dec_tstring.
      destruct x; try contradiction; cbn [obind]; try reflexivity.
      rewrite existsb_json_strs. destruct (existsb (enum_eq TString (GS s)) (map EVStr vs)); reflexivity.
    + cbn [nillable_ty]. unfold field_ok. cbn [fst snd f_json f_ty f_name field_validators]. rewrite Hl.
      assert (Hp : dec (S (S (S fd))) (TPtr (TEnum sc TString false (map EVStr vs))) x =
                   match x with JNull => Ok GNil | _ => obind (dec (S (S fd)) (TEnum sc TString false (map EVStr vs)) x) (fun v => Ok (GP v)) end) by reflexivity.
      rewrite Hp, dec_tenum, dec_tstring.
      destruct x; try contradiction; cbn [obind]; try reflexivity.
      rewrite existsb_json_strs. destruct (existsb (enum_eq TString (GS s)) (map EVStr vs)); reflexivity.
  - intros Hm. destruct Hleaf as (pc & vs0 & -> & Ht & Hr & He0 & _ & Hd & _). unfold make_field, pair_of. cbn [s_con]. rewrite Hd, Hm. cbn [nillable_ty].
    unfold field_ok. cbn [fst snd f_json f_ty f_name field_validators]. rewrite Hl. reflexivity.
Qed.

Lemma dec_tenum_float fd sc es x : dec (S (S fd)) (TEnum sc TFloat false es) x =
  obind (dec (S fd) TFloat x) (fun v => if existsb (enum_eq TFloat v) es then Ok v else Err).
Proof. reflexivity. Qed.
Lemma dec_tfloat fd y : dec (S fd) TFloat y = match y with JNum n => Ok (GF (nq n)) | JNull => Ok (GF 0) | _ => Err end.
Proof. reflexivity. Qed.

Lemma num_enum_field fd fv c self fname k p ns kv sc :
  num_enum_leaf p -> c_enum (s_con p) = Some (map JNum ns) -> fname <> [] ->
  match lookup k kv with
  | Some x => x <> JNull ->
      field_ok (dec (S (S (S fd)))) zero (default_val env dv_fuel) kv (pair_of (make_field defs c self fname k p (TEnum sc TFloat false (map (fun n => EVFloat (nq n)) ns)) (c_bounds (s_con p)))) = valid (S fv) p x
  | None => mem k (c_required c) = false ->
      field_ok (dec (S (S (S fd)))) zero (default_val env dv_fuel) kv (pair_of (make_field defs c self fname k p (TEnum sc TFloat false (map (fun n => EVFloat (nq n)) ns)) (c_bounds (s_con p)))) = true
  end.
Proof.
  intros Hleaf He Hn. destruct (lookup k kv) as [x|] eqn:Hl.
  - intros Hnull. rewrite (valid_num_enum_leaf fv p x ns Hleaf He). destruct Hleaf as (pc & ns0 & -> & Ht & Hr & He0 & _ & Hd & _). unfold make_field, pair_of. cbn [s_con]. rewrite Hd.
    destruct (mem k (c_required c)).
    + unfold field_ok. cbn [fst snd f_json f_ty f_name field_validators]. rewrite Hl, dec_tenum_float, dec_tfloat.
      destruct x; try contradiction; cbn [obind]; try reflexivity.
      rewrite existsb_json_numvals. destruct (existsb (enum_eq TFloat (GF (nq n))) _); reflexivity.
    + cbn [nillable_ty]. unfold field_ok. cbn [fst snd f_json f_ty f_name field_validators]. rewrite Hl.
      assert (Hp : dec (S (S (S fd))) (TPtr (TEnum sc TFloat false (map (fun n => EVFloat (nq n)) ns))) x =
                   match x with JNull => Ok GNil | _ => obind (dec (S (S fd)) (TEnum sc TFloat false (map (fun n => EVFloat (nq n)) ns)) x) (fun v => Ok (GP v)) end) by reflexivity.
      rewrite Hp, dec_tenum_float, dec_tfloat.
      destruct x; try contradiction; cbn [obind]; try reflexivity.
      rewrite existsb_json_numvals. destruct (existsb (enum_eq TFloat (GF (nq n))) _); reflexivity.
  - intros Hm. destruct Hleaf as (pc & ns0 & -> & Ht & Hr & He0 & _ & Hd & _). unfold make_field, pair_of. cbn [s_con]. rewrite Hd, Hm. cbn [nillable_ty].
    unfold field_ok. cbn [fst snd f_json f_ty f_name field_validators]. rewrite Hl. reflexivity.
Qed.

Lemma dec_tenum_bool fd sc es x : dec (S (S fd)) (TEnum sc TBool false es) x =
  obind (dec (S fd) TBool x) (fun v => if existsb (enum_eq TBool v) es then Ok v else Err).
Proof. reflexivity. Qed.
Lemma dec_tbool fd y : dec (S fd) TBool y = match y with JBool b => Ok (GB b) | JNull => Ok (GB false) | _ => Err end.
Proof. reflexivity. Qed.

Lemma bool_enum_field fd fv c self fname k p bs kv sc :
  bool_enum_leaf p -> c_enum (s_con p) = Some (map JBool bs) -> fname <> [] ->
  match lookup k kv with
  | Some x => x <> JNull ->
      field_ok (dec (S (S (S fd)))) zero (default_val env dv_fuel) kv (pair_of (make_field defs c self fname k p (TEnum sc TBool false (map EVBool bs)) (c_bounds (s_con p)))) = valid (S fv) p x
  | None => mem k (c_required c) = false ->
      field_ok (dec (S (S (S fd)))) zero (default_val env dv_fuel) kv (pair_of (make_field defs c self fname k p (TEnum sc TBool false (map EVBool bs)) (c_bounds (s_con p)))) = true
  end.
Proof.
  intros Hleaf He Hn. destruct (lookup k kv) as [x|] eqn:Hl.
  - intros Hnull. rewrite (valid_bool_enum_leaf fv p x bs Hleaf He). destruct Hleaf as (pc & bs0 & -> & Ht & Hr & He0 & _ & Hd & _). unfold make_field, pair_of. cbn [s_con]. rewrite Hd.
    destruct (mem k (c_required c)).
    + unfold field_ok. cbn [fst snd f_json f_ty f_name field_validators]. rewrite Hl, dec_tenum_bool, dec_tbool.
      destruct x; try contradiction; cbn [obind]; try reflexivity.
      rewrite existsb_json_bools. destruct (existsb (enum_eq TBool (GB b)) _); reflexivity.
    + cbn [nillable_ty]. unfold field_ok. cbn [fst snd f_json f_ty f_name field_validators]. rewrite Hl.
      assert (Hp : dec (S (S (S fd))) (TPtr (TEnum sc TBool false (map EVBool bs))) x =
                   match x with JNull => Ok GNil | _ => obind (dec (S (S fd)) (TEnum sc TBool false (map EVBool bs)) x) (fun v => Ok (GP v)) end) by reflexivity.
      rewrite Hp, dec_tenum_bool, dec_tbool.
      destruct x; try contradiction; cbn [obind]; try reflexivity.
      rewrite existsb_json_bools. destruct (existsb (enum_eq TBool (GB b)) _); reflexivity.
  - intros Hm. destruct Hleaf as (pc & bs0 & -> & Ht & Hr & He0 & _ & Hd & _). unfold make_field, pair_of. cbn [s_con]. rewrite Hd, Hm. cbn [nillable_ty].
    unfold field_ok. cbn [fst snd f_json f_ty f_name field_validators]. rewrite Hl. reflexivity.
Qed.

Lemma leaf_default_none p : leaf p -> c_default (s_con p) = None.
Proof.
  intros [Hl|[Hl|[Hl|[Hl|[Hl|[Hl|[Hl|[Hl|[Hl|Hl]]]]]]]]].
  - destruct Hl as (c & -> & _ & _ & _ & Hd & _); exact Hd.
  - destruct Hl as (c & m & -> & _ & _ & _ & Hd & _); exact Hd.
  - destruct Hl as (c & -> & _ & _ & _ & Hd); exact Hd.
  - destruct Hl as (c & -> & _ & _ & _ & Hd & _); exact Hd.
  - destruct Hl as (ik & c & it & -> & _ & _ & _ & Hd & _); exact Hd.
  - destruct Hl as (c & vs & -> & _ & _ & _ & _ & Hd & _); exact Hd.
  - destruct Hl as (ik & c & a & -> & _ & _ & _ & Hd & _); exact Hd.
  - exact (int_enum_default_none p Hl).
  - destruct Hl as (c & ns & -> & _ & _ & _ & _ & Hd & _); exact Hd.
  - destruct Hl as (c & bs & -> & _ & _ & _ & _ & Hd & _); exact Hd.
Qed.

Lemma ref_default_none p x : ref_prop p x -> c_default (s_con p) = None.
Proof. intros (c & -> & _ & _ & Hd). exact Hd. Qed.

Lemma valid_non_object fv s x : c_ref (s_con s) = None -> c_types (s_con s) = [SObject] ->
  (forall kv, x <> JObj kv) -> valid (S fv) s x = false.
Proof.
  intros Hr Ht Hx. destruct s as [c props addl af items allof anyof]. cbn [Valid.valid s_con] in *. rewrite Hr, Ht.
  destruct x; cbn; try reflexivity. exfalso. exact (Hx _ eq_refl).
Qed.

(* one level, with the scalar leaves discharged and the other properties left to the caller *)
Lemma level_with_leaves f fd fv self sub s scope t bb kv (other : schema -> Prop) :
  scope <> [] ->
  plain_object s -> c_types (s_con s) = [SObject] -> s_addl s = None -> s_addl_false s = false ->
  NoDup (map fst (s_props s)) -> incl (c_required (s_con s)) (map fst (s_props s)) ->
  NoDup (map fst (prop_names idf (s_props s))) -> (forall fname kp, In (fname, kp) (prop_names idf (s_props s)) -> fname <> []) ->
  (forall k p, In (k, p) (s_props s) -> leaf p \/ (other p /\ c_default (s_con p) = None)) ->
  NoDup (map fst kv) ->
  (forall k p x, In (k, p) (s_props s) -> lookup k kv = Some x ->
     x <> JNull /\ (str_leaf p -> forall s0, x = JStr s0 -> utf8_len s0 = length s0) /\ (int_leaf p -> int_value x) /\ (arr_leaf p -> arr_value x) /\ (map_leaf p -> map_value x) /\ (int_enum_leaf p -> int_value x)) ->
  (forall fname k p ty bp, In (fname, (k, p)) (prop_names idf (s_props s)) -> In (k, p) (s_props s) -> other p -> fname <> [] ->
     gen (S f) MInline self false p (scope ++ fname) = Done (ty, bp) ->
     match lookup k kv with
     | Some x => field_ok (dec (S (S (S fd)))) zero (default_val env dv_fuel) kv (pair_of (make_field defs (s_con s) self fname k p ty bp)) = valid (S (S fv)) p x
     | None => mem k (c_required (s_con s)) = false ->
               field_ok (dec (S (S (S fd)))) zero (default_val env dv_fuel) kv (pair_of (make_field defs (s_con s) self fname k p ty bp)) = true
     end) ->
  gen (S (S (S f))) MDeclared self sub s scope = Done (t, bb) ->
  is_ok (dec (S (S (S (S fd)))) t (JObj kv)) = valid (S (S (S fv))) s (JObj kv).
Proof.
  intros Hsc Hp Hty Ha Haf Np Hreq Nn Hne Hprops Nk Hval Hother Hg.
  apply (level_exact idf cf defs fmt_ok env sdefs (S f) (S (S (S fd))) (S (S fv)) self sub s scope t bb kv Hom Hsc Hp Hty Ha Haf); try assumption.
  - intros k p Hin. destruct (Hprops k p Hin) as [Hl|[_ Hd]]; [exact (leaf_default_none p Hl)|exact Hd].
  - intros fname k p ty bp Hin Hgen.
    assert (Hinp : In (k, p) (s_props s)) by (unfold prop_names in Hin; apply in_combine_r in Hin; rewrite sort_props_In in Hin; exact Hin).
    pose proof (Hne _ _ Hin) as Hfn.
    destruct (Hprops k p Hinp) as [[Hl|[Hl|[Hl|[Hl|[Hl|[Hl|[Hl|[Hl|[Hl|Hl]]]]]]]]]|[Hoth _]].
    + rewrite (gen_str_leaf idf cf defs f self _ p Hl) in Hgen. inversion Hgen; subst ty bp.
      destruct (lookup k kv) as [x|] eqn:El.
      * destruct (Hval k p x Hinp El) as [Hnn [Hstr _]]. apply str_field_present; [exact Hl|exact Hfn|exact El|split; [exact Hnn|exact (Hstr Hl)]].
      * intros Hm. apply str_field_absent; assumption.
    + rewrite (gen_int_leaf idf cf defs Hms f self _ p Hl) in Hgen. inversion Hgen; subst ty bp.
      destruct (lookup k kv) as [x|] eqn:El.
      * destruct (Hval k p x Hinp El) as [Hnn [_ [Hi _]]]. apply int_field_present; [exact Hl|exact Hfn|exact El|exact (Hi Hl)].
      * intros Hm. apply int_field_absent; assumption.
    + rewrite (gen_bool_leaf idf cf defs f self _ p Hl) in Hgen. inversion Hgen; subst ty bp.
      pose proof (bool_field defs fmt_ok env sdefs (S fd) (S fv) (s_con s) self fname k p (c_bounds (s_con p)) kv Hl Hfn) as Hb.
      destruct (lookup k kv) as [x|] eqn:El.
      * destruct (Hval k p x Hinp El) as [Hnn _]. exact (Hb Hnn).
      * exact Hb.
    + rewrite (gen_num_leaf f self _ p Hl) in Hgen. inversion Hgen; subst ty bp.
      pose proof (num_field (S fd) (S fv) (s_con s) self fname k p kv Hl Hfn) as Hb.
      destruct (lookup k kv) as [x|] eqn:El.
      * destruct (Hval k p x Hinp El) as [Hnn _]. exact (Hb Hnn).
      * exact Hb.
    + pose proof Hl as [ik Hlk]. destruct (gen_arr_leaf f self _ ik p ty bp Hlk Hgen) as [-> ->].
      pose proof (arr_field (S fd) fv (s_con s) self fname k ik p kv Hlk Hfn) as Hb.
      destruct (lookup k kv) as [x|] eqn:El.
      * destruct (Hval k p x Hinp El) as [Hnn [_ [_ [Har _]]]]. exact (Hb Hnn (Har Hl)).
      * exact Hb.
    + destruct (gen_enum_leaf f self _ p ty bp Hl Hgen) as (vs & Hev & -> & ->).
      pose proof (enum_field fd (S fv) (s_con s) self fname k p vs kv (scope ++ fname) Hl Hev Hfn) as Hb.
      destruct (lookup k kv) as [x|] eqn:El.
      * destruct (Hval k p x Hinp El) as [Hnn _]. exact (Hb Hnn).
      * exact Hb.
    + pose proof Hl as [ik Hlk]. destruct (gen_map_leaf f self _ ik p ty bp Hlk Hgen) as [-> ->].
      pose proof (map_field fd fv (s_con s) self fname k ik p kv (scope ++ fname) Hlk Hfn) as Hb.
      destruct (lookup k kv) as [x|] eqn:El.
      * destruct (Hval k p x Hinp El) as [Hnn [_ [_ [_ [Hmv _]]]]]. exact (Hb Hnn (Hmv Hl)).
      * exact Hb.
    + destruct (gen_int_enum_leaf idf cf defs Hms f self _ p ty bp Hl Hgen) as (l & tbl & He & Ht & -> & ->).
      pose proof (int_enum_field defs fmt_ok env sdefs fd (S fv) (s_con s) self fname k p l tbl kv (scope ++ fname) Hl He Ht Hfn) as Hb.
      destruct (lookup k kv) as [x|] eqn:El.
      * destruct (Hval k p x Hinp El) as (_ & _ & _ & _ & _ & Hiv). exact (Hb (Hiv Hl)).
      * exact Hb.
    + destruct (gen_num_enum_leaf f self _ p ty bp Hl Hgen) as (ns & Hev & -> & ->).
      pose proof (num_enum_field fd (S fv) (s_con s) self fname k p ns kv (scope ++ fname) Hl Hev Hfn) as Hb.
      destruct (lookup k kv) as [x|] eqn:El.
      * destruct (Hval k p x Hinp El) as [Hnn _]. exact (Hb Hnn).
      * exact Hb.
    + destruct (gen_bool_enum_leaf f self _ p ty bp Hl Hgen) as (bs & Hev & -> & ->).
      pose proof (bool_enum_field fd (S fv) (s_con s) self fname k p bs kv (scope ++ fname) Hl Hev Hfn) as Hb.
      destruct (lookup k kv) as [x|] eqn:El.
      * destruct (Hval k p x Hinp El) as [Hnn _]. exact (Hb Hnn).
      * exact Hb.
    + exact (Hother fname k p ty bp Hin Hinp Hoth Hfn Hgen).
Qed.

(* what is generated for a reference to an object definition, and how such a field decodes *)
Lemma gen_ref_prop f self sc p x d ty bp :
  ref_prop p x -> lookup x defs = Some d -> plain_object d -> c_types (s_con d) = [SObject] ->
  gen (S (S (S (S f)))) MInline self false p sc = Done (ty, bp) -> ty = TRef x.
Proof.
  intros (c & -> & Hr & He & _) Hl Pd Pty H. pose proof Pd as (_ & _ & _ & Pprops & _).
  cbn [Gen.gen s_con] in H. rewrite He, Hr in H. rewrite Hl, Pty in H. cbn [rbind] in H. unfold declare in H. cbn [is_named_ty] in H. inversion H. reflexivity.
Qed.

Lemma def_not_nillable x d self : lookup x defs = Some d -> plain_object d -> ref_nillable defs self x = false.
Proof.
  intros Hl (He & Hr & Ht & Hp & _). unfold ref_nillable.
  assert (Hd : def_nillable defs (S (length defs)) x = false).
  { cbn [def_nillable]. rewrite Hl, He, Hr. destruct (determine_type (s_con d)) as [ty ptr]. cbn [fst] in Ht. subst ty.
    destruct (s_props d); [contradiction Hp; reflexivity|reflexivity]. }
  destruct self as [me|]; [destruct (str_eqb me x); [reflexivity|exact Hd]|exact Hd].
Qed.

Lemma ref_field_present fd c self fname k p x d u b kv v :
  ref_prop p x -> lookup x defs = Some d -> plain_object d -> lookup x env = Some u ->
  fname <> [] -> lookup k kv = Some v -> v <> JNull ->
  field_ok (dec (S (S fd))) zero (default_val env dv_fuel) kv (pair_of (make_field defs c self fname k p (TRef x) b)) =
  is_ok (dec (if mem k (c_required c) then S fd else fd) u v).
Proof.
  intros Hrp Hl Pd Hu Hn Hk Hnull. pose proof (ref_default_none p x Hrp) as Hd. unfold make_field, pair_of. rewrite Hd.
  destruct (mem k (c_required c)).
  - unfold field_ok. cbn [fst snd f_json f_ty f_name field_validators]. rewrite Hk. cbn [Exec.dec]. rewrite Hu.
    destruct (dec (S fd) u v); reflexivity.
  - cbn [nillable_ty]. rewrite (def_not_nillable x d self Hl Pd).
    unfold field_ok. cbn [fst snd f_json f_ty f_name field_validators]. rewrite Hk.
    destruct v; try contradiction; cbn [Exec.dec]; rewrite Hu; destruct (dec fd u _); reflexivity.
Qed.

Lemma ref_field_absent fd c self fname k p x d b kv :
  ref_prop p x -> lookup x defs = Some d -> plain_object d ->
  lookup k kv = None -> mem k (c_required c) = false ->
  field_ok (dec fd) zero (default_val env dv_fuel) kv (pair_of (make_field defs c self fname k p (TRef x) b)) = true.
Proof.
  intros Hrp Hl Pd Hk Hm. pose proof (ref_default_none p x Hrp) as Hd. unfold make_field, pair_of. rewrite Hd, Hm. cbn [nillable_ty].
  rewrite (def_not_nillable x d self Hl Pd). unfold field_ok. cbn [fst snd f_json f_ty f_name field_validators]. rewrite Hk. reflexivity.
Qed.

Lemma valid_ref_prop fv p x d v : ref_prop p x -> lookup x sdefs = Some d -> valid (S fv) p v = valid fv d v.
Proof. intros (c & -> & Hr & _) Hl. cbn [Valid.valid s_con]. rewrite Hr, Hl. reflexivity. Qed.

Lemma sobj_facts n s : sobj n s -> plain_object s /\ c_types (s_con s) = [SObject] /\ s_addl s = None.
Proof. destruct n; cbn [sobj]; intros (Pp & Pty & Pa & _); (split; [exact Pp|split; [exact Pty|exact Pa]]). Qed.

Lemma leaf_not_object p : leaf p -> plain_object p -> c_types (s_con p) = [SObject] -> False.
Proof.
  intros Hl (_ & _ & _ & Hprops & _) Pty. destruct Hl as [Hl|[Hl|[Hl|[Hl|[Hl|[Hl|[Hl|[Hl|[Hl|Hl]]]]]]]]].
  - destruct Hl as (c0 & -> & Ht & _). cbn [s_con] in Pty; rewrite Ht in Pty; discriminate.
  - destruct Hl as (c0 & m0 & -> & Ht & _). cbn [s_con] in Pty; rewrite Ht in Pty; discriminate.
  - destruct Hl as (c0 & -> & Ht & _). cbn [s_con] in Pty; rewrite Ht in Pty; discriminate.
  - destruct Hl as (c0 & -> & Ht & _). cbn [s_con] in Pty; rewrite Ht in Pty; discriminate.
  - destruct Hl as (ik0 & c0 & it0 & -> & Ht & _). cbn [s_con] in Pty; rewrite Ht in Pty; discriminate.
  - destruct Hl as (c0 & vs0 & -> & Ht & _). cbn [s_con] in Pty; rewrite Ht in Pty; discriminate.
  - destruct Hl as (ik0 & c0 & a0 & -> & _). apply Hprops. reflexivity.
  - destruct Hl as (c0 & l0 & -> & Ht & _). cbn [s_con] in Pty; rewrite Ht in Pty; discriminate.
  - destruct Hl as (c0 & ns0 & -> & Ht & _). cbn [s_con] in Pty; rewrite Ht in Pty; discriminate.
  - destruct Hl as (c0 & bs0 & -> & Ht & _). cbn [s_con] in Pty; rewrite Ht in Pty; discriminate.
Qed.

Lemma leaf_not_ref p x : leaf p -> ref_prop p x -> False.
Proof.
  intros Hl (c & E & Hr & _). subst p.
  destruct Hl as [Hl|[Hl|[Hl|[Hl|[Hl|[Hl|[Hl|[Hl|[Hl|Hl]]]]]]]]];
    [destruct Hl as (c0 & E & _ & Hr0 & _)|destruct Hl as (c0 & m0 & E & _ & Hr0 & _)|destruct Hl as (c0 & E & _ & Hr0 & _)|destruct Hl as (c0 & E & _ & Hr0 & _)|destruct Hl as (ik0 & c0 & it0 & E & _ & Hr0 & _)
    |destruct Hl as (c0 & vs0 & E & _ & Hr0 & _)|destruct Hl as (ik0 & c0 & a0 & E & _ & Hr0 & _)|destruct Hl as (c0 & l0 & E & _ & Hr0 & _)|destruct Hl as (c0 & ns0 & E & _ & Hr0 & _)|destruct Hl as (c0 & bs0 & E & _ & Hr0 & _)];
    inversion E; subst; congruence.
Qed.

Definition nested_or_ref (m : nat) (p : schema) : Prop :=
  sobj m p \/
  exists x d u a bb, ref_prop p x /\ lookup x defs = Some d /\ lookup x sdefs = Some d /\ sobj m d /\ idf x <> [] /\
                     lookup x env = Some u /\ gen (fuelG m a) MDeclared (Some x) false d (idf x) = Done (u, bb).

Theorem nested_object_exact : forall n a b c self sub s scope t bb kv,
  scope <> [] -> sobj n s -> dok n s kv ->
  gen (fuelG n a) MDeclared self sub s scope = Done (t, bb) ->
  is_ok (dec (fuelD n b) t (JObj kv)) = valid (fuelV n c) s (JObj kv).
Proof.
  induction n as [|m IH]; intros a b c self sub s scope t bb kv Hsc Hs Hk Hg.
  - (* depth 0: only leaves *)
    cbn [sobj] in Hs. destruct Hs as (Hp & Hty & Ha & Haf & Np & Hreq & Nn & Hne & Hprops).
    cbn [dok] in Hk. destruct Hk as (Nk & Hval).
    cbn [fuelG fuelD fuelV] in *.
    apply (level_with_leaves a b c self sub s scope t bb kv (fun _ => False)); try assumption.
    + intros k p Hin. destruct (Hprops k p Hin) as [Hl|[]]. left; exact Hl.
    + intros k p x Hin Hl. destruct (Hval k p x Hin Hl) as (H1 & H2 & H3 & H4 & H5 & H6 & _). split; [exact H1|split; [exact H2|split; [exact H3|split; [exact H4|split; [exact H5|exact H6]]]]].
    + intros fname k p ty bp _ _ [].
  - (* depth m+1 *)
    cbn [sobj] in Hs. destruct Hs as (Hp & Hty & Ha & Haf & Np & Hreq & Nn & Hne & Hprops).
    cbn [dok] in Hk. destruct Hk as (Nk & Hval).
    cbn [fuelG fuelD fuelV] in *.
    destruct (fuelV_SS m c) as [fv' Hfv]. rewrite Hfv. destruct (fuelD_pos m b) as [fdx Hfd]. rewrite Hfd.
    apply (level_with_leaves (fuelG m a) fdx (S fv') self sub s scope t bb kv (nested_or_ref m)); try assumption.
    + intros k p Hin. destruct (Hprops k p Hin) as [Hl|[[Hn Hd]|Hr]]; [left; exact Hl|right; split; [left; exact Hn|exact Hd]|].
      right. split; [right; exact Hr|]. destruct Hr as (x & d & u & a0 & b0 & Hrp & _). exact (ref_default_none p x Hrp).
    + intros k p x Hin Hl. destruct (Hval k p x Hin Hl) as (H1 & H2 & H3 & H4 & H5 & H6 & _). split; [exact H1|split; [exact H2|split; [exact H3|split; [exact H4|split; [exact H5|exact H6]]]]].
    + intros fname k p ty bp Hin Hinp Hother Hfn Hgen. rewrite <- Hfv, <- Hfd.
      destruct Hother as [Hnest|(x & d & u & a0 & b0 & Hrp & Hld & Hls & Hsd & Hidf & Hlu & Hgd)].
      * (* an object written inline: one level down *)
        pose proof (sobj_facts m p Hnest) as (Pp & Pty & Pa). pose proof Pp as (Pe & Pr & _ & _ & Pall & Pany).
        assert (Hdn : c_default (s_con p) = None).
        { destruct (Hprops k p Hinp) as [Hl|[[_ Hd]|(x & d & u & a0 & b0 & Hrp & _)]];
            [exfalso; exact (leaf_not_object p Hl Pp Pty)|exact Hd|exact (ref_default_none p x Hrp)]. }
        rewrite (gen_inline_object_eq idf cf defs _ self false p (scope ++ fname) Pe Pr Pall Pany Pty) in Hgen.
        assert (Hscn : scope ++ fname <> []) by (intros E; apply app_eq_nil in E; destruct E as [_ E]; exact (Hfn E)).
        assert (Hshape : exists fs plan, ty = TStruct (scope ++ fname) fs plan).
        { destruct m as [|m']; cbn [fuelG] in Hgen; exact (declared_struct_shape _ self false p (scope ++ fname) ty bp Pp Pa Hgen). }
        destruct Hshape as (fs & plan & ->).
        destruct (lookup k kv) as [x|] eqn:El; [|intros Hm; apply nested_field_absent; assumption].
        destruct (Hval k p x Hinp El) as (Hnn & _ & _ & _ & _ & _ & Hdeep).
        rewrite (nested_field_present _ (s_con s) self fname k p _ fs plan bp kv x Hdn Hfn El Hnn).
        destruct x as [| | | | |kv']; try contradiction;
          try (rewrite dec_struct_type by (try discriminate; intros; discriminate); symmetry; rewrite fuelV_Sc; destruct (fuelV_SS m (S c)) as [y ->];
               apply valid_non_object; [exact Pr|exact Pty|intros; discriminate]).
        destruct (Hdeep kv' eq_refl) as [Hdeep1 _]. specialize (Hdeep1 Hnest). rewrite fuelV_Sc.
        destruct (mem k (c_required (s_con s))).
        -- rewrite !fuelD_S. exact (IH a (S (S b)) (S c) self false p (scope ++ fname) _ bp kv' Hscn Hnest Hdeep1 Hgen).
        -- rewrite fuelD_S. exact (IH a (S b) (S c) self false p (scope ++ fname) _ bp kv' Hscn Hnest Hdeep1 Hgen).
      * (* a reference to an object definition: the declared type of the definition, one level down *)
        pose proof (sobj_facts m d Hsd) as (Pd & Pdty & _).
        destruct (fuelG_SSS m a) as [g Hgm]. rewrite Hgm in Hgen.
        pose proof (gen_ref_prop g self (scope ++ fname) p x d ty bp Hrp Hld Pd Pdty Hgen) as ->.
        destruct (lookup k kv) as [v|] eqn:El; [|intros Hm; exact (ref_field_absent _ (s_con s) self fname k p x d bp kv Hrp Hld Pd El Hm)].
        destruct (Hval k p v Hinp El) as (Hnn & _ & _ & _ & _ & _ & Hdeep).
        rewrite (ref_field_present _ (s_con s) self fname k p x d u bp kv v Hrp Hld Pd Hlu Hfn El Hnn).
        rewrite (valid_ref_prop _ p x d v Hrp Hls).
        pose proof Pd as (_ & Pr & _).
        destruct v as [| | | | |kv']; try contradiction.
        1-4: assert (Hu : exists fs plan, u = TStruct (idf x) fs plan)
               by (destruct m as [|m']; cbn [fuelG] in Hgd; exact (declared_struct_shape _ (Some x) false d (idf x) u b0 Pd (proj2 (proj2 (sobj_facts _ d Hsd))) Hgd));
             destruct Hu as (fs & plan & ->);
             rewrite dec_struct_type by (try discriminate; intros; discriminate); symmetry; destruct (fuelV_SS m c) as [y ->];
             apply valid_non_object; [exact Pr|exact Pdty|intros; discriminate].
        destruct (Hdeep kv' eq_refl) as [_ Hdeep2]. specialize (Hdeep2 x d Hrp Hls).
        destruct (mem k (c_required (s_con s))).
        -- rewrite fuelD_S. exact (IH a0 (S b) c (Some x) false d (idf x) u b0 kv' Hidf Hsd Hdeep2 Hgd).
        -- exact (IH a0 b c (Some x) false d (idf x) u b0 kv' Hidf Hsd Hdeep2 Hgd).
Qed.
End Nested.

(* ---------- non-vacuity: {o: {a: string, minLength 2; required a}, b: string, maxLength 3; required o}, one level of nesting ---------- *)
Definition ex_inner : schema := LevelP.ex_schema.
Definition ex_outer : schema :=
  Sch (mkC [SObject] None None [[111]%N] 0 0 0 0 None None (mkBounds None None None None) None None)
      [([111]%N, ex_inner); ([98]%N, ex_leaf 0 3 None)] None false None [] [].
Definition ex_outer_doc : list (str * json) := [([111]%N, JObj LevelP.ex_doc); ([98]%N, JStr [120]%N)].
Definition ex_outer_bad : list (str * json) := [([111]%N, JObj [([97]%N, JStr [120]%N)])].     (* o.a too short *)

Lemma ex_leaf_is_leaf mn mx : leaf (ex_leaf mn mx None).
Proof. left. eexists. repeat split; reflexivity. Qed.

Lemma ex_inner_sobj : sobj (fun s => s) (mkCfg false false) [] [] [] 0 ex_inner.
Proof.
  cbn [sobj]. repeat split; try reflexivity; try discriminate.
  - repeat constructor; cbn; intuition discriminate.
  - intros k [H|[]]. subst. left; reflexivity.
  - vm_compute. repeat constructor; cbn; intuition discriminate.
  - intros fname kp H. vm_compute in H. destruct H as [H|[H|[]]]; inversion H; subst; discriminate.
  - intros k p [H|[H|[]]]; inversion H; subst; left; apply ex_leaf_is_leaf.
Qed.

Lemma ex_outer_sobj : sobj (fun s => s) (mkCfg false false) [] [] [] 1 ex_outer.
Proof.
  cbn [sobj]. repeat split; try reflexivity; try discriminate.
  - repeat constructor; cbn; intuition discriminate.
  - intros k [H|[]]. subst. left; reflexivity.
  - vm_compute. repeat constructor; cbn; intuition discriminate.
  - intros fname kp H. vm_compute in H. destruct H as [H|[H|[]]]; inversion H; subst; discriminate.
  - intros k p [H|[H|[]]]; inversion H; subst.
    + right. left. split; [exact ex_inner_sobj|reflexivity].
    + left. apply ex_leaf_is_leaf.
Qed.

Lemma ex_dok kv : NoDup (map fst kv) ->
  (forall k x, lookup k kv = Some x -> x <> JNull /\ (forall s0, x = JStr s0 -> utf8_len s0 = length s0) /\ forall kv', x = JObj kv' ->
     NoDup (map fst kv') /\ forall k' x', lookup k' kv' = Some x' -> x' <> JNull /\ (forall s0, x' = JStr s0 -> utf8_len s0 = length s0)) ->
  dok (fun s => s) (mkCfg false false) [] [] [] 1 ex_outer kv.
Proof.
  assert (Hnoint : forall k p, In (k, p) (s_props ex_outer) \/ In (k, p) (s_props ex_inner) -> ~ int_leaf p).
  { intros k p Hin (c & m & E & Ht & _). subst p. unfold ex_outer, ex_inner, LevelP.ex_schema, ex_leaf in Hin. cbn [s_props] in Hin.
    destruct Hin as [[Hin|[Hin|[]]]|[Hin|[Hin|[]]]]; inversion Hin; subst; discriminate. }
  assert (Hnoarr : forall k p, In (k, p) (s_props ex_outer) \/ In (k, p) (s_props ex_inner) -> ~ arr_leaf p).
  { intros k p Hin (ik & c & it & E & Ht & _). subst p. unfold ex_outer, ex_inner, LevelP.ex_schema, ex_leaf in Hin. cbn [s_props] in Hin.
    destruct Hin as [[Hin|[Hin|[]]]|[Hin|[Hin|[]]]]; inversion Hin. }
  assert (Hnomap : forall k p, In (k, p) (s_props ex_outer) \/ In (k, p) (s_props ex_inner) -> ~ map_leaf p).
  { intros k p Hin (ik & c & a & E & Ht & _). subst p. unfold ex_outer, ex_inner, LevelP.ex_schema, ex_leaf in Hin. cbn [s_props] in Hin.
    destruct Hin as [[Hin|[Hin|[]]]|[Hin|[Hin|[]]]]; inversion Hin. }
  assert (Hnoie : forall k p, In (k, p) (s_props ex_outer) \/ In (k, p) (s_props ex_inner) -> ~ int_enum_leaf p).
  { intros k p Hin (c & l & E & Ht & _ & He & _). subst p. unfold ex_outer, ex_inner, LevelP.ex_schema, ex_leaf in Hin. cbn [s_props] in Hin.
    destruct Hin as [[Hin|[Hin|[]]]|[Hin|[Hin|[]]]]; inversion Hin; subst; discriminate. }
  intros Nk H. cbn [dok]. split; [exact Nk|]. intros k p x Hin Hl. destruct (H k x Hl) as (H1 & H2 & H3).
  split; [exact H1|]. split; [intros _; exact H2|]. split; [intros Hi; exfalso; exact (Hnoint k p (or_introl Hin) Hi)|].
  split; [intros Hi; exfalso; exact (Hnoarr k p (or_introl Hin) Hi)|].
  split; [intros Hi; exfalso; exact (Hnomap k p (or_introl Hin) Hi)|].
  split; [intros Hi; exfalso; exact (Hnoie k p (or_introl Hin) Hi)|].
  intros kv' ->. split; [|intros y d (c0 & E & Hr & _) _; exfalso; subst p; unfold ex_outer, ex_inner, LevelP.ex_schema, ex_leaf in Hin; cbn [s_props] in Hin;
                         destruct Hin as [Hin|[Hin|[]]]; inversion Hin; subst; discriminate].
  intros _. destruct (H3 kv' eq_refl) as [Nk' H']. split; [exact Nk'|]. intros k' p' x' Hin' Hl'. destruct (H' k' x' Hl') as (G1 & G2).
  assert (Hin2 : In (k', p') (s_props ex_inner)).
  { destruct Hin as [Hin|[Hin|[]]]; inversion Hin; subst p; [exact Hin'|destruct Hin']. }
  split; [exact G1|]. split; [intros _; exact G2|]. split; [intros Hi; exfalso; exact (Hnoint k' p' (or_intror Hin2) Hi)|].
  split; [intros Hi; exfalso; exact (Hnoarr k' p' (or_intror Hin2) Hi)|].
  split; [intros Hi; exfalso; exact (Hnomap k' p' (or_intror Hin2) Hi)|].
  split; [intros Hi; exfalso; exact (Hnoie k' p' (or_intror Hin2) Hi)|exact I].
Qed.

Example nested_inhabited :
  exists t b, Gen.gen (fun s => s) (mkCfg false false) [] (fuelG 1 0) MDeclared None false ex_outer [82]%N = Done (t, b) /\
    is_ok (Exec.dec (fun _ _ => true) [] (fuelD 1 0) t (JObj ex_outer_doc)) = Valid.valid (fun _ _ => true) [] (fuelV 1 0) ex_outer (JObj ex_outer_doc) /\
    Valid.valid (fun _ _ => true) [] (fuelV 1 0) ex_outer (JObj ex_outer_doc) = true /\
    is_ok (Exec.dec (fun _ _ => true) [] (fuelD 1 0) t (JObj ex_outer_bad)) = Valid.valid (fun _ _ => true) [] (fuelV 1 0) ex_outer (JObj ex_outer_bad) /\
    Valid.valid (fun _ _ => true) [] (fuelV 1 0) ex_outer (JObj ex_outer_bad) = false.
Proof.
  eexists. eexists. split; [vm_compute; reflexivity|].
  assert (Hgen : Gen.gen (fun s => s) (mkCfg false false) [] (fuelG 1 0) MDeclared None false ex_outer [82]%N = Done _) by (vm_compute; reflexivity).
  split; [|split; [vm_compute; reflexivity|split; [|vm_compute; reflexivity]]].
  - eapply (nested_object_exact (fun s => s) (mkCfg false false) [] (fun _ _ => true) [] [] eq_refl eq_refl 1 0 0 0 None false ex_outer [82]%N _ _ ex_outer_doc); [discriminate|exact ex_outer_sobj| |exact Hgen].
    apply ex_dok; [repeat constructor; cbn; intuition discriminate|].
    intros k x Hl. vm_compute in Hl. repeat (match type of Hl with (if ?c then _ else _) = _ => destruct c end); inversion Hl; subst; (split; [discriminate|]); (split; [intros s0 E; inversion E; reflexivity|]); intros kv' E; inversion E; subst.
    split; [repeat constructor; cbn; intuition discriminate|]. intros k' x' Hl'. vm_compute in Hl'.
    repeat (match type of Hl' with (if ?c then _ else _) = _ => destruct c end); inversion Hl'; subst; (split; [discriminate|]); intros s0 E'; inversion E'; reflexivity.
  - eapply (nested_object_exact (fun s => s) (mkCfg false false) [] (fun _ _ => true) [] [] eq_refl eq_refl 1 0 0 0 None false ex_outer [82]%N _ _ ex_outer_bad); [discriminate|exact ex_outer_sobj| |exact Hgen].
    apply ex_dok; [repeat constructor; cbn; intuition discriminate|].
    intros k x Hl. vm_compute in Hl. repeat (match type of Hl with (if ?c then _ else _) = _ => destruct c end); inversion Hl; subst; (split; [discriminate|]); (split; [intros s0 E; inversion E; reflexivity|]); intros kv' E; inversion E; subst.
    split; [repeat constructor; cbn; intuition discriminate|]. intros k' x' Hl'. vm_compute in Hl'.
    repeat (match type of Hl' with (if ?c then _ else _) = _ => destruct c end); inversion Hl'; subst; (split; [discriminate|]); intros s0 E'; inversion E'; reflexivity.
Qed.

(* ---------- non-vacuity of the array and number leaves: {tags: [string] with 1..2 items (required), w: number >= 0.5} ---------- *)
Definition ex_str_item : schema := Sch (mkC [SString] None None [] 0 0 0 0 None None (mkBounds None None None None) None None) [] None false None [] [].
Definition ex_tags : schema := Sch (mkC [SArray] None None [] 1 2 0 0 None None (mkBounds None None None None) None None) [] None false (Some ex_str_item) [] [].
Definition ex_w : schema := Sch (mkC [SNumber] None None [] 0 0 0 0 None None (mkBounds (Some (Qmake 1 2)) None None None) None None) [] None false None [] [].
Definition ex_flat : schema :=
  Sch (mkC [SObject] None None [[116]%N] 0 0 0 0 None None (mkBounds None None None None) None None)
      [([116]%N, ex_tags); ([119]%N, ex_w)] None false None [] [].
Definition ex_flat_ok : list (str * json) := [([116]%N, JArr [JStr [97]%N; JStr [98]%N]); ([119]%N, JQ (Qmake 3 4))].
Definition ex_flat_long : list (str * json) := [([116]%N, JArr [JStr [97]%N; JStr [98]%N; JStr [99]%N])].     (* three items *)
Definition ex_flat_low : list (str * json) := [([116]%N, JArr [JStr [97]%N]); ([119]%N, JQ (Qmake 1 4))].          (* w below the minimum *)

Lemma ex_flat_sobj : sobj (fun s => s) (mkCfg false false) [] [] [] 0 ex_flat.
Proof.
  cbn [sobj]. repeat split; try reflexivity; try discriminate.
  - repeat constructor; cbn; intuition discriminate.
  - intros k [H|[]]. subst. left; reflexivity.
  - vm_compute. repeat constructor; cbn; intuition discriminate.
  - intros fname kp H. vm_compute in H. destruct H as [H|[H|[]]]; inversion H; subst; discriminate.
  - intros k p [H|[H|[]]]; inversion H; subst; left.
    + right. right. right. right. left. exists IStr, (mkC [SArray] None None [] 1 2 0 0 None None (mkBounds None None None None) None None), ex_str_item.
      repeat split; try reflexivity. eexists. repeat split; reflexivity.
    + right. right. right. left. eexists. repeat split; reflexivity.
Qed.

Lemma ex_flat_dok kv : NoDup (map fst kv) ->
  (forall k x, lookup k kv = Some x -> x <> JNull /\ (forall l y, x = JArr l -> In y l -> y <> JNull)) ->
  dok (fun s => s) (mkCfg false false) [] [] [] 0 ex_flat kv.
Proof.
  intros Nk H. cbn [dok]. split; [exact Nk|]. intros k p x Hin Hl. destruct (H k x Hl) as (H1 & H2).
  assert (Hp : p = ex_tags \/ p = ex_w) by (destruct Hin as [Hin|[Hin|[]]]; inversion Hin; auto).
  split; [exact H1|]. split.
  - intros (c & E & Ht & _). destruct Hp as [-> | ->]; inversion E; subst c; discriminate.
  - split.
    + intros (c & m & E & Ht & _). destruct Hp as [-> | ->]; inversion E; subst c; discriminate.
    + split; [intros _ l E y Hy; exact (H2 l y E Hy)|]. split; [|split; [|exact I]].
      * intros (ik & c & a & E & _). destruct Hp as [-> | ->]; inversion E.
      * intros (c & l & E & Ht & _). destruct Hp as [-> | ->]; inversion E; subst c; discriminate.
Qed.

Example flat_inhabited :
  exists t b, Gen.gen (fun s => s) (mkCfg false false) [] (fuelG 0 1) MDeclared None false ex_flat [82]%N = Done (t, b) /\
    (forall kv, In kv [ex_flat_ok; ex_flat_long; ex_flat_low] ->
       is_ok (Exec.dec (fun _ _ => true) [] (fuelD 0 0) t (JObj kv)) = Valid.valid (fun _ _ => true) [] (fuelV 0 0) ex_flat (JObj kv)) /\
    map (fun kv => Valid.valid (fun _ _ => true) [] (fuelV 0 0) ex_flat (JObj kv)) [ex_flat_ok; ex_flat_long; ex_flat_low] = [true; false; false].
Proof.
  eexists. eexists. split; [vm_compute; reflexivity|].
  assert (Hgen : Gen.gen (fun s => s) (mkCfg false false) [] (fuelG 0 1) MDeclared None false ex_flat [82]%N = Done _) by (vm_compute; reflexivity).
  split; [|vm_compute; reflexivity].
  intros kv Hkv.
  eapply (nested_object_exact (fun s => s) (mkCfg false false) [] (fun _ _ => true) [] [] eq_refl eq_refl 0 1 0 0 None false ex_flat [82]%N _ _ kv); [discriminate|exact ex_flat_sobj| |exact Hgen].
  apply ex_flat_dok.
  - destruct Hkv as [<-|[<-|[<-|[]]]]; repeat constructor; cbn; intuition discriminate.
  - intros k x Hl. destruct Hkv as [<-|[<-|[<-|[]]]]; vm_compute in Hl;
      repeat (match type of Hl with (if ?c then _ else _) = _ => destruct c end); inversion Hl; subst;
      (split; [discriminate|]); intros l y E Hy; inversion E; subst; cbn in Hy; intuition (subst; discriminate).
Qed.

(* ---------- non-vacuity of the reference case: {r: $ref D (required), b: string maxLength 3} with D = the inner object above ---------- *)
Definition ex_D : str := [68]%N.
Definition ex_defs : list (str * schema) := [(ex_D, ex_inner)].
Definition ex_tD : gty :=
  Eval vm_compute in match Gen.gen (fun s => s) (mkCfg false false) ex_defs (fuelG 0 0) MDeclared (Some ex_D) false ex_inner ex_D with Done (t, _) => t | _ => TIface end.
Definition ex_env : list (str * gty) := [(ex_D, ex_tD)].
Definition ex_refp : schema := Sch (mkC [] (Some ex_D) None [] 0 0 0 0 None None (mkBounds None None None None) None None) [] None false None [] [].
Definition ex_refroot : schema :=
  Sch (mkC [SObject] None None [[114]%N] 0 0 0 0 None None (mkBounds None None None None) None None)
      [([114]%N, ex_refp); ([98]%N, ex_leaf 0 3 None)] None false None [] [].
Definition ex_ref_doc : list (str * json) := [([114]%N, JObj LevelP.ex_doc); ([98]%N, JStr [120]%N)].
Definition ex_ref_bad : list (str * json) := [([114]%N, JObj [([97]%N, JStr [120]%N)])].

Lemma ex_inner_sobj_defs : sobj (fun s => s) (mkCfg false false) ex_defs ex_env ex_defs 0 ex_inner.
Proof.
  cbn [sobj]. repeat split; try reflexivity; try discriminate.
  - repeat constructor; cbn; intuition discriminate.
  - intros k [H|[]]. subst. left; reflexivity.
  - vm_compute. repeat constructor; cbn; intuition discriminate.
  - intros fname kp H. vm_compute in H. destruct H as [H|[H|[]]]; inversion H; subst; discriminate.
  - intros k p [H|[H|[]]]; inversion H; subst; left; apply ex_leaf_is_leaf.
Qed.

Lemma ex_refroot_sobj : sobj (fun s => s) (mkCfg false false) ex_defs ex_env ex_defs 1 ex_refroot.
Proof.
  cbn [sobj]. repeat split; try reflexivity; try discriminate.
  - repeat constructor; cbn; intuition discriminate.
  - intros k [H|[]]. subst. left; reflexivity.
  - vm_compute. repeat constructor; cbn; intuition discriminate.
  - intros fname kp H. vm_compute in H. destruct H as [H|[H|[]]]; inversion H; subst; discriminate.
  - intros k p [H|[H|[]]]; inversion H; subst.
    + right. right. exists ex_D, ex_inner, ex_tD, 0. eexists.
      split; [eexists; repeat split; reflexivity|]. split; [reflexivity|]. split; [reflexivity|]. split; [exact ex_inner_sobj_defs|].
      split; [discriminate|]. split; [reflexivity|]. vm_compute. reflexivity.
    + left. apply ex_leaf_is_leaf.
Qed.

Lemma ex_ref_dok kv : NoDup (map fst kv) ->
  (forall k x, lookup k kv = Some x -> x <> JNull /\ (forall s0, x = JStr s0 -> utf8_len s0 = length s0) /\ forall kv', x = JObj kv' ->
     NoDup (map fst kv') /\ forall k' x', lookup k' kv' = Some x' -> x' <> JNull /\ (forall s0, x' = JStr s0 -> utf8_len s0 = length s0)) ->
  dok (fun s => s) (mkCfg false false) ex_defs ex_env ex_defs 1 ex_refroot kv.
Proof.
  assert (Hinner : forall kv', NoDup (map fst kv') -> (forall k' x', lookup k' kv' = Some x' -> x' <> JNull /\ (forall s0, x' = JStr s0 -> utf8_len s0 = length s0)) ->
                    dok (fun s => s) (mkCfg false false) ex_defs ex_env ex_defs 0 ex_inner kv').
  { intros kv' Nk' H'. cbn [dok]. split; [exact Nk'|]. intros k' p' x' Hin' Hl'. destruct (H' k' x' Hl') as (G1 & G2).
    assert (Hp : p' = ex_leaf 2 0 None \/ p' = ex_leaf 0 3 None) by (destruct Hin' as [Hin'|[Hin'|[]]]; inversion Hin'; auto).
    split; [exact G1|]. split; [intros _; exact G2|]. split.
    - intros (c & m & E & Ht & _). destruct Hp as [-> | ->]; inversion E; subst c; discriminate.
    - split; [intros (ik & c & it & E & _); destruct Hp as [-> | ->]; inversion E|]. split; [|split; [|exact I]].
      + intros (ik & c & a & E & _). destruct Hp as [-> | ->]; inversion E.
      + intros (c & l & E & Ht & _). destruct Hp as [-> | ->]; inversion E; subst c; discriminate. }
  intros Nk H. cbn [dok]. split; [exact Nk|]. intros k p x Hin Hl. destruct (H k x Hl) as (H1 & H2 & H3).
  assert (Hp : p = ex_refp \/ p = ex_leaf 0 3 None) by (destruct Hin as [Hin|[Hin|[]]]; inversion Hin; auto).
  split; [exact H1|]. split; [intros _; exact H2|]. split.
  - intros (c & m & E & Ht & _). destruct Hp as [-> | ->]; inversion E; subst c; discriminate.
  - split; [intros (ik & c & it & E & _); destruct Hp as [-> | ->]; inversion E|]. split.
    + intros (ik & c & a & E & _). destruct Hp as [-> | ->]; inversion E.
    + split; [intros (c & l & E & Ht & _ & He & _); destruct Hp as [-> | ->]; inversion E; subst c; discriminate|].
      intros kv' ->. destruct (H3 kv' eq_refl) as [Nk' H']. split.
      * intros Hs. exfalso. destruct Hs as (_ & Hty & _). destruct Hp as [-> | ->]; discriminate.
      * intros y d _ Hld. destruct Hp as [-> | ->].
        -- assert (d = ex_inner).
           { revert Hld. unfold ex_defs. cbn [lookup]. destruct (str_eqb y ex_D); intros E; inversion E; reflexivity. }
           subst d. exact (Hinner kv' Nk' H').
        -- assert (d = ex_inner).
           { revert Hld. unfold ex_defs. cbn [lookup]. destruct (str_eqb y ex_D); intros E; inversion E; reflexivity. }
           subst d. exact (Hinner kv' Nk' H').
Qed.

Example ref_inhabited :
  exists t b, Gen.gen (fun s => s) (mkCfg false false) ex_defs (fuelG 1 0) MDeclared None false ex_refroot [82]%N = Done (t, b) /\
    (forall kv, In kv [ex_ref_doc; ex_ref_bad] ->
       is_ok (Exec.dec (fun _ _ => true) ex_env (fuelD 1 0) t (JObj kv)) = Valid.valid (fun _ _ => true) ex_defs (fuelV 1 0) ex_refroot (JObj kv)) /\
    map (fun kv => Valid.valid (fun _ _ => true) ex_defs (fuelV 1 0) ex_refroot (JObj kv)) [ex_ref_doc; ex_ref_bad] = [true; false].
Proof.
  eexists. eexists. split; [vm_compute; reflexivity|].
  assert (Hgen : Gen.gen (fun s => s) (mkCfg false false) ex_defs (fuelG 1 0) MDeclared None false ex_refroot [82]%N = Done _) by (vm_compute; reflexivity).
  split; [|vm_compute; reflexivity].
  intros kv Hkv.
  eapply (nested_object_exact (fun s => s) (mkCfg false false) ex_defs (fun _ _ => true) ex_env ex_defs eq_refl eq_refl 1 0 0 0 None false ex_refroot [82]%N _ _ kv); [discriminate|exact ex_refroot_sobj| |exact Hgen].
  apply ex_ref_dok.
  - destruct Hkv as [<-|[<-|[]]]; repeat constructor; cbn; intuition discriminate.
  - intros k x Hl. destruct Hkv as [<-|[<-|[]]]; vm_compute in Hl;
      repeat (match type of Hl with (if ?c then _ else _) = _ => destruct c end); inversion Hl; subst;
      (split; [discriminate|]); (split; [intros s0 E; inversion E; reflexivity|]); intros kv' E; inversion E; subst;
      (split; [repeat constructor; cbn; intuition discriminate|]); intros k' x' Hl'; vm_compute in Hl';
      repeat (match type of Hl' with (if ?c then _ else _) = _ => destruct c end); inversion Hl'; subst; (split; [discriminate|]); intros s0 E'; inversion E'; reflexivity.
Qed.

(* ---------- non-vacuity of the enum leaf: {c: string enum [r, g] (required)} ---------- *)
Definition ex_color : schema := Sch (mkC [SString] None (Some [JStr [114]%N; JStr [103]%N]) [] 0 0 0 0 None None (mkBounds None None None None) None None) [] None false None [] [].
Definition ex_enum_obj : schema :=
  Sch (mkC [SObject] None None [[99]%N] 0 0 0 0 None None (mkBounds None None None None) None None) [([99]%N, ex_color)] None false None [] [].
Definition ex_enum_docs : list (list (str * json)) := [[([99]%N, JStr [114]%N)]; [([99]%N, JStr [120]%N)]; [([99]%N, JInt 1)]; []].

Lemma ex_enum_sobj : sobj (fun s => s) (mkCfg false false) [] [] [] 0 ex_enum_obj.
Proof.
  cbn [sobj]. repeat split; try reflexivity; try discriminate.
  - repeat constructor. intros [].
  - intros k [H|[]]. subst. left; reflexivity.
  - vm_compute. repeat constructor. intros [].
  - intros fname kp H. vm_compute in H. destruct H as [H|[]]; inversion H; subst; discriminate.
  - intros k p [H|[]]; inversion H; subst. left. right. right. right. right. right. left.
    exists (mkC [SString] None (Some [JStr [114]%N; JStr [103]%N]) [] 0 0 0 0 None None (mkBounds None None None None) None None), [[114]%N; [103]%N].
    repeat split; try reflexivity; discriminate.
Qed.

Example enum_inhabited :
  exists t b, Gen.gen (fun s => s) (mkCfg false false) [] (fuelG 0 2) MDeclared None false ex_enum_obj [82]%N = Done (t, b) /\
    (forall kv, In kv ex_enum_docs ->
       is_ok (Exec.dec (fun _ _ => true) [] (fuelD 0 0) t (JObj kv)) = Valid.valid (fun _ _ => true) [] (fuelV 0 0) ex_enum_obj (JObj kv)) /\
    map (fun kv => Valid.valid (fun _ _ => true) [] (fuelV 0 0) ex_enum_obj (JObj kv)) ex_enum_docs = [true; false; false; false].
Proof.
  eexists. eexists. split; [vm_compute; reflexivity|].
  assert (Hgen : Gen.gen (fun s => s) (mkCfg false false) [] (fuelG 0 2) MDeclared None false ex_enum_obj [82]%N = Done _) by (vm_compute; reflexivity).
  split; [|vm_compute; reflexivity].
  intros kv Hkv.
  eapply (nested_object_exact (fun s => s) (mkCfg false false) [] (fun _ _ => true) [] [] eq_refl eq_refl 0 2 0 0 None false ex_enum_obj [82]%N _ _ kv); [discriminate|exact ex_enum_sobj| |exact Hgen].
  cbn [dok]. split; [destruct Hkv as [<-|[<-|[<-|[<-|[]]]]]; repeat constructor; cbn; intuition discriminate|].
  intros k p x Hin Hl. destruct Hin as [Hin|[]]. inversion Hin; subst k p.
  split; [destruct Hkv as [<-|[<-|[<-|[<-|[]]]]]; vm_compute in Hl; inversion Hl; discriminate|].
  split; [intros (c & E & _ & _ & He & _); inversion E; subst c; discriminate|].
  split; [intros (c & m & E & Ht & _); inversion E; subst c; discriminate|].
  split; [intros (ik & c & it & E & _); inversion E|]. split; [intros (ik & c & a & E & _); inversion E|].
  split; [intros (c & l & E & Ht & _); inversion E; subst c; discriminate|exact I].
Qed.

(* ---------- non-vacuity of the map leaf: {labels: map of strings (required)} ---------- *)
Definition ex_labels : schema := Sch (mkC [SObject] None None [] 0 0 0 0 None None (mkBounds None None None None) None None) [] (Some ex_str_item) false None [] [].
Definition ex_map_obj : schema :=
  Sch (mkC [SObject] None None [[108]%N] 0 0 0 0 None None (mkBounds None None None None) None None) [([108]%N, ex_labels)] None false None [] [].
Definition ex_map_docs : list (list (str * json)) :=
  [[([108]%N, JObj [([97]%N, JStr [120]%N); ([98]%N, JStr [121]%N)])]; [([108]%N, JObj [([97]%N, JInt 1)])]; [([108]%N, JStr [120]%N)]; [([108]%N, JObj [])]; []].

Lemma ex_map_sobj : sobj (fun s => s) (mkCfg false false) [] [] [] 0 ex_map_obj.
Proof.
  cbn [sobj]. repeat split; try reflexivity; try discriminate.
  - repeat constructor. intros [].
  - intros k [H|[]]. subst. left; reflexivity.
  - vm_compute. repeat constructor. intros [].
  - intros fname kp H. vm_compute in H. destruct H as [H|[]]; inversion H; subst; discriminate.
  - intros k p [H|[]]; inversion H; subst. left. right. right. right. right. right. right. left.
    exists IStr, (mkC [SObject] None None [] 0 0 0 0 None None (mkBounds None None None None) None None), ex_str_item.
    repeat split; try reflexivity. eexists. repeat split; reflexivity.
Qed.

Example map_inhabited :
  exists t b, Gen.gen (fun s => s) (mkCfg false false) [] (fuelG 0 3) MDeclared None false ex_map_obj [82]%N = Done (t, b) /\
    (forall kv, In kv ex_map_docs ->
       is_ok (Exec.dec (fun _ _ => true) [] (fuelD 0 0) t (JObj kv)) = Valid.valid (fun _ _ => true) [] (fuelV 0 0) ex_map_obj (JObj kv)) /\
    map (fun kv => Valid.valid (fun _ _ => true) [] (fuelV 0 0) ex_map_obj (JObj kv)) ex_map_docs = [true; false; false; true; false].
Proof.
  eexists. eexists. split; [vm_compute; reflexivity|].
  assert (Hgen : Gen.gen (fun s => s) (mkCfg false false) [] (fuelG 0 3) MDeclared None false ex_map_obj [82]%N = Done _) by (vm_compute; reflexivity).
  split; [|vm_compute; reflexivity].
  intros kv Hkv.
  eapply (nested_object_exact (fun s => s) (mkCfg false false) [] (fun _ _ => true) [] [] eq_refl eq_refl 0 3 0 0 None false ex_map_obj [82]%N _ _ kv); [discriminate|exact ex_map_sobj| |exact Hgen].
  cbn [dok]. split; [destruct Hkv as [<-|[<-|[<-|[<-|[<-|[]]]]]]; repeat constructor; cbn; intuition discriminate|].
  intros k p x Hin Hl. destruct Hin as [Hin|[]]. inversion Hin; subst k p.
  split; [destruct Hkv as [<-|[<-|[<-|[<-|[<-|[]]]]]]; vm_compute in Hl; inversion Hl; discriminate|].
  split; [intros (c & E & Ht & _); inversion E; subst c; discriminate|].
  split; [intros (c & m & E & Ht & _); inversion E; subst c; discriminate|].
  split; [intros (ik & c & it & E & _); inversion E|].
  split; [|split; [intros (c & l & E & Ht & _); inversion E; subst c; discriminate|exact I]].
  intros _ kv0 E y Hy. destruct Hkv as [<-|[<-|[<-|[<-|[<-|[]]]]]]; vm_compute in Hl; inversion Hl as [Hx]; rewrite <- Hx in E; inversion E as [Hk0]; rewrite <- Hk0 in Hy; cbn in Hy; intuition (subst; discriminate).
Qed.


(* ---------- non-vacuity of the integer-enum leaf, one level down: {i: {level: integer enum [1, 2.5, 3] (required)}} ---------- *)
Definition ex_ie_inner : schema :=
  Sch (mkC [SObject] None None [[108]%N] 0 0 0 0 None None (mkBounds None None None None) None None) [([108]%N, ex_int_enum)] None false None [] [].
Definition ex_ie_outer : schema :=
  Sch (mkC [SObject] None None [] 0 0 0 0 None None (mkBounds None None None None) None None) [([105]%N, ex_ie_inner)] None false None [] [].
Definition ex_ie_nested_docs : list (list (str * json)) :=
  [[([105]%N, JObj [([108]%N, JInt 1)])]; [([105]%N, JObj [([108]%N, JInt 2)])]; [([105]%N, JObj [([108]%N, JInt 3)])]; [([105]%N, JObj [])]; []].

Lemma ex_ie_inner_sobj : sobj (fun s => s) (mkCfg false false) [] [] [] 0 ex_ie_inner.
Proof.
  cbn [sobj]. repeat split; try reflexivity; try discriminate.
  - repeat constructor. intros [].
  - intros k [H|[]]. subst. left; reflexivity.
  - vm_compute. repeat constructor. intros [].
  - intros fname kp H. vm_compute in H. destruct H as [H|[]]; inversion H; subst; discriminate.
  - intros k p [H|[]]; inversion H; subst. left. right. right. right. right. right. right. right. left. exact (proj1 int_enum_generated_inhabited).
Qed.

Lemma ex_ie_outer_sobj : sobj (fun s => s) (mkCfg false false) [] [] [] 1 ex_ie_outer.
Proof.
  cbn [sobj]. repeat split; try reflexivity; try discriminate.
  - repeat constructor. intros [].
  - intros k [].
  - vm_compute. repeat constructor. intros [].
  - intros fname kp H. vm_compute in H. destruct H as [H|[]]; inversion H; subst; discriminate.
  - intros k p [H|[]]; inversion H; subst. right. left. split; [exact ex_ie_inner_sobj|reflexivity].
Qed.

Example int_enum_nested_inhabited :
  exists t b, Gen.gen (fun s => s) (mkCfg false false) [] (fuelG 1 2) MDeclared None false ex_ie_outer [82]%N = Done (t, b) /\
    (forall kv, In kv ex_ie_nested_docs ->
       is_ok (Exec.dec (fun _ _ => true) [] (fuelD 1 0) t (JObj kv)) = Valid.valid (fun _ _ => true) [] (fuelV 1 0) ex_ie_outer (JObj kv)) /\
    map (fun kv => Valid.valid (fun _ _ => true) [] (fuelV 1 0) ex_ie_outer (JObj kv)) ex_ie_nested_docs = [true; false; true; false; true].
Proof.
  eexists. eexists. split; [vm_compute; reflexivity|].
  assert (Hgen : Gen.gen (fun s => s) (mkCfg false false) [] (fuelG 1 2) MDeclared None false ex_ie_outer [82]%N = Done _) by (vm_compute; reflexivity).
  split; [|vm_compute; reflexivity].
  intros kv Hkv.
  eapply (nested_object_exact (fun s => s) (mkCfg false false) [] (fun _ _ => true) [] [] eq_refl eq_refl 1 2 0 0 None false ex_ie_outer [82]%N _ _ kv); [discriminate|exact ex_ie_outer_sobj| |exact Hgen].
  assert (Hnl : forall p, p = ex_ie_inner -> ~ str_leaf p /\ ~ int_leaf p /\ ~ arr_leaf p /\ ~ map_leaf p /\ ~ int_enum_leaf p).
  { intros p ->. repeat split.
    - intros (c & E & Ht & _); inversion E; subst c; discriminate.
    - intros (c & m & E & Ht & _); inversion E; subst c; discriminate.
    - intros (ik & c & it & E & _); inversion E.
    - intros (ik & c & a & E & _); inversion E.
    - intros (c & l & E & Ht & _); inversion E; subst c; discriminate. }
  cbn [dok]. split; [destruct Hkv as [<-|[<-|[<-|[<-|[<-|[]]]]]]; repeat constructor; cbn; intuition discriminate|].
  intros k p x Hin Hl. destruct Hin as [Hin|[]]. inversion Hin; subst k p.
  destruct (Hnl ex_ie_inner eq_refl) as (N1 & N2 & N3 & N4 & N5).
  split; [destruct Hkv as [<-|[<-|[<-|[<-|[<-|[]]]]]]; vm_compute in Hl; inversion Hl; discriminate|].
  split; [intros Hc; contradiction|]. split; [intros Hc; contradiction|]. split; [intros Hc; contradiction|].
  split; [intros Hc; contradiction|]. split; [intros Hc; contradiction|].
  intros kv' E. split; [|intros y d (c0 & E0 & Hr & _) _; inversion E0; subst c0; discriminate].
  intros _. split.
  - destruct Hkv as [<-|[<-|[<-|[<-|[<-|[]]]]]]; vm_compute in Hl; inversion Hl as [Hx]; rewrite <- Hx in E; inversion E; repeat constructor; cbn; intuition discriminate.
  - intros k' p' x' Hin' Hl'. destruct Hin' as [Hin'|[]]. inversion Hin'; subst k' p'.
    assert (Hx' : x' <> JNull /\ int_value x').
    { destruct Hkv as [<-|[<-|[<-|[<-|[<-|[]]]]]]; vm_compute in Hl; inversion Hl as [Hx]; rewrite <- Hx in E; inversion E as [Hk]; rewrite <- Hk in Hl';
        vm_compute in Hl'; inversion Hl'; subst x';
        (split; [discriminate|split; [discriminate|intros n En; inversion En; subst; eexists; split; reflexivity]]). }
    destruct Hx' as [Hn Hi].
    split; [exact Hn|].
    split; [intros (c & E1 & _ & _ & He & _); inversion E1; subst c; discriminate|].
    split; [intros (c & m & E1 & _ & _ & He & _); inversion E1; subst c; discriminate|].
    split; [intros (ik & c & it & E1 & _); inversion E1|]. split; [intros (ik & c & a & E1 & _); inversion E1|].
    split; [intros _; exact Hi|exact I].
Qed.


(* ---------- non-vacuity of the number-enum leaf: {r: number enum [0.5, 1, 2.25] (required)} ---------- *)
Definition ex_ratio : schema :=
  Sch (mkC [SNumber] None (Some (map JNum [mkNum (Qmake 1 2) false; mkNum (Qmake 1 1) true; mkNum (Qmake 9 4) false])) [] 0 0 0 0 None None (mkBounds None None None None) None None) [] None false None [] [].
Definition ex_ne_obj : schema :=
  Sch (mkC [SObject] None None [[114]%N] 0 0 0 0 None None (mkBounds None None None None) None None) [([114]%N, ex_ratio)] None false None [] [].
Definition ex_ne_docs : list (list (str * json)) :=
  [[([114]%N, JQ (Qmake 1 2))]; [([114]%N, JInt 1)]; [([114]%N, JInt 2)]; [([114]%N, JStr [120]%N)]; []].

Lemma ex_ratio_leaf : num_enum_leaf ex_ratio.
Proof. eexists. eexists. repeat split; try reflexivity; discriminate. Qed.

Lemma ex_ne_sobj : sobj (fun s => s) (mkCfg false false) [] [] [] 0 ex_ne_obj.
Proof.
  cbn [sobj]. repeat split; try reflexivity; try discriminate.
  - repeat constructor. intros [].
  - intros k [H|[]]. subst. left; reflexivity.
  - vm_compute. repeat constructor. intros [].
  - intros fname kp H. vm_compute in H. destruct H as [H|[]]; inversion H; subst; discriminate.
  - intros k p [H|[]]; inversion H; subst. left. do 8 right. left. exact ex_ratio_leaf.
Qed.

Example num_enum_inhabited :
  exists t b, Gen.gen (fun s => s) (mkCfg false false) [] (fuelG 0 2) MDeclared None false ex_ne_obj [82]%N = Done (t, b) /\
    (forall kv, In kv ex_ne_docs ->
       is_ok (Exec.dec (fun _ _ => true) [] (fuelD 0 0) t (JObj kv)) = Valid.valid (fun _ _ => true) [] (fuelV 0 0) ex_ne_obj (JObj kv)) /\
    map (fun kv => Valid.valid (fun _ _ => true) [] (fuelV 0 0) ex_ne_obj (JObj kv)) ex_ne_docs = [true; true; false; false; false].
Proof.
  eexists. eexists. split; [vm_compute; reflexivity|].
  assert (Hgen : Gen.gen (fun s => s) (mkCfg false false) [] (fuelG 0 2) MDeclared None false ex_ne_obj [82]%N = Done _) by (vm_compute; reflexivity).
  split; [|vm_compute; reflexivity].
  intros kv Hkv.
  eapply (nested_object_exact (fun s => s) (mkCfg false false) [] (fun _ _ => true) [] [] eq_refl eq_refl 0 2 0 0 None false ex_ne_obj [82]%N _ _ kv); [discriminate|exact ex_ne_sobj| |exact Hgen].
  cbn [dok]. split; [destruct Hkv as [<-|[<-|[<-|[<-|[<-|[]]]]]]; repeat constructor; cbn; intuition discriminate|].
  intros k p x Hin Hl. destruct Hin as [Hin|[]]. inversion Hin; subst k p.
  split; [destruct Hkv as [<-|[<-|[<-|[<-|[<-|[]]]]]]; vm_compute in Hl; inversion Hl; discriminate|].
  split; [intros (c & E & Ht & _); inversion E; subst c; discriminate|].
  split; [intros (c & m & E & Ht & _); inversion E; subst c; discriminate|].
  split; [intros (ik & c & it & E & _); inversion E|]. split; [intros (ik & c & a & E & _); inversion E|].
  split; [intros (c & l & E & Ht & _); inversion E; subst c; discriminate|exact I].
Qed.

(* ---------- non-vacuity of the boolean-enum leaf: {on: boolean enum [true] (required)} ---------- *)
Definition ex_flag : schema :=
  Sch (mkC [SBoolean] None (Some (map JBool [true])) [] 0 0 0 0 None None (mkBounds None None None None) None None) [] None false None [] [].
Definition ex_be_obj : schema :=
  Sch (mkC [SObject] None None [[111]%N] 0 0 0 0 None None (mkBounds None None None None) None None) [([111]%N, ex_flag)] None false None [] [].
Definition ex_be_docs : list (list (str * json)) := [[([111]%N, JBool true)]; [([111]%N, JBool false)]; [([111]%N, JStr [120]%N)]; []].

Lemma ex_flag_leaf : bool_enum_leaf ex_flag.
Proof. eexists. eexists. repeat split; try reflexivity; discriminate. Qed.

Lemma ex_be_sobj : sobj (fun s => s) (mkCfg false false) [] [] [] 0 ex_be_obj.
Proof.
  cbn [sobj]. repeat split; try reflexivity; try discriminate.
  - repeat constructor. intros [].
  - intros k [H|[]]. subst. left; reflexivity.
  - vm_compute. repeat constructor. intros [].
  - intros fname kp H. vm_compute in H. destruct H as [H|[]]; inversion H; subst; discriminate.
  - intros k p [H|[]]; inversion H; subst. left. do 9 right. exact ex_flag_leaf.
Qed.

Example bool_enum_inhabited :
  exists t b, Gen.gen (fun s => s) (mkCfg false false) [] (fuelG 0 2) MDeclared None false ex_be_obj [82]%N = Done (t, b) /\
    (forall kv, In kv ex_be_docs ->
       is_ok (Exec.dec (fun _ _ => true) [] (fuelD 0 0) t (JObj kv)) = Valid.valid (fun _ _ => true) [] (fuelV 0 0) ex_be_obj (JObj kv)) /\
    map (fun kv => Valid.valid (fun _ _ => true) [] (fuelV 0 0) ex_be_obj (JObj kv)) ex_be_docs = [true; false; false; false].
Proof.
  eexists. eexists. split; [vm_compute; reflexivity|].
  assert (Hgen : Gen.gen (fun s => s) (mkCfg false false) [] (fuelG 0 2) MDeclared None false ex_be_obj [82]%N = Done _) by (vm_compute; reflexivity).
  split; [|vm_compute; reflexivity].
  intros kv Hkv.
  eapply (nested_object_exact (fun s => s) (mkCfg false false) [] (fun _ _ => true) [] [] eq_refl eq_refl 0 2 0 0 None false ex_be_obj [82]%N _ _ kv); [discriminate|exact ex_be_sobj| |exact Hgen].
  cbn [dok]. split; [destruct Hkv as [<-|[<-|[<-|[<-|[]]]]]; repeat constructor; cbn; intuition discriminate|].
  intros k p x Hin Hl. destruct Hin as [Hin|[]]. inversion Hin; subst k p.
  split; [destruct Hkv as [<-|[<-|[<-|[<-|[]]]]]; vm_compute in Hl; inversion Hl; discriminate|].
  split; [intros (c & E & Ht & _); inversion E; subst c; discriminate|].
  split; [intros (c & m & E & Ht & _); inversion E; subst c; discriminate|].
  split; [intros (ik & c & it & E & _); inversion E|]. split; [intros (ik & c & a & E & _); inversion E|].
  split; [intros (c & l & E & Ht & _); inversion E; subst c; discriminate|exact I].
Qed.
