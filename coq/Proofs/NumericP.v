(* Exactness of the emitted numeric validator: integer kinds (int64 truncation, %)
   and float64 kinds (math.Mod with the 1e-10 tolerance). *)
From GJS Require Import Base Bounds BoundsP.
From Coq Require Import Lqa.
Open Scope Q_scope.

Definition Qintegral (q : Q) : Prop := exists z : Z, q == inject_Z z.

Lemma Qtrunc_inject z : Qtrunc_z (inject_Z z) = z.
Proof. unfold Qtrunc_z, inject_Z; cbn. apply Z.quot_1_r. Qed.

Lemma Qtrunc_z_red a : Qtrunc_z (Qred a) = Qtrunc_z a.
Proof.
  destruct a as [n d]. unfold Qtrunc_z, Qred.
  pose proof (Z.ggcd_correct_divisors n (Z.pos d)) as Hd.
  pose proof (Z.ggcd_gcd n (Z.pos d)) as Hg.
  destruct (Z.ggcd n (Z.pos d)) as [g [nn dd]]. cbn [fst snd] in *. destruct Hd as [Hn Hdd].
  assert (Hg0 : (0 <= g)%Z) by (rewrite Hg; apply Z.gcd_nonneg).
  assert (Hgp : (0 < g)%Z) by (destruct (Z.eq_dec g 0) as [E0|E0]; [subst g; lia | lia]).
  assert (Hddp : (0 < dd)%Z) by (destruct dd; lia).
  cbn [Qnum Qden]. rewrite Z2Pos.id by exact Hddp.
  rewrite Hn, Hdd. rewrite Z.quot_mul_cancel_l by lia. reflexivity.
Qed.

Lemma Qtrunc_z_proper a b : a == b -> Qtrunc_z a = Qtrunc_z b.
Proof.
  intros H. rewrite <- (Qtrunc_z_red a), <- (Qtrunc_z_red b).
  rewrite (Qred_complete a b H). reflexivity.
Qed.

Lemma Qtrunc_integral q z : q == inject_Z z -> Qtrunc_z q = z.
Proof. intros H. rewrite (Qtrunc_z_proper _ _ H). apply Qtrunc_inject. Qed.

Lemma value_of_integral q : Qintegral q -> value_of true q == q.
Proof. intros [z Hz]. unfold value_of. rewrite (Qtrunc_integral q z Hz). symmetry; exact Hz. Qed.

Lemma accept_lower_proper b b' ex x : b == b' -> accept_lower (Some b, ex) x = accept_lower (Some b', ex) x.
Proof. intros H. unfold accept_lower, Qltb. destruct ex; qcases; try reflexivity; lra. Qed.
Lemma accept_upper_proper b b' ex x : b == b' -> accept_upper (Some b, ex) x = accept_upper (Some b', ex) x.
Proof. intros H. unfold accept_upper, Qltb. destruct ex; qcases; try reflexivity; lra. Qed.

Definition opt_integral (o : option Q) : Prop := forall q, o = Some q -> Qintegral q.
Definition exb_integral (o : option exb) : Prop := forall q, o = Some (ExNum q) -> Qintegral q.
Definition bounds_integral (b : bounds) : Prop :=
  opt_integral (b_min b) /\ opt_integral (b_max b) /\ exb_integral (b_exmin b) /\ exb_integral (b_exmax b).

Lemma trunc_lower_integral m e x :
  opt_integral m -> exb_integral e ->
  accept_lower (trunc_opt true (norm_min m e)) x = accept_lower (norm_min m e) x.
Proof.
  intros Hm He. destruct (norm_min m e) as [[b|] ex] eqn:E; [|reflexivity].
  unfold trunc_opt; cbn [fst snd option_map].
  apply accept_lower_proper. apply value_of_integral.
  destruct (norm_min_tight _ _ _ _ E) as [[H|H] _]; [apply Hm | apply He]; exact H.
Qed.
Lemma trunc_upper_integral m e x :
  opt_integral m -> exb_integral e ->
  accept_upper (trunc_opt true (norm_max m e)) x = accept_upper (norm_max m e) x.
Proof.
  intros Hm He. destruct (norm_max m e) as [[b|] ex] eqn:E; [|reflexivity].
  unfold trunc_opt; cbn [fst snd option_map].
  apply accept_upper_proper. apply value_of_integral.
  destruct (norm_max_tight _ _ _ _ E) as [[H|H] _]; [apply Hm | apply He]; exact H.
Qed.

Lemma Qis_int_iff q : Qis_int q = true <-> exists k : Z, q == inject_Z k.
Proof.
  destruct q as [n d]. unfold Qis_int, Qeq, inject_Z; cbn [Qnum Qden]. rewrite Z.eqb_eq. split.
  - intros H. exists (Z.quot n (Z.pos d)). pose proof (Z.quot_rem' n (Z.pos d)). nia.
  - intros [k Hk]. replace n with (k * Z.pos d)%Z by lia. apply Z.rem_mul. lia.
Qed.

Lemma Qis_int_proper a b : a == b -> Qis_int a = Qis_int b.
Proof.
  intros H. apply eq_true_iff_eq. rewrite !Qis_int_iff.
  split; intros [k Hk]; exists k; [rewrite <- H | rewrite H]; exact Hk.
Qed.

(* multipleOf on integers: Go's truncated remainder is 0 iff the quotient is an integer *)
Lemma Qis_int_div (x m : Z) : m <> 0%Z ->
  Qis_int (inject_Z x / inject_Z m) = Z.eqb (Z.rem x m) 0.
Proof.
  intros Hm.
  assert (Hmq : ~ inject_Z m == 0) by (unfold Qeq; cbn; lia).
  apply eq_true_iff_eq. rewrite Qis_int_iff, Z.eqb_eq. split.
  - intros [k Hk].
    assert (Hx : inject_Z x == inject_Z k * inject_Z m).
    { rewrite <- Hk. field. exact Hmq. }
    rewrite <- inject_Z_mult in Hx. apply (proj1 (inject_Z_injective _ _)) in Hx. subst x. apply Z.rem_mul. exact Hm.
  - intros Hr. exists (Z.quot x m).
    pose proof (Z.quot_rem' x m) as Hq. rewrite Hr in Hq.
    assert (Hx : inject_Z x == inject_Z m * inject_Z (Z.quot x m)).
    { rewrite <- inject_Z_mult. rewrite Hq at 1. rewrite Z.add_0_r. reflexivity. }
    rewrite Hx. field. exact Hmq.
Qed.

Lemma Qeq_bool_inject_0 m : Qeq_bool (inject_Z m) 0 = Z.eqb m 0.
Proof. unfold Qeq_bool, inject_Z; cbn. rewrite Z.mul_1_r. destruct m; reflexivity. Qed.

Lemma multiple_int_exact (mult : option Z) (x : Z) :
  (forall m, mult = Some m -> m <> 0%Z) ->
  accept_multiple true (option_map inject_Z mult) (inject_Z x) = spec_multiple (option_map inject_Z mult) (inject_Z x).
Proof.
  intros Hnz. destruct mult as [m|]; [|reflexivity]. cbn [option_map accept_multiple spec_multiple].
  rewrite !Qtrunc_inject, Qeq_bool_inject_0.
  specialize (Hnz m eq_refl). destruct (Z.eqb_spec m 0); [contradiction|].
  symmetry. rewrite (Qis_int_proper _ _ (Qred_correct _)). apply Qis_int_div. exact Hnz.
Qed.

(* the integer validator as a whole *)
Theorem numeric_int_exact (mult : option Z) (b : bounds) (x : Z) :
  bounds_integral b -> (forall m, mult = Some m -> m <> 0%Z) ->
  accept_numeric true (option_map inject_Z mult) b (inject_Z x)
  = spec_numeric (option_map inject_Z mult) b (inject_Z x).
Proof.
  intros (Hmn & Hmx & Hemn & Hemx) Hnz. unfold accept_numeric, spec_numeric.
  rewrite multiple_int_exact by exact Hnz.
  rewrite trunc_lower_integral, trunc_upper_integral by assumption.
  rewrite <- andb_assoc. f_equal. apply bounds_exact.
Qed.

(* ---------- float64 kinds: math.Mod with the 1e-10 tolerance ---------- *)
(* exact whenever value and divisor are integer multiples of a common granule larger
   than the tolerance (every decimal with at most 9 places, every dyadic down to 2^-33) *)
Lemma Qtrunc_div_cancel (a b : Z) (g : Q) : 0 < g -> b <> 0%Z ->
  Qtrunc_z ((inject_Z a * g) / (inject_Z b * g)) = Z.quot a b.
Proof.
  intros Hg Hb.
  assert (Hbq : ~ inject_Z b == 0) by (unfold Qeq; cbn; lia).
  assert (E : (inject_Z a * g) / (inject_Z b * g) == (a * Z.sgn b) # (Z.to_pos (Z.abs b))).
  { assert (H : inject_Z a * g / (inject_Z b * g) == inject_Z a / inject_Z b).
    { field. split; [exact Hbq | intros E0; rewrite E0 in Hg; apply (Qlt_irrefl 0); exact Hg]. }
    rewrite H. clear H Hbq. unfold Qeq, Qdiv, Qmult, Qinv, inject_Z.
    destruct b as [|p|p]; [contradiction| |]; cbn; lia. }
  rewrite (Qtrunc_z_proper _ _ E).
  unfold Qtrunc_z; cbn [Qnum Qden].
  destruct b as [|p|p]; [contradiction| |]; cbn [Z.abs Z.sgn Z.to_pos].
  - rewrite Z.mul_1_r. reflexivity.
  - change (Z.neg p) with (- Z.pos p)%Z.
    rewrite Z.quot_opp_r by lia. replace (a * -1)%Z with (- a)%Z by lia. rewrite Z.quot_opp_l by lia. reflexivity.
Qed.

Theorem multiple_float_exact (a b : Z) (g : Q) :
  tol < g -> b <> 0%Z ->
  accept_multiple false (Some (inject_Z b * g)) (inject_Z a * g)
  = spec_multiple (Some (inject_Z b * g)) (inject_Z a * g).
Proof.
  intros Hg Hb. assert (Hg0 : 0 < g) by (unfold tol in Hg; lra).
  cbn [accept_multiple spec_multiple]. unfold Qmod_trunc.
  rewrite Qtrunc_div_cancel by assumption.
  assert (Hbq : ~ inject_Z b == 0) by (unfold Qeq; cbn; lia).
  assert (Hnz : Qeq_bool (inject_Z b * g) 0 = false).
  { destruct (Qeq_bool_spec (inject_Z b * g) 0) as [E|]; [|reflexivity].
    exfalso. apply Hbq. nra. }
  rewrite Hnz.
  assert (Hi : Qis_int (Qred (inject_Z a * g / (inject_Z b * g))) = Z.eqb (Z.rem a b) 0).
  { rewrite <- Qis_int_div by exact Hb. apply Qis_int_proper.
    rewrite Qred_correct. field. split; first [assumption|lra]. }
  rewrite Hi.
  (* x - m * trunc(x/m) = (a rem b) * g *)
  assert (Hmod : inject_Z a * g - inject_Z b * g * inject_Z (Z.quot a b) == inject_Z (Z.rem a b) * g).
  { pose proof (Z.quot_rem' a b) as Hq.
    assert (Ha : inject_Z a == inject_Z b * inject_Z (Z.quot a b) + inject_Z (Z.rem a b)).
    { rewrite <- inject_Z_mult, <- inject_Z_plus. rewrite <- Hq. reflexivity. }
    rewrite Ha at 1. ring. }
  set (r := inject_Z a * g - inject_Z b * g * inject_Z (Z.quot a b)) in *.
  clearbody r. unfold Qabs'.
  destruct (Z.eqb_spec (Z.rem a b) 0) as [Hr|Hr].
  - assert (Hr0 : r == 0) by (rewrite Hmod, Hr; ring).
    destruct (Qle_bool_spec 0 r); destruct (Qle_bool_spec r tol); destruct (Qle_bool_spec (- r) tol);
      try reflexivity; unfold tol in *; exfalso; lra.
  - assert (Hcase : inject_Z (Z.rem a b) <= -1 \/ 1 <= inject_Z (Z.rem a b)).
    { destruct (Z_lt_le_dec (Z.rem a b) 0); [left|right];
        [change (-1) with (inject_Z (-1)) | change 1 with (inject_Z 1)]; rewrite <- Zle_Qle; lia. }
    destruct (Qle_bool_spec 0 r); destruct (Qle_bool_spec r tol); destruct (Qle_bool_spec (- r) tol);
      try reflexivity; unfold tol in *; exfalso; destruct Hcase; nra.
Qed.

(* the refuted side of the full statement, kept visible: outside the granule the
   tolerance accepts non-multiples (probe: 1e-11 "is a multiple of 1") *)
Lemma multiple_float_refuted_tolerance :
  exists m x, accept_multiple false (Some m) x = true /\ spec_multiple (Some m) x = false.
Proof. exists 1, (1 # 100000000000). vm_compute. split; reflexivity. Qed.

(* and truncating a fractional bound on an integer kind moves it (minimum 1.5 admits 1) *)
Lemma numeric_int_refuted_fractional :
  exists b x, accept_numeric true None b (inject_Z x) = true /\ spec_numeric None b (inject_Z x) = false.
Proof.
  exists (mkBounds (Some (3 # 2)) None None None), 1%Z. vm_compute. split; reflexivity.
Qed.

Theorem numeric_float_exact (a : Z) (mult : option Z) (g : Q) (b : bounds) :
  tol < g -> (forall m, mult = Some m -> m <> 0%Z) ->
  accept_numeric false (option_map (fun m => inject_Z m * g) mult) b (inject_Z a * g)
  = spec_numeric (option_map (fun m => inject_Z m * g) mult) b (inject_Z a * g).
Proof.
  intros Hg Hnz. unfold accept_numeric, spec_numeric.
  assert (Hm : accept_multiple false (option_map (fun m => inject_Z m * g) mult) (inject_Z a * g)
             = spec_multiple (option_map (fun m => inject_Z m * g) mult) (inject_Z a * g)).
  { destruct mult as [m|]; [|reflexivity]. cbn [option_map]. apply multiple_float_exact; auto. }
  rewrite Hm. rewrite <- andb_assoc. f_equal.
  unfold trunc_opt, value_of.
  replace (option_map (fun q => q) (fst (norm_max (b_max b) (b_exmax b))), snd (norm_max (b_max b) (b_exmax b)))
    with (norm_max (b_max b) (b_exmax b)) by (destruct (norm_max _ _) as [[?|] ?]; reflexivity).
  replace (option_map (fun q => q) (fst (norm_min (b_min b) (b_exmin b))), snd (norm_min (b_min b) (b_exmin b)))
    with (norm_min (b_min b) (b_exmin b)) by (destruct (norm_min _ _) as [[?|] ?]; reflexivity).
  apply bounds_exact.
Qed.
