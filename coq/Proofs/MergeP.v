(* C11, allOf: the merge of branches (Model/Merge.v, the transcription of mergo.Merge on the modelled keywords, deep merge of
   shared properties and item schemas included) is the conjunction of the branches under the reference semantics, on EVERY
   document, as long as the branches are compatible: where two branches describe the same position (the same property at any
   depth, the item schema) they do not both set the same scalar keyword - the merge keeps the first one, which is weaker than
   the conjunction (recorded finding C11-first-wins-scalar), they do not both list an enum (lists are appended: union instead of
   intersection, finding C11-allof-enum-union), and their type lists agree. *)
From GJS Require Import Base Bounds Regex Schema Merge Valid.

Section MergeP.
Variable fmt_ok : fmtk -> str -> bool.
Variable defs : list (str * schema).
Notation valid := (Valid.valid fmt_ok defs).

(* a branch after reference resolution: no composite, enum or additionalProperties keyword of its own *)
Definition plain (s : schema) : bool :=
  match c_ref (s_con s), c_enum (s_con s), s_addl s, s_addl_false s, s_all_of s, s_any_of s with
  | None, None, None, false, [], [] => true
  | _, _, _, _, _, _ => false
  end.
Definition obj_or_untyped (s : schema) : bool :=
  match c_types (s_con s) with [] | [SObject] => true | _ => false end.
Definition obj_typed (s : schema) : bool :=
  match c_types (s_con s) with [SObject] => true | _ => false end.

(* ---------- the reference semantics of a plain node, on every kind of document ---------- *)
Definition body (f : nat) (s : schema) (j : json) : bool :=
  match j with
  | JObj kv =>
      forallb (fun k => match lookup k kv with Some _ => true | None => false end) (c_required (s_con s)) &&
      forallb (fun p => match lookup (fst p) (s_props s) with Some ps => valid f ps (snd p) | None => true end) kv
  | JArr l =>
      len_ok (c_min_items (s_con s)) (c_max_items (s_con s)) (length l) &&
      match s_items s with Some it => forallb (valid f it) l | None => true end
  | JStr x =>
      len_ok (c_min_len (s_con s)) (c_max_len (s_con s)) (length x) &&
      match c_pattern (s_con s) with Some p => pat_match p x | None => true end &&
      match c_format (s_con s) with Some k => fmt_ok k x | None => true end
  | JNum n => spec_numeric (c_mult (s_con s)) (c_bounds (s_con s)) (nq n)
  | _ => true
  end.

Lemma valid_plain_all f s j : plain s = true -> valid (S f) s j = type_ok (c_types (s_con s)) j && body f s j.
Proof.
  destruct s as [c props addl af items allof anyof]. unfold plain, body. cbn [s_con s_addl s_addl_false s_all_of s_any_of s_props s_items].
  intros Hp. cbn [Valid.valid s_con s_all_of s_any_of s_props s_addl s_addl_false s_items].
  destruct (c_ref c); [discriminate|]. destruct (c_enum c); [discriminate|]. destruct addl; [discriminate|].
  destruct af; [discriminate|]. destruct allof; [|discriminate]. destruct anyof; [|discriminate].
  cbn [forallb]. rewrite !andb_true_r. destruct j; reflexivity.
Qed.

(* ---------- compatibility of two descriptions of one position ---------- *)
Definition tys_eqb (a b : list sty) : bool :=
  Nat.eqb (length a) (length b) && forallb (fun p => sty_eqb (fst p) (snd p)) (combine a b).
Lemma sty_eqb_eq a b : sty_eqb a b = true -> a = b.
Proof. destruct a, b; cbn; congruence. Qed.
Lemma tys_eqb_eq : forall a b, tys_eqb a b = true -> a = b.
Proof.
  induction a as [|x r IH]; intros [|y s] H; try reflexivity; try discriminate.
  unfold tys_eqb in H. cbn in H. apply andb_true_iff in H. destruct H as [Hl H]. apply andb_true_iff in H. destruct H as [Hx Hr].
  apply sty_eqb_eq in Hx. subst y. f_equal. apply IH. unfold tys_eqb. rewrite Hl, Hr. reflexivity.
Qed.

Definition one_nat (a b : nat) : bool := Nat.eqb a 0 || Nat.eqb b 0.
Definition one_opt {A} (a b : option A) : bool := match a, b with Some _, Some _ => false | _, _ => true end.
Definition lower_free (b : bounds) : bool := match b_min b, b_exmin b with None, None => true | _, _ => false end.
Definition upper_free (b : bounds) : bool := match b_max b, b_exmax b with None, None => true | _, _ => false end.
Definition types_compat (a b : list sty) : bool := match a, b with [], _ | _, [] => true | x, y => tys_eqb x y end.

Definition scalars_compat (a b : scon) : bool :=
  types_compat (c_types a) (c_types b) &&
  one_nat (c_min_items a) (c_min_items b) && one_nat (c_max_items a) (c_max_items b) &&
  one_nat (c_min_len a) (c_min_len b) && one_nat (c_max_len a) (c_max_len b) &&
  one_opt (c_pattern a) (c_pattern b) && one_opt (c_mult a) (c_mult b) && one_opt (c_format a) (c_format b) &&
  (lower_free (c_bounds a) || lower_free (c_bounds b)) && (upper_free (c_bounds a) || upper_free (c_bounds b)).

Fixpoint compat (g : nat) (d s : schema) {struct g} : bool :=
  match g with
  | O => false
  | S g' =>
      plain d && plain s && scalars_compat (s_con d) (s_con s) &&
      forallb (fun kv : str * schema => match lookup (fst kv) (s_props s) with Some sp => compat g' (snd kv) sp | None => true end) (s_props d) &&
      match s_items d, s_items s with Some x, Some y => compat g' x y | _, _ => true end
  end.

(* ---------- scalar keywords ---------- *)
Lemma type_ok_merge a b j : types_compat a b = true ->
  type_ok (match a with [] => b | _ => a end) j = type_ok a j && type_ok b j.
Proof.
  unfold types_compat. destruct a as [|x r]; [reflexivity|]. destruct b as [|y s]; [intros _; rewrite andb_true_r; reflexivity|].
  intros H. apply tys_eqb_eq in H. rewrite <- H. destruct (type_ok (x :: r) j); reflexivity.
Qed.

Lemma len_ok_merge a1 b1 a2 b2 n : one_nat a1 b1 = true -> one_nat a2 b2 = true ->
  len_ok (first_nat a1 b1) (first_nat a2 b2) n = len_ok a1 a2 n && len_ok b1 b2 n.
Proof.
  unfold one_nat, first_nat, len_ok. intros H1 H2.
  destruct (Nat.eqb a1 0) eqn:E1; destruct (Nat.eqb a2 0) eqn:E2; cbn [orb] in H1, H2; rewrite ?E1, ?E2, ?H1, ?H2; cbn [orb andb];
    destruct (b1 =? 0), (b2 =? 0), (a1 <=? n), (b1 <=? n), (n <=? a2), (n <=? b2); reflexivity.
Qed.

Lemma opt_merge {A} (a b : option A) (P : A -> bool) : one_opt a b = true ->
  match first_opt a b with Some x => P x | None => true end =
  match a with Some x => P x | None => true end && match b with Some x => P x | None => true end.
Proof. destruct a, b; cbn; intros H; try discriminate; rewrite ?andb_true_r; reflexivity. Qed.

Lemma first_qptr_one a b : one_opt a b = true -> first_qptr a b = first_opt a b.
Proof. destruct a, b; cbn; intros H; try discriminate; reflexivity. Qed.

Lemma spec_multiple_merge a b x : one_opt a b = true ->
  spec_multiple (first_qptr a b) x = spec_multiple a x && spec_multiple b x.
Proof. intros H. rewrite (first_qptr_one _ _ H). destruct a, b; cbn in *; try discriminate; rewrite ?andb_true_r; reflexivity. Qed.

Lemma spec_lower_free b x : lower_free b = true -> spec_lower (b_min b) (b_exmin b) x = true.
Proof. unfold lower_free. destruct (b_min b), (b_exmin b); try discriminate. reflexivity. Qed.
Lemma spec_upper_free b x : upper_free b = true -> spec_upper (b_max b) (b_exmax b) x = true.
Proof. unfold upper_free. destruct (b_max b), (b_exmax b); try discriminate. reflexivity. Qed.

Lemma spec_bounds_merge a b x : lower_free a || lower_free b = true -> upper_free a || upper_free b = true ->
  spec_bounds (merge_bounds a b) x = spec_bounds a x && spec_bounds b x.
Proof.
  intros Hl Hu. unfold spec_bounds, merge_bounds. cbn [b_min b_max b_exmin b_exmax].
  assert (L : spec_lower (first_qptr (b_min a) (b_min b)) (first_opt (b_exmin a) (b_exmin b)) x =
              spec_lower (b_min a) (b_exmin a) x && spec_lower (b_min b) (b_exmin b) x).
  { apply orb_true_iff in Hl. destruct Hl as [H|H].
    - rewrite (spec_lower_free _ x H). unfold lower_free in H. destruct (b_min a), (b_exmin a); try discriminate. reflexivity.
    - rewrite (spec_lower_free _ x H), andb_true_r. unfold lower_free in H. destruct (b_min b), (b_exmin b); try discriminate.
      destruct (b_min a), (b_exmin a); reflexivity. }
  assert (U : spec_upper (first_qptr (b_max a) (b_max b)) (first_opt (b_exmax a) (b_exmax b)) x =
              spec_upper (b_max a) (b_exmax a) x && spec_upper (b_max b) (b_exmax b) x).
  { apply orb_true_iff in Hu. destruct Hu as [H|H].
    - rewrite (spec_upper_free _ x H). unfold upper_free in H. destruct (b_max a), (b_exmax a); try discriminate. reflexivity.
    - rewrite (spec_upper_free _ x H), andb_true_r. unfold upper_free in H. destruct (b_max b), (b_exmax b); try discriminate.
      destruct (b_max a), (b_exmax a); reflexivity. }
  rewrite L, U.
  destruct (spec_lower (b_min a) (b_exmin a) x), (spec_lower (b_min b) (b_exmin b) x), (spec_upper (b_max a) (b_exmax a) x), (spec_upper (b_max b) (b_exmax b) x); reflexivity.
Qed.

(* ---------- the property map of the merge ---------- *)
Section Props.
Variable g : nat.
Variable sp : list (str * schema).
Let F := fun kv : str * schema =>
  match lookup (fst kv) sp with
  | Some x => match merge2 g (snd kv) x with Some m => Some (fst kv, m) | None => None end
  | None => Some kv
  end.

Lemma omapo_lookup k : forall dp dprops, omapo F dp = Some dprops ->
  match lookup k dp with
  | Some x =>
      match lookup k sp with
      | Some y => exists m, merge2 g x y = Some m /\ lookup k dprops = Some m
      | None => lookup k dprops = Some x
      end
  | None => lookup k dprops = None
  end.
Proof.
  induction dp as [|[k' x] r IH]; intros dprops H; cbn [omapo] in H.
  - inversion H; subst. reflexivity.
  - destruct (F (k', x)) as [y|] eqn:EF; [|discriminate]. destruct (omapo F r) as [ys|] eqn:Er; [|discriminate]. inversion H; subst. clear H.
    specialize (IH ys eq_refl). unfold F in EF. cbn [fst snd] in EF. cbn [lookup].
    destruct (str_eqb k k') eqn:E.
    + apply str_eqb_eq in E. subst k'. destruct (lookup k sp) as [y0|].
      * destruct (merge2 g x y0) as [m|]; [|discriminate]. inversion EF; subst. exists m. split; [reflexivity|]. cbn [lookup]. rewrite str_eqb_refl. reflexivity.
      * inversion EF; subst. cbn [lookup]. rewrite str_eqb_refl. reflexivity.
    + assert (Hy : fst y = k').
      { destruct (lookup k' sp) as [y0|]; [destruct (merge2 g x y0); [|discriminate]|]; inversion EF; reflexivity. }
      destruct y as [ky vy]. cbn in Hy. subst ky. cbn [lookup]. rewrite E. exact IH.
Qed.
End Props.

Lemma lookup_filter_notin {A} k (keys : list str) (l : list (str * A)) : mem k keys = false ->
  lookup k (filter (fun kv => negb (mem (fst kv) keys)) l) = lookup k l.
Proof.
  intros Hk. induction l as [|[k' v] r IH]; [reflexivity|]. cbn [filter fst lookup].
  destruct (str_eqb k k') eqn:E.
  - apply str_eqb_eq in E. subst k'. rewrite Hk. cbn [negb lookup]. rewrite str_eqb_refl. reflexivity.
  - destruct (negb (mem k' keys)); [cbn [lookup]; rewrite E|]; exact IH.
Qed.

Lemma lookup_filter_in {A} k (keys : list str) (l : list (str * A)) : mem k keys = true ->
  lookup k (filter (fun kv => negb (mem (fst kv) keys)) l) = None.
Proof.
  intros Hk. induction l as [|[k' v] r IH]; [reflexivity|]. cbn [filter fst].
  destruct (negb (mem k' keys)) eqn:En; [|exact IH]. cbn [lookup]. destruct (str_eqb k k') eqn:E; [|exact IH].
  apply str_eqb_eq in E. subst k'. rewrite Hk in En. discriminate.
Qed.

Lemma lookup_app {A} k (p q : list (str * A)) :
  lookup k (p ++ q) = match lookup k p with Some x => Some x | None => lookup k q end.
Proof.
  induction p as [|[k' x] r IH]; [reflexivity|]. cbn [app lookup]. destruct (str_eqb k k'); [reflexivity|exact IH].
Qed.

Lemma lookup_mem {A} k (l : list (str * A)) : mem k (map fst l) = match lookup k l with Some _ => true | None => false end.
Proof.
  induction l as [|[k' v] r IH]; [reflexivity|]. cbn [map fst mem existsb lookup]. unfold mem in IH.
  destruct (str_eqb k k'); [reflexivity|exact IH].
Qed.

(* ---------- one merge step is the conjunction ---------- *)
Lemma andb_swap4 a b c d : (a && b) && (c && d) = (a && c) && (b && d).
Proof. destruct a, b, c, d; reflexivity. Qed.

Lemma forallb_and {A} (p q r : A -> bool) (l : list A) : (forall x, In x l -> p x = q x && r x) -> forallb p l = forallb q l && forallb r l.
Proof.
  induction l as [|x t IH]; intros H; [reflexivity|]. cbn [forallb]. rewrite (H x (or_introl eq_refl)), IH by (intros y Hy; apply H; right; exact Hy).
  destruct (q x), (r x), (forallb q t), (forallb r t); reflexivity.
Qed.

Theorem merge2_conj : forall g f d s m j,
  compat g d s = true -> merge2 g d s = Some m ->
  plain m = true /\ valid f m j = valid f d j && valid f s j.
Proof.
  induction g as [|g IH]; intros f d s m j Hc Hm; [discriminate|].
  cbn [compat] in Hc. repeat (apply andb_true_iff in Hc; destruct Hc as [Hc ?]).
  rename H into Hitems. rename H0 into Hprops. rename H1 into Hsc. rename H2 into Ps. rename Hc into Pd.
  cbn [merge2] in Hm.
  destruct (omapo _ (s_props d)) as [dprops|] eqn:Eo; [|discriminate].
  assert (Ad : s_addl d = None /\ s_addl_false d = false /\ s_all_of d = [] /\ s_any_of d = [] /\ c_ref (s_con d) = None /\ c_enum (s_con d) = None).
  { unfold plain in Pd. destruct (c_ref (s_con d)), (c_enum (s_con d)), (s_addl d), (s_addl_false d), (s_all_of d), (s_any_of d); try discriminate. repeat split. }
  assert (As : s_addl s = None /\ s_addl_false s = false /\ s_all_of s = [] /\ s_any_of s = [] /\ c_ref (s_con s) = None /\ c_enum (s_con s) = None).
  { unfold plain in Ps. destruct (c_ref (s_con s)), (c_enum (s_con s)), (s_addl s), (s_addl_false s), (s_all_of s), (s_any_of s); try discriminate. repeat split. }
  destruct Ad as (Ad1 & Ad2 & Ad3 & Ad4 & Ad5 & Ad6). destruct As as (As1 & As2 & As3 & As4 & As5 & As6).
  rewrite Ad1, As1, Ad2, As2, Ad3, As3, Ad4, As4 in Hm. cbn [first_opt andb orb app] in Hm.
  (* the item schema of the merge *)
  set (mit := match s_items d, s_items s with
              | Some x, Some y => match merge2 g x y with Some m0 => Some (Some m0) | None => None end
              | _, _ => Some (first_opt (s_items d) (s_items s))
              end) in Hm.
  destruct mit as [items|] eqn:Eit; [|discriminate]. inversion Hm; subst m. clear Hm.
  set (M := Sch (merge_con (s_con d) (s_con s)) (dprops ++ filter (fun kv => negb (mem (fst kv) (map fst (s_props d)))) (s_props s)) None false items [] []).
  assert (Pm : plain M = true).
  { unfold plain, M. cbn [s_con s_addl s_addl_false s_all_of s_any_of merge_con c_ref c_enum]. rewrite Ad5, As5, Ad6, As6. reflexivity. }
  split; [exact Pm|].
  destruct f as [|f]; [reflexivity|].
  rewrite (valid_plain_all f M j Pm), (valid_plain_all f d j Pd), (valid_plain_all f s j Ps).
  unfold scalars_compat in Hsc. repeat (apply andb_true_iff in Hsc; destruct Hsc as [Hsc ?]).
  rename Hsc into Cty. rename H into Cup. rename H0 into Clo. rename H1 into Cfmt. rename H2 into Cmult. rename H3 into Cpat.
  rename H4 into Cmaxl. rename H5 into Cminl. rename H6 into Cmaxi. rename H7 into Cmini.
  assert (HT : type_ok (c_types (s_con M)) j = type_ok (c_types (s_con d)) j && type_ok (c_types (s_con s)) j).
  { unfold M. cbn [s_con merge_con c_types]. apply type_ok_merge. exact Cty. }
  rewrite HT, andb_swap4. f_equal.
  destruct j as [| b | n | x | l | kv]; try reflexivity.
  - (* number *)
    unfold body, M. cbn [s_con merge_con c_mult c_bounds]. unfold spec_numeric.
    rewrite (spec_multiple_merge _ _ _ Cmult), (spec_bounds_merge _ _ _ Clo Cup). apply andb_swap4.
  - (* string *)
    unfold body, M. cbn [s_con merge_con c_min_len c_max_len c_pattern c_format].
    rewrite (len_ok_merge _ _ _ _ _ Cminl Cmaxl), (opt_merge _ _ (fun p => pat_match p x) Cpat), (opt_merge _ _ (fun k => fmt_ok k x) Cfmt).
    destruct (len_ok (c_min_len (s_con d)) (c_max_len (s_con d)) (length x)), (len_ok (c_min_len (s_con s)) (c_max_len (s_con s)) (length x)),
      (match c_pattern (s_con d) with Some p => pat_match p x | None => true end), (match c_pattern (s_con s) with Some p => pat_match p x | None => true end),
      (match c_format (s_con d) with Some k => fmt_ok k x | None => true end), (match c_format (s_con s) with Some k => fmt_ok k x | None => true end); reflexivity.
  - (* array *)
    unfold body. unfold M at 1 2. cbn [s_con merge_con c_min_items c_max_items]. rewrite (len_ok_merge _ _ _ _ _ Cmini Cmaxi).
    rewrite andb_swap4. f_equal. unfold M. cbn [s_items].
    unfold mit in Eit. destruct (s_items d) as [x|] eqn:Ed, (s_items s) as [y|] eqn:Es.
    + destruct (merge2 g x y) as [m0|] eqn:Em0; [|discriminate]. inversion Eit; subst items.
      apply forallb_and. intros v _. exact (proj2 (IH f x y m0 v Hitems Em0)).
    + inversion Eit; subst items. cbn [first_opt]. rewrite andb_true_r. reflexivity.
    + inversion Eit; subst items. reflexivity.
    + inversion Eit; subst items. reflexivity.
  - (* object *)
    unfold body. unfold M at 1. cbn [s_con merge_con c_required]. rewrite forallb_app, andb_swap4. f_equal.
    apply forallb_and. intros [k v] _. cbn [fst snd]. unfold M. cbn [s_props]. rewrite lookup_app.
    pose proof (omapo_lookup g (s_props s) k (s_props d) dprops Eo) as HL.
    destruct (lookup k (s_props d)) as [x|] eqn:Ld.
    + destruct (lookup k (s_props s)) as [y|] eqn:Ls.
      * destruct HL as (m0 & Em0 & Lm). rewrite Lm.
        rewrite forallb_forall in Hprops. specialize (Hprops (k, x) (lookup_In _ _ _ Ld)). cbn [fst snd] in Hprops. rewrite Ls in Hprops.
        exact (proj2 (IH f x y m0 v Hprops Em0)).
      * rewrite HL, andb_true_r. reflexivity.
    + rewrite HL. rewrite lookup_filter_notin by (rewrite lookup_mem, Ld; reflexivity). reflexivity.
Qed.

(* ---------- a list of branches ---------- *)
Fixpoint compat_all (d : schema) (bs : list schema) : bool :=
  match bs with
  | [] => true
  | b :: r => compat merge_fuel d b && match merge2 merge_fuel d b with Some d' => compat_all d' r | None => false end
  end.

Lemma merge_into_conj f j : forall bs d m, plain d = true -> compat_all d bs = true -> merge_into d bs = Some m ->
  plain m = true /\ valid f m j = valid f d j && forallb (fun b => valid f b j) bs.
Proof.
  induction bs as [|b r IH]; intros d m Pd Hc Hm.
  - cbn in Hm. inversion Hm; subst. cbn [forallb]. rewrite andb_true_r. split; [exact Pd|reflexivity].
  - cbn [compat_all] in Hc. apply andb_true_iff in Hc. destruct Hc as [Hc1 Hc2].
    cbn [merge_into] in Hm. destruct (merge2 merge_fuel d b) as [d'|] eqn:E2; [|discriminate].
    destruct (merge2_conj _ f d b d' j Hc1 E2) as [Pd' Hv].
    destruct (IH d' m Pd' Hc2 Hm) as [Pm Hvm]. split; [exact Pm|].
    rewrite Hvm, Hv. cbn [forallb]. rewrite andb_assoc. reflexivity.
Qed.

Lemma empty_plain : plain empty_schema = true.
Proof. reflexivity. Qed.

Lemma valid_empty f j : valid (S f) empty_schema j = true.
Proof.
  rewrite (valid_plain_all f empty_schema j empty_plain). destruct j as [| | | | |kv]; try reflexivity.
  cbn. induction kv as [|p r IHr]; [reflexivity|exact IHr].
Qed.

(* allOf of compatible branches, not all of primitive type: the merged schema is their conjunction, on every document *)
Theorem merge_is_conjunction : forall bs m f j,
  forallb prim_or_untyped bs = false -> compat_all empty_schema bs = true ->
  merge_types bs = Some m ->
  valid (S f) m j = forallb (fun b => valid (S f) b j) bs.
Proof.
  intros bs m f j Hnp Hc Hm. unfold merge_types in Hm. destruct bs as [|b r]; [discriminate|]. rewrite Hnp in Hm.
  destruct (merge_into_conj (S f) j (b :: r) empty_schema m empty_plain Hc Hm) as [_ Hv]. rewrite Hv, valid_empty. reflexivity.
Qed.

(* the reference semantics of a composite node *)
Lemma spec_composites f c props addl af items allof anyof j :
  c_ref c = None ->
  valid (S f) (Sch c props addl af items allof anyof) j = true ->
  forallb (fun b => valid f b j) allof = true /\
  (anyof = [] \/ existsb (fun b => valid f b j) anyof = true).
Proof.
  intros Hr H. cbn [Valid.valid s_con s_all_of s_any_of] in H. rewrite Hr in H.
  repeat (apply andb_true_iff in H; destruct H as [H ?]).
  split; [assumption|]. destruct anyof; [left; reflexivity|right; assumption].
Qed.
End MergeP.

(* all-primitive (or untyped) branch lists are not merged at all (isPrimitiveTypeList): the result accepts everything *)
Definition prim_branch : schema :=
  Sch (mkC [SString] None None [] 0 0 0 1 None None (mkBounds None None None None) None None) [] None false None [] [].
Lemma merge_primitive_refuted :
  exists m, merge_types [prim_branch] = Some m /\
    Valid.valid (fun _ _ => true) [] 3 m (JStr [97; 98; 99]%N) = true /\
    forallb (fun b => Valid.valid (fun _ _ => true) [] 3 b (JStr [97; 98; 99]%N)) [prim_branch] = false.
Proof. eexists. split; [reflexivity|]. split; vm_compute; reflexivity. Qed.

(* the compatibility hypothesis is needed: two branches that both bound the length of the same property (first one wins) *)
Definition len_branch (mn : nat) : schema :=
  Sch (mkC [SObject] None None [] 0 0 0 0 None None (mkBounds None None None None) None None)
      [([97]%N, Sch (mkC [SString] None None [] 0 0 mn 0 None None (mkBounds None None None None) None None) [] None false None [] [])] None false None [] [].
Lemma merge_first_wins_refuted :
  exists m, merge_types [len_branch 1; len_branch 3] = Some m /\
    compat_all empty_schema [len_branch 1; len_branch 3] = false /\
    Valid.valid (fun _ _ => true) [] 4 m (JObj [([97]%N, JStr [120; 121]%N)]) = true /\
    forallb (fun b => Valid.valid (fun _ _ => true) [] 4 b (JObj [([97]%N, JStr [120; 121]%N)])) [len_branch 1; len_branch 3] = false.
Proof. eexists. split; [reflexivity|]. repeat split; vm_compute; reflexivity. Qed.

(* non-vacuity: two object branches with a key of their own each, and a shared key that one types and the other bounds *)
Definition ob (k : str) (t : sty) : schema :=
  Sch (mkC [SObject] None None [k] 0 0 0 0 None None (mkBounds None None None None) None None)
      [(k, Sch (mkC [t] None None [] 0 0 0 0 None None (mkBounds None None None None) None None) [] None false None [] [])] None false None [] [].
Definition ob_shared1 : schema :=
  Sch (mkC [SObject] None None [[97]%N] 0 0 0 0 None None (mkBounds None None None None) None None)
      [([97]%N, Sch (mkC [SString] None None [] 0 0 0 0 None None (mkBounds None None None None) None None) [] None false None [] []);
       ([115]%N, Sch (mkC [SString] None None [] 0 0 0 4 None None (mkBounds None None None None) None None) [] None false None [] [])] None false None [] [].
Definition ob_shared2 : schema :=
  Sch (mkC [SObject] None None [[98]%N] 0 0 0 0 None None (mkBounds None None None None) None None)
      [([98]%N, Sch (mkC [SInteger] None None [] 0 0 0 0 None None (mkBounds None None None None) None None) [] None false None [] []);
       ([115]%N, Sch (mkC [] None None [] 0 0 2 0 None None (mkBounds None None None None) None None) [] None false None [] [])] None false None [] [].
Example merge_inhabited :
  exists m, merge_types [ob [97]%N SString; ob [98]%N SInteger] = Some m /\
    forallb prim_or_untyped [ob [97]%N SString; ob [98]%N SInteger] = false /\ compat_all empty_schema [ob [97]%N SString; ob [98]%N SInteger] = true /\
    map fst (s_props m) = [[97]%N; [98]%N].
Proof. eexists. split; [reflexivity|]. repeat split; reflexivity. Qed.
Example merge_shared_inhabited :
  exists m, merge_types [ob_shared1; ob_shared2] = Some m /\
    forallb prim_or_untyped [ob_shared1; ob_shared2] = false /\ compat_all empty_schema [ob_shared1; ob_shared2] = true /\
    map fst (s_props m) = [[97]%N; [115]%N; [98]%N] /\
    option_map (fun p => (c_min_len (s_con p), c_max_len (s_con p))) (lookup [115]%N (s_props m)) = Some (2, 4).
Proof. eexists. split; [reflexivity|]. repeat split; reflexivity. Qed.
