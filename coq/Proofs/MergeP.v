(* C11, allOf: the merge of object branches with pairwise disjoint property sets is the conjunction
   of the branches under the reference semantics, and its properties are the union of theirs. *)
From GJS Require Import Base Bounds Regex Schema Merge Valid.

Section MergeP.
Variable fmt_ok : fmtk -> str -> bool.
Variable defs : list (str * schema).
Notation valid := (Valid.valid fmt_ok defs).

(* an object branch after reference resolution: no composite, enum or additionalProperties keyword of its own *)
Definition plain (s : schema) : bool :=
  match c_ref (s_con s), c_enum (s_con s), s_addl s, s_addl_false s, s_all_of s, s_any_of s with
  | None, None, None, false, [], [] => true
  | _, _, _, _, _, _ => false
  end.
Definition obj_or_untyped (s : schema) : bool :=
  match c_types (s_con s) with [] | [SObject] => true | _ => false end.
Definition obj_typed (s : schema) : bool :=
  match c_types (s_con s) with [SObject] => true | _ => false end.

Definition obj_check (f : nat) (s : schema) (kv : list (str * json)) : bool :=
  forallb (fun k => match lookup k kv with Some _ => true | None => false end) (c_required (s_con s)) &&
  forallb (fun p => match lookup (fst p) (s_props s) with Some ps => valid f ps (snd p) | None => true end) kv.

Lemma valid_plain f s kv : plain s = true -> obj_or_untyped s = true ->
  valid (S f) s (JObj kv) = obj_check f s kv.
Proof.
  destruct s as [c props addl af items allof anyof]. unfold plain, obj_or_untyped, obj_check. cbn [s_con s_addl s_addl_false s_all_of s_any_of s_props].
  intros Hp Ht. cbn [Valid.valid s_con s_all_of s_any_of s_props s_addl s_addl_false].
  destruct (c_ref c); [discriminate|]. destruct (c_enum c); [discriminate|]. destruct addl; [discriminate|].
  destruct af; [discriminate|]. destruct allof; [|discriminate]. destruct anyof; [|discriminate].
  assert (Hty : type_ok (c_types c) (JObj kv) = true).
  { destruct (c_types c) as [|t [|t' r]]; [reflexivity| |destruct t; discriminate]. destruct t; try discriminate. reflexivity. }
  rewrite Hty. cbn [forallb andb]. reflexivity.
Qed.

Lemma lookup_app {A} k (p q : list (str * A)) :
  lookup k (p ++ q) = match lookup k p with Some x => Some x | None => lookup k q end.
Proof.
  induction p as [|[k' x] r IH]; [reflexivity|]. cbn [app lookup]. destruct (str_eqb k k'); [reflexivity|exact IH].
Qed.

Lemma disjoint_lookup {A} k (p q : list (str * A)) x :
  keys_disjoint q p = true -> lookup k q = Some x -> lookup k p = None.
Proof.
  intros Hd Hq. apply lookup_In in Hq. unfold keys_disjoint in Hd. rewrite forallb_forall in Hd. specialize (Hd _ Hq). cbn [fst] in Hd.
  rewrite negb_true_iff in Hd. apply lookup_None. intros Hin. apply mem_In in Hin. congruence.
Qed.

(* the properties of the merge are the union of the branches' properties *)
Lemma merge2_props d s m : merge2 d s = Some m -> s_props m = s_props d ++ s_props s.
Proof.
  unfold merge2. destruct (negb (keys_disjoint (s_props s) (s_props d))); [discriminate|].
  destruct (s_addl d), (s_addl s); try discriminate; destruct (s_items d), (s_items s); try discriminate;
    match goal with |- (if ?c then _ else _) = _ -> _ => destruct c; [discriminate|] end; intros H; inversion H; reflexivity.
Qed.

Lemma merge2_plain d s m : plain d = true -> plain s = true -> merge2 d s = Some m ->
  plain m = true /\ c_required (s_con m) = c_required (s_con d) ++ c_required (s_con s) /\
  c_types (s_con m) = (match c_types (s_con d) with [] => c_types (s_con s) | _ => c_types (s_con d) end) /\
  keys_disjoint (s_props s) (s_props d) = true.
Proof.
  unfold plain, merge2. destruct d as [cd pd ad fd itd ald and], s as [cs ps as_ fs its als ans].
  cbn [s_con s_addl s_addl_false s_all_of s_any_of s_props s_items].
  destruct (c_ref cd) eqn:Erd; [discriminate|]. destruct (c_enum cd) eqn:Eed; [discriminate|]. destruct ad; [discriminate|]. destruct fd; [discriminate|].
  destruct ald; [|discriminate]. destruct and; [|discriminate]. intros _.
  destruct (c_ref cs) eqn:Ers; [discriminate|]. destruct (c_enum cs) eqn:Ees; [discriminate|]. destruct as_; [discriminate|]. destruct fs; [discriminate|].
  destruct als; [|discriminate]. destruct ans; [|discriminate]. intros _.
  destruct (keys_disjoint ps pd) eqn:Ek; cbn [negb]; [|discriminate].
  destruct itd, its; try discriminate; cbn; intros H; inversion H; subst; clear H; cbn [s_con s_addl s_addl_false s_all_of s_any_of merge_con c_ref c_enum c_required c_types];
    rewrite Erd, Ers, Eed, Ees; cbn; auto.
Qed.

Lemma merge2_valid f d s m kv :
  plain d = true -> plain s = true -> obj_or_untyped d = true -> obj_or_untyped s = true ->
  merge2 d s = Some m ->
  obj_or_untyped m = true /\
  valid (S f) m (JObj kv) = valid (S f) d (JObj kv) && valid (S f) s (JObj kv).
Proof.
  intros Pd Ps Od Os Hm. destruct (merge2_plain _ _ _ Pd Ps Hm) as [Pm [Hreq [Hty Hdis]]].
  assert (Om : obj_or_untyped m = true).
  { unfold obj_or_untyped in *. rewrite Hty. destruct (c_types (s_con d)) as [|t r]; [exact Os|exact Od]. }
  split; [exact Om|].
  rewrite (valid_plain f m kv Pm Om), (valid_plain f d kv Pd Od), (valid_plain f s kv Ps Os).
  unfold obj_check. rewrite Hreq, forallb_app, (merge2_props _ _ _ Hm).
  set (rd := forallb _ (c_required (s_con d))). set (rs := forallb _ (c_required (s_con s))).
  assert (Hp : forallb (fun p => match lookup (fst p) (s_props d ++ s_props s) with Some ps => valid f ps (snd p) | None => true end) kv =
               forallb (fun p => match lookup (fst p) (s_props d) with Some ps => valid f ps (snd p) | None => true end) kv &&
               forallb (fun p => match lookup (fst p) (s_props s) with Some ps => valid f ps (snd p) | None => true end) kv).
  { clear -Hdis. induction kv as [|[k v] r IH]; [reflexivity|]. cbn [forallb fst snd]. rewrite IH, lookup_app.
    destruct (lookup k (s_props d)) eqn:Ed.
    - destruct (lookup k (s_props s)) eqn:Es.
      + rewrite (disjoint_lookup _ _ _ _ Hdis Es) in Ed. discriminate.
      + destruct (valid f s0 v); cbn; [reflexivity|reflexivity].
    - destruct (lookup k (s_props s)); [|reflexivity].
      destruct (valid f s0 v); cbn; [reflexivity|]. rewrite andb_false_r. reflexivity. }
  rewrite Hp. destruct rd, rs; cbn [andb]; rewrite ?andb_false_r; try reflexivity.
Qed.

Lemma obj_typed_untyped s : obj_typed s = true -> obj_or_untyped s = true.
Proof. unfold obj_typed, obj_or_untyped. destruct (c_types (s_con s)) as [|[] [|]]; auto. Qed.

Lemma merge_into_valid f kv : forall bs d m,
  plain d = true -> obj_or_untyped d = true ->
  forallb plain bs = true -> forallb obj_typed bs = true ->
  merge_into d bs = Some m ->
  plain m = true /\ obj_or_untyped m = true /\
  (bs <> [] -> obj_typed m = true) /\ (obj_typed d = true -> obj_typed m = true) /\
  s_props m = s_props d ++ flat_map s_props bs /\
  valid (S f) m (JObj kv) = valid (S f) d (JObj kv) && forallb (fun b => valid (S f) b (JObj kv)) bs.
Proof.
  induction bs as [|b r IH]; intros d m Pd Od Pbs Obs Hm.
  - cbn in Hm. inversion Hm; subst. cbn [flat_map forallb]. rewrite app_nil_r, andb_true_r. repeat split; auto; try (intros H; exfalso; apply H; reflexivity).
  - cbn [merge_into] in Hm. destruct (merge2 d b) as [d'|] eqn:E2; [|discriminate].
    cbn [forallb] in Pbs, Obs. apply andb_true_iff in Pbs. destruct Pbs as [Pb Pr]. apply andb_true_iff in Obs. destruct Obs as [Ob Or].
    destruct (merge2_valid f d b d' kv Pd Pb Od (obj_typed_untyped _ Ob) E2) as [Od' Hv].
    destruct (merge2_plain _ _ _ Pd Pb E2) as [Pd' [_ [Hty _]]].
    assert (Otd' : obj_typed d' = true).
    { unfold obj_typed, obj_or_untyped in *. rewrite Hty. destruct (c_types (s_con d)) as [|t l]; [exact Ob|].
      destruct t, l; try discriminate. reflexivity. }
    destruct (IH d' m Pd' Od' Pr Or Hm) as [Pm [Om [_ [Hkeep [Hprops Hval]]]]].
    repeat split; auto.
    + rewrite Hprops, (merge2_props _ _ _ E2), <- app_assoc. reflexivity.
    + rewrite Hval, Hv. cbn [forallb]. rewrite andb_assoc. reflexivity.
Qed.

Lemma empty_plain : plain empty_schema = true /\ obj_or_untyped empty_schema = true.
Proof. split; reflexivity. Qed.

Lemma valid_non_object f s j : obj_typed s = true -> c_ref (s_con s) = None ->
  (forall kv, j <> JObj kv) -> valid (S f) s j = false.
Proof.
  intros Ho Hr Hj. destruct s as [c props addl af items allof anyof]. cbn [Valid.valid s_con] in *. rewrite Hr.
  unfold obj_typed in Ho. cbn [s_con] in Ho. destruct (c_types c) as [|t [|t' l]]; try discriminate; destruct t; try discriminate.
  destruct j; cbn; try reflexivity. exfalso. exact (Hj _ eq_refl).
Qed.

Lemma plain_ref s : plain s = true -> c_ref (s_con s) = None.
Proof. unfold plain. destruct (c_ref (s_con s)); [discriminate|reflexivity]. Qed.

(* allOf of object branches with pairwise disjoint property sets: the merged schema is their conjunction, on every document *)
Theorem merge_is_conjunction : forall bs m f j,
  forallb plain bs = true -> forallb obj_typed bs = true ->
  merge_types bs = Some m ->
  valid (S f) m j = forallb (fun b => valid (S f) b j) bs /\ s_props m = flat_map s_props bs.
Proof.
  intros bs m f j Pbs Obs Hm. unfold merge_types in Hm. destruct bs as [|b r]; [discriminate|].
  assert (Hnp : forallb prim_or_untyped (b :: r) = false).
  { cbn [forallb] in *. apply andb_true_iff in Obs. destruct Obs as [Ob _]. unfold obj_typed in Ob. unfold prim_or_untyped.
    destruct (c_types (s_con b)) as [|t l]; [discriminate|]. destruct t; try discriminate. reflexivity. }
  rewrite Hnp in Hm. destruct empty_plain as [Pe Oe].
  destruct (merge_into_valid f [] (b :: r) empty_schema m Pe Oe Pbs Obs Hm) as [Pm [_ [Hot [_ [Hpr _]]]]].
  split; [|exact Hpr].
  assert (Hnon : (forall kv, j <> JObj kv) -> valid (S f) m j = forallb (fun b0 => valid (S f) b0 j) (b :: r)).
  { intros Hj. rewrite (valid_non_object f m j (Hot ltac:(discriminate)) (plain_ref _ Pm) Hj).
    cbn [forallb] in *. apply andb_true_iff in Obs. destruct Obs as [Ob _]. apply andb_true_iff in Pbs. destruct Pbs as [Pb _].
    rewrite (valid_non_object f b j Ob (plain_ref _ Pb) Hj). reflexivity. }
  destruct j as [| | | | |kv]; try (apply Hnon; intros; discriminate).
  destruct (merge_into_valid f kv (b :: r) empty_schema m Pe Oe Pbs Obs Hm) as [_ [_ [_ [_ [_ Hv]]]]].
  rewrite Hv. rewrite (valid_plain f empty_schema kv Pe Oe). unfold obj_check. cbn [empty_schema s_con empty_con c_required s_props forallb lookup andb].
  replace (forallb (fun _ : str * json => true) kv) with true; [reflexivity|]. clear. induction kv; [reflexivity|exact IHkv].
Qed.

(* the reference semantics of a composite node *)
Lemma spec_composites f c props addl af items allof anyof j :
  c_ref c = None ->
  valid (S f) (Sch c props addl af items allof anyof) j = true ->
  forallb (fun b => valid f b j) allof = true /\
  (anyof = [] \/ existsb (fun b => valid f b j) anyof = true).
Proof.
  intros Hr H. cbn [Valid.valid s_con s_all_of s_any_of] in H. rewrite Hr in H.
  repeat (apply andb_true_iff in H; destruct H as [H ?]).
  split; [assumption|]. destruct anyof; [left; reflexivity|right; assumption].
Qed.
End MergeP.

(* all-primitive (or untyped) branch lists are not merged at all (isPrimitiveTypeList): the result accepts everything *)
Definition prim_branch : schema :=
  Sch (mkC [SString] None None [] 0 0 0 1 None None (mkBounds None None None None) None None) [] None false None [] [].
Lemma merge_primitive_refuted :
  exists m, merge_types [prim_branch] = Some m /\
    Valid.valid (fun _ _ => true) [] 3 m (JStr [97; 98; 99]%N) = true /\
    forallb (fun b => Valid.valid (fun _ _ => true) [] 3 b (JStr [97; 98; 99]%N)) [prim_branch] = false.
Proof. eexists. split; [reflexivity|]. split; vm_compute; reflexivity. Qed.

(* non-vacuity of merge_is_conjunction: two object branches, one required key each *)
Definition ob (k : str) (t : sty) : schema :=
  Sch (mkC [SObject] None None [k] 0 0 0 0 None None (mkBounds None None None None) None None)
      [(k, Sch (mkC [t] None None [] 0 0 0 0 None None (mkBounds None None None None) None None) [] None false None [] [])] None false None [] [].
Example merge_inhabited :
  exists m, merge_types [ob [97]%N SString; ob [98]%N SInteger] = Some m /\
    forallb plain [ob [97]%N SString; ob [98]%N SInteger] = true /\ forallb obj_typed [ob [97]%N SString; ob [98]%N SInteger] = true /\
    map fst (s_props m) = [[97]%N; [98]%N].
Proof. eexists. split; [reflexivity|]. repeat split; reflexivity. Qed.
