(* The re-spellings of C13 decode to the same thing. *)
From GJS Require Import Base Decode.

(* a single type as a string or as a one-element list *)
Theorem type_string_or_list t : t <> [] -> decode_type_list (JStr t) = decode_type_list (JArr [JStr t]).
Proof. intros H. destruct t; [contradiction|reflexivity]. Qed.

(* true and {} as the anything-schema *)
Theorem true_is_empty_object : decode_bool_schema (JBool true) = decode_bool_schema (JObj []).
Proof. reflexivity. Qed.

Lemma lookup_other {A} k k' (v : A) o : k <> k' -> lookup k ((k', v) :: o) = lookup k o.
Proof. intros H. cbn. destruct (str_eqb k k') eqn:E; [apply str_eqb_eq in E; contradiction|reflexivity]. Qed.

(* id / $id: a document that has only one of them *)
Theorem id_spellings (o : obj) s : lookup k_id o = None -> lookup k_legacy_id o = None -> s <> [] ->
  decode_id ((k_id, JStr s) :: o) = decode_id ((k_legacy_id, JStr s) :: o).
Proof.
  intros H1 H2 Hs. unfold decode_id, str_field.
  rewrite (lookup_other k_id k_legacy_id) by discriminate.
  rewrite (lookup_other k_legacy_id k_id) by discriminate.
  cbn [lookup]. rewrite !str_eqb_refl, H1, H2. destruct s; [contradiction|reflexivity].
Qed.

(* definitions / $defs, dependencies / dependentSchemas *)
Theorem defs_spellings (o : obj) d : lookup k_defs o = None -> lookup k_definitions o = None -> d <> JNull ->
  decode_defs ((k_defs, d) :: o) = decode_defs ((k_definitions, d) :: o).
Proof.
  intros H1 H2 Hd. unfold decode_defs, present.
  rewrite (lookup_other k_defs k_definitions) by discriminate.
  rewrite (lookup_other k_definitions k_defs) by discriminate.
  cbn [lookup]. rewrite !str_eqb_refl, H1, H2. destruct d; try reflexivity; contradiction.
Qed.
Theorem dependents_spellings (o : obj) d : lookup k_dependent_schemas o = None -> lookup k_dependencies o = None -> d <> JNull ->
  decode_dependents ((k_dependent_schemas, d) :: o) = decode_dependents ((k_dependencies, d) :: o).
Proof.
  intros H1 H2 Hd. unfold decode_dependents, present.
  rewrite (lookup_other k_dependent_schemas k_dependencies) by discriminate.
  rewrite (lookup_other k_dependencies k_dependent_schemas) by discriminate.
  cbn [lookup]. rewrite !str_eqb_refl, H1, H2. destruct d; try reflexivity; contradiction.
Qed.

(* when both spellings are present the current one wins *)
Theorem defs_precedence (o : obj) d d' : d <> JNull -> decode_defs ((k_defs, d) :: (k_definitions, d') :: o) = Some d.
Proof. intros H. unfold decode_defs, present. cbn [lookup]. rewrite str_eqb_refl. destruct d; try reflexivity; contradiction. Qed.

(* #/$defs/X and #/definitions/X, in any letter case of the prefix, for every file part without '#' and every name X *)
Lemma split_hash_app file rest : Forall (fun c => c <> 35%N) file -> split_hash (file ++ 35%N :: rest) = (file, Some rest).
Proof.
  induction 1 as [|c f Hc _ IH]; cbn; [reflexivity|].
  destruct (N.eqb_spec c 35); [contradiction|]. rewrite IH. reflexivity.
Qed.

Lemma is_prefix_app a b : is_prefix_s a (a ++ b) = true.
Proof. induction a as [|x a IH]; cbn; [reflexivity|]. rewrite N.eqb_refl. exact IH. Qed.

Theorem ref_prefix_spellings file x : Forall (fun c => c <> 35%N) file ->
  extract_ref_names (file ++ 35%N :: p_defs ++ x) = Some (x, file) /\
  extract_ref_names (file ++ 35%N :: p_definitions ++ x) = Some (x, file).
Proof.
  intros Hf. unfold extract_ref_names. rewrite !split_hash_app by exact Hf. rewrite !map_app.
  change (map ascii_lower p_defs) with p_defs. change (map ascii_lower p_definitions) with p_definitions.
  rewrite !is_prefix_app. split.
  - rewrite skipn_app, Nat.sub_diag, skipn_all. reflexivity.
  - assert (E : is_prefix_s p_defs (p_definitions ++ map ascii_lower x) = false) by reflexivity. rewrite E.
    rewrite skipn_app, Nat.sub_diag, skipn_all. reflexivity.
Qed.

(* the prefix is matched case-insensitively *)
Theorem ref_prefix_case_insensitive file pre x : Forall (fun c => c <> 35%N) file -> length pre = length p_defs ->
  map ascii_lower pre = p_defs -> extract_ref_names (file ++ 35%N :: pre ++ x) = Some (x, file).
Proof.
  intros Hf Hl Hp. unfold extract_ref_names. rewrite split_hash_app by exact Hf. rewrite map_app, Hp, is_prefix_app.
  rewrite <- Hl, skipn_app, Nat.sub_diag, skipn_all. reflexivity.
Qed.

(* a pointer that is neither spelling is an error *)
Example ref_other_pointer_fails : extract_ref_names [35; 47; 112; 114; 111; 112; 115; 47; 120]%N = None.
Proof. reflexivity. Qed.
