(* Facts about the run-time model (Model/Exec.v): exactness of each validator, and the way
   a failure inside a component makes the whole decode fail (for every nesting depth). *)
From GJS Require Import Base Bounds BoundsP NumericP IntSize Regex Schema GoType Exec Valid.

Ltac natb :=
  repeat match goal with
  | |- context [Nat.eqb ?a ?b] => destruct (Nat.eqb_spec a b)
  | |- context [Nat.ltb ?a ?b] => destruct (Nat.ltb_spec a b)
  | |- context [Nat.leb ?a ?b] => destruct (Nat.leb_spec a b)
  end.

(* ------------------------------------------------------------------ strings (C06) *)
Definition spec_string (mn mx : nat) (p : option pat) (s : str) : bool :=
  len_ok mn mx (length s) && match p with Some pt => pat_match pt s | None => true end.

(* what the emitted checks compute: the same, but on the byte length *)
Definition spec_string_bytes (mn mx : nat) (p : option pat) (s : str) : bool :=
  len_ok mn mx (utf8_len s) && match p with Some pt => pat_match pt s | None => true end.

Lemma check_string_bytes mn mx p s :
  check_string mn mx p s = if spec_string_bytes mn mx p s then Ok tt else Err.
Proof.
  unfold check_string, spec_string_bytes, len_ok.
  destruct p as [pt|]; [destruct (pat_match pt s)|]; cbn [negb andb]; natb; cbn; try reflexivity; try lia.
Qed.

Theorem check_string_exact mn mx p s :
  utf8_len s = length s -> check_string mn mx p s = if spec_string mn mx p s then Ok tt else Err.
Proof. intros H. rewrite check_string_bytes. unfold spec_string_bytes, spec_string. rewrite H. reflexivity. Qed.

Lemma check_string_multibyte_refuted :
  exists mn mx s, spec_string mn mx None s = true /\ check_string mn mx None s = Err.
Proof. exists 0, 3, [233; 233]%N. vm_compute. split; reflexivity. Qed.

Section Steps.
Variable dvf : gty -> json -> option gval.

(* the validator on a required (value-typed) string field, on an optional / nullable (pointer)
   field holding a value, and on an absent or null optional field *)
Lemma vstring_value raw st fname jname mn mx p s :
  get_plain fname st = Some (GS s) ->
  after_step dvf raw st (VString fname jname false mn mx p)
  = if spec_string_bytes mn mx p s then Ok st else Err.
Proof. intros H. cbn [after_step]. rewrite H, check_string_bytes. destruct (spec_string_bytes mn mx p s); reflexivity. Qed.

Lemma vstring_pointer raw st fname jname mn mx p s :
  get_plain fname st = Some (GP (GS s)) ->
  after_step dvf raw st (VString fname jname true mn mx p)
  = if spec_string_bytes mn mx p s then Ok st else Err.
Proof. intros H. cbn [after_step]. rewrite H, check_string_bytes. destruct (spec_string_bytes mn mx p s); reflexivity. Qed.

Lemma vstring_nil raw st fname jname mn mx p :
  get_plain fname st = Some GNil -> after_step dvf raw st (VString fname jname true mn mx p) = Ok st.
Proof. intros H. cbn [after_step]. rewrite H. reflexivity. Qed.

(* ------------------------------------------------------------------ numbers (C05) *)
Lemma vnumeric_value raw st fname jname rnd mult b x q :
  get_plain fname st = Some x -> num_of x = Some q ->
  after_step dvf raw st (VNumeric fname jname false rnd mult b) = if accept_numeric rnd mult b q then Ok st else Err.
Proof. intros H Hq. cbn [after_step]. rewrite H. destruct x; try discriminate; cbn in Hq |- *; inversion Hq; subst; reflexivity. Qed.

Lemma vnumeric_pointer raw st fname jname rnd mult b x q :
  get_plain fname st = Some (GP x) -> num_of x = Some q ->
  after_step dvf raw st (VNumeric fname jname true rnd mult b) = if accept_numeric rnd mult b q then Ok st else Err.
Proof. intros H Hq. cbn [after_step]. rewrite H, Hq. reflexivity. Qed.

Lemma vnumeric_nil raw st fname jname rnd mult b :
  get_plain fname st = Some GNil -> after_step dvf raw st (VNumeric fname jname true rnd mult b) = Ok st.
Proof. intros H. cbn [after_step]. rewrite H. reflexivity. Qed.

(* ------------------------------------------------------------------ defaults (C09) *)
Definition raw_missing (raw : raw_t) (k : str) : bool :=
  match raw with
  | Some None => true
  | Some (Some kv) => match lookup k kv with None | Some JNull => true | _ => false end
  | None => false
  end.

Lemma vdefault_applies raw st fname jname ty dv d st' :
  raw <> None -> raw_missing raw jname = true -> dvf ty dv = Some d -> set_plain fname d st = Some st' ->
  after_step dvf raw st (VDefault fname jname ty dv) = Ok st'.
Proof.
  intros Hr Hm Hd Hs. cbn [after_step]. destruct raw as [[kv|]|]; try congruence; cbn [raw_missing] in Hm; rewrite ?Hm, Hd, Hs; reflexivity.
Qed.

Lemma vdefault_present raw st fname jname ty dv :
  raw <> None -> raw_missing raw jname = false -> after_step dvf raw st (VDefault fname jname ty dv) = Ok st.
Proof.
  intros Hr Hm. cbn [after_step]. destruct raw as [[kv|]|]; try congruence; cbn [raw_missing] in Hm; try discriminate. rewrite Hm. reflexivity.
Qed.
End Steps.

(* ------------------------------------------------------------------ arrays (C07) *)
(* [levels_ok d mn mx v]: every array at nesting level d (1 = v itself) has a length within the
   limits; nil arrays are not checked, and nothing below a nil array exists *)
Fixpoint levels_ok (d : nat) (mn mx : nat) (v : gval) : bool :=
  match d with
  | O => false
  | S O => match v with GL l => len_ok mn mx (length l) | _ => true end
  | S d' => match v with GL l => forallb (levels_ok d' mn mx) l | _ => true end
  end.

Fixpoint slice_shaped (d : nat) (v : gval) : bool :=
  match d with
  | O => true
  | S d' => match v with GNil => true | GL l => forallb (slice_shaped d') l | _ => false end
  end.

Lemma fold_check_ok {A} (f : A -> outcome unit) (l : list A) :
  (forall x, In x l -> f x = Ok tt \/ f x = Err) ->
  fold_left (fun acc x => obind acc (fun _ => f x)) l (Ok tt)
  = if forallb (fun x => match f x with Ok _ => true | _ => false end) l then Ok tt else Err.
Proof.
  assert (Herr : forall l : list A, fold_left (fun acc x => obind acc (fun _ => f x)) l Err = Err)
    by (induction l0 as [|x r IH]; cbn; auto).
  induction l as [|x r IH]; intros H; cbn [fold_left forallb]; [reflexivity|].
  cbn [obind]. destruct (H x (or_introl eq_refl)) as [E|E]; rewrite E; cbn [andb].
  - apply IH. intros y Hy. apply H. right; exact Hy.
  - apply Herr.
Qed.

Lemma forallb_ext_in {A} (f g : A -> bool) (l : list A) : (forall x, In x l -> f x = g x) -> forallb f l = forallb g l.
Proof.
  induction l as [|a l IH]; intros H; cbn; [reflexivity|].
  rewrite (H a (or_introl eq_refl)), IH; [reflexivity|]. intros x Hx. apply H. right; exact Hx.
Qed.

Lemma check_array_SS d mn mx v :
  check_array (S (S d)) mn mx v
  = match v with
    | GNil => Ok tt
    | GL l => fold_left (fun acc x => obind acc (fun _ => check_array (S d) mn mx x)) l (Ok tt)
    | _ => Crash
    end.
Proof. reflexivity. Qed.
Lemma levels_ok_SS d mn mx v :
  levels_ok (S (S d)) mn mx v = match v with GL l => forallb (levels_ok (S d) mn mx) l | _ => true end.
Proof. reflexivity. Qed.

Lemma check_array_exact d : forall mn mx v, d <> 0 -> slice_shaped d v = true ->
  check_array d mn mx v = if levels_ok d mn mx v then Ok tt else Err.
Proof.
  induction d as [|d IH]; intros mn mx v Hd Hs; [contradiction|].
  destruct d as [|d'].
  - cbn [check_array levels_ok]. destruct v; cbn in Hs; try discriminate; try reflexivity.
    unfold len_ok. natb; cbn; try reflexivity; lia.
  - rewrite check_array_SS, levels_ok_SS. destruct v; try (cbn in Hs; discriminate); try reflexivity.
    cbn [slice_shaped] in Hs.
    rewrite fold_check_ok.
    + assert (E : forallb (fun x => match check_array (S d') mn mx x with Ok _ => true | _ => false end) l
                  = forallb (levels_ok (S d') mn mx) l).
      { apply forallb_ext_in. intros x Hx. rewrite IH; [|discriminate|].
        - destruct (levels_ok (S d') mn mx x); reflexivity.
        - rewrite forallb_forall in Hs. apply Hs; exact Hx. }
      rewrite E. reflexivity.
    + intros x Hx. rewrite IH; [|discriminate|].
      * destruct (levels_ok (S d') mn mx x); auto.
      * rewrite forallb_forall in Hs. apply Hs; exact Hx.
Qed.

(* ------------------------------------------------------------------ required keys (C04) *)
Definition is_ok {A} (o : outcome A) : bool := match o with Ok _ => true | _ => false end.

Lemma fold_before_stuck decf raw j vs o : is_ok o = false ->
  is_ok (fold_left (fun acc v => obind acc (fun _ => before_step decf raw j v)) vs o) = false.
Proof. revert o. induction vs as [|v r IH]; intros o H; cbn [fold_left]; [exact H|]. apply IH. destruct o; cbn in *; congruence. Qed.

Lemma run_before_required decf kv j vs k :
  In (VRequired k) vs -> lookup k kv = None -> is_ok (run_before decf vs (Some (Some kv)) j) = false.
Proof.
  unfold run_before. generalize (Ok tt : outcome unit) as o.
  induction vs as [|v r IH]; intros o Hin Hk; [contradiction|]. cbn [fold_left].
  destruct Hin as [->|Hin].
  - apply fold_before_stuck. destruct o; cbn; try reflexivity. rewrite Hk. reflexivity.
  - apply IH; assumption.
Qed.

Lemma existsb_before vs k : In (VRequired k) vs -> existsb v_before vs = true.
Proof. intros H. apply existsb_exists. exists (VRequired k). split; [exact H|reflexivity]. Qed.

(* a method whose validator list contains `required k` never accepts an object without key k *)
Theorem method_rejects_missing_required decf zf dvf fs under vs kv k :
  In (VRequired k) vs -> lookup k kv = None ->
  is_ok (run_method decf zf dvf fs under vs (JObj kv)) = false.
Proof.
  intros Hin Hk. unfold run_method. rewrite (existsb_before vs k Hin). cbn [orb obind].
  pose proof (run_before_required decf kv (JObj kv) vs k Hin Hk) as H.
  destruct (run_before decf vs (Some (Some kv)) (JObj kv)); cbn in H |- *; try reflexivity. discriminate.
Qed.

(* ... accepts when the key is present, whatever its value (null included), as far as this check goes;
   and a null document skips every required check *)
Lemma before_required_present decf kv j k x : lookup k kv = Some x -> before_step decf (Some (Some kv)) j (VRequired k) = Ok tt.
Proof. intros H. cbn. rewrite H. reflexivity. Qed.
Lemma before_required_null_doc decf j k : before_step decf (Some None) j (VRequired k) = Ok tt.
Proof. reflexivity. Qed.

(* ------------------------------------------------------------------ JSON types (C03) *)
Section Dec.
Variable fmt_ok : fmtk -> str -> bool.
Variable env : list (str * gty).
Notation dec := (dec fmt_ok env).

Definition base_accepts (t : gty) (j : json) : bool :=
  match t, j with
  | TString, JStr _ | TBool, JBool _ | TFloat, JNum _ => true
  | TInt k, JNum n => nlit_int n && Qis_int (nq n) && in_range k (Qfloor_z (nq n))
  | TFmt k, JStr s => fmt_ok k s
  | _, _ => false
  end.
Definition is_base (t : gty) : bool := match t with TString | TBool | TFloat | TInt _ | TFmt _ => true | _ => false end.

(* a scalar Go type rejects every non-null JSON value of another JSON type (and integers reject
   non-integral numbers); for every fuel *)
Theorem dec_base_type f t j : is_base t = true -> j <> JNull -> base_accepts t j = false -> is_ok (dec f t j) = false.
Proof.
  intros Hb Hn Ha. destruct f as [|f]; [reflexivity|].
  destruct t; try discriminate; destruct j; cbn in *; try reflexivity; try congruence; rewrite Ha; reflexivity.
Qed.

(* a slice rejects a non-array, a map or struct a non-object, for every fuel *)
Theorem dec_slice_type f inl e j : j <> JNull -> (forall l, j <> JArr l) -> is_ok (dec f (TSlice inl e) j) = false.
Proof. intros Hn Ha. destruct f; [reflexivity|]. destruct j; cbn; try reflexivity; try congruence; try (exfalso; eapply Ha; reflexivity). Qed.
Theorem dec_map_type f e j : j <> JNull -> (forall kv, j <> JObj kv) -> is_ok (dec f (TMap e) j) = false.
Proof. intros Hn Ha. destruct f; [reflexivity|]. destruct j; cbn; try reflexivity; try congruence; try (exfalso; eapply Ha; reflexivity). Qed.

Lemma plain_fields_type decf zf fs j : j <> JNull -> (forall kv, j <> JObj kv) -> is_ok (plain_fields decf zf fs j) = false.
Proof. intros Hn Ha. destruct j; cbn; try reflexivity; try congruence; try (exfalso; eapply Ha; reflexivity). Qed.

Lemma obind_not_ok {A B} (o : outcome A) (g : A -> outcome B) : is_ok o = false -> is_ok (obind o g) = false.
Proof. destruct o; cbn; congruence. Qed.

Lemma obind_ok_inv {A B} (o : outcome A) (g : A -> outcome B) : is_ok (obind o g) = true -> exists a, o = Ok a /\ is_ok (g a) = true.
Proof. destruct o; cbn; try discriminate. intros H. eauto. Qed.

Theorem dec_struct_type f name fs plan j : j <> JNull -> (forall kv, j <> JObj kv) -> is_ok (dec f (TStruct name fs plan) j) = false.
Proof.
  intros Hn Ha. destruct f; [reflexivity|]. cbn [Exec.dec].
  assert (Hp : forall decf zf, is_ok (plain_fields decf zf fs j) = false) by (intros; apply plain_fields_type; assumption).
  destruct name as [|c name]; [apply Hp|]. destruct plan as [vs|]; [|apply Hp].
  unfold run_method.
  destruct (existsb v_before vs || existsb v_raw_after vs).
  - destruct j; cbn [obind is_ok]; try reflexivity; try congruence; try (exfalso; eapply Ha; reflexivity).
  - cbn [obind]. destruct (run_before _ vs None j); cbn [obind is_ok]; try reflexivity.
    apply obind_not_ok. apply Hp.
Qed.

(* null where the schema allows it: a pointer, slice, map or interface position yields nil *)
Theorem dec_null_nil f t : S f <> 0 -> (match t with TPtr _ | TSlice _ _ | TMap _ | TIface | TNullT => true | _ => false end) = true ->
  dec (S f) t JNull = Ok GNil.
Proof. intros _ H. destruct t; try discriminate; reflexivity. Qed.

(* ------------------------------------------------------------------ a failure inside makes the whole fail *)
Lemma omap_not_ok {A B} (g : A -> outcome B) (l : list A) x : In x l -> is_ok (g x) = false -> is_ok (omap g l) = false.
Proof.
  induction l as [|y r IH]; intros Hin Hx; [contradiction|]. cbn [omap].
  destruct Hin as [->|Hin].
  - apply obind_not_ok; exact Hx.
  - destruct (g y); cbn [obind]; try reflexivity. apply obind_not_ok. apply IH; assumption.
Qed.

Lemma fold_after_stuck dvf raw vs o : is_ok o = false ->
  is_ok (fold_left (fun acc v => obind acc (fun st => after_step dvf raw st v)) vs o) = false.
Proof. revert o. induction vs as [|v r IH]; intros o H; cbn [fold_left]; [exact H|]. apply IH. destruct o; cbn in *; congruence. Qed.

(* [inside t j t' j']: decoding j into t decodes j' into t' on the way (one step) *)
Inductive inside : gty -> json -> gty -> json -> Prop :=
| in_ptr u j : j <> JNull -> inside (TPtr u) j u j
| in_slice inl e l x : In x l -> inside (TSlice inl e) (JArr l) e x
| in_map e kv k x : In (k, x) kv -> inside (TMap e) (JObj kv) e x
| in_field name fs plan kv fl x : In fl fs -> f_addl fl = false -> lookup (f_json fl) kv = Some x ->
    inside (TStruct name fs plan) (JObj kv) (f_ty fl) x
| in_named name u plan j : inside (TNamed name u plan) j u j
| in_enum name c w vals j : inside (TEnum name c w vals) j c j
| in_ref d u j : lookup d env = Some u -> inside (TRef d) j u j.

Lemma plain_fields_inner decf zf fs kv fl x :
  In fl fs -> f_addl fl = false -> lookup (f_json fl) kv = Some x -> is_ok (decf (f_ty fl) x) = false ->
  is_ok (plain_fields decf zf fs (JObj kv)) = false.
Proof.
  intros Hin Ha Hl Hd. cbn [plain_fields]. apply obind_not_ok.
  apply omap_not_ok with (x := fl); [exact Hin|]. rewrite Ha, Hl. apply obind_not_ok. exact Hd.
Qed.

Lemma run_method_inner decf zf dvf fs under vs j :
  is_ok (match fs with Some fl => plain_fields decf zf fl j | None => decf under j end) = false ->
  is_ok (run_method decf zf dvf fs under vs j) = false.
Proof.
  intros H. unfold run_method.
  destruct (if existsb v_before vs || existsb v_raw_after vs then _ else _) as [raw| | |]; cbn [obind is_ok]; try reflexivity.
  destruct (run_before decf vs raw j); cbn [obind is_ok]; try reflexivity.
  apply obind_not_ok. exact H.
Qed.

Theorem inside_fails t j t' j' : inside t j t' j' ->
  (forall f, is_ok (dec f t' j') = false) -> forall f, is_ok (dec f t j) = false.
Proof.
  intros Hin Hinner f. destruct f as [|f]; [reflexivity|].
  destruct Hin; cbn [Exec.dec].
  - destruct j; try congruence; apply obind_not_ok; apply Hinner.
  - apply obind_not_ok. eapply omap_not_ok; eauto.
  - apply obind_not_ok. apply omap_not_ok with (x := (k, x)); [assumption|]. cbn. apply obind_not_ok. apply Hinner.
  - assert (Hp : is_ok (plain_fields (dec f) zero fs (JObj kv)) = false)
      by (eapply plain_fields_inner; eauto).
    destruct name as [|c name]; [exact Hp|]. destruct plan as [vs|]; [|exact Hp].
    apply run_method_inner. exact Hp.
  - destruct plan as [vs|]; [|apply Hinner]. apply run_method_inner. apply Hinner.
  - apply obind_not_ok. apply Hinner.
  - rewrite H. apply Hinner.
Qed.

(* any number of steps: "at every nesting depth" *)
Inductive inside_star : gty -> json -> gty -> json -> Prop :=
| is_refl t j : inside_star t j t j
| is_step t j t1 j1 t2 j2 : inside t j t1 j1 -> inside_star t1 j1 t2 j2 -> inside_star t j t2 j2.

Theorem inside_star_fails t j t' j' : inside_star t j t' j' ->
  (forall f, is_ok (dec f t' j') = false) -> forall f, is_ok (dec f t j) = false.
Proof. induction 1 as [|t j t1 j1 t2 j2 H1 _ IH]; intros H; [exact H|]. eapply inside_fails; eauto. Qed.

(* the struct method: a missing required key, for every fuel *)
Theorem struct_rejects_missing_required f c name fs vs kv k :
  In (VRequired k) vs -> lookup k kv = None -> is_ok (dec f (TStruct (c :: name) fs (Some vs)) (JObj kv)) = false.
Proof. intros Hin Hk. destruct f; [reflexivity|]. cbn [Exec.dec]. apply method_rejects_missing_required with (k := k); assumption. Qed.

(* ------------------------------------------------------------------ enums (C08) *)
Theorem enum_rejects_non_member f name c w vals j :
  (forall f v, dec f c j = Ok v -> existsb (enum_eq c v) vals = false) ->
  is_ok (dec f (TEnum name c w vals) j) = false.
Proof.
  intros H. destruct f; [reflexivity|]. cbn [Exec.dec]. destruct (dec f c j) eqn:E; cbn [obind is_ok]; try reflexivity.
  rewrite (H f a E). reflexivity.
Qed.
Theorem enum_accepts_member f name c vals j v :
  dec f c j = Ok v -> existsb (enum_eq c v) vals = true -> dec (S f) (TEnum name c false vals) j = Ok v.
Proof. intros H1 H2. cbn [Exec.dec]. rewrite H1. cbn [obind]. rewrite H2. reflexivity. Qed.

End Dec.

(* ------------------------------------------------------------------ a validator that rejects the decoded value of its field *)
Lemma lookup_set_field_other n m (v : gval) fs : n <> m -> lookup n (set_field m v fs) = lookup n fs.
Proof.
  intros H. induction fs as [|[k x] r IH]; cbn; [reflexivity|].
  destruct (str_eqb m k) eqn:E1; cbn.
  - apply str_eqb_eq in E1. subst k. destruct (str_eqb n m) eqn:E2; [apply str_eqb_eq in E2; contradiction|reflexivity].
  - destruct (str_eqb n k); [reflexivity|exact IH].
Qed.

Section Reject.
Variable dvf : gty -> json -> option gval.

(* validators never touch another field; a default only fires for a missing or null key *)
Definition touches (fname : str) (v : validator) : bool :=
  match v with VDefault fn _ _ _ => str_eqb fn fname || match fn with [] => true | _ => false end | _ => false end.

Lemma after_step_keeps raw st st' v fname x :
  fname <> [] -> touches fname v = false ->
  after_step dvf raw st v = Ok st' -> get_plain fname st = Some x -> get_plain fname st' = Some x.
Proof.
  intros Hn Ht H Hg. destruct v; cbn [after_step] in H.
  - inversion H; subst; exact Hg.
  - destruct (get_plain fname0 st); try discriminate. destruct (check_null depth g); cbn in H; try discriminate. inversion H; subst; exact Hg.
  - cbn [touches] in Ht. apply orb_false_iff in Ht. destruct Ht as [Ht Ht0]. apply str_eqb_neq in Ht.
    destruct raw as [r|]; try discriminate.
    destruct (match r with None => true | Some kv => match lookup jname kv with None | Some JNull => true | _ => false end end).
    + destruct (dvf ty dv); try discriminate. destruct (set_plain fname0 g st) as [st2|] eqn:ES; try discriminate.
      inversion H; subst st2. clear H.
      destruct fname as [|c n]; [contradiction|]. cbn [get_plain] in *.
      destruct fname0 as [|c0 n0].
      * discriminate Ht0.
      * cbn [set_plain] in ES. destruct st; try discriminate.
        destruct (lookup (c0 :: n0) fs); try discriminate. inversion ES; subst.
        rewrite lookup_set_field_other; [exact Hg|congruence].
    + inversion H; subst; exact Hg.
  - destruct (get_plain fname0 st); try discriminate. destruct (check_array depth mn mx g); cbn in H; try discriminate. inversion H; subst; exact Hg.
  - destruct (get_plain fname0 st) as [[]|], nillable; try discriminate;
      try (inversion H; subst; exact Hg);
      try (destruct (check_string mn mx pattern s); cbn in H; try discriminate; inversion H; subst; exact Hg).
    all: try (destruct v; try discriminate; destruct (check_string mn mx pattern s); cbn in H; try discriminate; inversion H; subst; exact Hg).
    all: destruct v; discriminate.
  - destruct (get_plain fname0 st) as [g|]; try discriminate.
    destruct nillable.
    + destruct g; try discriminate; try (inversion H; subst; exact Hg).
      destruct (num_of g); try discriminate. destruct (accept_numeric _ _ _ _); try discriminate. inversion H; subst; exact Hg.
    + destruct g; try discriminate; cbn in H; destruct (accept_numeric _ _ _ _); try discriminate; inversion H; subst; exact Hg.
  - inversion H; subst; exact Hg.
Qed.

Lemma run_after_rejects raw vs : forall st fname x v,
  fname <> [] -> get_plain fname st = Some x -> In v vs ->
  (forall v', In v' vs -> touches fname v' = false) ->
  (forall st0, get_plain fname st0 = Some x -> is_ok (after_step dvf raw st0 v) = false) ->
  is_ok (run_after dvf vs raw st) = false.
Proof.
  unfold run_after. induction vs as [|v0 r IH]; intros st fname x v Hn Hg Hin Ht Hrej; [contradiction|].
  cbn [fold_left obind].
  destruct (after_step dvf raw st v0) as [st'| | |] eqn:E.
  - destruct Hin as [->|Hin].
    + pose proof (Hrej st Hg) as Hr. rewrite E in Hr. discriminate Hr.
    + apply IH with (fname := fname) (x := x) (v := v); auto.
      * eapply after_step_keeps; eauto. apply Ht. left; reflexivity.
      * intros v' Hv'. apply Ht. right; exact Hv'.
  - apply fold_after_stuck. reflexivity.
  - apply fold_after_stuck. reflexivity.
  - apply fold_after_stuck. reflexivity.
Qed.
End Reject.

Lemma omap_Ok {A B} (g : A -> outcome B) (l : list A) (ys : list B) :
  omap g l = Ok ys -> Forall2 (fun x y => g x = Ok y) l ys.
Proof.
  revert ys. induction l as [|x r IH]; intros ys H; cbn in H.
  - inversion H. constructor.
  - destruct (g x) as [y| | |] eqn:E; cbn in H; try discriminate.
    destruct (omap g r) as [ys'| | |] eqn:E2; cbn in H; try discriminate.
    inversion H; subst. constructor; auto.
Qed.

Lemma plain_fields_state decf zf fs kv fl xj x st :
  NoDup (map f_name fs) -> In fl fs -> f_addl fl = false -> f_name fl <> [] ->
  lookup (f_json fl) kv = Some xj -> decf (f_ty fl) xj = Ok x ->
  plain_fields decf zf fs (JObj kv) = Ok st -> get_plain (f_name fl) st = Some x.
Proof.
  intros Hnd Hin Ha Hn Hl Hd H. cbn [plain_fields] in H.
  destruct (omap _ fs) as [vs| | |] eqn:E; cbn [obind] in H; try discriminate. inversion H; subst st. clear H.
  destruct (f_name fl) as [|c n] eqn:EN; [contradiction|]. cbn [get_plain]. rewrite <- EN.
  pose proof (omap_Ok _ _ _ E) as HF. clear E.
  induction HF as [|f0 p0 fs0 vs0 H0 _ IH]; [contradiction|].
  cbn [map] in Hnd. inversion Hnd as [|? ? Hnotin Hnd']; subst.
  assert (Hp0 : fst p0 = f_name f0).
  { destruct (f_addl f0); [inversion H0; reflexivity|].
    destruct (lookup (f_json f0) kv); [|inversion H0; reflexivity].
    destruct (decf (f_ty f0) j); cbn in H0; try discriminate. inversion H0; reflexivity. }
  destruct Hin as [->|Hin].
  - rewrite Ha, Hl, Hd in H0. cbn in H0. inversion H0; subst p0. cbn [lookup]. rewrite str_eqb_refl. reflexivity.
  - destruct p0 as [k0 v0]. cbn [fst] in Hp0. subst k0. cbn [lookup].
    destruct (str_eqb (f_name fl) (f_name f0)) eqn:EQ.
    + apply str_eqb_eq in EQ. exfalso. apply Hnotin. rewrite <- EQ. exact (List.in_map f_name fs0 fl Hin).
    + apply IH; assumption.
Qed.

(* a struct method never accepts an object in which the decoded value of one of its fields is
   rejected by one of its validators (no default on that field) *)
Theorem method_rejects_field decf zf dvf fs under vs kv fl xj x v :
  NoDup (map f_name fs) -> In fl fs -> f_addl fl = false -> f_name fl <> [] ->
  lookup (f_json fl) kv = Some xj -> decf (f_ty fl) xj = Ok x ->
  In v vs -> (forall v', In v' vs -> touches (f_name fl) v' = false) ->
  (forall raw st0, get_plain (f_name fl) st0 = Some x -> is_ok (after_step dvf raw st0 v) = false) ->
  is_ok (run_method decf zf dvf (Some fs) under vs (JObj kv)) = false.
Proof.
  intros Hnd Hin Ha Hn Hl Hd Hv Ht Hrej. unfold run_method.
  destruct (if existsb v_before vs || existsb v_raw_after vs then _ else _) as [raw| | |]; cbn [obind is_ok]; try reflexivity.
  destruct (run_before decf vs raw (JObj kv)); cbn [obind is_ok]; try reflexivity.
  destruct (plain_fields decf zf fs (JObj kv)) as [st| | |] eqn:EP; cbn [obind is_ok]; try reflexivity.
  apply obind_not_ok.
  eapply run_after_rejects with (fname := f_name fl) (x := x) (v := v); eauto.
  eapply plain_fields_state; eauto.
Qed.

(* an absent or null array is never checked *)
Lemma varray_nil dvf raw st fname jname depth mn mx :
  depth <> 0 -> get_plain fname st = Some GNil -> after_step dvf raw st (VArray fname jname depth mn mx) = Ok st.
Proof. intros Hd H. cbn [after_step]. rewrite H. destruct depth as [|[|d]]; [contradiction| |]; reflexivity. Qed.

Lemma varray_value dvf raw st fname jname depth mn mx v :
  depth <> 0 -> get_plain fname st = Some v -> slice_shaped depth v = true ->
  after_step dvf raw st (VArray fname jname depth mn mx) = if levels_ok depth mn mx v then Ok st else Err.
Proof. intros Hd H Hs. cbn [after_step]. rewrite H, check_array_exact by assumption. destruct (levels_ok depth mn mx v); reflexivity. Qed.

(* ------------------------------------------------------------------ values are decoded without loss (C02) *)
Section Lossless.
Variable fmt_ok : fmtk -> str -> bool.
Variable env : list (str * gty).
Notation dec := (Exec.dec fmt_ok env).
Lemma dec_string_lossless f s : dec (S f) TString (JStr s) = Ok (GS s).
Proof. reflexivity. Qed.
Lemma dec_bool_lossless f b : dec (S f) TBool (JBool b) = Ok (GB b).
Proof. reflexivity. Qed.
Lemma dec_float_lossless f n : dec (S f) TFloat (JNum n) = Ok (GF (nq n)).
Proof. reflexivity. Qed.
Lemma dec_int_lossless f k z : in_range k z = true -> dec (S f) (TInt k) (JInt z) = Ok (GI z).
Proof. intros H. cbn. unfold Qis_int, Qfloor_z; cbn. rewrite Z.rem_1_r, Z.div_1_r, H. reflexivity. Qed.
Lemma dec_fmt_lossless f k s : fmt_ok k s = true -> dec (S f) (TFmt k) (JStr s) = Ok (GFm (Some s)).
Proof. intros H. cbn. rewrite H. reflexivity. Qed.
Lemma dec_iface_lossless f j : j <> JNull -> dec (S f) TIface j = Ok (GJ j).
Proof. intros H. destruct j; try reflexivity. congruence. Qed.
Lemma dec_ptr_lossless f u j v : j <> JNull -> dec f u j = Ok v -> dec (S f) (TPtr u) j = Ok (GP v).
Proof. intros H E. cbn. destruct j; try congruence; rewrite E; reflexivity. Qed.

(* a field is bound to its exact key: the decoded struct holds, under the field's name, the decoded value of that key *)
Lemma field_binding decf zf fs kv fl xj x st :
  NoDup (map f_name fs) -> In fl fs -> f_addl fl = false -> f_name fl <> [] ->
  lookup (f_json fl) kv = Some xj -> decf (f_ty fl) xj = Ok x ->
  plain_fields decf zf fs (JObj kv) = Ok st -> get_plain (f_name fl) st = Some x.
Proof. apply plain_fields_state. Qed.

(* the all-or-nothing shape of a method: the receiver is assigned once, last, from a local value *)
Definition unmarshal_into (dest : gval) (f : nat) (t : gty) (j : json) : gval * bool :=
  match dec f t j with Ok v => (v, true) | _ => (dest, false) end.
Lemma unmarshal_into_atomic dest f t j : snd (unmarshal_into dest f t j) = false -> fst (unmarshal_into dest f t j) = dest.
Proof. unfold unmarshal_into. destruct (dec f t j); cbn; congruence. Qed.
End Lossless.

(* ------------------------------------------------------------------ the method layout is shared by the two formats (C17) *)
(* yaml_formatter.go and json_formatter.go emit the same sequence (raw map, before-validators, typed
   decode into the shadow type, after-validators, additional-properties block, assignment); they
   differ only in the library call that decodes a component.  With decoders that agree, the methods agree. *)
Lemma omap_ext {A B} (g g' : A -> outcome B) (l : list A) : (forall x, g x = g' x) -> omap g l = omap g' l.
Proof. intros H. induction l as [|x r IH]; cbn; [reflexivity|]. rewrite H, IH. reflexivity. Qed.

Lemma plain_fields_ext decf decf' zf fs j : (forall t x, decf t x = decf' t x) -> plain_fields decf zf fs j = plain_fields decf' zf fs j.
Proof.
  intros H. destruct j; try reflexivity. cbn [plain_fields]. f_equal.
  apply omap_ext. intros fl. destruct (f_addl fl); [reflexivity|]. destruct (lookup (f_json fl) kv); [|reflexivity]. rewrite H. reflexivity.
Qed.

Lemma before_step_ext decf decf' raw j v : (forall t x, decf t x = decf' t x) -> before_step decf raw j v = before_step decf' raw j v.
Proof. intros H. destruct v; try reflexivity. cbn [before_step]. rewrite (map_ext _ _ (fun bt => H bt j)). reflexivity. Qed.

Lemma run_before_ext decf decf' vs raw j : (forall t x, decf t x = decf' t x) -> run_before decf vs raw j = run_before decf' vs raw j.
Proof.
  intros H. unfold run_before. generalize (Ok tt : outcome unit). induction vs as [|v r IH]; intros o; cbn [fold_left]; [reflexivity|].
  rewrite IH. f_equal. destruct o; cbn; try reflexivity. apply before_step_ext. exact H.
Qed.

Theorem run_method_ext decf decf' zf dvf fs under vs j :
  (forall t x, decf t x = decf' t x) -> run_method decf zf dvf fs under vs j = run_method decf' zf dvf fs under vs j.
Proof.
  intros H. unfold run_method.
  destruct (if existsb v_before vs || existsb v_raw_after vs then _ else _) as [raw| | |]; cbn [obind]; try reflexivity.
  rewrite (run_before_ext decf decf') by exact H.
  destruct (run_before decf' vs raw j); cbn [obind]; try reflexivity.
  destruct fs as [fl|]; [rewrite (plain_fields_ext decf decf') by exact H; reflexivity|]. rewrite H. reflexivity.
Qed.

(* ------------------------------------------------------------------ references are transparent at run time (C10) *)
Lemma dec_ref_transparent fmt_ok env f d u j : lookup d env = Some u -> Exec.dec fmt_ok env (S f) (TRef d) j = Exec.dec fmt_ok env f u j.
Proof. intros H. cbn [Exec.dec]. rewrite H. reflexivity. Qed.

(* ------------------------------------------------------------------ anyOf is disjunction over the branch types (C11) *)
Lemma existsb_map_false {A B} (f : A -> B) (p : B -> bool) (l : list A) : (forall x, In x l -> p (f x) = false) -> existsb p (map f l) = false.
Proof.
  induction l as [|a r IH]; intros H; cbn; [reflexivity|]. rewrite (H a (or_introl eq_refl)). cbn. apply IH. intros x Hx. apply H. right; exact Hx.
Qed.

Lemma existsb_map' {A B} (f : A -> B) (p : B -> bool) (l : list A) : existsb p (map f l) = existsb (fun x => p (f x)) l.
Proof. induction l as [|a r IH]; cbn; [reflexivity|]. rewrite IH. reflexivity. Qed.

Lemma anyof_step decf raw j branches :
  (forall bt, In bt branches -> decf bt j <> Crash /\ decf bt j <> NoFuel) ->
  before_step decf raw j (VAnyOf branches) = if existsb (fun bt => is_ok (decf bt j)) branches then Ok tt else Err.
Proof.
  intros H. cbn [before_step].
  rewrite (existsb_map_false (fun bt => decf bt j) (fun r => match r with Crash => true | _ => false end)).
  2: { intros x Hx. destruct (H x Hx) as [Hc _]. destruct (decf x j); try reflexivity. congruence. }
  rewrite (existsb_map_false (fun bt => decf bt j) (fun r => match r with NoFuel => true | _ => false end)).
  2: { intros x Hx. destruct (H x Hx) as [_ Hn]. destruct (decf x j); try reflexivity. congruence. }
  rewrite existsb_map'. unfold is_ok. destruct (existsb _ branches); reflexivity.
Qed.
