(* Defaults and checks in one method (C09 + C02): for a validator list in which the default of a field comes before the checks of that field
   (the order of emission: VDefault f first, then the checks on f), the validators that run after the typed decode succeed iff every check
   passes on the DEFAULTED value, and the result is the decoded struct with the defaults in place. *)
From GJS Require Import Base Bounds Regex Schema GoType Exec ExecP MethodP DefaultsP.

Section DC.
Variable dvf : gty -> json -> option gval.
Notation check_only := MethodP.check_only.

(* the field a validator reads or writes *)
Definition vfield (v : validator) : str :=
  match v with
  | VNullType f _ _ | VDefault f _ _ _ | VArray f _ _ _ _ | VString f _ _ _ _ _ | VNumeric f _ _ _ _ _ => f
  | _ => []
  end.

(* the effect of the defaults of a list on the decoded fields, as a pure function *)
Definition dstep (raw : raw_t) (flds : list (str * gval)) (v : validator) : list (str * gval) :=
  match v with
  | VDefault f j ty dv => if raw_missing raw j then match dvf ty dv with Some d => set_field f d flds | None => flds end else flds
  | _ => flds
  end.
Definition final (raw : raw_t) (vs : list validator) (flds : list (str * gval)) : list (str * gval) := fold_left (dstep raw) vs flds.

(* a check looks at its own field only *)
Lemma check_reads_own_field raw v flds1 flds2 : check_only v = true -> vfield v <> [] ->
  lookup (vfield v) flds1 = lookup (vfield v) flds2 ->
  is_ok (after_step dvf raw (GSt flds1) v) = is_ok (after_step dvf raw (GSt flds2) v).
Proof.
  intros Hc Hn Hl. destruct v; cbn [check_only] in Hc; try discriminate; cbn [vfield] in Hn, Hl; cbn [after_step].
  - reflexivity.
  - destruct fname as [|c0 n0]; [contradiction|]. cbn [get_plain]. rewrite Hl. destruct (lookup (c0 :: n0) flds2); [|reflexivity]. destruct (check_null depth g); reflexivity.
  - destruct fname as [|c0 n0]; [contradiction|]. cbn [get_plain]. rewrite Hl. destruct (lookup (c0 :: n0) flds2); [|reflexivity]. destruct (check_array depth mn mx g); reflexivity.
  - destruct fname as [|c0 n0]; [contradiction|]. cbn [get_plain]. rewrite Hl. destruct (lookup (c0 :: n0) flds2) as [g|]; [|reflexivity].
    destruct g, nillable; try reflexivity; try (destruct (check_string mn mx pattern s); reflexivity).
    destruct g; try reflexivity. destruct (check_string mn mx pattern s); reflexivity.
  - destruct fname as [|c0 n0]; [contradiction|]. cbn [get_plain]. rewrite Hl. destruct (lookup (c0 :: n0) flds2) as [g|]; [|reflexivity].
    destruct g, nillable; try reflexivity;
      repeat match goal with
             | |- context [num_of ?y] => destruct (num_of y)
             | |- context [accept_numeric ?a ?b ?c ?d] => destruct (accept_numeric a b c d)
             | |- context [match ?g0 with GNil => _ | _ => _ end] => destruct g0
             end; reflexivity.
Qed.

(* defaults that come later and concern other fields do not change a field *)
Lemma final_keeps raw f : forall vs flds, (forall v, In v vs -> dname v <> f) -> lookup f (final raw vs flds) = lookup f flds.
Proof.
  induction vs as [|v r IH]; intros flds H; [reflexivity|]. unfold final. cbn [fold_left]. fold (final raw r (dstep raw flds v)).
  rewrite IH by (intros w Hw; apply H; right; exact Hw).
  destruct v; cbn [dstep]; try reflexivity.
  destruct (raw_missing raw jname); [|reflexivity]. destruct (dvf ty dv); [|reflexivity].
  apply lookup_set_field_other. intros ->. apply (H (VDefault fname jname ty dv) (or_introl eq_refl)). reflexivity.
Qed.

(* well-formed lists: defaults over existing named fields with literals that fit, and checks; the default of a field never after a check of it *)
Definition wf_v (keys : list str) (v : validator) : Prop :=
  (exists f j ty dv d, v = VDefault f j ty dv /\ f <> [] /\ In f keys /\ dvf ty dv = Some d) \/
  (check_only v = true /\ (vfield v <> [] \/ exists k, v = VRequired k)).
Inductive ordered : list validator -> Prop :=
| o_nil : ordered []
| o_default f j ty dv r : ordered r -> ordered (VDefault f j ty dv :: r)
| o_check v r : check_only v = true -> (forall w, In w r -> dname w <> vfield v \/ vfield v = []) -> ordered r -> ordered (v :: r).

Lemma set_field_keys n (v : gval) fs : map fst (set_field n v fs) = map fst fs.
Proof. induction fs as [|[k x] r IH]; [reflexivity|]. cbn [set_field]. destruct (str_eqb n k); cbn [map fst]; [reflexivity|]. rewrite IH. reflexivity. Qed.

Lemma dstep_keys raw flds v : map fst (dstep raw flds v) = map fst flds.
Proof. destruct v; cbn [dstep]; try reflexivity. destruct (raw_missing raw jname); [|reflexivity]. destruct (dvf ty dv); [apply set_field_keys|reflexivity]. Qed.

Lemma run_after_stuck raw vs (o : outcome gval) : is_ok o = false -> is_ok (fold_left (fun acc v => obind acc (fun st => after_step dvf raw st v)) vs o) = false.
Proof. revert o. induction vs as [|v r IH]; intros o H; [exact H|]. cbn [fold_left]. apply IH. destruct o; cbn [obind]; try reflexivity. discriminate. Qed.
Definition passes (raw : raw_t) (fin : list (str * gval)) (v : validator) : bool := negb (check_only v) || is_ok (after_step dvf raw (GSt fin) v).

Theorem defaults_then_checks raw : raw <> None -> forall vs flds, Forall (wf_v (map fst flds)) vs -> ordered vs ->
  is_ok (run_after dvf vs raw (GSt flds)) = forallb (passes raw (final raw vs flds)) vs /\
  (is_ok (run_after dvf vs raw (GSt flds)) = true -> run_after dvf vs raw (GSt flds) = Ok (GSt (final raw vs flds))).
Proof.
  intros Hraw. induction vs as [|v r IH]; intros flds Hwf Hord; [split; reflexivity|].
  inversion Hwf as [|v0 r0 Hv Hr]; subst. unfold run_after, final. cbn [fold_left forallb obind]. fold (final raw r (dstep raw flds v)).
  destruct Hv as [(f & j & ty & dv & d & -> & Hf & Hin & Hd)|[Hc Hshape]].
  - (* a default *)
    assert (Hstep : after_step dvf raw (GSt flds) (VDefault f j ty dv) = Ok (GSt (dstep raw flds (VDefault f j ty dv)))).
    { cbn [dstep]. destruct (raw_missing raw j) eqn:Hm.
      - rewrite Hd. destruct (lookup_in_keys f flds Hin) as [x Hx].
        apply (vdefault_applies dvf raw (GSt flds) f j ty dv d _ Hraw Hm Hd). destruct f as [|c0 n0]; [contradiction|]. cbn [set_plain]. rewrite Hx. reflexivity.
      - exact (vdefault_present dvf raw (GSt flds) f j ty dv Hraw Hm). }
    rewrite Hstep. cbn [obind]. unfold passes at 1. cbn [MethodP.check_only negb orb andb].
    inversion Hord as [|f0 j0 ty0 dv0 r0 Hor|v0 r0 Hc0 _ _]; subst; [|cbn [MethodP.check_only] in Hc0; discriminate].
    apply (IH (dstep raw flds (VDefault f j ty dv))); [|exact Hor]. rewrite dstep_keys. exact Hr.
  - (* a check *)
    assert (Hd : dstep raw flds v = flds) by (destruct v; cbn [MethodP.check_only] in Hc; try discriminate; reflexivity).
    rewrite Hd. inversion Hord as [|f0 j0 ty0 dv0 r0 Hor|v0 r0 _ Hlater Hor]; subst; [cbn [MethodP.check_only] in Hc; discriminate|].
    assert (Hsame : is_ok (after_step dvf raw (GSt flds) v) = is_ok (after_step dvf raw (GSt (final raw r flds)) v)).
    { destruct Hshape as [E|[k ->]]; [|reflexivity].
      apply check_reads_own_field; [exact Hc|exact E|]. symmetry. apply final_keeps. intros w Hw. destruct (Hlater w Hw) as [H|H]; [exact H|contradiction]. }
    unfold passes at 1. rewrite Hc. cbn [negb orb]. rewrite <- Hsame.
    destruct (after_step dvf raw (GSt flds) v) as [st'| | |] eqn:E.
    + rewrite (after_step_same dvf raw (GSt flds) v st' Hc E). cbn [obind is_ok andb]. exact (IH flds Hr Hor).
    + cbn [obind is_ok andb]. split; [apply fold_after_stuck; reflexivity|]. intros H. rewrite fold_after_stuck in H by reflexivity. discriminate.
    + cbn [obind is_ok andb]. split; [apply fold_after_stuck; reflexivity|]. intros H. rewrite fold_after_stuck in H by reflexivity. discriminate.
    + cbn [obind is_ok andb]. split; [apply fold_after_stuck; reflexivity|]. intros H. rewrite fold_after_stuck in H by reflexivity. discriminate.
Qed.
End DC.

(* ---------- the whole struct method: presence checks, typed decode, defaults and checks ---------- *)
Section DCMethod.
Variable decf : gty -> json -> outcome gval.
Variable zf : gty -> gval.
Variable dvf : gty -> json -> option gval.

Definition present (kv : list (str * json)) (v : validator) : bool :=
  match v with VRequired k => match lookup k kv with Some _ => true | None => false end | _ => true end.

Lemma run_before_wf keys vs kv j : Forall (wf_v dvf keys) vs ->
  run_before decf vs (Some (Some kv)) j = if forallb (present kv) vs then Ok tt else Err.
Proof.
  unfold run_before. intros H. induction H as [|v r Hv _ IH]; [reflexivity|].
  cbn [fold_left forallb obind].
  assert (Hb : before_step decf (Some (Some kv)) j v = if present kv v then Ok tt else Err).
  { destruct Hv as [(f & j0 & ty & dv & d & -> & _)|[Hc _]]; [reflexivity|].
    destruct v; cbn [MethodP.check_only] in Hc; try discriminate; cbn [before_step present]; try reflexivity.
    destruct (lookup jname kv); reflexivity. }
  rewrite Hb. destruct (present kv v); cbn [andb]; [exact IH|].
  clear. induction r as [|w r IH]; [reflexivity|]. cbn [fold_left obind]. exact IH.
Qed.

(* accepted iff every required key is present and every check passes on the defaulted decode; the value is the defaulted decode *)
Theorem method_defaults_checks fs under vs kv flds :
  find f_addl fs = None -> plain_fields decf zf fs (JObj kv) = Ok (GSt flds) ->
  Forall (wf_v dvf (map fst flds)) vs -> ordered vs -> existsb v_before vs || existsb v_raw_after vs = true ->
  let fin := final dvf (Some (Some kv)) vs flds in
  is_ok (run_method decf zf dvf (Some fs) under vs (JObj kv)) = forallb (present kv) vs && forallb (passes dvf (Some (Some kv)) fin) vs /\
  (is_ok (run_method decf zf dvf (Some fs) under vs (JObj kv)) = true -> run_method decf zf dvf (Some fs) under vs (JObj kv) = Ok (GSt fin)).
Proof.
  intros Ha Hp Hwf Hord Hraw fin. unfold run_method. rewrite Hraw. cbn [obind].
  rewrite (run_before_wf (map fst flds) vs kv (JObj kv) Hwf).
  destruct (forallb (present kv) vs); cbn [obind andb is_ok]; [|split; [reflexivity|discriminate]].
  rewrite Hp. cbn [obind].
  destruct (defaults_then_checks dvf (Some (Some kv)) (fun E => ltac:(discriminate E)) vs flds Hwf Hord) as [H1 H2]. fold fin in H1, H2.
  destruct (run_after dvf vs (Some (Some kv)) (GSt flds)) as [st'| | |] eqn:E; cbn [obind is_ok] in *.
  - specialize (H2 eq_refl). inversion H2; subst st'. unfold addl_block. rewrite Ha. cbn [is_ok]. split; [exact H1|reflexivity].
  - split; [exact H1|discriminate].
  - split; [exact H1|discriminate].
  - split; [exact H1|discriminate].
Qed.
End DCMethod.

(* non-vacuity: fields a (required, minLength 2) and b (default "y", maxLength 3); documents {"a": "zz"} (accepted, b = "y"), {"a": "z"}, {} (rejected),
   {"a": "zz", "b": "long!"} (rejected: the present value is checked, not the default) *)
Example defaults_checks_inhabited :
  let fs := [mkField [65]%N [97]%N false TString None false; mkField [66]%N [98]%N true TString (Some (JStr [121]%N)) false] in
  let vs := [VRequired [97]%N; VString [65]%N [97]%N false 2 0 None; VDefault [66]%N [98]%N TString (JStr [121]%N); VString [66]%N [98]%N false 0 3 None] in
  let run kv := run_method (dec (fun _ _ => true) [] 3) zero (default_val [] 3) (Some fs) TString vs (JObj kv) in
  ordered vs /\
  run [([97]%N, JStr [122; 122]%N)] = Ok (GSt [([65]%N, GS [122; 122]%N); ([66]%N, GS [121]%N)]) /\
  is_ok (run [([97]%N, JStr [122]%N)]) = false /\ is_ok (run []) = false /\
  is_ok (run [([97]%N, JStr [122; 122]%N); ([98]%N, JStr [108; 111; 110; 103; 33]%N)]) = false.
Proof.
  cbn zeta. split.
  - apply o_check; [reflexivity|intros w Hw; right; reflexivity|].
    apply o_check; [reflexivity| |].
    + intros w [<-|[<-|[]]]; left; discriminate.
    + apply o_default. apply o_check; [reflexivity|intros w []|apply o_nil].
  - vm_compute. repeat split; reflexivity.
Qed.


(* ---------- the generator emits every object's validators in that order: for EVERY object schema `gen` handles (any property types) the default of a
   field comes before the checks of that field, and no default of a field comes after a check of it ---------- *)
From GJS Require Import Ident Gen GenP.

Definition own (fn : str) (w : validator) : Prop := MethodP.check_only w = true /\ vfield w = fn.

Lemma array_validators_own fn jn mn mx : forall t d, Forall (own fn) (array_validators fn jn mn mx d t).
Proof.
  fix IH 1. intros t d. destruct t as [| | | | | | |?|inl e|?|? ? ?|? ? ?|? ? ? ?|?]; try constructor.
  destruct inl; [|constructor]. pose proof (IH e (S d)) as IHe. clear IH.
  destruct e; cbn [array_validators]; try (constructor; [split; reflexivity|constructor]);
    (apply Forall_app; split; [destruct (negb (mn =? 0)%nat || negb (mx =? 0)%nat); [constructor; [split; reflexivity|constructor]|constructor] | first [exact IHe | constructor]]).
Qed.

Lemma field_validators_own fn jn c b : forall t nl, Forall (own fn) (field_validators fn jn c b t nl).
Proof.
  fix IH 1. intros t nl. destruct t as [| | | | | | |u|inl e|?|? ? ?|? ? ?|? ? ? ?|?]; cbn [field_validators]; try constructor.
  - destruct (has_string_kw c); [constructor; [split; reflexivity|constructor]|constructor].
  - destruct (has_bound_kw (c_mult c) b); [constructor; [split; reflexivity|constructor]|constructor].
  - destruct (has_bound_kw (c_mult c) b); [constructor; [split; reflexivity|constructor]|constructor].
  - split; reflexivity.
  - constructor.
  - exact (IH u true).
  - destruct inl; [|constructor]. apply array_validators_own.
Qed.

(* the shape of one field's validators: an optional default of the field, then checks of the field *)
Definition block (i : finfo) : Prop :=
  let fn := f_name (fst (fst i)) in
  exists cs, Forall (own fn) cs /\ (snd i = cs \/ exists j ty dv, snd i = VDefault fn j ty dv :: cs).

Lemma make_field_block defs c self fname k p ty bp : block (make_field defs c self fname k p ty bp).
Proof.
  unfold block, make_field. destruct (c_default (s_con p)) as [dv|].
  - cbn [fst snd f_name]. eexists. split; [apply field_validators_own|]. right. eexists. eexists. eexists. reflexivity.
  - destruct (mem k (c_required c)).
    + cbn [fst snd f_name]. eexists. split; [apply field_validators_own|]. left. reflexivity.
    + cbn [fst snd f_name]. eexists. split; [apply field_validators_own|]. left. reflexivity.
Qed.

Lemma dname_check w : MethodP.check_only w = true -> dname w = [].
Proof. destruct w; cbn [MethodP.check_only dname]; try reflexivity; discriminate. Qed.

Lemma ordered_checks fn cs rest : Forall (own fn) cs -> (forall w, In w rest -> dname w <> fn \/ fn = []) -> ordered rest -> ordered (cs ++ rest).
Proof.
  intros H Hrest Hor. induction H as [|v r [Hc Hf] Hr IH]; [exact Hor|]. cbn [app]. apply o_check; [exact Hc| |exact IH].
  intros w Hw. rewrite Hf. apply in_app_or in Hw. destruct Hw as [Hw|Hw]; [|exact (Hrest w Hw)].
  rewrite Forall_forall in Hr. destruct (Hr w Hw) as [Hcw _]. rewrite (dname_check w Hcw).
  destruct fn as [|c0 n0]; [right; reflexivity|left; discriminate].
Qed.

(* the validators of a list of field blocks over distinct field names *)
Lemma ordered_blocks : forall infos, Forall block infos -> NoDup (map (fun i : finfo => f_name (fst (fst i))) infos) ->
  ordered (flat_map (fun i : finfo => snd i) infos) /\
  (forall w, In w (flat_map (fun i : finfo => snd i) infos) -> dname w = [] \/ In (dname w) (map (fun i : finfo => f_name (fst (fst i))) infos)).
Proof.
  induction infos as [|i r IH]; intros Hb Nd; [split; [apply o_nil|intros w []]|].
  inversion Hb as [|i0 r0 Hi Hr]; subst. inversion Nd as [|n0 l0 Hnotin Nd']; subst. destruct (IH Hr Nd') as [IHo IHn]. clear IH.
  cbn [flat_map map]. destruct Hi as (cs & Hcs & Hshape).
  assert (Hrest : forall w, In w (flat_map (fun i : finfo => snd i) r) -> dname w <> f_name (fst (fst i)) \/ f_name (fst (fst i)) = []).
  { intros w Hw. destruct (IHn w Hw) as [E|Hin].
    - rewrite E. destruct (f_name (fst (fst i))) as [|c0 n0]; [right; reflexivity|left; discriminate].
    - left. intros E. apply Hnotin. rewrite <- E. exact Hin. }
  assert (Hcsn : forall w, In w cs -> dname w = []).
  { intros w Hw. rewrite Forall_forall in Hcs. destruct (Hcs w Hw) as [Hc _]. exact (dname_check w Hc). }
  destruct Hshape as [-> | (j & ty & dv & ->)].
  - split; [apply (ordered_checks (f_name (fst (fst i)))); assumption|].
    intros w Hw. apply in_app_or in Hw. destruct Hw as [Hw|Hw]; [left; exact (Hcsn w Hw)|].
    destruct (IHn w Hw) as [E|Hin]; [left; exact E|right; right; exact Hin].
  - cbn [app]. split; [apply o_default; apply (ordered_checks (f_name (fst (fst i)))); assumption|].
    intros w [<-|Hw]; [right; left; reflexivity|].
    apply in_app_or in Hw. destruct Hw as [Hw|Hw]; [left; exact (Hcsn w Hw)|].
    destruct (IHn w Hw) as [E|Hin]; [left; exact E|right; right; exact Hin].
Qed.

Lemma ordered_required ks rest : ordered rest -> ordered (map VRequired ks ++ rest).
Proof. intros H. induction ks as [|k r IH]; [exact H|]. cbn [map app]. apply o_check; [reflexivity|intros w _; right; reflexivity|exact IH]. Qed.

Section GenOrder.
Variable idf : str -> str.
Variable cf : cfg.
Variable defs : list (str * schema).

Theorem object_method_ordered f self sub s scope fs vs b :
  plain_object s -> s_addl s = None -> NoDup (map fst (prop_names idf (s_props s))) ->
  Gen.gen idf cf defs (S f) MType self sub s scope = Done (TStruct [] fs (Some vs), b) -> ordered vs.
Proof.
  intros Hp Ha Nn Hg. destruct (gen_type_object idf cf defs f self sub s scope _ b Hp Hg) as [infos [H1 H2]].
  assert (Hinfos : Forall2 (fun np i => block i /\ f_name (fst (fst i)) = fst np) (prop_names idf (s_props s)) infos).
  { apply rmap_Done in H1. clear H2 Hg Nn. set (nps := prop_names idf (s_props s)) in *. clearbody nps.
    induction H1 as [|np i l1 l2 Hnp _ IH]; [constructor|]. constructor; [|exact IH].
    destruct np as [fname [k p]]. unfold gen_field in Hnp.
    destruct (Gen.gen idf cf defs f MInline self false p (scope ++ fname)) as [[ty bp]| | |]; cbn [rbind fst snd] in Hnp; try discriminate.
    inversion Hnp; subst. split; [apply make_field_block|].
    unfold make_field. destruct (c_default (s_con p)); [reflexivity|]. destruct (mem k (c_required (s_con s))); reflexivity. }
  unfold build_struct in H2. rewrite Ha in H2. inversion H2; subst. clear H2.
  assert (Hb : Forall block infos) by (clear -Hinfos; induction Hinfos as [|np i l1 l2 [Hbk _] _ IH]; constructor; assumption).
  assert (Hnames : map (fun i : finfo => f_name (fst (fst i))) infos = map fst (prop_names idf (s_props s))).
  { clear -Hinfos. induction Hinfos as [|np i l1 l2 [_ Hn] _ IH]; [reflexivity|]. cbn [map]. rewrite Hn, IH. reflexivity. }
  destruct (ordered_blocks infos Hb) as [Hord _]; [rewrite Hnames; exact Nn|].
  assert (Hreq : exists ks, flat_map (fun i : finfo => if snd (fst i) then [VRequired (f_json (fst (fst i)))] else []) infos = map VRequired ks).
  { clear. induction infos as [|i r [ks IH]]; [exists []; reflexivity|]. cbn [flat_map]. destruct (snd (fst i)).
    - exists (f_json (fst (fst i)) :: ks). cbn [map app]. rewrite IH. reflexivity.
    - exists ks. exact IH. }
  destruct Hreq as [ks ->]. apply ordered_required. exact Hord.
Qed.

(* ... and they are well-formed in the sense of [method_defaults_checks], given that the field names are non-empty and the default literals fit their
   fields (the residue of C19_generated_wf): so the statement about defaults and checks applies to every generated object method *)
Lemma wf_blocks dvf keys : forall infos, Forall block infos ->
  (forall i, In i infos -> f_name (fst (fst i)) <> [] /\ In (f_name (fst (fst i))) keys) ->
  (forall fn j ty dv, In (VDefault fn j ty dv) (flat_map (fun i : finfo => snd i) infos) -> exists d, dvf ty dv = Some d) ->
  Forall (wf_v dvf keys) (flat_map (fun i : finfo => snd i) infos).
Proof.
  induction infos as [|i r IH]; intros Hb Hk Hfit; [constructor|].
  inversion Hb as [|i0 r0 Hi Hr]; subst. cbn [flat_map]. apply Forall_app. split.
  - destruct (Hk i (or_introl eq_refl)) as [Hnn Hin]. destruct Hi as (cs & Hcs & Hshape).
    assert (Hchecks : Forall (wf_v dvf keys) cs).
    { eapply Forall_impl; [|exact Hcs]. intros w [Hc Hf]. right. split; [exact Hc|]. left. rewrite Hf. exact Hnn. }
    destruct Hshape as [E | (j & ty & dv & E)]; rewrite E; [exact Hchecks|].
    constructor; [|exact Hchecks]. left.
    destruct (Hfit (f_name (fst (fst i))) j ty dv) as [d Hd]; [cbn [flat_map]; apply in_or_app; left; rewrite E; left; reflexivity|].
    exists (f_name (fst (fst i))), j, ty, dv, d. repeat split; assumption.
  - apply IH; [exact Hr| |].
    + intros i1 Hi1. apply Hk. right. exact Hi1.
    + intros fn j ty dv Hin. apply (Hfit fn j ty dv). cbn [flat_map]. apply in_or_app. right. exact Hin.
Qed.

Lemma wf_required dvf keys ks : Forall (wf_v dvf keys) (map VRequired ks).
Proof. induction ks as [|k r IH]; [constructor|]. cbn [map]. constructor; [|exact IH]. right. split; [reflexivity|]. right. exists k. reflexivity. Qed.

Theorem object_method_wf dvf f self sub s scope fs vs b :
  plain_object s -> s_addl s = None -> (forall fname kp, In (fname, kp) (prop_names idf (s_props s)) -> fname <> []) ->
  (forall fn j ty dv, In (VDefault fn j ty dv) vs -> exists d, dvf ty dv = Some d) ->
  Gen.gen idf cf defs (S f) MType self sub s scope = Done (TStruct [] fs (Some vs), b) ->
  Forall (wf_v dvf (map f_name fs)) vs /\ find f_addl fs = None.
Proof.
  intros Hp Ha Hne Hfit Hg. destruct (gen_type_object idf cf defs f self sub s scope _ b Hp Hg) as [infos [H1 H2]].
  assert (Hinfos : Forall2 (fun np i => block i /\ f_name (fst (fst i)) = fst np /\ f_addl (fst (fst i)) = false) (prop_names idf (s_props s)) infos).
  { apply rmap_Done in H1. clear H2 Hg Hfit Hne. set (nps := prop_names idf (s_props s)) in *. clearbody nps.
    induction H1 as [|np i l1 l2 Hnp _ IH]; [constructor|]. constructor; [|exact IH].
    destruct np as [fname [k p]]. unfold gen_field in Hnp.
    destruct (Gen.gen idf cf defs f MInline self false p (scope ++ fname)) as [[ty bp]| | |]; cbn [rbind fst snd] in Hnp; try discriminate.
    inversion Hnp; subst. split; [apply make_field_block|].
    unfold make_field. destruct (c_default (s_con p)); [split; reflexivity|]. destruct (mem k (c_required (s_con s))); split; reflexivity. }
  unfold build_struct in H2. rewrite Ha in H2. inversion H2; subst. clear H2.
  assert (Hb : Forall block infos) by (clear -Hinfos; induction Hinfos as [|np i l1 l2 (Hbk & _) _ IH]; constructor; assumption).
  assert (Hnn : forall i, In i infos -> f_name (fst (fst i)) <> []).
  { intros i Hi. clear -Hinfos Hne Hi. induction Hinfos as [|np i0 l1 l2 (_ & Hn & _) _ IH]; [destruct Hi|].
    destruct Hi as [<-|Hi].
    - rewrite Hn. destruct np as [fname kp]. apply (Hne fname kp). left. reflexivity.
    - apply IH; [|exact Hi]. intros fname kp Hin. apply (Hne fname kp). right. exact Hin. }
  split.
  - assert (Hreq : exists ks, flat_map (fun i : finfo => if snd (fst i) then [VRequired (f_json (fst (fst i)))] else []) infos = map VRequired ks).
    { clear. induction infos as [|i r [ks IH]]; [exists []; reflexivity|]. cbn [flat_map]. destruct (snd (fst i)).
      - exists (f_json (fst (fst i)) :: ks). cbn [map app]. rewrite IH. reflexivity.
      - exists ks. exact IH. }
    destruct Hreq as [ks Hks]. rewrite Hks in *. apply Forall_app. split; [apply wf_required|].
    apply wf_blocks; [exact Hb| |].
    + intros i Hi. split; [exact (Hnn i Hi)|]. rewrite map_map. apply in_map_iff. exists i. split; [reflexivity|exact Hi].
    + intros fn j ty dv Hin. apply (Hfit fn j ty dv). apply in_or_app. right. exact Hin.
  - clear -Hinfos. induction Hinfos as [|np i l1 l2 (_ & _ & Hf) _ IH]; [reflexivity|]. cbn [map find]. rewrite Hf. exact IH.
Qed.

(* the capstone: every generated object method (properties of any type the model generates) *)
Theorem generated_object_defaults_checks decf zf dvf f self sub s scope fs vs b under kv flds :
  plain_object s -> s_addl s = None -> NoDup (map fst (prop_names idf (s_props s))) ->
  (forall fname kp, In (fname, kp) (prop_names idf (s_props s)) -> fname <> []) ->
  (forall fn j ty dv, In (VDefault fn j ty dv) vs -> exists d, dvf ty dv = Some d) ->
  Gen.gen idf cf defs (S f) MType self sub s scope = Done (TStruct [] fs (Some vs), b) ->
  existsb v_before vs || existsb v_raw_after vs = true ->
  plain_fields decf zf fs (JObj kv) = Ok (GSt flds) ->
  let fin := final dvf (Some (Some kv)) vs flds in
  is_ok (run_method decf zf dvf (Some fs) under vs (JObj kv)) = forallb (present kv) vs && forallb (passes dvf (Some (Some kv)) fin) vs /\
  (is_ok (run_method decf zf dvf (Some fs) under vs (JObj kv)) = true -> run_method decf zf dvf (Some fs) under vs (JObj kv) = Ok (GSt fin)).
Proof.
  intros Hp Ha Nn Hne Hfit Hg Hraw Hpf.
  destruct (object_method_wf dvf f self sub s scope fs vs b Hp Ha Hne Hfit Hg) as [Hwf Hfa].
  apply (method_defaults_checks decf zf dvf fs under vs kv flds Hfa Hpf); [|exact (object_method_ordered f self sub s scope fs vs b Hp Ha Nn Hg)|exact Hraw].
  rewrite (plain_fields_names decf zf fs kv flds Hpf). exact Hwf.
Qed.
End GenOrder.

(* non-vacuity of the capstone: {a: string minLength 2 (required), b: string maxLength 3 default "y"} *)
Definition ex_dc_a : schema := Sch (mkC [SString] None None [] 0 0 2 0 None None (mkBounds None None None None) None None) [] None false None [] [].
Definition ex_dc_b : schema := Sch (mkC [SString] None None [] 0 0 0 3 None None (mkBounds None None None None) (Some (JStr [121]%N)) None) [] None false None [] [].
Definition ex_dc_obj : schema :=
  Sch (mkC [SObject] None None [[97]%N] 0 0 0 0 None None (mkBounds None None None None) None None) [([97]%N, ex_dc_a); ([98]%N, ex_dc_b)] None false None [] [].
Example generated_dc_inhabited :
  plain_object ex_dc_obj /\ s_addl ex_dc_obj = None /\ NoDup (map fst (prop_names (fun s => s) (s_props ex_dc_obj))) /\
  (forall fname kp, In (fname, kp) (prop_names (fun s => s) (s_props ex_dc_obj)) -> fname <> []) /\
  exists fs vs b, Gen.gen (fun s => s) (mkCfg false false) [] 3 MType None false ex_dc_obj [82]%N = Done (TStruct [] fs (Some vs), b) /\
    (forall fn j ty dv, In (VDefault fn j ty dv) vs -> exists d, default_val [] 3 ty dv = Some d) /\
    existsb v_before vs || existsb v_raw_after vs = true /\
    vs = [VRequired [97]%N; VString [97]%N [97]%N false 2 0 None; VDefault [98]%N [98]%N TString (JStr [121]%N); VString [98]%N [98]%N false 0 3 None].
Proof.
  split; [repeat split; try reflexivity; discriminate|]. split; [reflexivity|].
  split; [vm_compute; repeat constructor; cbn; intuition discriminate|]. split.
  - intros fname kp H. vm_compute in H. destruct H as [H|[H|[]]]; inversion H; subst; discriminate.
  - eexists. eexists. eexists. split; [vm_compute; reflexivity|]. split; [|split; reflexivity].
    intros fn j ty dv [H|[H|[H|[H|[]]]]]; inversion H; subst. eexists. vm_compute. reflexivity.
Qed.
