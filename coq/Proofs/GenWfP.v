(* Towards "gen only produces well-formed types" (the hypothesis wf_ty of C19_total): the validators the
   generator attaches to a field always fit the shape of that field's type. *)
From GJS Require Import Base Bounds IntSize Regex Schema GoType Ident Gen Exec ExecP WfP GenP NamesP.

Section GenWf.
Variable env : list (str * gty).
Notation v_ok := (WfP.v_ok env).

Fixpoint strip (d : nat) (t : gty) : option gty :=
  match d with
  | O => Some t
  | S d' => match t with TSlice _ e => strip d' e | _ => None end
  end.

Lemma strip_step d : forall T i e, strip d T = Some (TSlice i e) -> strip (S d) T = Some e.
Proof.
  induction d as [|d IH]; intros T i e H.
  - cbn in H. inversion H; subst. reflexivity.
  - cbn [strip] in *. destruct T; try discriminate. exact (IH _ _ _ H).
Qed.

Lemma strip_nest_slice d : forall T t, strip d T = Some t -> nest_slice d T = true.
Proof.
  induction d as [|d IH]; intros T t H; [reflexivity|]. cbn [strip nest_slice] in *. destruct T; try discriminate. exact (IH _ _ H).
Qed.

Lemma strip_nest_null d : forall T, strip d T = Some TNullT -> nest_null d T = true.
Proof.
  induction d as [|d IH]; intros T H.
  - cbn in H. inversion H; subst. reflexivity.
  - cbn [strip nest_null] in *. destruct T; try discriminate. exact (IH _ H).
Qed.

(* every validator of the array loop fits the field it is attached to *)
Lemma array_validators_ok ft fn jn mn mx T : ft fn = Some T ->
  forall t d, strip d T = Some t ->
  forallb (v_ok ft) (array_validators fn jn mn mx (S d) t) = true.
Proof.
  intros Hft. fix IH 1. intros t d Hs. destruct t as [| | | | | | |?|inl e|?|? ? ?|? ? ?|? ? ? ?|?]; try reflexivity.
  destruct inl; [|reflexivity].
  assert (He : strip (S d) T = Some e) by exact (strip_step _ _ _ _ Hs).
  pose proof (IH e (S d) He) as IHe. clear IH.
  assert (Hhead : forallb (v_ok ft) (if negb (mn =? 0) || negb (mx =? 0) then [VArray fn jn (S d) mn mx] else []) = true).
  { destruct (negb (mn =? 0) || negb (mx =? 0)); [|reflexivity]. cbn [forallb v_ok]. rewrite Hft, (strip_nest_slice _ _ _ He). reflexivity. }
  destruct e; cbn [array_validators]; try (rewrite forallb_app, Hhead; exact IHe).
  cbn [forallb v_ok]. rewrite Hft, (strip_nest_null _ _ He). reflexivity.
Qed.

Definition scalar_like (t : gty) : bool := match t with TSlice _ _ | TPtr _ | TNullT => false | _ => true end.
(* the generator wraps only scalars and named types in a pointer *)
Definition top_ok (t : gty) : bool := match t with TPtr u => scalar_like u | _ => true end.

Lemma field_validators_ok ft fn jn c b t :
  ft fn = Some t -> top_ok t = true -> forallb (v_ok ft) (field_validators fn jn c b t false) = true.
Proof.
  intros Hft Ht. destruct t as [| | | | | | |u|inl e|?|? ? ?|? ? ?|? ? ? ?|?]; cbn [field_validators]; try reflexivity.
  - destruct (has_string_kw c); [|reflexivity]. cbn [forallb v_ok]. rewrite Hft. reflexivity.
  - destruct (has_bound_kw (c_mult c) b); [|reflexivity]. cbn [forallb v_ok]. rewrite Hft. reflexivity.
  - destruct (has_bound_kw (c_mult c) b); [|reflexivity]. cbn [forallb v_ok]. rewrite Hft. reflexivity.
  - cbn [forallb v_ok]. rewrite Hft. reflexivity.
  - (* pointer *)
    cbn [top_ok] in Ht. destruct u; cbn [field_validators]; try reflexivity; try discriminate.
    + destruct (has_string_kw c); [|reflexivity]. cbn [forallb v_ok]. rewrite Hft. reflexivity.
    + destruct (has_bound_kw (c_mult c) b); [|reflexivity]. cbn [forallb v_ok]. rewrite Hft. reflexivity.
    + destruct (has_bound_kw (c_mult c) b); [|reflexivity]. cbn [forallb v_ok]. rewrite Hft. reflexivity.
  - destruct inl; [|reflexivity]. exact (array_validators_ok ft fn jn _ _ _ Hft _ 0 eq_refl).
Qed.

(* the per-field validators never include the composite one *)
Definition is_anyof (v : validator) : bool := match v with VAnyOf _ => true | _ => false end.

Lemma array_validators_no_anyof fn jn mn mx : forall t d, existsb is_anyof (array_validators fn jn mn mx d t) = false.
Proof.
  fix IH 1. intros t d. destruct t as [| | | | | | |?|inl e|?|? ? ?|? ? ?|? ? ? ?|?]; try reflexivity.
  destruct inl; [|reflexivity]. pose proof (IH e (S d)) as IHe. clear IH.
  assert (Hhead : existsb is_anyof (if negb (mn =? 0) || negb (mx =? 0) then [VArray fn jn d mn mx] else []) = false)
    by (destruct (negb (mn =? 0) || negb (mx =? 0)); reflexivity).
  destruct e; cbn [array_validators]; try (rewrite existsb_app, Hhead; exact IHe). reflexivity.
Qed.

Lemma field_validators_no_anyof fn jn c b : forall t nl, existsb is_anyof (field_validators fn jn c b t nl) = false.
Proof.
  fix IH 1. intros t nl. destruct t as [| | | | | | |u|inl e|?|? ? ?|? ? ?|? ? ? ?|?]; cbn [field_validators]; try reflexivity.
  - destruct (has_string_kw c); reflexivity.
  - destruct (has_bound_kw (c_mult c) b); reflexivity.
  - destruct (has_bound_kw (c_mult c) b); reflexivity.
  - exact (IH u true).
  - destruct inl; [|reflexivity]. apply array_validators_no_anyof.
Qed.
End GenWf.

Section GenTop.
Variable idf : str -> str.
Variable cf : cfg.
Variable defs : list (str * schema).
Notation gen := (Gen.gen idf cf defs).

Lemma wrap_ptr_top ptr t : scalar_like t = true -> top_ok (wrap_ptr ptr t) = true.
Proof. destruct ptr, t; cbn; try reflexivity; try discriminate. Qed.

Lemma primitive_top t fmt ptr b r b' : primitive cf t fmt ptr b = Done (r, b') -> top_ok r = true.
Proof.
  unfold primitive. destruct t; try discriminate.
  - intros H; inversion H; subst. apply wrap_ptr_top. destruct fmt; reflexivity.
  - destruct (primitive_int (g_minsized cf) b) as [k b2]. intros H; inversion H; subst. apply wrap_ptr_top. reflexivity.
  - intros H; inversion H; subst. apply wrap_ptr_top. reflexivity.
  - intros H; inversion H; subst. apply wrap_ptr_top. reflexivity.
  - intros H; inversion H; subst. reflexivity.
Qed.

Lemma declare_top scope sub c t b r b' : top_ok t = true -> declare cf scope sub c (t, b) = Done (r, b') -> top_ok r = true.
Proof.
  unfold declare. intros Ht. destruct (is_named_ty t) eqn:En.
  - intros H; inversion H; subst. exact Ht.
  - destruct t; try (intros H; inversion H; subst; reflexivity).
    destruct name; [|intros H; inversion H; subst; reflexivity].
    destruct plan; intros H; inversion H; subst; reflexivity.
Qed.
End GenTop.

(* ---------- the strict well-formedness (validators of a struct are checked whatever its name) and its residue ---------- *)
Section Strict.
Variable env : list (str * gty).

Definition v_four (ft : str -> option gty) (v : validator) : bool :=
  match v with VRequired _ | VAnyOf _ | VDefault _ _ _ _ => true | _ => WfP.v_ok env ft v end.
(* what the generator does not guarantee by construction: default literals that fit, composites *)
Definition v_resid (ft : str -> option gty) (v : validator) : bool :=
  match v with VDefault _ _ _ _ | VAnyOf _ => WfP.v_ok env ft v | _ => true end.

Lemma v_ok_split ft v : WfP.v_ok env ft v = v_resid ft v && v_four ft v.
Proof. destruct v; cbn [v_resid v_four]; rewrite ?andb_true_r, ?andb_true_l; reflexivity. Qed.

Lemma forallb_split ft vs : forallb (WfP.v_ok env ft) vs = forallb (v_resid ft) vs && forallb (v_four ft) vs.
Proof.
  induction vs as [|v r IH]; [reflexivity|]. cbn [forallb]. rewrite IH, v_ok_split.
  destruct (v_resid ft v), (v_four ft v), (forallb (v_resid ft) r), (forallb (v_four ft) r); reflexivity.
Qed.

Fixpoint wf_s (chk : (str -> option gty) -> validator -> bool) (t : gty) : bool :=
  match t with
  | TPtr u | TSlice _ u | TMap u => wf_s chk u
  | TStruct _ fs plan =>
      (fix go (fs : list field) : bool := match fs with [] => true | mkField _ _ _ ty _ _ :: r => wf_s chk ty && go r end) fs &&
      names_ok fs &&
      match plan with
      | Some vs =>
          forallb (chk (ft_struct fs)) vs && addl_ok fs vs &&
          (fix gov (vs : list validator) : bool :=
             match vs with
             | [] => true
             | VAnyOf bs :: r => (fix gob (bs : list gty) : bool := match bs with [] => true | b :: r' => wf_s chk b && gob r' end) bs && gov r
             | _ :: r => gov r
             end) vs
      | None => true
      end
  | TNamed _ u plan => wf_s chk u && match plan with Some vs => forallb (chk (ft_named u)) vs && negb (existsb is_anyof vs) | None => true end
  | TEnum _ c _ _ => wf_s chk c
  | TRef d => match lookup d env with Some _ => true | None => false end
  | _ => true
  end.

Definition fields_s chk : list field -> bool :=
  fix go (fs : list field) : bool := match fs with [] => true | mkField _ _ _ ty _ _ :: r => wf_s chk ty && go r end.

Definition list_s chk : list gty -> bool :=
  fix gob (bs : list gty) : bool := match bs with [] => true | b :: r' => wf_s chk b && gob r' end.
Definition branches_s chk : list validator -> bool :=
  fix gov (vs : list validator) : bool :=
    match vs with
    | [] => true
    | VAnyOf bs :: r => list_s chk bs && gov r
    | _ :: r => gov r
    end.

Lemma wf_s_struct chk n fs plan :
  wf_s chk (TStruct n fs plan) = fields_s chk fs && names_ok fs && match plan with Some vs => forallb (chk (ft_struct fs)) vs && addl_ok fs vs && branches_s chk vs | None => true end.
Proof. reflexivity. Qed.

Lemma branches_s_none chk vs : existsb is_anyof vs = false -> branches_s chk vs = true.
Proof.
  induction vs as [|v r IH]; [reflexivity|]. cbn [existsb]. intros H. apply orb_false_iff in H. destruct H as [H1 H2].
  destruct v; cbn [branches_s]; try exact (IH H2). discriminate.
Qed.

(* strict implies the well-formedness C19_total asks for *)
Lemma wf_strict_wf : forall t, wf_s (WfP.v_ok env) t = true -> wf_ty env t = true.
Proof.
  fix IH 1. intros t. destruct t as [| | | | | | |u|inl u|u|n fs plan|n u plan|n c w vs|d]; cbn [wf_s wf_ty]; try (intros; reflexivity); try exact (IH u).
  - intros H. apply andb_true_iff in H. destruct H as [H Hp]. apply andb_true_iff in H. destruct H as [Hf Hn].
    apply andb_true_iff. split; [apply andb_true_iff; split; [|exact Hn]|].
    + clear Hp Hn. induction fs as [|[fn fj fo ty fd fa] r IHr]; [reflexivity|].
      apply andb_true_iff in Hf. destruct Hf as [H1 H2]. apply andb_true_iff. split; [exact (IH ty H1)|exact (IHr H2)].
    + destruct n; [reflexivity|]. destruct plan as [vs|]; [|reflexivity].
      apply andb_true_iff in Hp. destruct Hp as [Hp Hb]. apply andb_true_iff. split; [exact Hp|].
      clear Hp Hf Hn. induction vs as [|v r IHr]; [reflexivity|].
      destruct v; try exact (IHr Hb).
      apply andb_true_iff in Hb. destruct Hb as [Hb1 Hb2]. apply andb_true_iff. split; [|exact (IHr Hb2)].
      clear Hb2 IHr. induction branches as [|b0 br IHb]; [reflexivity|].
      apply andb_true_iff in Hb1. destruct Hb1 as [H1 H2]. apply andb_true_iff. split; [exact (IH b0 H1)|exact (IHb H2)].
  - intros H. apply andb_true_iff in H. destruct H as [H1 H2]. apply andb_true_iff. split; [exact (IH u H1)|exact H2].
  - exact (IH c).
  - intros H; exact H.
Qed.
End Strict.

(* ---------- the part of well-formedness that holds by construction ---------- *)
Section ByConstruction.
Variable env : list (str * gty).

Fixpoint F (t : gty) : bool :=
  match t with
  | TPtr u | TSlice _ u | TMap u => F u
  | TStruct _ fs plan =>
      (fix go (fs : list field) : bool := match fs with [] => true | mkField _ _ _ ty _ _ :: r => F ty && go r end) fs &&
      match plan with
      | Some vs =>
          (negb (names_ok fs) || forallb (v_four env (ft_struct fs)) vs) &&
          (fix gov (vs : list validator) : bool :=
             match vs with
             | [] => true
             | VAnyOf bs :: r => (fix gob (bs : list gty) : bool := match bs with [] => true | b :: r' => F b && gob r' end) bs && gov r
             | _ :: r => gov r
             end) vs
      | None => true
      end
  | TNamed _ u plan => F u && match plan with Some vs => forallb (v_four env (ft_named u)) vs && negb (existsb is_anyof vs) | None => true end
  | TEnum _ c _ _ => F c
  | _ => true
  end.
Definition fields_F : list field -> bool :=
  fix go (fs : list field) : bool := match fs with [] => true | mkField _ _ _ ty _ _ :: r => F ty && go r end.
Definition list_F : list gty -> bool :=
  fix gob (bs : list gty) : bool := match bs with [] => true | b :: r' => F b && gob r' end.
Definition branches_F : list validator -> bool :=
  fix gov (vs : list validator) : bool :=
    match vs with
    | [] => true
    | VAnyOf bs :: r => list_F bs && gov r
    | _ :: r => gov r
    end.
Lemma F_struct n fs plan :
  F (TStruct n fs plan) = fields_F fs && match plan with Some vs => (negb (names_ok fs) || forallb (v_four env (ft_struct fs)) vs) && branches_F vs | None => true end.
Proof. reflexivity. Qed.
Lemma branches_F_none vs : existsb is_anyof vs = false -> branches_F vs = true.
Proof.
  induction vs as [|v r IH]; [reflexivity|]. cbn [existsb]. intros H. apply orb_false_iff in H. destruct H as [H1 H2].
  destruct v; cbn [branches_F]; try exact (IH H2). discriminate.
Qed.

Notation R := (wf_s env (v_resid env)).
Notation W := (wf_s env (WfP.v_ok env)).

Lemma W_split : forall t, W t = R t && F t.
Proof.
  fix IH 1. intros t. destruct t as [| | | | | | |u|inl u|u|n fs plan|n u plan|n c w vs|d]; try reflexivity; try exact (IH u).
  - rewrite !wf_s_struct, F_struct.
    assert (Hf : fields_s env (WfP.v_ok env) fs = fields_s env (v_resid env) fs && fields_F fs).
    { induction fs as [|[fn fj fo ty fd fa] r IHr]; [reflexivity|]. cbn [fields_s fields_F]. rewrite (IH ty).
      change ((fix go (fs : list field) : bool := match fs with [] => true | mkField _ _ _ ty _ _ :: r => wf_s env (WfP.v_ok env) ty && go r end) r) with (fields_s env (WfP.v_ok env) r).
      change ((fix go (fs : list field) : bool := match fs with [] => true | mkField _ _ _ ty _ _ :: r => wf_s env (v_resid env) ty && go r end) r) with (fields_s env (v_resid env) r).
      change ((fix go (fs : list field) : bool := match fs with [] => true | mkField _ _ _ ty _ _ :: r => F ty && go r end) r) with (fields_F r).
      rewrite IHr. destruct (R ty), (F ty), (fields_s env (v_resid env) r), (fields_F r); reflexivity. }
    rewrite Hf. destruct plan as [vs|].
    + assert (Hb : branches_s env (WfP.v_ok env) vs = branches_s env (v_resid env) vs && branches_F vs).
      { clear Hf. induction vs as [|v r IHr]; [reflexivity|]. destruct v; try exact IHr.
        cbn [branches_s branches_F]. rewrite IHr.
        assert (Hl : list_s env (WfP.v_ok env) branches = list_s env (v_resid env) branches && list_F branches).
        { induction branches as [|b0 br IHb]; [reflexivity|]. cbn [list_s list_F]. rewrite (IH b0).
          change ((fix gob (bs : list gty) : bool := match bs with [] => true | b :: r' => wf_s env (WfP.v_ok env) b && gob r' end) br) with (list_s env (WfP.v_ok env) br).
          change ((fix gob (bs : list gty) : bool := match bs with [] => true | b :: r' => wf_s env (v_resid env) b && gob r' end) br) with (list_s env (v_resid env) br).
          change ((fix gob (bs : list gty) : bool := match bs with [] => true | b :: r' => F b && gob r' end) br) with (list_F br).
          rewrite IHb. destruct (R b0), (F b0), (list_s env (v_resid env) br), (list_F br); reflexivity. }
        rewrite Hl. destruct (list_s env (v_resid env) branches), (list_F branches), (branches_s env (v_resid env) r), (branches_F r); reflexivity. }
      rewrite forallb_split, Hb. destruct (fields_s env (v_resid env) fs), (fields_F fs), (names_ok fs), (forallb (v_resid env (ft_struct fs)) vs),
        (forallb (v_four env (ft_struct fs)) vs), (addl_ok fs vs), (branches_s env (v_resid env) vs), (branches_F vs); reflexivity.
    + destruct (fields_s env (v_resid env) fs), (fields_F fs), (names_ok fs); reflexivity.
  - cbn [wf_s F]. rewrite (IH u). destruct plan as [vs|].
    + rewrite forallb_split. destruct (R u), (F u), (forallb (v_resid env (ft_named u)) vs), (forallb (v_four env (ft_named u)) vs), (existsb is_anyof vs); reflexivity.
    + destruct (R u), (F u); reflexivity.
  - cbn [wf_s F]. exact (IH c).
  - cbn [wf_s F]. destruct (lookup d env); reflexivity.
Qed.
End ByConstruction.

(* ---------- the generator's types have the by-construction part ---------- *)
Section Main.
Variable idf : str -> str.
Variable cf : cfg.
Variable defs : list (str * schema).
Variable env : list (str * gty).
Notation gen := (Gen.gen idf cf defs).
Notation F := (F env).

Definition good (t : gty) : Prop := top_ok t = true /\ F t = true.

Lemma four_of_ok ft vs : forallb (WfP.v_ok env ft) vs = true -> forallb (v_four env ft) vs = true.
Proof. rewrite forallb_split. intros H. apply andb_true_iff in H. tauto. Qed.

Lemma good_primitive t fmt ptr b r b' : primitive cf t fmt ptr b = Done (r, b') -> good r.
Proof.
  intros H. split; [exact (primitive_top cf _ _ _ _ _ _ H)|].
  unfold primitive in H. destruct t; try discriminate.
  - inversion H; subst. destruct ptr, fmt; reflexivity.
  - destruct (primitive_int (g_minsized cf) b) as [k b2]. inversion H; subst. destruct ptr; reflexivity.
  - inversion H; subst. destruct ptr; reflexivity.
  - inversion H; subst. destruct ptr; reflexivity.
  - inversion H; subst. reflexivity.
Qed.

Definition info_ok (i : finfo) : Prop :=
  F (f_ty (fst (fst i))) = true /\
  (forall ft, ft (f_name (fst (fst i))) = Some (f_ty (fst (fst i))) -> forallb (v_four env ft) (snd i) = true) /\
  existsb is_anyof (snd i) = false.

Lemma make_field_ok c self fname k p ty bp : good ty -> info_ok (make_field defs c self fname k p ty bp).
Proof.
  intros [Ht Hf]. unfold make_field. destruct (c_default (s_con p)) as [dv|].
  - split; [exact Hf|]. cbn [fst snd f_name f_ty]. split; [|cbn [existsb is_anyof orb]; apply field_validators_no_anyof].
    intros ft Hft. cbn [forallb v_four]. apply four_of_ok. exact (field_validators_ok env ft _ _ _ _ _ Hft Ht).
  - destruct (mem k (c_required c)).
    + split; [exact Hf|]. cbn [fst snd f_name f_ty]. split; [|apply field_validators_no_anyof].
      intros ft Hft. apply four_of_ok. exact (field_validators_ok env ft _ _ _ _ _ Hft Ht).
    + destruct (nillable_ty (ref_nillable defs self) ty) eqn:En.
      * split; [exact Hf|]. cbn [fst snd f_name f_ty]. split; [|apply field_validators_no_anyof].
        intros ft Hft. apply four_of_ok. exact (field_validators_ok env ft _ _ _ _ _ Hft Ht).
      * split; [exact Hf|]. cbn [fst snd f_name f_ty]. split; [|apply field_validators_no_anyof].
        intros ft Hft. apply four_of_ok. apply (field_validators_ok env ft _ _ _ _ _ Hft).
        cbn [top_ok]. destruct ty; try reflexivity; cbn in En; discriminate.
Qed.

Lemma fields_F_app fs gs : fields_F env (fs ++ gs) = fields_F env fs && fields_F env gs.
Proof.
  induction fs as [|[fn fj fo ty fd fa] r IH]; [reflexivity|]. cbn [app fields_F].
  change ((fix go (fs : list field) : bool := match fs with [] => true | mkField _ _ _ ty _ _ :: r => F ty && go r end) (r ++ gs)) with (fields_F env (r ++ gs)).
  change ((fix go (fs : list field) : bool := match fs with [] => true | mkField _ _ _ ty _ _ :: r => F ty && go r end) r) with (fields_F env r).
  rewrite IH, andb_assoc. reflexivity.
Qed.

Lemma fields_F_infos infos : Forall info_ok infos -> fields_F env (map (fun i : finfo => fst (fst i)) infos) = true.
Proof.
  induction 1 as [|i r [Hi _] _ IH]; [reflexivity|]. cbn [map fields_F]. destruct (fst (fst i)) as [fn fj fo ty fd fa] eqn:E. cbn [f_ty] in Hi.
  change ((fix go (fs : list field) : bool := match fs with [] => true | mkField _ _ _ ty _ _ :: r => F ty && go r end) (map (fun i0 : finfo => fst (fst i0)) r))
    with (fields_F env (map (fun i0 : finfo => fst (fst i0)) r)).
  rewrite Hi, IH. reflexivity.
Qed.

Lemma infos_four infos fs : names_ok fs = true -> (forall i, In i infos -> In (fst (fst i)) fs) -> Forall info_ok infos ->
  forallb (v_four env (ft_struct fs)) (flat_map (fun i : finfo => snd i) infos) = true.
Proof.
  intros Hn Hin Hok. induction Hok as [|i r [_ [Hi _]] _ IH]; [reflexivity|]. cbn [flat_map]. rewrite forallb_app.
  apply andb_true_iff. split.
  - apply Hi. apply ft_struct_self; [exact Hn|]. apply Hin. left; reflexivity.
  - apply IH. intros j Hj. apply Hin. right; exact Hj.
Qed.

Lemma reqs_four ft (infos : list finfo) :
  forallb (v_four env ft) (flat_map (fun i : finfo => if snd (fst i) then [VRequired (f_json (fst (fst i)))] else []) infos) = true.
Proof. induction infos as [|i r IH]; [reflexivity|]. cbn [flat_map]. rewrite forallb_app, IH. destruct (snd (fst i)); reflexivity. Qed.

Lemma infos_no_anyof infos : Forall info_ok infos -> existsb is_anyof (flat_map (fun i : finfo => snd i) infos) = false.
Proof. induction 1 as [|i r [_ [_ Hi]] _ IH]; [reflexivity|]. cbn [flat_map]. rewrite existsb_app, Hi, IH. reflexivity. Qed.

Lemma reqs_no_anyof (infos : list finfo) :
  existsb is_anyof (flat_map (fun i : finfo => if snd (fst i) then [VRequired (f_json (fst (fst i)))] else []) infos) = false.
Proof. induction infos as [|i r IH]; [reflexivity|]. cbn [flat_map]. rewrite existsb_app, IH. destruct (snd (fst i)); reflexivity. Qed.

Lemma build_struct_F s b0 infos t b : Forall info_ok infos -> build_struct s b0 infos = Done (t, b) -> good t.
Proof.
  intros Hok. unfold build_struct.
  set (fields := map (fun i : finfo => fst (fst i)) infos).
  set (reqs := flat_map (fun i : finfo => if snd (fst i) then [VRequired (f_json (fst (fst i)))] else []) infos).
  set (fvs := flat_map (fun i : finfo => snd i) infos).
  assert (Hff : fields_F env fields = true) by exact (fields_F_infos infos Hok).
  assert (Hplan : forall extra fa, fields_F env [fa] = true -> forallb (v_four env (ft_struct (fields ++ extra))) [] = true ->
            forall tail, (forall ft, forallb (v_four env ft) tail = true) -> existsb is_anyof tail = false ->
            (extra = [] \/ extra = [fa]) ->
            F (TStruct [] (fields ++ extra) (Some (reqs ++ fvs ++ tail))) = true).
  { intros extra fa Hfa _ tail Htail Htn Hex. rewrite F_struct, fields_F_app, Hff. cbn [andb].
    assert (Hfe : fields_F env extra = true) by (destruct Hex as [->| ->]; [reflexivity|exact Hfa]). rewrite Hfe. cbn [andb].
    assert (Hbr : branches_F env (reqs ++ fvs ++ tail) = true).
    { apply branches_F_none. rewrite !existsb_app. unfold reqs, fvs. rewrite reqs_no_anyof, (infos_no_anyof infos Hok), Htn. reflexivity. }
    rewrite Hbr, andb_true_r.
    destruct (names_ok (fields ++ extra)) eqn:Hn; [|reflexivity]. cbn [negb orb].
    rewrite !forallb_app. unfold reqs. rewrite reqs_four, Htail, andb_true_r. cbn [andb].
    apply infos_four; [exact Hn| |exact Hok]. intros i Hi. apply in_or_app. left. apply (List.in_map (fun i : finfo => fst (fst i))). exact Hi. }
  destruct (s_addl s) as [a|]; [destruct (s_addl_false s)|].
  - intros H; inversion H; subst. split; [reflexivity|]. rewrite <- (app_nil_r fields), <- (app_nil_r fvs) at 1.
    apply (Hplan [] (mkField [] [] false TIface None false)); auto.
  - destruct (c_types (s_con a)) as [|t0 [|t1 r]]; try discriminate.
    + intros H; inversion H; subst. split; [reflexivity|]. rewrite <- (app_nil_r fvs).
      apply (Hplan _ (mkField s_AdditionalProperties [] false TIface None true)); auto.
    + intros H; inversion H; subst. split; [reflexivity|].
      apply (Hplan _ (mkField s_AdditionalProperties [] false (TMap match t0 with SString => TString | SArray => TSlice false TIface | SNumber => TFloat | SInteger => TInt KInt | SBoolean => TBool | _ => TIface end) (Some (JObj [])) true)); auto.
      destruct t0; reflexivity.
  - intros H; inversion H; subst. split; [reflexivity|]. rewrite <- (app_nil_r fields), <- (app_nil_r fvs) at 1.
    apply (Hplan [] (mkField [] [] false TIface None false)); auto.
Qed.

Lemma good_iface : good TIface. Proof. split; reflexivity. Qed.
Lemma good_slice i u : good u -> good (TSlice i u). Proof. intros [_ H]. split; [reflexivity|exact H]. Qed.
Lemma good_map u : good u -> good (TMap u). Proof. intros [_ H]. split; [reflexivity|exact H]. Qed.

Lemma good_declare scope sub c t b r b' : good t -> declare cf scope sub c (t, b) = Done (r, b') -> good r.
Proof.
  intros [Ht Hf]. unfold declare. destruct (is_named_ty t) eqn:En.
  - intros H; inversion H; subst. split; assumption.
  - assert (Hnamed : forall vs, forallb (v_four env (ft_named t)) vs = true -> existsb is_anyof vs = false -> forall plan, (plan = None \/ plan = Some vs) -> good (TNamed scope t plan)).
    { intros vs Hvs Hna plan [->| ->]; (split; [reflexivity|]); cbn [GenWfP.F]; rewrite Hf; [reflexivity|rewrite Hvs, Hna; reflexivity]. }
    assert (Hprim : top_ok t = true -> forall plan, plan = (if g_only_models cf then None else if false || sub || negb (length (field_validators [] [] c b t false) =? 0) then Some (field_validators [] [] c b t false) else None) ->
                    good (TNamed scope t plan)).
    { intros Htop plan ->. apply (Hnamed (field_validators [] [] c b t false)).
      - apply four_of_ok. apply field_validators_ok; [reflexivity|exact Htop].
      - apply field_validators_no_anyof.
      - destruct (g_only_models cf); [left; reflexivity|]. destruct (false || sub || negb (length (field_validators [] [] c b t false) =? 0)); [right|left]; reflexivity. }
    destruct t as [| | | | | | |u|inl u|u|n fs plan|n u plan|n c0 w vs|d]; try discriminate;
      try (intros H; inversion H; subst; first [ apply Hprim; reflexivity | apply (Hnamed []); [reflexivity|reflexivity|left; reflexivity] ]).
    + (* map *) intros H; inversion H; subst. apply (Hnamed []); [reflexivity|reflexivity|]. destruct (g_only_models cf); [left; reflexivity|]. destruct sub; [right|left]; reflexivity.
    + (* struct *) destruct n; [|discriminate]. rewrite F_struct in Hf. apply andb_true_iff in Hf. destruct Hf as [Hff Hp].
      assert (Hs : forall pl, (pl = None \/ (exists vs, pl = Some vs /\ ((negb (names_ok fs) || forallb (v_four env (ft_struct fs)) vs) && branches_F env vs = true))) -> good (TStruct scope fs pl)).
      { intros pl Hpl. split; [reflexivity|]. rewrite F_struct, Hff. cbn [andb]. destruct Hpl as [->|[vs [-> Hv]]]; [reflexivity|exact Hv]. }
      destruct plan as [vs|]; cbn [orb]; destruct (g_only_models cf).
      * intros H; injection H as <- <-. apply Hs. left; reflexivity.
      * destruct (sub || negb (length vs =? 0)); intros H; injection H as <- <-; apply Hs; [right; exists vs; split; [reflexivity|exact Hp]|left; reflexivity].
      * intros H; injection H as <- <-. apply Hs. left; reflexivity.
      * destruct (sub || negb (length (@nil validator) =? 0)); intros H; injection H as <- <-; apply Hs; [right; exists []; split; [reflexivity|cbn [forallb branches_F]; rewrite orb_true_r; reflexivity]|left; reflexivity].
Qed.

Lemma rbind_Done {A B} (r : res A) (g : A -> res B) y : rbind r g = Done y -> exists x, r = Done x /\ g x = Done y.
Proof. destruct r as [x| | |]; cbn; try discriminate. intros H. exists x. split; [reflexivity|exact H]. Qed.

Lemma good_enum scope carrier w es : good carrier -> good (TEnum scope carrier w es).
Proof. intros [_ H]. split; [reflexivity|exact H]. Qed.

Theorem gen_good : forall fuel m self sub s scope t b, gen fuel m self sub s scope = Done (t, b) -> good t.
Proof.
  induction fuel as [|f IH]; intros m self sub s scope t b H; [discriminate|].
  cbn [Gen.gen] in H. destruct m.
  - (* generateTypeInline *)
    destruct (c_enum (s_con s)) eqn:Ee; [exact (IH _ _ _ _ _ _ _ H)|].
    destruct (c_ref (s_con s)) eqn:Er; [exact (IH _ _ _ _ _ _ _ H)|].
    destruct (s_any_of s) as [|a1 ar].
    2: { (* anyOf: the merged struct with the anyOf validator over the branch types *)
         destruct (existsb _ (a1 :: ar)); [discriminate|]. destruct (existsb _ (a1 :: ar)); [discriminate|].
         apply rbind_Done in H. destruct H as [rs [_ H]]. destruct (existsb _ rs); [discriminate|].
         apply rbind_Done in H. destruct H as [brs [Hb H]].
         destruct (merge_types rs) as [m|]; [|discriminate].
         apply rbind_Done in H. destruct H as [[t0 b0'] [Hm H]]. cbn [fst snd] in H.
         destruct t0 as [| | | | | | |?|? ?|?|name fs plan|? ? ?|? ? ? ?|?]; try discriminate. destruct name as [|ch nm]; [discriminate|].
         destruct (IH _ _ _ _ _ _ _ Hm) as [_ HF]. inversion H; subst. split; [reflexivity|].
         rewrite F_struct in HF. apply andb_true_iff in HF. destruct HF as [Hff _]. rewrite F_struct, Hff. cbn [andb].
         destruct (g_only_models cf); [reflexivity|].
         cbn [forallb v_four branches_F]. rewrite orb_true_r, !andb_true_r. cbn [andb].
         apply rmap_Done in Hb. clear -Hb IH.
         induction Hb as [|ib y l1 l2 Hy _ IHl]; [reflexivity|]. cbn [map list_F]. destruct y as [ty by0]. cbn [fst].
         assert (Hfy : GenWfP.F env ty = true).
         { destruct (c_ref (s_con (snd ib))); [inversion Hy; reflexivity|]. destruct (IH _ _ _ _ _ _ _ Hy) as [_ Hfy]. exact Hfy. }
         rewrite Hfy. exact IHl. }
    destruct (s_all_of s) as [|b1 bs].
    + destruct (c_types (s_con s)) as [|ty0 tys] eqn:Et; [inversion H; subst; exact good_iface|].
      destruct (determine_type (s_con s)) as [tk ptr].
      match type of H with (if ?c then _ else _) = _ => destruct c end; [inversion H; subst; exact good_iface|].
      destruct (is_prim_sty tk).
      * destruct sub; [discriminate|]. exact (good_primitive _ _ _ _ _ _ H).
      * destruct tk; try exact (IH _ _ _ _ _ _ _ H).
        destruct (s_items s) as [it|]; [|inversion H; subst; apply good_slice; exact good_iface].
        apply rbind_Done in H. destruct H as [[t1 b1'] [H1 H2]]. inversion H2; subst. apply good_slice. exact (IH _ _ _ _ _ _ _ H1).
    + apply rbind_Done in H. destruct H as [m [_ H2]]. exact (IH _ _ _ _ _ _ _ H2).
  - (* generateDeclaredType *)
    destruct (c_enum (s_con s)); [exact (IH _ _ _ _ _ _ _ H)|].
    apply rbind_Done in H. destruct H as [[t0 b0] [H1 H2]]. exact (good_declare _ _ _ _ _ _ _ (IH _ _ _ _ _ _ _ H1) H2).
  - (* generateType *)
    destruct (c_enum (s_con s)) as [vals|] eqn:Ee.
    + destruct vals as [|v0 vr]; [discriminate|].
      destruct (c_types (s_con s)) as [|ty0 [|ty1 tys]].
      * destruct (infer_kind (v0 :: vr) VKNone) as [k|]; [|discriminate].
        destruct (rmap _ (v0 :: vr)) as [es| | |]; try discriminate. inversion H; subst. apply good_enum. destruct k; split; reflexivity.
      * apply rbind_Done in H. destruct H as [[carrier b1] [H1 H2]]. pose proof (good_primitive _ _ _ _ _ _ H1) as Hc.
        destruct ty0; try (destruct (rmap _ (v0 :: vr)) as [es| | |]; try discriminate; inversion H2; subst; apply good_enum; exact Hc).
        destruct (all_numbers_to_int (v0 :: vr)); [|discriminate]. inversion H2; subst. apply good_enum; exact Hc.
      * destruct (infer_kind (v0 :: vr) VKNone) as [k|]; [|discriminate].
        destruct (rmap _ (v0 :: vr)) as [es| | |]; try discriminate. inversion H; subst. apply good_enum. destruct k; split; reflexivity.
    + destruct (c_ref (s_con s)) as [x|].
      * destruct (lookup x defs) as [d|]; [|discriminate].
        destruct (c_types (s_con d)), (s_props d); inversion H; subst; first [exact good_iface | split; reflexivity].
      * destruct (s_any_of s) as [|a1 ar] eqn:Ea; destruct (s_all_of s) as [|l1 lr] eqn:El; destruct (c_types (s_con s)) as [|ty0 tys]; try discriminate.
        all: destruct (determine_type (s_con s)) as [tk ptr]; destruct tk; try exact (good_primitive _ _ _ _ _ _ H).
        all: try (inversion H; subst; exact good_iface).
        all: try (destruct (s_items s) as [it|]; [|discriminate];
                  apply rbind_Done in H; destruct H as [[t1 b1] [H1 H2]]; inversion H2; subst; apply good_slice; exact (IH _ _ _ _ _ _ _ H1)).
        all: destruct (s_props s) as [|p0 pr]; try discriminate.
        all: try (destruct (s_addl s) as [a|]; [|inversion H; subst; apply good_map; exact good_iface];
                  apply rbind_Done in H; destruct H as [[t1 b1] [H1 H2]]; inversion H2; subst; apply good_map; exact (IH _ _ _ _ _ _ _ H1)).
        all: apply rbind_Done in H; destruct H as [infos [H1 H2]]; refine (build_struct_F _ _ _ _ _ _ H2);
             apply rmap_Done in H1; clear H2; induction H1 as [|np i l1' l2' Hnp _ IHl]; [constructor|]; (constructor; [|exact IHl]);
             destruct np as [fname [k p]]; unfold gen_field in Hnp; apply rbind_Done in Hnp; destruct Hnp as [[ty bp] [Hg Hi]]; inversion Hi; subst;
             apply make_field_ok; exact (IH _ _ _ _ _ _ _ Hg).
Qed.
End Main.

(* ---------- the theorem: a generated type is well formed as soon as its residue is ---------- *)
Theorem gen_wf idf cf defs env fuel m self sub s scope t b :
  Gen.gen idf cf defs fuel m self sub s scope = Done (t, b) ->
  wf_s env (v_resid env) t = true -> wf_ty env t = true.
Proof.
  intros Hg Hr. apply wf_strict_wf. rewrite W_split, Hr. destruct (gen_good idf cf defs env _ _ _ _ _ _ _ _ Hg) as [_ Hf]. rewrite Hf. reflexivity.
Qed.

(* a whole file: every definition and the root *)
Theorem gen_file_wf idf cf defs root root_name p :
  gen_file idf cf defs root root_name = Done p ->
  (forall d u, In (d, u) (p_defs p) -> wf_s (p_defs p) (v_resid (p_defs p)) u = true) ->
  (forall rt, p_root p = Some rt -> wf_s (p_defs p) (v_resid (p_defs p)) rt = true) ->
  env_wf (p_defs p) /\ (forall rt, p_root p = Some rt -> wf_ty (p_defs p) rt = true).
Proof.
  unfold gen_file. intros H Hd Hr.
  apply rbind_Done in H. destruct H as [ds [H1 H2]].
  assert (Hds : forall d u, In (d, u) ds -> exists fuel m self sub s scope b, Gen.gen idf cf defs fuel m self sub s scope = Done (u, b)).
  { apply rmap_Done in H1. clear H2 Hd Hr. intros d u Hin.
    induction H1 as [|kd y l1 l2 Hkd _ IH]; [contradiction|]. destruct Hin as [->|Hin]; [|exact (IH Hin)].
    apply rbind_Done in Hkd. destruct Hkd as [[t0 b0] [Hg He]]. cbn in He. inversion He; subst. eauto 10. }
  assert (Hdefs : forall d u, lookup d ds = Some u -> wf_s ds (v_resid ds) u = true -> wf_ty ds u = true).
  { intros d u Hl Hru. apply lookup_In in Hl. destruct (Hds d u Hl) as (fuel & m & self & sub & s & scope & b & Hg). exact (gen_wf _ _ _ _ _ _ _ _ _ _ _ _ Hg Hru). }
  destruct (c_types (s_con root)).
  - inversion H2; subst p. cbn [p_defs p_root] in *. split; [|intros rt Hrt; discriminate].
    intros d u Hl. apply (Hdefs d u Hl). apply (Hd d). exact (lookup_In _ _ _ Hl).
  - apply rbind_Done in H2. destruct H2 as [[t0 b0] [Hg H3]]. cbn in H3. inversion H3; subst p. cbn [p_defs p_root] in *. split.
    + intros d u Hl. apply (Hdefs d u Hl). apply (Hd d). exact (lookup_In _ _ _ Hl).
    + intros rt Hrt. inversion Hrt; subst rt. apply (gen_wf _ _ _ _ _ _ _ _ _ _ _ _ Hg). apply Hr. reflexivity.
Qed.

(* with C19_total: the methods generated for a file never panic, on any document, as soon as the residue holds *)
Theorem generated_never_panics fmt_ok idf cf defs root root_name p :
  gen_file idf cf defs root root_name = Done p ->
  (forall d u, In (d, u) (p_defs p) -> wf_s (p_defs p) (v_resid (p_defs p)) u = true) ->
  (forall rt, p_root p = Some rt -> wf_s (p_defs p) (v_resid (p_defs p)) rt = true) ->
  (forall rt, p_root p = Some rt -> forall f j, dec fmt_ok (p_defs p) f rt j <> Crash) /\
  (forall d u, lookup d (p_defs p) = Some u -> forall f j, dec fmt_ok (p_defs p) f u j <> Crash).
Proof.
  intros Hg Hd Hr. destruct (gen_file_wf _ _ _ _ _ _ Hg Hd Hr) as [He Hrt]. split.
  - intros rt E f j. apply dec_never_panics; [exact He|exact (Hrt rt E)].
  - intros d u E f j. apply dec_never_panics; [exact He|exact (He d u E)].
Qed.

(* ---------- the names part of the residue: the fields of a generated struct have distinct non-empty names ---------- *)
Lemma assign_fields_nonempty ids : forall seen, Forall (fun s : str => s <> []) ids -> Forall (fun s : str => s <> []) (assign_fields ids seen).
Proof.
  induction ids as [|id rest IH]; intros seen H; cbn [assign_fields]; [constructor|].
  inversion H as [|? ? Hid Hrest]; subst. destruct (count_of id seen).
  - constructor; [|exact (IH _ Hrest)]. unfold suffixed. destruct id; [contradiction|discriminate].
  - constructor; [exact Hid|exact (IH _ Hrest)].
Qed.

Lemma names_ok_of_nodup fs : NoDup (map f_name fs) -> Forall (fun s : str => s <> []) (map f_name fs) -> names_ok fs = true.
Proof.
  induction fs as [|f r IH]; intros ND NE; [reflexivity|]. cbn [map] in *. inversion ND as [|? ? Hn ND']; subst. inversion NE as [|? ? He NE']; subst.
  cbn [names_ok]. rewrite (IH ND' NE'), andb_true_r. apply andb_true_iff. split.
  - destruct (f_name f); [contradiction|reflexivity].
  - apply negb_true_iff. destruct (mem (f_name f) (map f_name r)) eqn:E; [|reflexivity]. apply mem_In in E. contradiction.
Qed.

Lemma make_field_name defs c self fname k p ty bp : f_name (fst (fst (make_field defs c self fname k p ty bp))) = fname.
Proof.
  unfold make_field. destruct (c_default (s_con p)); [reflexivity|]. destruct (mem k (c_required c)); [reflexivity|].
  destruct (nillable_ty (ref_nillable defs self) ty); reflexivity.
Qed.

Lemma infos_names defs rec c self scope : forall nps infos,
  rmap (gen_field defs rec c self scope) nps = Done infos ->
  map (fun i : finfo => f_name (fst (fst i))) infos = map fst nps.
Proof.
  intros nps infos H. apply rmap_Done in H. induction H as [|np i l1 l2 Hnp _ IH]; [reflexivity|].
  cbn [map]. rewrite IH. f_equal. destruct np as [fname [k p]]. unfold gen_field in Hnp. apply rbind_Done in Hnp.
  destruct Hnp as [[ty bp] [_ Hi]]. inversion Hi; subst. apply make_field_name.
Qed.

Lemma combine_fst {A B} (l1 : list A) (l2 : list B) : length l1 = length l2 -> map fst (combine l1 l2) = l1.
Proof. revert l2. induction l1 as [|a r IH]; intros [|b s] H; try discriminate; [reflexivity|]. cbn. f_equal. apply IH. inversion H; reflexivity. Qed.

(* without an additional-properties field: names_ok as soon as the identifiers are non-empty and free of underscores *)
Theorem struct_names_ok idf defs rec c self scope props infos :
  Forall no_us (map (fun kp : str * schema => idf (fst kp)) (sort_props props)) ->
  Forall (fun s : str => s <> []) (map (fun kp : str * schema => idf (fst kp)) (sort_props props)) ->
  rmap (gen_field defs rec c self scope) (prop_names idf props) = Done infos ->
  names_ok (map (fun i : finfo => fst (fst i)) infos) = true.
Proof.
  intros Hus Hne H. apply names_ok_of_nodup; rewrite map_map, (infos_names _ _ _ _ _ _ _ H); unfold prop_names;
    rewrite combine_fst by (rewrite field_names_length, map_length; reflexivity).
  - exact (field_names_distinct _ Hus).
  - exact (assign_fields_nonempty _ [] Hne).
Qed.
