(* anyOf end to end (C11): what the generator emits for an anyOf of inline object branches, and what the emitted
   method accepts.  The branch types <scope>_<i> are generated from the branches themselves (each with a method of its
   own), the carrier struct <scope> is generated from the merge of the branches and its method runs the anyOf validator
   alone: it accepts a document iff at least one branch type accepts it AND the document decodes into the carrier. *)
From GJS Require Import Base Bounds IntSize Regex Schema Merge GoType Ident Gen Exec Valid ExecP GenP WfP GenWfP MergeP.

Lemma existsb_ext' {A} (p q : A -> bool) (l : list A) : (forall x, p x = q x) -> existsb p l = existsb q l.
Proof. intros H. induction l as [|a r IH]; [reflexivity|]. cbn. rewrite H, IH. reflexivity. Qed.

Lemma existsb_negb_forallb {A} (p : A -> bool) (l : list A) : existsb (fun x => negb (p x)) l = negb (forallb p l).
Proof. induction l as [|a r IH]; [reflexivity|]. cbn. rewrite IH. destruct (p a); reflexivity. Qed.

Section Generated.
Variable idf : str -> str.
Variable cf : cfg.
Variable defs : list (str * schema).
Notation gen := (Gen.gen idf cf defs).

(* the shape of what is generated *)
Definition composite (b : schema) : bool := match s_all_of b, s_any_of b with [], [] => false | _, _ => true end.

Theorem anyof_generated f self sub c props addl af items allof a ar scope t b :
  c_enum c = None -> c_ref c = None -> g_only_models cf = false ->
  gen (S f) MInline self sub (Sch c props addl af items allof (a :: ar)) scope = Done (t, b) ->
  exists rs m brs ch nm fs plan0,
    existsb composite (a :: ar) = false /\
    resolve_branches defs (a :: ar) = Done rs /\
    merge_types rs = Some m /\
    Forall2 (fun ib y => match c_ref (s_con (snd ib)) with
                         | Some x => y = (TRef x, c_bounds (s_con (snd ib)))
                         | None => gen f MInline self true (snd ib) (suffixed scope (fst ib)) = Done y
                         end)
            (combine (seq 0 (length (a :: ar))) (a :: ar)) brs /\
    gen f MInline self false m scope = Done (TStruct (ch :: nm) fs plan0, b) /\
    t = TStruct (ch :: nm) fs (Some [VAnyOf (map fst brs)]).
Proof.
  intros He Hr Hom H. cbn [Gen.gen s_con s_any_of s_all_of] in H. rewrite He, Hr in H.
  match type of H with (if ?e then _ else _) = _ => destruct e eqn:Ecomp end; [discriminate|].
  match type of H with (if ?e then _ else _) = _ => destruct e end; [discriminate|].
  apply rbind_Done in H. destruct H as [rs [Hrs H]].
  match type of H with (if ?e then _ else _) = _ => destruct e end; [discriminate|].
  apply rbind_Done in H. destruct H as [brs [Hb H]].
  destruct (merge_types rs) as [m|] eqn:Em; [|discriminate].
  apply rbind_Done in H. destruct H as [[t0 b0] [Hm H]]. cbn [fst snd] in H.
  destruct t0 as [| | | | | | |?|? ?|?|name fs plan0|? ? ?|? ? ? ?|?]; try discriminate. destruct name as [|ch nm]; [discriminate|].
  rewrite Hom in H. inversion H; subst.
  exists rs, m, brs, ch, nm, fs, plan0. repeat split; try assumption; try reflexivity.
  apply rmap_Done in Hb. clear -Hb. induction Hb as [|ib y l1 l2 Hy _ IHl]; constructor; [|exact IHl].
  destruct (c_ref (s_con (snd ib))); [inversion Hy; reflexivity|exact Hy].
Qed.
End Generated.

(* what the emitted method accepts *)
Section Accepts.
Variable fmt_ok : fmtk -> str -> bool.
Variable env : list (str * gty).
Notation dec := (Exec.dec fmt_ok env).

Lemma run_before_single decf raw j v : run_before decf [v] raw j = before_step decf raw j v.
Proof. reflexivity. Qed.

Lemma run_after_anyof dvf raw st bs : run_after dvf [VAnyOf bs] raw st = Ok st.
Proof. reflexivity. Qed.

(* the carrier's method, step by step: only objects and null reach the checks; the anyOf validator; the typed decode of the
   merged fields; the additional-properties block *)
Theorem anyof_method f ch nm fs brs j :
  dec (S f) (TStruct (ch :: nm) fs (Some [VAnyOf brs])) j =
  match j with
  | JNull | JObj _ =>
      let raw := match j with JObj kv => Some (Some kv) | _ => Some None end in
      obind (before_step (dec f) raw j (VAnyOf brs)) (fun _ =>
      obind (plain_fields (dec f) zero fs j) (fun st => addl_block fs raw st))
  | _ => Err
  end.
Proof.
  cbn [Exec.dec]. unfold run_method. cbn [existsb v_before orb].
  destruct j; cbn [obind]; reflexivity.
Qed.

(* soundness: an accepted document is accepted by one of the branch types *)
Theorem anyof_accepts_some_branch f ch nm fs brs j v :
  dec (S f) (TStruct (ch :: nm) fs (Some [VAnyOf brs])) j = Ok v ->
  exists bt, In bt brs /\ is_ok (dec f bt j) = true.
Proof.
  rewrite anyof_method. destruct j; try discriminate.
  - cbn zeta. destruct (before_step (dec f) (Some None) JNull (VAnyOf brs)) eqn:E; cbn [obind]; try discriminate. intros _.
    cbn [before_step] in E. rewrite !existsb_map' in E.
    destruct (existsb _ brs); [discriminate|]. destruct (existsb _ brs); [discriminate|].
    destruct (existsb (fun x => match dec f x JNull with Ok _ => true | _ => false end) brs) eqn:E3; [|discriminate].
    apply existsb_exists in E3. destruct E3 as [bt [Hin Hok]]. exists bt. split; [exact Hin|]. unfold is_ok. exact Hok.
  - cbn zeta. destruct (before_step (dec f) (Some (Some kv)) (JObj kv) (VAnyOf brs)) eqn:E; cbn [obind]; try discriminate. intros _.
    cbn [before_step] in E. rewrite !existsb_map' in E.
    destruct (existsb _ brs); [discriminate|]. destruct (existsb _ brs); [discriminate|].
    destruct (existsb (fun x => match dec f x (JObj kv) with Ok _ => true | _ => false end) brs) eqn:E3; [|discriminate].
    apply existsb_exists in E3. destruct E3 as [bt [Hin Hok]]. exists bt. split; [exact Hin|]. unfold is_ok. exact Hok.
Qed.

(* completeness: with every branch decided (no crash, fuel enough), a document that one branch accepts is accepted as soon as
   it decodes into the carrier's fields *)
Theorem anyof_accepts f ch nm fs brs kv st st' :
  (forall bt, In bt brs -> dec f bt (JObj kv) <> Crash /\ dec f bt (JObj kv) <> NoFuel) ->
  existsb (fun bt => is_ok (dec f bt (JObj kv))) brs = true ->
  plain_fields (dec f) zero fs (JObj kv) = Ok st -> addl_block fs (Some (Some kv)) st = Ok st' ->
  dec (S f) (TStruct (ch :: nm) fs (Some [VAnyOf brs])) (JObj kv) = Ok st'.
Proof.
  intros Hd He Hp Ha. rewrite anyof_method. cbn zeta. rewrite (anyof_step _ _ _ _ Hd), He. cbn [obind]. rewrite Hp. cbn [obind]. exact Ha.
Qed.

(* and a document that no branch accepts is rejected *)
Theorem anyof_rejects f ch nm fs brs kv :
  (forall bt, In bt brs -> dec f bt (JObj kv) <> Crash /\ dec f bt (JObj kv) <> NoFuel) ->
  existsb (fun bt => is_ok (dec f bt (JObj kv))) brs = false ->
  dec (S f) (TStruct (ch :: nm) fs (Some [VAnyOf brs])) (JObj kv) = Err.
Proof. intros Hd He. rewrite anyof_method. cbn zeta. rewrite (anyof_step _ _ _ _ Hd), He. reflexivity. Qed.
End Accepts.

(* ---------- an instance, computed: anyOf of {a: string, required} and {b: integer, required} under the name T ---------- *)
Definition ex_any : schema := Sch empty_con [] None false None [] [ob [97]%N SString; ob [98]%N SInteger].
Definition ex_t : str := [84]%N.

Example anyof_inhabited :
  exists t b,
    Gen.gen (fun s => s) (mkCfg false false) [] 6 MInline None false ex_any ex_t = Done (t, b) /\
    (exists fs b0 b1, t = TStruct ex_t fs (Some [VAnyOf [b0; b1]])) /\
    is_ok (Exec.dec (fun _ _ => true) [] 6 t (JObj [([97]%N, JStr [120]%N)])) = true /\
    is_ok (Exec.dec (fun _ _ => true) [] 6 t (JObj [([98]%N, JInt 1)])) = true /\
    Exec.dec (fun _ _ => true) [] 6 t (JObj []) = Err /\
    Exec.dec (fun _ _ => true) [] 6 t (JObj [([97]%N, JInt 1)]) = Err /\
    Valid.valid (fun _ _ => true) [] 4 ex_any (JObj [([97]%N, JStr [120]%N)]) = true /\
    Valid.valid (fun _ _ => true) [] 4 ex_any (JObj []) = false.
Proof.
  eexists. eexists. split; [vm_compute; reflexivity|].
  split; [do 3 eexists; reflexivity|].
  repeat split; vm_compute; reflexivity.
Qed.
