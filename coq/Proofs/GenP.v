(* Facts about the generator model (Model/Gen.v): what the type generated for an object
   schema contains. *)
From GJS Require Import Base Bounds IntSize Regex Schema GoType Ident Gen.

Lemma rmap_Done {A B} (F : A -> res B) (l : list A) (ys : list B) :
  rmap F l = Done ys -> Forall2 (fun x y => F x = Done y) l ys.
Proof.
  revert ys. induction l as [|x r IH]; intros ys H; cbn in H.
  - inversion H. constructor.
  - destruct (F x) as [y| | |] eqn:E; cbn in H; try discriminate.
    destruct (rmap F r) as [ys'| | |] eqn:E2; cbn in H; try discriminate.
    inversion H; subst. constructor; auto.
Qed.

Lemma Forall2_In_l {A B} (R : A -> B -> Prop) l1 l2 x : Forall2 R l1 l2 -> In x l1 -> exists y, In y l2 /\ R x y.
Proof.
  induction 1 as [|a b l1 l2 Hab _ IH]; intros Hin; [contradiction|].
  destruct Hin as [->|Hin]; [exists b; split; [left; reflexivity|exact Hab]|].
  destruct (IH Hin) as [y [Hy Hr]]. exists y. split; [right; exact Hy|exact Hr].
Qed.

(* ---------- sorting keeps the elements ---------- *)
Lemma insert_prop_In {A} (kv x : str * A) l : In x (insert_prop kv l) <-> x = kv \/ In x l.
Proof.
  induction l as [|y r IH]; cbn.
  - intuition.
  - destruct (str_leb (fst kv) (fst y)); cbn; [intuition|]. rewrite IH. intuition.
Qed.
Lemma sort_props_In {A} (x : str * A) l : In x (sort_props l) <-> In x l.
Proof.
  unfold sort_props. induction l as [|y r IH]; cbn; [tauto|]. rewrite insert_prop_In, IH. intuition.
Qed.
Lemma insert_prop_length {A} (kv : str * A) l : length (insert_prop kv l) = S (length l).
Proof. induction l as [|y r IH]; cbn; [reflexivity|]. destruct (str_leb _ _); cbn; [reflexivity|]. rewrite IH. reflexivity. Qed.

(* ---------- field names: one per property ---------- *)
Lemma assign_fields_length ids : forall seen, length (assign_fields ids seen) = length ids.
Proof. induction ids as [|i r IH]; intros seen; cbn; [reflexivity|]. destruct (count_of i seen); cbn; rewrite IH; reflexivity. Qed.
Lemma field_names_length ids : length (field_names ids) = length ids.
Proof. apply assign_fields_length. Qed.

Lemma In_combine_r {A B} (l1 : list A) (l2 : list B) y : length l1 = length l2 -> In y l2 -> exists x, In (x, y) (combine l1 l2).
Proof.
  revert l2. induction l1 as [|a l1 IH]; intros [|b l2] Hlen Hin; cbn in *; try contradiction; try discriminate.
  destruct Hin as [->|Hin]; [exists a; left; reflexivity|].
  destruct (IH l2 (eq_add_S _ _ Hlen) Hin) as [x Hx]. exists x. right; exact Hx.
Qed.

Section GenP.
Variable idf : str -> str.
Variable cf : cfg.
Variable defs : list (str * schema).
Notation gen := (gen idf cf defs).

Lemma prop_names_In props k p : In (k, p) props -> exists fname, In (fname, (k, p)) (prop_names idf props).
Proof.
  intros H. unfold prop_names. apply In_combine_r.
  - rewrite field_names_length, map_length. reflexivity.
  - apply sort_props_In. exact H.
Qed.

(* ---------- the struct generated for an object schema with properties ---------- *)
Definition plain_object (s : schema) : Prop :=
  c_enum (s_con s) = None /\ c_ref (s_con s) = None /\ fst (determine_type (s_con s)) = SObject /\
  s_props s <> [] /\ s_all_of s = [] /\ s_any_of s = [].

Lemma gen_type_object f self sub s scope t b :
  plain_object s -> gen (S f) MType self sub s scope = Done (t, b) ->
  exists infos,
    rmap (gen_field defs (fun p sc => gen f MInline self false p sc) (s_con s) self scope) (prop_names idf (s_props s)) = Done infos /\
    build_struct s (c_bounds (s_con s)) infos = Done (t, b).
Proof.
  intros (He & Hr & Ht & Hp & Hall & Hany) H. cbn [Gen.gen] in H.
  rewrite He, Hr, Hany, Hall in H.
  destruct (determine_type (s_con s)) as [ty ptr]. cbn [fst] in Ht. subst ty.
  assert (H' : match s_props s with
               | [] => match s_addl s with
                       | Some a => rbind (gen f MType self false a (scope ++ s_Value)) (fun r => Done (TMap (fst r), c_bounds (s_con s)))
                       | None => Done (TMap TIface, c_bounds (s_con s))
                       end
               | props => rbind (rmap (gen_field defs (fun p sc => gen f MInline self false p sc) (s_con s) self scope) (prop_names idf props))
                                (build_struct s (c_bounds (s_con s)))
               end = Done (t, b)).
  { destruct (c_types (s_con s)); destruct (s_props s); exact H. }
  clear H. destruct (s_props s) as [|kp props] eqn:EP; [contradiction|].
  destruct (rmap _ _) as [infos| | |] eqn:E; cbn [rbind] in H'; try discriminate.
  exists infos. split; [reflexivity|exact H'].
Qed.

Lemma build_struct_shape s b0 infos t b :
  build_struct s b0 infos = Done (t, b) ->
  exists fs plan, t = TStruct [] fs (Some plan) /\
    (forall i, In i infos -> In (fst (fst i)) fs) /\
    (forall i, In i infos -> snd (fst i) = true -> In (VRequired (f_json (fst (fst i)))) plan) /\
    (forall i v, In i infos -> In v (snd i) -> In v plan).
Proof.
  unfold build_struct. intros H.
  set (fields := map (fun i : finfo => fst (fst i)) infos) in *.
  set (reqs := flat_map (fun i : finfo => if snd (fst i) then [VRequired (f_json (fst (fst i)))] else []) infos) in *.
  set (fvs := flat_map (fun i : finfo => snd i) infos) in *.
  assert (Hf : forall i, In i infos -> In (fst (fst i)) fields) by (intros i Hi; apply in_map with (f := fun i : finfo => fst (fst i)); exact Hi).
  assert (Hq : forall i, In i infos -> snd (fst i) = true -> In (VRequired (f_json (fst (fst i)))) reqs).
  { intros i Hi Ht. apply in_flat_map. exists i. split; [exact Hi|]. rewrite Ht. left; reflexivity. }
  assert (Hv : forall i v, In i infos -> In v (snd i) -> In v fvs).
  { intros i v Hi Hvi. apply in_flat_map. exists i. split; assumption. }
  destruct (s_addl s) as [a|]; [destruct (s_addl_false s)|].
  2: destruct (c_types (s_con a)) as [|t0 [|t1 r]]; try discriminate.
  all: inversion H; subst; eexists; eexists; split; [reflexivity|]; repeat split; intros; rewrite ?in_app_iff.
  all: first [left; solve [eauto] | right; left; solve [eauto] | solve [eauto]].
Qed.

(* a required property without a default gets its presence check; every property gets a field
   bound to its exact key, of the type generated for the property schema (or a pointer to it) *)
Theorem object_required_check f self sub s scope t b k p :
  plain_object s -> gen (S f) MType self sub s scope = Done (t, b) ->
  In (k, p) (s_props s) -> mem k (c_required (s_con s)) = true -> c_default (s_con p) = None ->
  exists fs plan, t = TStruct [] fs (Some plan) /\ In (VRequired k) plan.
Proof.
  intros Hobj H Hin Hreq Hdef.
  destruct (gen_type_object f self sub s scope t b Hobj H) as (infos & Hmap & Hbuild).
  destruct (build_struct_shape _ _ _ _ _ Hbuild) as (fs & plan & -> & _ & Hq & _).
  exists fs, plan. split; [reflexivity|].
  destruct (prop_names_In _ _ _ Hin) as [fname Hn].
  destruct (Forall2_In_l _ _ _ _ (rmap_Done _ _ _ Hmap) Hn) as (i & Hi & Hgi).
  cbn [gen_field] in Hgi. destruct (gen f MInline self false p (scope ++ fname)) as [[ty bp]| | |]; cbn [rbind] in Hgi; try discriminate.
  inversion Hgi as [Hi']; subst i. clear Hgi. unfold make_field in *. rewrite Hdef, Hreq in *.
  specialize (Hq _ Hi eq_refl). exact Hq.
Qed.

Theorem object_field_bound f self sub s scope t b k p :
  plain_object s -> gen (S f) MType self sub s scope = Done (t, b) -> In (k, p) (s_props s) ->
  exists fs plan fl ty bp, t = TStruct [] fs (Some plan) /\ In fl fs /\ f_json fl = k /\ f_addl fl = false /\
    gen f MInline self false p (scope ++ f_name fl) = Done (ty, bp) /\ (f_ty fl = ty \/ f_ty fl = TPtr ty).
Proof.
  intros Hobj H Hin.
  destruct (gen_type_object f self sub s scope t b Hobj H) as (infos & Hmap & Hbuild).
  destruct (build_struct_shape _ _ _ _ _ Hbuild) as (fs & plan & -> & Hf & _ & _).
  destruct (prop_names_In _ _ _ Hin) as [fname Hn].
  destruct (Forall2_In_l _ _ _ _ (rmap_Done _ _ _ Hmap) Hn) as (i & Hi & Hgi).
  cbn [gen_field] in Hgi. destruct (gen f MInline self false p (scope ++ fname)) as [[ty bp]| | |] eqn:EG; cbn [rbind] in Hgi; try discriminate.
  inversion Hgi as [Hi']; subst i. clear Hgi. specialize (Hf _ Hi).
  exists fs, plan, (fst (fst (make_field defs (s_con s) self fname k p ty bp))), ty, bp.
  split; [reflexivity|]. split; [exact Hf|].
  unfold make_field. cbn [fst snd].
  destruct (c_default (s_con p)); [|destruct (mem k (c_required (s_con s)))]; cbn [fst f_json f_addl f_name f_ty];
    repeat split; auto.
  destruct (nillable_ty _ ty); auto.
Qed.

(* one-step equations that do not unfold the recursive calls *)
Lemma gen_declared_eq f self sub s scope :
  c_enum (s_con s) = None ->
  gen (S f) MDeclared self sub s scope = rbind (gen f MType self sub s scope) (declare cf scope sub (s_con s)).
Proof. intros H. destruct f; cbn [Gen.gen]; rewrite H; reflexivity. Qed.

Lemma gen_inline_object_eq f self sub s scope :
  c_enum (s_con s) = None -> c_ref (s_con s) = None -> s_all_of s = [] -> s_any_of s = [] -> c_types (s_con s) = [SObject] ->
  gen (S f) MInline self sub s scope = gen f MDeclared self sub s scope.
Proof.
  intros He Hr Hall Hany Ht. destruct f; cbn [Gen.gen]; rewrite He, Hr, Hall, Hany, Ht; unfold determine_type; rewrite Ht; reflexivity.
Qed.

(* the declared type: the struct keeps its validators as a method unless --only-models *)
Theorem declared_object f self sub s scope t b k p :
  plain_object s -> g_only_models cf = false -> scope <> [] ->
  gen (S (S f)) MDeclared self sub s scope = Done (t, b) ->
  In (k, p) (s_props s) -> mem k (c_required (s_con s)) = true -> c_default (s_con p) = None ->
  exists c name fs plan, t = TStruct (c :: name) fs (Some plan) /\ In (VRequired k) plan.
Proof.
  intros Hobj Hom Hsc H Hin Hreq Hdef.
  pose proof Hobj as (He & _). rewrite gen_declared_eq in H by exact He.
  destruct (gen (S f) MType self sub s scope) as [[t0 b0]| | |] eqn:E; cbn [rbind] in H; try discriminate.
  destruct (object_required_check f self sub s scope t0 b0 k p Hobj E Hin Hreq Hdef) as (fs & plan & -> & Hp).
  unfold declare in H. cbn [is_named_ty] in H. rewrite Hom in H.
  destruct plan as [|v plan]; [contradiction|]. cbn [length Nat.eqb negb orb] in H. rewrite orb_true_r in H.
  inversion H; subst. destruct scope as [|c name]; [contradiction|]. exists c, name, fs, (v :: plan). split; [reflexivity|exact Hp].
Qed.

(* the same through generateTypeInline: a property (or array item) that is a plain object schema *)
Theorem inline_object f self sub s scope t b k p :
  plain_object s -> c_types (s_con s) = [SObject] -> g_only_models cf = false -> scope <> [] ->
  gen (S (S (S f))) MInline self sub s scope = Done (t, b) ->
  In (k, p) (s_props s) -> mem k (c_required (s_con s)) = true -> c_default (s_con p) = None ->
  exists c name fs plan, t = TStruct (c :: name) fs (Some plan) /\ In (VRequired k) plan.
Proof.
  intros Hobj Ht Hom Hsc H Hin Hreq Hdef.
  pose proof Hobj as (He & Hr & _ & _ & Hall & Hany).
  rewrite gen_inline_object_eq in H by assumption.
  eapply declared_object; eauto.
Qed.

End GenP.

(* ------------------------------------------------------------------ failures propagate (C18) *)
Definition is_done {A} (r : res A) : bool := match r with Done _ => true | _ => false end.

Lemma rbind_not_done {A B} (r : res A) (g : A -> res B) : is_done r = false -> is_done (rbind r g) = false.
Proof. destruct r; cbn; congruence. Qed.

Lemma rmap_not_done {A B} (F : A -> res B) (l : list A) x : In x l -> is_done (F x) = false -> is_done (rmap F l) = false.
Proof.
  induction l as [|y r IH]; intros Hin Hx; [contradiction|]. cbn [rmap].
  destruct Hin as [->|Hin].
  - apply rbind_not_done. exact Hx.
  - destruct (F y); cbn [rbind]; try reflexivity. apply rbind_not_done. apply IH; assumption.
Qed.

Section Fail.
Variable idf : str -> str.
Variable cf : cfg.
Variable defs : list (str * schema).
Notation gen := (gen idf cf defs).

(* the ungeneratable elements themselves *)
Lemma unknown_type_fails fmt ptr b : primitive cf SUnknown fmt ptr b = GErr.
Proof. reflexivity. Qed.

Lemma missing_definition_fails f self sub s scope x :
  c_enum (s_con s) = None -> c_ref (s_con s) = Some x -> lookup x defs = None -> gen (S f) MType self sub s scope = GErr.
Proof. intros He Hr Hl. destruct f; cbn [Gen.gen]; rewrite He, Hr, Hl; reflexivity. Qed.

Lemma empty_enum_fails f self sub s scope : c_enum (s_con s) = Some [] -> gen (S f) MType self sub s scope = GErr.
Proof. intros He. destruct f; cbn [Gen.gen]; rewrite He; reflexivity. Qed.

(* a property that cannot be generated makes its object fail ... *)
Theorem object_fails_with_property f self sub s scope k p :
  plain_object s -> In (k, p) (s_props s) ->
  (forall sc, is_done (gen f MInline self false p sc) = false) ->
  is_done (gen (S f) MType self sub s scope) = false.
Proof.
  intros (He & Hr & Ht & Hp & Hall & Hany) Hin Hbad.
  destruct (gen (S f) MType self sub s scope) as [[t b]| | |] eqn:E; try reflexivity. exfalso.
  destruct (gen_type_object idf cf defs f self sub s scope t b (conj He (conj Hr (conj Ht (conj Hp (conj Hall Hany))))) E) as (infos & Hmap & _).
  destruct (prop_names_In idf _ _ _ Hin) as [fname Hn].
  assert (Hnd : is_done (rmap (gen_field defs (fun p sc => gen f MInline self false p sc) (s_con s) self scope) (prop_names idf (s_props s))) = false).
  { eapply rmap_not_done; [exact Hn|]. cbn [gen_field]. apply rbind_not_done. apply Hbad. }
  rewrite Hmap in Hnd. discriminate.
Qed.

(* ... and so does every enclosing declaration / inline position *)
Lemma declared_fails f self sub s scope :
  c_enum (s_con s) = None -> is_done (gen f MType self sub s scope) = false -> is_done (gen (S f) MDeclared self sub s scope) = false.
Proof. intros He H. rewrite gen_declared_eq by exact He. apply rbind_not_done. exact H. Qed.

Lemma inline_object_fails f self sub s scope :
  c_enum (s_con s) = None -> c_ref (s_con s) = None -> s_all_of s = [] -> s_any_of s = [] -> c_types (s_con s) = [SObject] ->
  is_done (gen f MDeclared self sub s scope) = false -> is_done (gen (S f) MInline self sub s scope) = false.
Proof. intros He Hr Ha Hy Ht H. rewrite gen_inline_object_eq by assumption. exact H. Qed.

Lemma inline_array_fails f self sub s scope it :
  c_enum (s_con s) = None -> c_ref (s_con s) = None -> s_all_of s = [] -> s_any_of s = [] -> c_types (s_con s) = [SArray] ->
  s_items s = Some it -> (forall sc, is_done (gen f MInline self false it sc) = false) ->
  is_done (gen (S f) MInline self sub s scope) = false.
Proof.
  intros He Hr Ha Hy Ht Hi Hbad. destruct f; cbn [Gen.gen]; rewrite He, Hr, Ha, Hy, Ht; unfold determine_type; rewrite Ht; cbn; rewrite Hi;
    [reflexivity|]. apply rbind_not_done. apply Hbad.
Qed.

(* a definition that cannot be generated fails the file *)
Theorem file_fails_with_definition root root_name name d :
  In (name, d) defs -> is_done (gen gen_fuel MDeclared (Some name) false d (idf name)) = false ->
  is_done (gen_file idf cf defs root root_name) = false.
Proof.
  intros Hin Hbad. unfold gen_file. apply rbind_not_done.
  apply rmap_not_done with (x := (name, d)); [apply sort_props_In; exact Hin|]. cbn [fst snd]. apply rbind_not_done. exact Hbad.
Qed.
End Fail.

(* ------------------------------------------------------------------ --only-models (C16) *)
(* --only-models never attaches a method; everything else about the declared type is decided before
   the option is looked at (generateDeclaredType returns right after AddDecl) *)
Definition no_method (t : gty) : bool :=
  match t with
  | TStruct _ _ (Some _) | TNamed _ _ (Some _) => false
  | _ => true
  end.

Theorem declare_only_models_no_method mn scope sub c t0 b0 t b :
  is_named_ty t0 = false -> declare (mkCfg mn true) scope sub c (t0, b0) = Done (t, b) -> no_method t = true.
Proof.
  unfold declare. intros EN H. rewrite EN in H. cbn [g_only_models] in H.
  destruct t0 as [| | | | | | | | | |name fs plan| | |]; try (inversion H; subst; reflexivity).
  destruct name; [|inversion H; subst; reflexivity]. destruct plan; inversion H; subst; reflexivity.
Qed.

(* and the declared type is the same as in a full run once the methods are dropped *)
Definition strip_plan (t : gty) : gty :=
  match t with
  | TStruct n fs _ => TStruct n fs None
  | TNamed n u _ => TNamed n u None
  | _ => t
  end.

Theorem declare_only_models_same_type mn scope sub c t0 b0 t b t' b' :
  is_named_ty t0 = false ->
  declare (mkCfg mn false) scope sub c (t0, b0) = Done (t, b) -> declare (mkCfg mn true) scope sub c (t0, b0) = Done (t', b') ->
  strip_plan t = strip_plan t' /\ b = b'.
Proof.
  unfold declare. intros EN H1 H2. rewrite EN in H1, H2. cbn [g_only_models] in H1, H2.
  destruct t0 as [| | | | | | | | | |name fs plan| | |]; try (inversion H1; inversion H2; subst; split; reflexivity).
  destruct name; [|inversion H1; inversion H2; subst; split; reflexivity].
  destruct plan; inversion H1; inversion H2; subst; split; reflexivity.
Qed.

(* ------------------------------------------------------------------ references (C10) *)
Section Refs.
Variable idf : str -> str.
Variable cf : cfg.
Variable defs : list (str * schema).
Notation gen := (gen idf cf defs).

(* every reference to a definition (that has a type or properties) is the SAME named type, whatever the
   referring position, scope, mode or options: one Go type per definition, shared by all referrers *)
Theorem reference_is_shared f self sub s scope x d :
  c_enum (s_con s) = None -> c_ref (s_con s) = Some x -> lookup x defs = Some d ->
  (c_types (s_con d) <> [] \/ s_props d <> []) ->
  gen (S f) MType self sub s scope = Done (TRef x, c_bounds (s_con s)).
Proof.
  intros He Hr Hl Hd. destruct f; cbn [Gen.gen]; rewrite He, Hr, Hl;
    destruct (c_types (s_con d)), (s_props d); try reflexivity; destruct Hd; contradiction.
Qed.

(* a definition reached through generateDeclaredType / generateTypeInline is not declared again *)
Theorem reference_not_redeclared f self sub s scope x d :
  c_enum (s_con s) = None -> c_ref (s_con s) = Some x -> lookup x defs = Some d ->
  (c_types (s_con d) <> [] \/ s_props d <> []) ->
  gen (S (S f)) MDeclared self sub s scope = Done (TRef x, c_bounds (s_con s)) /\
  gen (S (S (S f))) MInline self sub s scope = Done (TRef x, c_bounds (s_con s)).
Proof.
  intros He Hr Hl Hd.
  assert (H1 : gen (S (S f)) MDeclared self sub s scope = Done (TRef x, c_bounds (s_con s))).
  { rewrite gen_declared_eq by exact He. rewrite (reference_is_shared f self sub s scope x d He Hr Hl Hd). reflexivity. }
  split; [exact H1|].
  assert (E : gen (S (S (S f))) MInline self sub s scope = gen (S (S f)) MDeclared self sub s scope).
  { cbn [Gen.gen]. rewrite He, Hr. reflexivity. }
  rewrite E. exact H1.
Qed.
End Refs.

(* ---------- allOf: the node is generated as the merge of its resolved branches ---------- *)
Lemma allof_generated idf cf defs f self sub c props addl af items b bs scope m :
  c_enum c = None -> c_ref c = None -> all_of_schema defs (b :: bs) = Done m ->
  gen idf cf defs (S f) MInline self sub (Sch c props addl af items (b :: bs) []) scope = gen idf cf defs f MInline self false m scope.
Proof.
  intros He Hr Hm. cbn [gen s_con s_any_of s_all_of]. rewrite He, Hr, Hm. reflexivity.
Qed.
