(* Integer enums (generateEnumType, the "Enforce integer type for enum values" loop after repair d4feaa6): the table built from a list of
   JSON numbers holds an int for every integral member inside the int range and leaves every other number a float64, which no decoded int
   equals.  Hence the values a plain-int carrier accepts are exactly the listed numbers that are equal to it - whatever else the list holds. *)
From GJS Require Import Base Bounds BoundsP NumericP IntSize Regex Schema GoType Gen Exec ExecP.
From Coq Require Import Lqa.
Local Open Scope Q_scope.

Definition json_num_eq (z : Z) (j : json) : bool :=
  match j with JNum n => Qeq_bool (inject_Z z) (nq n) | _ => false end.

Lemma inject_Z_eq_inv a b : inject_Z a == inject_Z b -> a = b.
Proof. unfold Qeq, inject_Z; cbn. lia. Qed.

Lemma int_member z q : in_range KInt z = true ->
  enum_eq (TInt KInt) (GI z) (if Qis_int q && in_range KInt (Qtrunc_z q) then EVInt (Qtrunc_z q) else EVFloat q) = Qeq_bool (inject_Z z) q.
Proof.
  intros Hz. destruct (Qis_int q) eqn:Hi; cbn [andb].
  - apply Qis_int_iff in Hi. destruct Hi as [k Hk].
    rewrite (Qtrunc_z_proper q (inject_Z k) Hk), Qtrunc_inject.
    destruct (in_range KInt k) eqn:Hr; cbn [enum_eq].
    + destruct (Z.eqb_spec z k) as [E|E].
      * subst. symmetry. apply Qeq_bool_iff. symmetry. exact Hk.
      * symmetry. apply not_true_is_false. intros H. apply Qeq_bool_iff in H. apply E. apply inject_Z_eq_inv. rewrite H. exact Hk.
    + symmetry. apply not_true_is_false. intros H. apply Qeq_bool_iff in H.
      assert (z = k) by (apply inject_Z_eq_inv; rewrite H; exact Hk). subst. congruence.
  - cbn [enum_eq]. symmetry. apply not_true_is_false. intros H. apply Qeq_bool_iff in H.
    assert (Qis_int q = true) by (apply Qis_int_iff; exists z; symmetry; exact H). congruence.
Qed.

Theorem int_enum_exact : forall l tbl z, all_numbers_to_int l = Some tbl -> in_range KInt z = true ->
  existsb (enum_eq (TInt KInt) (GI z)) tbl = existsb (json_num_eq z) l.
Proof.
  induction l as [|j r IH]; intros tbl z Ht Hz; cbn [all_numbers_to_int] in Ht.
  - inversion Ht. reflexivity.
  - destruct j; try discriminate Ht.
    destruct (all_numbers_to_int r) as [es|] eqn:Hr; [|discriminate Ht]. inversion Ht; subst.
    cbn [existsb json_num_eq]. rewrite (IH es z eq_refl Hz), (int_member z _ Hz). reflexivity.
Qed.

(* every list of numbers has a table (the loop only fails on a value that is not a number) *)
Lemma int_enum_total l : Forall (fun j => match j with JNum _ => True | _ => False end) l -> exists tbl, all_numbers_to_int l = Some tbl.
Proof.
  induction 1 as [|j r Hj _ [es He]]; [exists []; reflexivity|].
  destruct j; try contradiction. cbn [all_numbers_to_int]. rewrite He. eexists; reflexivity.
Qed.

(* the generated method of an integer enum: a document that decodes into the int carrier is accepted iff it equals a listed number *)
Theorem int_enum_method_exact : forall fmt_ok env f name l tbl j z,
  all_numbers_to_int l = Some tbl -> dec fmt_ok env f (TInt KInt) j = Ok (GI z) -> in_range KInt z = true ->
  dec fmt_ok env (S f) (TEnum name (TInt KInt) false tbl) j = if existsb (json_num_eq z) l then Ok (GI z) else Err.
Proof.
  intros fmt_ok env f name l tbl j z Ht Hd Hz. cbn [dec]. rewrite Hd. cbn [obind].
  rewrite (int_enum_exact l tbl z Ht Hz). reflexivity.
Qed.

(* non-vacuity: the list [1, 2.5, 3] - 1 and 3 accepted, 2 (the integer part of 2.5) rejected *)
Example int_enum_inhabited :
  let l := [JNum (mkNum (1 # 1) true); JNum (mkNum (5 # 2) false); JNum (mkNum (3 # 1) true)] in
  exists tbl, all_numbers_to_int l = Some tbl /\
    existsb (json_num_eq 1) l = true /\ existsb (json_num_eq 3) l = true /\ existsb (json_num_eq 2) l = false /\
    is_ok (dec (fun _ _ => true) [] 3 (TEnum [69]%N (TInt KInt) false tbl) (JNum (mkNum (2 # 1) true))) = false /\
    is_ok (dec (fun _ _ => true) [] 3 (TEnum [69]%N (TInt KInt) false tbl) (JNum (mkNum (3 # 1) true))) = true.
Proof. cbn zeta. eexists. split; [reflexivity|]. vm_compute. repeat split; reflexivity. Qed.

(* ---- end to end: the type generated for an integer enum accepts a document iff the document is valid under the schema ---- *)
From GJS Require Import Valid LevelP.
Local Open Scope Q_scope.

Definition is_num (j : json) : Prop := match j with JNum _ => True | _ => False end.
(* {"type": "integer", "enum": [numbers...]} with no other keyword *)
Definition int_enum_leaf (p : schema) : Prop :=
  exists c l, p = Sch c [] None false None [] [] /\ c_types c = [SInteger] /\ c_ref c = None /\ c_enum c = Some l /\ l <> [] /\ Forall is_num l /\
              c_default c = None /\ c_format c = None /\ has_bound_kw (c_mult c) (c_bounds c) = false.

Section IntEnum.
Variable idf : str -> str.
Variable cf : cfg.
Variable defs : list (str * schema).
Variable fmt_ok : fmtk -> str -> bool.
Variable env : list (str * gty).
Variable sdefs : list (str * schema).
Hypothesis Hms : g_minsized cf = false.
Notation gen := (Gen.gen idf cf defs).
Notation dec := (Exec.dec fmt_ok env).
Notation valid := (Valid.valid fmt_ok sdefs).

Lemma gen_int_enum_leaf f self sc p ty bp : int_enum_leaf p -> gen (S f) MInline self false p sc = Done (ty, bp) ->
  exists l tbl, c_enum (s_con p) = Some l /\ all_numbers_to_int l = Some tbl /\ ty = TEnum sc (TInt KInt) false tbl /\ bp = c_bounds (s_con p).
Proof.
  intros (c & l & -> & Ht & Hr & He & Hne & Hnum & _ & Hf & _) H. exists l. cbn [s_con].
  cbn [Gen.gen s_con] in H. rewrite He in H.
  destruct f as [|f]; [discriminate|]. cbn [Gen.gen s_con] in H. rewrite He in H.
  destruct f as [|f]; [discriminate|]. cbn [Gen.gen s_con] in H. rewrite He, Ht in H.
  destruct l as [|v0 vr]; [contradiction Hne; reflexivity|].
  unfold primitive, primitive_int in H. rewrite Hms in H. cbn [rbind wrap_ptr] in H.
  destruct (all_numbers_to_int (v0 :: vr)) as [tbl|] eqn:E; [|discriminate H]. inversion H. exists tbl. split; [exact He|]. split; [reflexivity|]. split; reflexivity.
Qed.

Lemma existsb_json_nums z n l : nq n == inject_Z z -> existsb (json_eqb (JNum n)) l = existsb (json_num_eq z) l.
Proof.
  intros Hq. induction l as [|j r IH]; [reflexivity|]. cbn [existsb]. rewrite IH. f_equal.
  destruct j; cbn [json_eqb json_num_eq]; try reflexivity.
  destruct (Qeq_bool (nq n) (nq n0)) eqn:E1, (Qeq_bool (inject_Z z) (nq n0)) eqn:E2; try reflexivity.
  - apply Qeq_bool_iff in E1. assert (Qeq_bool (inject_Z z) (nq n0) = true) by (apply Qeq_bool_iff; rewrite <- Hq; exact E1). congruence.
  - apply Qeq_bool_iff in E2. assert (Qeq_bool (nq n) (nq n0) = true) by (apply Qeq_bool_iff; rewrite Hq; exact E2). congruence.
Qed.

Lemma valid_int_enum_leaf fv p x l : int_enum_leaf p -> c_enum (s_con p) = Some l ->
  valid (S fv) p x = match x with JNum n => Qis_int (nq n) && existsb (json_eqb x) l | _ => false end.
Proof.
  intros (c & l0 & -> & Ht & Hr & He0 & _ & _ & _ & Hf & Hb) He. cbn [s_con] in He.
  cbn [Valid.valid s_con s_all_of s_any_of]. rewrite Hr, Ht, He. cbn [type_ok existsb forallb].
  destruct x; cbn [type_matches orb andb]; try reflexivity.
  rewrite (no_bound_kw _ _ (nq n) Hb). rewrite ?andb_true_r, ?orb_false_r. reflexivity.
Qed.

(* accepted iff valid: every generated integer-enum type, every list of numbers (fractions included), every number document written as an
   integer literal inside Go's int (the guard of C02/C05 for integers: D12), and every document of another JSON type except null *)
Theorem int_enum_generated_exact : forall f fd fv self sc p ty bp x,
  int_enum_leaf p -> gen (S f) MInline self false p sc = Done (ty, bp) -> int_value x ->
  is_ok (dec (S (S fd)) ty x) = valid (S fv) p x.
Proof.
  intros f fd fv self sc p ty bp x Hleaf Hgen [Hnull Hint].
  destruct (gen_int_enum_leaf f self sc p ty bp Hleaf Hgen) as (l & tbl & He & Ht & -> & _).
  rewrite (valid_int_enum_leaf fv p x l Hleaf He).
  destruct x; try (cbn [Exec.dec obind is_ok]; reflexivity); [contradiction Hnull; reflexivity|].
  destruct (Hint n eq_refl) as [z [-> Hr]]. cbn [nq].
  rewrite (int_enum_method_exact fmt_ok env (S fd) sc l tbl (JNum (mkNum (inject_Z z) true)) z Ht); [| |exact Hr].
  - rewrite Qis_int_inject. cbn [andb]. rewrite (existsb_json_nums z (mkNum (inject_Z z) true) l (Qeq_refl _)).
    destruct (existsb (json_num_eq z) l); reflexivity.
  - cbn [Exec.dec nlit_int nq]. rewrite Qis_int_inject, Qfloor_inject, Hr. reflexivity.
Qed.
Lemma dec_int_enum fd sc es x : dec (S (S fd)) (TEnum sc (TInt KInt) false es) x =
  obind (dec (S fd) (TInt KInt) x) (fun v => if existsb (enum_eq (TInt KInt) v) es then Ok v else Err).
Proof. reflexivity. Qed.

Lemma int_enum_field fd fv c self fname k p l tbl kv sc :
  int_enum_leaf p -> c_enum (s_con p) = Some l -> all_numbers_to_int l = Some tbl -> fname <> [] ->
  match lookup k kv with
  | Some x => int_value x ->
      field_ok (dec (S (S (S fd)))) zero (default_val env dv_fuel) kv (pair_of (make_field defs c self fname k p (TEnum sc (TInt KInt) false tbl) (c_bounds (s_con p)))) = valid (S fv) p x
  | None => mem k (c_required c) = false ->
      field_ok (dec (S (S (S fd)))) zero (default_val env dv_fuel) kv (pair_of (make_field defs c self fname k p (TEnum sc (TInt KInt) false tbl) (c_bounds (s_con p)))) = true
  end.
Proof.
  intros Hleaf He Ht Hn. destruct (lookup k kv) as [x|] eqn:Hl.
  - intros [Hnull Hint]. rewrite (valid_int_enum_leaf fv p x l Hleaf He).
    destruct Hleaf as (pc & l0 & -> & Hty & Hr & He0 & _ & _ & Hd & _). unfold make_field, pair_of. cbn [s_con]. rewrite Hd.
    assert (Hcore : forall g z, in_range KInt z = true ->
              obind (dec (S g) (TInt KInt) (JNum (mkNum (inject_Z z) true))) (fun v => if existsb (enum_eq (TInt KInt) v) tbl then Ok v else Err) =
              if existsb (json_eqb (JNum (mkNum (inject_Z z) true))) l then Ok (GI z) else Err).
    { intros g z Hr0. cbn [Exec.dec nlit_int nq]. rewrite Qis_int_inject, Qfloor_inject, Hr0. cbn [andb obind].
      rewrite (int_enum_exact l tbl z Ht Hr0), (existsb_json_nums z (mkNum (inject_Z z) true) l (QArith_base.Qeq_refl _)). reflexivity. }
    destruct (mem k (c_required c)).
    + unfold field_ok. cbn [fst snd f_json f_ty f_name field_validators]. rewrite Hl, dec_int_enum.
      destruct x; try (contradiction Hnull; reflexivity); try (cbn [Exec.dec obind]; reflexivity).
      destruct (Hint n eq_refl) as [z [-> Hr0]]. rewrite (Hcore _ z Hr0). cbn [nq]. rewrite Qis_int_inject. cbn [andb].
      destruct (existsb _ l); reflexivity.
    + cbn [nillable_ty]. unfold field_ok. cbn [fst snd f_json f_ty f_name field_validators]. rewrite Hl.
      assert (Hp : dec (S (S (S fd))) (TPtr (TEnum sc (TInt KInt) false tbl)) x =
                   match x with JNull => Ok GNil | _ => obind (dec (S (S fd)) (TEnum sc (TInt KInt) false tbl) x) (fun v => Ok (GP v)) end) by reflexivity.
      rewrite Hp, dec_int_enum.
      destruct x; try (contradiction Hnull; reflexivity); try (cbn [Exec.dec obind]; reflexivity).
      destruct (Hint n eq_refl) as [z [-> Hr0]]. rewrite (Hcore _ z Hr0). cbn [nq]. rewrite Qis_int_inject. cbn [andb].
      destruct (existsb _ l); reflexivity.
  - intros Hm. destruct Hleaf as (pc & l0 & -> & Hty & Hr & He0 & _ & _ & Hd & _). unfold make_field, pair_of. cbn [s_con]. rewrite Hd, Hm. cbn [nillable_ty].
    unfold field_ok. cbn [fst snd f_json f_ty f_name field_validators]. rewrite Hl. reflexivity.
Qed.

Lemma int_enum_default_none p : int_enum_leaf p -> c_default (s_con p) = None.
Proof. intros (c & l & -> & _ & _ & _ & _ & _ & Hd & _). exact Hd. Qed.

End IntEnum.

(* non-vacuity of [int_enum_generated_exact]: {"type": "integer", "enum": [1, 2.5, 3]} is such a leaf, the generator declares a type for it,
   and the documents 1, 2, 3, "1" meet the document guard (2 - the integer part of 2.5 - is invalid and rejected) *)
Definition ex_int_enum : schema :=
  Sch (mkC [SInteger] None (Some [JNum (mkNum (1 # 1) true); JNum (mkNum (5 # 2) false); JNum (mkNum (3 # 1) true)]) [] 0 0 0 0 None None (mkBounds None None None None) None None)
      [] None false None [] [].
Example int_enum_generated_inhabited :
  int_enum_leaf ex_int_enum /\
  exists ty b, Gen.gen (fun s => s) (mkCfg false false) [] 5 MInline None false ex_int_enum [69]%N = Done (ty, b) /\
    map (fun x => (is_ok (Exec.dec (fun _ _ => true) [] 4 ty x), Valid.valid (fun _ _ => true) [] 3 ex_int_enum x))
        [JInt 1; JInt 2; JInt 3; JStr [49]%N] = [(true, true); (false, false); (true, true); (false, false)] /\
    Forall int_value [JInt 1; JInt 2; JInt 3; JStr [49]%N].
Proof.
  split.
  - eexists. eexists. repeat split; try reflexivity; try discriminate. repeat constructor.
  - eexists. eexists. split; [vm_compute; reflexivity|]. split; [vm_compute; reflexivity|].
    repeat constructor; try discriminate; intros n E; inversion E; subst; eexists; split; reflexivity.
Qed.
