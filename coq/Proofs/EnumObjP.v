(* Integer enums as properties of an object (since the integer enum is a leaf of NestedP this is the depth-0 case of nested_object_exact, kept
   under its own name): one object level whose properties are the scalar leaves of NestedP or integer enums
   ({"type": "integer", "enum": [numbers]}), accepted iff valid - generator, method, tables and decoder against the reference semantics. *)
From GJS Require Import Base Bounds IntSize Regex Schema GoType Gen Exec Valid ExecP GenP CoreP MethodP LevelP NestedP EnumP.

Section EnumObjects.
Variable idf : str -> str.
Variable cf : cfg.
Variable defs : list (str * schema).
Variable fmt_ok : fmtk -> str -> bool.
Variable env : list (str * gty).
Variable sdefs : list (str * schema).
Hypothesis Hms : g_minsized cf = false.
Hypothesis Hom : g_only_models cf = false.
Notation gen := (Gen.gen idf cf defs).
Notation dec := (Exec.dec fmt_ok env).
Notation valid := (Valid.valid fmt_ok sdefs).

(* one object level: every property a scalar leaf or an integer enum *)
Theorem int_enum_objects_exact : forall f fd fv self sub s scope t bb kv,
  scope <> [] ->
  plain_object s -> c_types (s_con s) = [SObject] -> s_addl s = None -> s_addl_false s = false ->
  NoDup (map fst (s_props s)) -> incl (c_required (s_con s)) (map fst (s_props s)) ->
  NoDup (map fst (prop_names idf (s_props s))) -> (forall fname kp, In (fname, kp) (prop_names idf (s_props s)) -> fname <> []) ->
  (forall k p, In (k, p) (s_props s) -> leaf p \/ int_enum_leaf p) ->
  NoDup (map fst kv) ->
  (forall k p x, In (k, p) (s_props s) -> lookup k kv = Some x ->
     x <> JNull /\ (str_leaf p -> forall s0, x = JStr s0 -> utf8_len s0 = length s0) /\ (int_leaf p -> int_value x) /\ (arr_leaf p -> arr_value x) /\ (map_leaf p -> map_value x) /\
     (int_enum_leaf p -> int_value x)) ->
  gen (S (S (S f))) MDeclared self sub s scope = Done (t, bb) ->
  is_ok (dec (S (S (S (S fd)))) t (JObj kv)) = valid (S (S (S fv))) s (JObj kv).
Proof.
  intros f fd fv self sub s scope t bb kv Hsc Hp Hty Ha Haf Np Hreq Nn Hne Hprops Nk Hval Hg.
  apply (level_with_leaves idf cf defs fmt_ok env sdefs Hms Hom f fd fv self sub s scope t bb kv (fun _ => False) Hsc Hp Hty Ha Haf Np Hreq Nn Hne); try assumption.
  - intros k p Hin. left. destruct (Hprops k p Hin) as [Hl|Hl]; [exact Hl|]. do 7 right. left. exact Hl.
  - intros fname k p ty bp _ _ [].
Qed.
End EnumObjects.

(* ---------- non-vacuity: {level: integer enum [1, 2.5, 3] (required)}; documents level = 1, 2, 3, "1", and none ---------- *)
Definition ex_ie_obj : schema :=
  Sch (mkC [SObject] None None [[108]%N] 0 0 0 0 None None (mkBounds None None None None) None None) [([108]%N, ex_int_enum)] None false None [] [].
Definition ex_ie_docs : list (list (str * json)) := [[([108]%N, JInt 1)]; [([108]%N, JInt 2)]; [([108]%N, JInt 3)]; [([108]%N, JStr [49]%N)]; []].

Example int_enum_objects_inhabited :
  exists t b, Gen.gen (fun s => s) (mkCfg false false) [] 5 MDeclared None false ex_ie_obj [82]%N = Done (t, b) /\
    (forall kv, In kv ex_ie_docs ->
       is_ok (Exec.dec (fun _ _ => true) [] 5 t (JObj kv)) = Valid.valid (fun _ _ => true) [] 4 ex_ie_obj (JObj kv)) /\
    map (fun kv => Valid.valid (fun _ _ => true) [] 4 ex_ie_obj (JObj kv)) ex_ie_docs = [true; false; true; false; false].
Proof.
  eexists. eexists. split; [vm_compute; reflexivity|].
  assert (Hgen : Gen.gen (fun s => s) (mkCfg false false) [] 5 MDeclared None false ex_ie_obj [82]%N = Done _) by (vm_compute; reflexivity).
  split; [|vm_compute; reflexivity].
  intros kv Hkv.
  eapply (int_enum_objects_exact (fun s => s) (mkCfg false false) [] (fun _ _ => true) [] [] eq_refl eq_refl 2 1 1 None false ex_ie_obj [82]%N _ _ kv);
    try exact Hgen; try reflexivity; try discriminate.
  - repeat split; try reflexivity; try discriminate.
  - repeat constructor. intros [].
  - intros k [H|[]]. subst. left; reflexivity.
  - vm_compute. repeat constructor. intros [].
  - intros fname kp H. vm_compute in H. destruct H as [H|[]]; inversion H; subst; discriminate.
  - intros k p [H|[]]; inversion H; subst. right. exact (proj1 int_enum_generated_inhabited).
  - destruct Hkv as [<-|[<-|[<-|[<-|[<-|[]]]]]]; repeat constructor; cbn; intuition discriminate.
  - intros k p x Hin Hl. destruct Hin as [Hin|[]]. inversion Hin; subst k p.
    assert (Hx : x <> JNull /\ int_value x).
    { destruct Hkv as [<-|[<-|[<-|[<-|[<-|[]]]]]]; vm_compute in Hl; inversion Hl; subst x;
        (split; [discriminate|split; [discriminate|intros n E; inversion E; subst; eexists; split; reflexivity]]). }
    destruct Hx as [Hn Hi].
    split; [exact Hn|].
    split; [intros (c & E & _ & _ & He & _); inversion E; subst c; discriminate|].
    split; [intros (c & m & E & _ & _ & He & _); inversion E; subst c; discriminate|].
    split; [intros (ik & c & it & E & _); inversion E|]. split; [intros (ik & c & a & E & _); inversion E|]. intros _. exact Hi.
Qed.
