(* Integer enums as properties of an object: one object level whose properties are the scalar leaves of NestedP or integer enums
   ({"type": "integer", "enum": [numbers]}), accepted iff valid - generator, method, tables and decoder against the reference semantics. *)
From GJS Require Import Base Bounds IntSize Regex Schema GoType Gen Exec Valid ExecP GenP CoreP MethodP LevelP NestedP EnumP.

Section EnumObjects.
Variable idf : str -> str.
Variable cf : cfg.
Variable defs : list (str * schema).
Variable fmt_ok : fmtk -> str -> bool.
Variable env : list (str * gty).
Variable sdefs : list (str * schema).
Hypothesis Hms : g_minsized cf = false.
Hypothesis Hom : g_only_models cf = false.
Notation gen := (Gen.gen idf cf defs).
Notation dec := (Exec.dec fmt_ok env).
Notation valid := (Valid.valid fmt_ok sdefs).

Lemma dec_int_enum fd sc es x : dec (S (S fd)) (TEnum sc (TInt KInt) false es) x =
  obind (dec (S fd) (TInt KInt) x) (fun v => if existsb (enum_eq (TInt KInt) v) es then Ok v else Err).
Proof. reflexivity. Qed.

Lemma int_enum_field fd fv c self fname k p l tbl kv sc :
  int_enum_leaf p -> c_enum (s_con p) = Some l -> all_numbers_to_int l = Some tbl -> fname <> [] ->
  match lookup k kv with
  | Some x => int_value x ->
      field_ok (dec (S (S (S fd)))) zero (default_val env dv_fuel) kv (pair_of (make_field defs c self fname k p (TEnum sc (TInt KInt) false tbl) (c_bounds (s_con p)))) = valid (S fv) p x
  | None => mem k (c_required c) = false ->
      field_ok (dec (S (S (S fd)))) zero (default_val env dv_fuel) kv (pair_of (make_field defs c self fname k p (TEnum sc (TInt KInt) false tbl) (c_bounds (s_con p)))) = true
  end.
Proof.
  intros Hleaf He Ht Hn. destruct (lookup k kv) as [x|] eqn:Hl.
  - intros [Hnull Hint]. rewrite (valid_int_enum_leaf fmt_ok sdefs fv p x l Hleaf He).
    destruct Hleaf as (pc & l0 & -> & Hty & Hr & He0 & _ & _ & Hd & _). unfold make_field, pair_of. cbn [s_con]. rewrite Hd.
    assert (Hcore : forall g z, in_range KInt z = true ->
              obind (dec (S g) (TInt KInt) (JNum (mkNum (inject_Z z) true))) (fun v => if existsb (enum_eq (TInt KInt) v) tbl then Ok v else Err) =
              if existsb (json_eqb (JNum (mkNum (inject_Z z) true))) l then Ok (GI z) else Err).
    { intros g z Hr0. cbn [Exec.dec nlit_int nq]. rewrite Qis_int_inject, Qfloor_inject, Hr0. cbn [andb obind].
      rewrite (int_enum_exact l tbl z Ht Hr0), (existsb_json_nums z (mkNum (inject_Z z) true) l (QArith_base.Qeq_refl _)). reflexivity. }
    destruct (mem k (c_required c)).
    + unfold field_ok. cbn [fst snd f_json f_ty f_name field_validators]. rewrite Hl, dec_int_enum.
      destruct x; try (contradiction Hnull; reflexivity); try (cbn [Exec.dec obind]; reflexivity).
      destruct (Hint n eq_refl) as [z [-> Hr0]]. rewrite (Hcore _ z Hr0). cbn [nq]. rewrite Qis_int_inject. cbn [andb].
      destruct (existsb _ l); reflexivity.
    + cbn [nillable_ty]. unfold field_ok. cbn [fst snd f_json f_ty f_name field_validators]. rewrite Hl.
      assert (Hp : dec (S (S (S fd))) (TPtr (TEnum sc (TInt KInt) false tbl)) x =
                   match x with JNull => Ok GNil | _ => obind (dec (S (S fd)) (TEnum sc (TInt KInt) false tbl) x) (fun v => Ok (GP v)) end) by reflexivity.
      rewrite Hp, dec_int_enum.
      destruct x; try (contradiction Hnull; reflexivity); try (cbn [Exec.dec obind]; reflexivity).
      destruct (Hint n eq_refl) as [z [-> Hr0]]. rewrite (Hcore _ z Hr0). cbn [nq]. rewrite Qis_int_inject. cbn [andb].
      destruct (existsb _ l); reflexivity.
  - intros Hm. destruct Hleaf as (pc & l0 & -> & Hty & Hr & He0 & _ & _ & Hd & _). unfold make_field, pair_of. cbn [s_con]. rewrite Hd, Hm. cbn [nillable_ty].
    unfold field_ok. cbn [fst snd f_json f_ty f_name field_validators]. rewrite Hl. reflexivity.
Qed.

Lemma int_enum_default_none p : int_enum_leaf p -> c_default (s_con p) = None.
Proof. intros (c & l & -> & _ & _ & _ & _ & _ & Hd & _). exact Hd. Qed.

(* one object level: every property a scalar leaf or an integer enum *)
Theorem int_enum_objects_exact : forall f fd fv self sub s scope t bb kv,
  scope <> [] ->
  plain_object s -> c_types (s_con s) = [SObject] -> s_addl s = None -> s_addl_false s = false ->
  NoDup (map fst (s_props s)) -> incl (c_required (s_con s)) (map fst (s_props s)) ->
  NoDup (map fst (prop_names idf (s_props s))) -> (forall fname kp, In (fname, kp) (prop_names idf (s_props s)) -> fname <> []) ->
  (forall k p, In (k, p) (s_props s) -> leaf p \/ int_enum_leaf p) ->
  NoDup (map fst kv) ->
  (forall k p x, In (k, p) (s_props s) -> lookup k kv = Some x ->
     x <> JNull /\ (str_leaf p -> forall s0, x = JStr s0 -> utf8_len s0 = length s0) /\ (int_leaf p -> int_value x) /\ (arr_leaf p -> arr_value x) /\ (map_leaf p -> map_value x) /\
     (int_enum_leaf p -> int_value x)) ->
  gen (S (S (S f))) MDeclared self sub s scope = Done (t, bb) ->
  is_ok (dec (S (S (S (S fd)))) t (JObj kv)) = valid (S (S (S fv))) s (JObj kv).
Proof.
  intros f fd fv self sub s scope t bb kv Hsc Hp Hty Ha Haf Np Hreq Nn Hne Hprops Nk Hval Hg.
  apply (level_with_leaves idf cf defs fmt_ok env sdefs Hms Hom f fd fv self sub s scope t bb kv int_enum_leaf Hsc Hp Hty Ha Haf Np Hreq Nn Hne); try assumption.
  - intros k p Hin. destruct (Hprops k p Hin) as [Hl|Hl]; [left; exact Hl|right; split; [exact Hl|exact (int_enum_default_none p Hl)]].
  - intros k p x Hin Hl. destruct (Hval k p x Hin Hl) as (H1 & H2 & H3 & H4 & H5 & _). split; [exact H1|]. split; [exact H2|]. split; [exact H3|]. split; [exact H4|exact H5].
  - intros fname k p ty bp Hin Hinp Hleaf Hfn Hgen.
    destruct (gen_int_enum_leaf idf cf defs Hms f self (scope ++ fname) p ty bp Hleaf Hgen) as (l & tbl & He & Ht & -> & ->).
    pose proof (int_enum_field fd (S fv) (s_con s) self fname k p l tbl kv (scope ++ fname) Hleaf He Ht Hfn) as Hb.
    destruct (lookup k kv) as [x|] eqn:El.
    + destruct (Hval k p x Hinp El) as (_ & _ & _ & _ & _ & Hiv). exact (Hb (Hiv Hleaf)).
    + exact Hb.
Qed.
End EnumObjects.

(* ---------- non-vacuity: {level: integer enum [1, 2.5, 3] (required)}; documents level = 1, 2, 3, "1", and none ---------- *)
Definition ex_ie_obj : schema :=
  Sch (mkC [SObject] None None [[108]%N] 0 0 0 0 None None (mkBounds None None None None) None None) [([108]%N, ex_int_enum)] None false None [] [].
Definition ex_ie_docs : list (list (str * json)) := [[([108]%N, JInt 1)]; [([108]%N, JInt 2)]; [([108]%N, JInt 3)]; [([108]%N, JStr [49]%N)]; []].

Example int_enum_objects_inhabited :
  exists t b, Gen.gen (fun s => s) (mkCfg false false) [] 5 MDeclared None false ex_ie_obj [82]%N = Done (t, b) /\
    (forall kv, In kv ex_ie_docs ->
       is_ok (Exec.dec (fun _ _ => true) [] 5 t (JObj kv)) = Valid.valid (fun _ _ => true) [] 4 ex_ie_obj (JObj kv)) /\
    map (fun kv => Valid.valid (fun _ _ => true) [] 4 ex_ie_obj (JObj kv)) ex_ie_docs = [true; false; true; false; false].
Proof.
  eexists. eexists. split; [vm_compute; reflexivity|].
  assert (Hgen : Gen.gen (fun s => s) (mkCfg false false) [] 5 MDeclared None false ex_ie_obj [82]%N = Done _) by (vm_compute; reflexivity).
  split; [|vm_compute; reflexivity].
  intros kv Hkv.
  eapply (int_enum_objects_exact (fun s => s) (mkCfg false false) [] (fun _ _ => true) [] [] eq_refl eq_refl 2 1 1 None false ex_ie_obj [82]%N _ _ kv);
    try exact Hgen; try reflexivity; try discriminate.
  - repeat split; try reflexivity; try discriminate.
  - repeat constructor. intros [].
  - intros k [H|[]]. subst. left; reflexivity.
  - vm_compute. repeat constructor. intros [].
  - intros fname kp H. vm_compute in H. destruct H as [H|[]]; inversion H; subst; discriminate.
  - intros k p [H|[]]; inversion H; subst. right. exact (proj1 int_enum_generated_inhabited).
  - destruct Hkv as [<-|[<-|[<-|[<-|[<-|[]]]]]]; repeat constructor; cbn; intuition discriminate.
  - intros k p x Hin Hl. destruct Hin as [Hin|[]]. inversion Hin; subst k p.
    assert (Hx : x <> JNull /\ int_value x).
    { destruct Hkv as [<-|[<-|[<-|[<-|[<-|[]]]]]]; vm_compute in Hl; inversion Hl; subst x;
        (split; [discriminate|split; [discriminate|intros n E; inversion E; subst; eexists; split; reflexivity]]). }
    destruct Hx as [Hn Hi].
    split; [exact Hn|].
    split; [intros (c & E & _ & _ & He & _); inversion E; subst c; discriminate|].
    split; [intros (c & m & E & _ & _ & He & _); inversion E; subst c; discriminate|].
    split; [intros (ik & c & it & E & _); inversion E|]. split; [intros (ik & c & a & E & _); inversion E|]. intros _. exact Hi.
Qed.
