(* Sibling properties always get distinct field names (schema_generator.go:750-757), and
   uniqueTypeName never returns a name that is already registered (output.go:53-72). *)
From GJS Require Import Base Ident IdentP.
From Coq Require DecimalNat Decimal.

Definition no_us (s : str) : Prop := ~ In c_underscore s.

(* ---------- decimal rendering is injective and has no underscore ---------- *)
Lemma uint_chars_inj u : forall v, uint_chars u = uint_chars v -> u = v.
Proof.
  induction u; intros v H; destruct v; cbn in H; try discriminate; try reflexivity;
    inversion H as [H']; f_equal; auto.
Qed.

Lemma show_nat_inj n m : show_nat n = show_nat m -> n = m.
Proof.
  unfold show_nat. intros H. apply uint_chars_inj in H.
  rewrite <- (DecimalNat.Unsigned.of_to n), <- (DecimalNat.Unsigned.of_to m), H. reflexivity.
Qed.

(* ---------- name_k determines (name, k) when names have no underscore ---------- *)
Lemma app_us_inj (a : str) : forall b x y, no_us a -> no_us b -> a ++ c_underscore :: x = b ++ c_underscore :: y -> a = b /\ x = y.
Proof.
  induction a as [|c a IH]; intros [|d b] x y Ha Hb H; cbn in H.
  - inversion H; auto.
  - inversion H as [[Hd Hr]]. exfalso. apply Hb. left. symmetry. exact Hd.
  - inversion H as [[Hc Hr]]. exfalso. apply Ha. left. exact Hc.
  - inversion H as [[Hc Hr]]. subst d.
    destruct (IH b x y) as [E1 E2]; auto.
    + intros Hin. apply Ha. right; exact Hin.
    + intros Hin. apply Hb. right; exact Hin.
    + subst. auto.
Qed.

Lemma suffixed_inj a b n m : no_us a -> no_us b -> suffixed a n = suffixed b m -> a = b /\ n = m.
Proof. unfold suffixed. intros Ha Hb H. destruct (app_us_inj a b _ _ Ha Hb H) as [E1 E2]. split; [exact E1|apply show_nat_inj; exact E2]. Qed.

Lemma suffixed_has_us a n : In c_underscore (suffixed a n).
Proof. unfold suffixed. apply in_or_app. right. left. reflexivity. Qed.

Lemma suffixed_not_plain a n b : no_us b -> suffixed a n <> b.
Proof. intros Hb E. apply Hb. rewrite <- E. apply suffixed_has_us. Qed.

(* ---------- the uniqueNames table ---------- *)
Definition table_ok (seen : list (str * nat)) : Prop :=
  NoDup (map fst seen) /\ Forall (fun p => 1 <= snd p /\ no_us (fst p)) seen.

(* the names already handed out *)
Definition used (seen : list (str * nat)) (x : str) : Prop :=
  exists id c, In (id, c) seen /\ (x = id \/ exists n, 2 <= n <= c /\ x = suffixed id n).

Lemma count_of_In id seen c : count_of id seen = Some c -> In (id, c) seen.
Proof.
  induction seen as [|[k c'] r IH]; cbn; [discriminate|]. destruct (str_eqb id k) eqn:E.
  - apply str_eqb_eq in E. subst. intros H; inversion H; auto.
  - auto.
Qed.
Lemma count_of_None id seen : count_of id seen = None -> ~ In id (map fst seen).
Proof.
  induction seen as [|[k c'] r IH]; cbn; [tauto|]. destruct (str_eqb id k) eqn:E; [discriminate|].
  apply str_eqb_neq in E. intros H [Hk|Hin]; [congruence|]. apply (IH H Hin).
Qed.
Lemma In_NoDup_fst {A} (l : list (str * A)) k v v' : NoDup (map fst l) -> In (k, v) l -> In (k, v') l -> v = v'.
Proof.
  induction l as [|[k0 v0] r IH]; cbn; [tauto|]. intros ND H1 H2. inversion ND as [|? ? Hn NDr]; subst.
  destruct H1 as [H1|H1], H2 as [H2|H2].
  - congruence.
  - inversion H1; subst. exfalso. apply Hn. apply (in_map fst r (k, v') H2).
  - inversion H2; subst. exfalso. apply Hn. apply (in_map fst r (k, v) H1).
  - apply IH; assumption.
Qed.

Lemma set_count_keys id n seen : map fst (set_count id n seen) = if mem id (map fst seen) then map fst seen else map fst seen ++ [id].
Proof.
  induction seen as [|[k0 c0] r IH]; cbn; [reflexivity|].
  rewrite (str_eqb_sym id k0). destruct (str_eqb k0 id) eqn:E; cbn.
  - reflexivity.
  - rewrite IH. unfold mem. destruct (existsb (str_eqb id) (map fst r)); reflexivity.
Qed.

Lemma set_count_In_old id n seen k c : NoDup (map fst seen) -> In (k, c) (set_count id n seen) -> k <> id -> In (k, c) seen.
Proof.
  induction seen as [|[k0 c0] r IH]; cbn; intros ND H Hne.
  - destruct H as [H|[]]. inversion H; congruence.
  - inversion ND as [|? ? Hn NDr]; subst. destruct (str_eqb id k0) eqn:E.
    + apply str_eqb_eq in E. subst k0. destruct H as [H|H]; [inversion H; congruence|right; exact H].
    + destruct H as [H|H]; [left; exact H|right; apply IH; assumption].
Qed.
Lemma set_count_In_id id n seen c : NoDup (map fst seen) -> In (id, c) (set_count id n seen) -> c = n.
Proof.
  induction seen as [|[k0 c0] r IH]; cbn; intros ND H.
  - destruct H as [H|[]]. inversion H; reflexivity.
  - inversion ND as [|? ? Hn NDr]; subst. destruct (str_eqb id k0) eqn:E.
    + apply str_eqb_eq in E. subst k0. destruct H as [H|H]; [inversion H; reflexivity|].
      exfalso. apply Hn. apply (in_map fst r (id, c) H).
    + apply str_eqb_neq in E. destruct H as [H|H]; [inversion H; congruence|apply IH; assumption].
Qed.
Lemma set_count_has id n seen : In (id, n) (set_count id n seen).
Proof.
  induction seen as [|[k0 c0] r IH]; cbn; [left; reflexivity|].
  destruct (str_eqb id k0) eqn:E; [apply str_eqb_eq in E; subst; left; reflexivity|right; exact IH].
Qed.
Lemma set_count_keeps id n seen k c : k <> id -> In (k, c) seen -> In (k, c) (set_count id n seen).
Proof.
  intros Hne. induction seen as [|[k0 c0] r IH]; cbn; [tauto|]. intros [H|H].
  - inversion H; subst. destruct (str_eqb id k) eqn:E; [apply str_eqb_eq in E; congruence|left; reflexivity].
  - destruct (str_eqb id k0); right; [exact H|apply IH; exact H].
Qed.

Lemma mem_In_str k l : mem k l = true <-> In k l.
Proof. apply mem_In. Qed.

Lemma table_ok_set id n seen : table_ok seen -> 1 <= n -> no_us id -> table_ok (set_count id n seen).
Proof.
  intros [ND Hall] Hn Hid. split.
  - rewrite set_count_keys. destruct (mem id (map fst seen)) eqn:E; [exact ND|].
    assert (Hnot : ~ In id (map fst seen)) by (intros H; apply mem_In in H; congruence).
    clear - ND Hnot. induction (map fst seen) as [|a r IH]; cbn; [constructor; [tauto|constructor]|].
    inversion ND as [|? ? Ha NDr]; subst. constructor.
    + intros H. apply in_app_or in H. destruct H as [H|[H|[]]]; [contradiction|subst; apply Hnot; left; reflexivity].
    + apply IH; [exact NDr|]. intros H. apply Hnot. right; exact H.
  - rewrite Forall_forall in *. intros [k c] Hin. cbn.
    destruct (str_eq_dec k id) as [->|Hne].
    + rewrite (set_count_In_id id n seen c ND Hin). split; assumption.
    + apply (Hall (k, c)). eapply set_count_In_old; eauto.
Qed.

(* ---------- distinctness ---------- *)
Lemma assign_fields_fresh ids : forall seen, table_ok seen -> Forall no_us ids ->
  NoDup (assign_fields ids seen) /\ forall x, In x (assign_fields ids seen) -> ~ used seen x.
Proof.
  induction ids as [|id rest IH]; intros seen Hok Hids; cbn [assign_fields]; [split; [constructor|intros x []]|].
  inversion Hids as [|? ? Hid Hrest]; subst.
  destruct Hok as [ND Hall]. pose proof (conj ND Hall : table_ok seen) as Hok.
  destruct (count_of id seen) as [c|] eqn:EC.
  - (* the identifier is taken c times already: id_(c+1) *)
    pose proof (count_of_In _ _ _ EC) as Hin.
    assert (Hc1 : 1 <= c) by (rewrite Forall_forall in Hall; apply (Hall (id, c) Hin)).
    set (seen1 := set_count id (S c) seen).
    assert (Hok1 : table_ok seen1) by (apply table_ok_set; [exact Hok|lia|exact Hid]).
    destruct (IH seen1 Hok1 Hrest) as [NDr Hfresh].
    assert (Hmono : forall x, used seen x -> used seen1 x).
    { intros x (k & c' & Hk & Hx). destruct (str_eq_dec k id) as [->|Hne].
      - rewrite (In_NoDup_fst seen id c' c ND Hk Hin) in *. exists id, (S c). split; [apply set_count_has|].
        destruct Hx as [Hx|(n & Hn & Hx)]; [left; exact Hx|right; exists n; split; [lia|exact Hx]].
      - exists k, c'. split; [apply set_count_keeps; assumption|exact Hx]. }
    split.
    + constructor; [|exact NDr]. intros Hin2. apply (Hfresh _ Hin2).
      exists id, (S c). split; [apply set_count_has|]. right. exists (S c). split; [lia|reflexivity].
    + intros x [Hx|Hx].
      * subst x. intros (k & c' & Hk & Hx).
        assert (Hkus : no_us k) by (rewrite Forall_forall in Hall; apply (Hall (k, c') Hk)).
        destruct Hx as [Hx|(n & Hn & Hx)]; [exact (suffixed_not_plain id (S c) k Hkus Hx)|].
        destruct (suffixed_inj id k (S c) n Hid Hkus Hx) as [E1 E2]. subst k n.
        rewrite (In_NoDup_fst seen id c' c ND Hk Hin) in Hn. lia.
      * intros Hu. apply (Hfresh x Hx). apply Hmono. exact Hu.
  - (* first occurrence: the identifier itself *)
    pose proof (count_of_None _ _ EC) as Hnot.
    set (seen1 := set_count id 1 seen).
    assert (Hok1 : table_ok seen1) by (apply table_ok_set; [exact Hok|lia|exact Hid]).
    destruct (IH seen1 Hok1 Hrest) as [NDr Hfresh].
    assert (Hmono : forall x, used seen x -> used seen1 x).
    { intros x (k & c' & Hk & Hx). exists k, c'. split; [|exact Hx].
      apply set_count_keeps; [|exact Hk]. intros ->. apply Hnot. apply (in_map fst seen (id, c') Hk). }
    split.
    + constructor; [|exact NDr]. intros Hin2. apply (Hfresh _ Hin2). exists id, 1. split; [apply set_count_has|left; reflexivity].
    + intros x [Hx|Hx].
      * subst x. intros (k & c' & Hk & Hx). destruct Hx as [Hx|(n & Hn & Hx)].
        -- subst k. apply Hnot. apply (in_map fst seen (id, c') Hk).
        -- symmetry in Hx. exact (suffixed_not_plain k n id Hid Hx).
      * intros Hu. apply (Hfresh x Hx). apply Hmono. exact Hu.
Qed.

(* sibling properties always get distinct field names, whatever identifiers they normalise to *)
Theorem field_names_distinct ids : Forall no_us ids -> NoDup (field_names ids).
Proof.
  intros H. unfold field_names. apply (assign_fields_fresh ids []); [|exact H].
  split; [constructor|constructor].
Qed.

(* uniqueTypeName never hands out a registered name *)
Lemma first_free_not_in name all : forall fuel count r, first_free name all count fuel = Some r -> ~ In r all.
Proof.
  induction fuel as [|f IH]; intros count r H; cbn in H; [discriminate|].
  destruct (mem (suffixed name count) all) eqn:E; [eapply IH; exact H|].
  inversion H; subst. intros Hin. apply mem_In in Hin. congruence.
Qed.

Theorem unique_type_name_fresh name taken all r : (forall x, In x taken -> In x all) ->
  unique_type_name name taken all = Some r -> ~ In r taken.
Proof.
  intros Hsub. unfold unique_type_name. destruct (mem name taken) eqn:E.
  - intros H Hin. apply (first_free_not_in name all _ _ _ H). apply Hsub. exact Hin.
  - intros H. inversion H; subst. intros Hin. apply mem_In in Hin. congruence.
Qed.

(* ---------- identifiers never contain an underscore, so the suffixing cannot collide ---------- *)
Section NoUnderscore.
Variable U : uinfo.
Definition not_us (c : N) : bool := negb (N.eqb c c_underscore).

Lemma forallb_not_us s : forallb not_us s = true <-> no_us s.
Proof.
  unfold no_us, not_us. induction s as [|c s IH]; cbn; [tauto|].
  rewrite andb_true_iff, IH, negb_true_iff, N.eqb_neq. intuition.
Qed.

(* '_' is a separator for the splitter (not a letter, not a number) and no character upper-cases to it *)
Definition underscore_is_separator : Prop :=
  keeps U c_underscore = false /\ forall r, good U r = true -> keeps U r = true -> u_to_upper U r <> c_underscore.

Theorem identifierize_no_underscore caps s :
  underscore_is_separator -> Forall no_us caps -> forallb (good U) s = true -> no_us (identifierize U caps s).
Proof.
  intros [Hsep Hup] Hcaps Hg. apply forallb_not_us.
  apply identifierize_chars; try reflexivity; try assumption.
  - intros r G K. unfold not_us. split; apply negb_true_iff, N.eqb_neq.
    + intros ->. congruence.
    + apply Hup; assumption.
  - eapply Forall_impl; [|exact Hcaps]. intros c Hc. apply forallb_not_us. exact Hc.
Qed.

(* sibling properties get pairwise distinct field names, for every set of names inside the guard *)
Theorem sibling_fields_distinct caps names :
  underscore_is_separator -> Forall no_us caps -> Forall (fun n => forallb (good U) n = true) names ->
  NoDup (field_names (map (identifierize U caps) names)).
Proof.
  intros Hsep Hcaps Hn. apply field_names_distinct. apply Forall_map.
  eapply Forall_impl; [|exact Hn]. intros n Hgn. apply identifierize_no_underscore; assumption.
Qed.
End NoUnderscore.
