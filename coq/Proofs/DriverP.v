(* Order-independence facts behind C12 / C20 (Model/Driver.v, Model/Schema.v sort_props). *)
From GJS Require Import Base Schema Driver.
From Coq Require Import Permutation.

(* ---------- the string order is a total order ---------- *)
Lemma str_ltb_irrefl a : str_ltb a a = false.
Proof. induction a as [|x a IH]; cbn; [reflexivity|]. rewrite N.ltb_irrefl, N.eqb_refl. exact IH. Qed.

Lemma str_ltb_trans a : forall b c, str_ltb a b = true -> str_ltb b c = true -> str_ltb a c = true.
Proof.
  induction a as [|x a IH]; intros [|y b] [|z c]; cbn; try congruence; auto.
  destruct (N.ltb_spec x y), (N.ltb_spec y z), (N.ltb_spec x z); try reflexivity; try lia;
    destruct (N.eqb_spec x y), (N.eqb_spec y z), (N.eqb_spec x z); try congruence; try lia.
  apply IH.
Qed.

Lemma str_ltb_total a : forall b, str_ltb a b = true \/ a = b \/ str_ltb b a = true.
Proof.
  induction a as [|x a IH]; intros [|y b]; cbn; auto.
  destruct (N.ltb_spec x y); [auto|]. destruct (N.ltb_spec y x); [auto|].
  assert (x = y) by lia. subst y. rewrite N.eqb_refl.
  destruct (IH b) as [H1|[H1|H1]]; auto. subst; auto.
Qed.

Lemma str_ltb_asym a b : str_ltb a b = true -> str_ltb b a = false.
Proof.
  intros H. destruct (str_ltb b a) eqn:E; [|reflexivity].
  pose proof (str_ltb_trans _ _ _ H E) as H2. rewrite str_ltb_irrefl in H2. discriminate.
Qed.

Lemma str_leb_total a b : str_leb a b = true \/ str_leb b a = true.
Proof.
  unfold str_leb. destruct (str_ltb_total a b) as [H|[H|H]].
  - left. rewrite (str_ltb_asym _ _ H). reflexivity.
  - subst. left. rewrite str_ltb_irrefl. reflexivity.
  - right. rewrite (str_ltb_asym _ _ H). reflexivity.
Qed.

Lemma str_leb_antisym a b : str_leb a b = true -> str_leb b a = true -> a = b.
Proof.
  unfold str_leb. intros H1 H2. apply negb_true_iff in H1, H2.
  destruct (str_ltb_total a b) as [H|[H|H]]; congruence.
Qed.

Lemma str_leb_trans a b c : str_leb a b = true -> str_leb b c = true -> str_leb a c = true.
Proof.
  unfold str_leb. intros H1 H2. apply negb_true_iff in H1, H2. apply negb_true_iff.
  destruct (str_ltb c a) eqn:E; [|reflexivity].
  destruct (str_ltb_total b c) as [H|[H|H]].
  - rewrite (str_ltb_trans _ _ _ H E) in H1. discriminate.
  - subst. congruence.
  - congruence.
Qed.

(* ---------- sorted lists with distinct keys are unique up to permutation ---------- *)
Section Sort.
Context {A : Type}.
Definition key_le (x y : str * A) : Prop := str_leb (fst x) (fst y) = true.

Lemma insert_prop_perm (kv : str * A) l : Permutation (insert_prop kv l) (kv :: l).
Proof.
  induction l as [|x r IH]; cbn; [apply Permutation_refl|].
  destruct (str_leb (fst kv) (fst x)); [apply Permutation_refl|].
  eapply Permutation_trans; [apply perm_skip; exact IH|apply perm_swap].
Qed.
Lemma sort_props_perm_self (l : list (str * A)) : Permutation (sort_props l) l.
Proof.
  unfold sort_props. induction l as [|x r IH]; cbn; [constructor|].
  eapply Permutation_trans; [apply insert_prop_perm|]. apply perm_skip. exact IH.
Qed.

Lemma insert_prop_sorted (kv : str * A) l : StronglySorted key_le l -> StronglySorted key_le (insert_prop kv l).
Proof.
  induction 1 as [|x r Hs IH Hall]; cbn; [constructor; constructor|].
  destruct (str_leb (fst kv) (fst x)) eqn:E.
  - constructor; [constructor; assumption|]. constructor; [exact E|].
    eapply Forall_impl; [|exact Hall]. intros y Hy. unfold key_le in *. eapply str_leb_trans; eauto.
  - constructor; [exact IH|].
    assert (Hx : key_le x kv).
    { unfold key_le. destruct (str_leb_total (fst x) (fst kv)); [assumption|congruence]. }
    apply (Permutation_Forall (Permutation_sym (insert_prop_perm kv r))). constructor; assumption.
Qed.
Lemma sort_props_sorted (l : list (str * A)) : StronglySorted key_le (sort_props l).
Proof. unfold sort_props. induction l as [|x r IH]; cbn; [constructor|]. apply insert_prop_sorted. exact IH. Qed.

Lemma sorted_perm_unique (l1 : list (str * A)) : forall l2,
  StronglySorted key_le l1 -> StronglySorted key_le l2 -> NoDup (map fst l1) -> Permutation l1 l2 -> l1 = l2.
Proof.
  induction l1 as [|x r IH]; intros l2 S1 S2 ND P.
  - apply Permutation_nil in P. subst. reflexivity.
  - destruct l2 as [|y r2]; [apply Permutation_sym, Permutation_nil in P; discriminate|].
    inversion S1 as [|? ? S1r F1]; subst. inversion S2 as [|? ? S2r F2]; subst.
    assert (Hxy : x = y).
    { assert (Hx : In x (y :: r2)) by (eapply Permutation_in; [exact P|left; reflexivity]).
      assert (Hy : In y (x :: r)) by (eapply Permutation_in; [apply Permutation_sym; exact P|left; reflexivity]).
      destruct Hx as [->|Hx]; [reflexivity|]. destruct Hy as [->|Hy]; [reflexivity|].
      rewrite Forall_forall in F1, F2. pose proof (F1 y Hy) as L1. pose proof (F2 x Hx) as L2. unfold key_le in *.
      pose proof (str_leb_antisym _ _ L1 L2) as Ek.
      (* equal keys at two positions of l1 contradict NoDup *)
      exfalso. cbn [map] in ND. inversion ND as [|? ? Hnotin _]; subst. apply Hnotin. rewrite Ek.
      apply in_map. exact Hy. }
    subst y. f_equal. apply IH; auto.
    + cbn in ND. inversion ND; assumption.
    + eapply Permutation_cons_inv. exact P.
Qed.

(* sorting is insensitive to the order in which a map's entries are visited *)
Theorem sort_props_perm (l l' : list (str * A)) : NoDup (map fst l) -> Permutation l l' -> sort_props l = sort_props l'.
Proof.
  intros ND P. apply sorted_perm_unique; try apply sort_props_sorted.
  - eapply Permutation_NoDup; [|exact ND]. apply Permutation_map. apply Permutation_sym. apply sort_props_perm_self.
  - eapply Permutation_trans; [apply sort_props_perm_self|]. eapply Permutation_trans; [exact P|]. apply Permutation_sym. apply sort_props_perm_self.
Qed.
End Sort.

(* lookups in a map with distinct keys do not depend on the entry order *)
Lemma lookup_perm {A} (l l' : list (str * A)) k : NoDup (map fst l) -> Permutation l l' -> lookup k l = lookup k l'.
Proof.
  intros ND P. destruct (lookup k l) as [v|] eqn:E.
  - symmetry. apply lookup_NoDup_In.
    + eapply Permutation_NoDup; [|exact ND]. apply Permutation_map. exact P.
    + eapply Permutation_in; [exact P|]. apply lookup_In. exact E.
  - symmetry. apply lookup_None. intros Hin. apply (proj1 (lookup_None k l) E).
    eapply Permutation_in; [apply Permutation_map; apply Permutation_sym; exact P|exact Hin].
Qed.

(* ---------- beginOutput: the scan over the outputs map ---------- *)
Definition files_distinct (outs : list (nat * outp)) : Prop := NoDup (map (fun p => o_file (snd p)) outs).

Lemma scan_outputs_absent outs file pkg : ~ In file (map (fun p => o_file (snd p)) outs) -> scan_outputs outs file pkg = DOk None.
Proof.
  induction outs as [|[i o] r IH]; cbn; [reflexivity|]. intros H.
  destruct (str_eqb (o_file o) file) eqn:E; [apply str_eqb_eq in E; exfalso; apply H; left; exact E|]. cbn. apply IH. intros Hin. apply H. right; exact Hin.
Qed.

Lemma scan_outputs_present outs file pkg i o :
  files_distinct outs -> In (i, o) outs -> o_file o = file ->
  scan_outputs outs file pkg = if str_eqb (o_pkg o) pkg then DOk (Some i) else DErr.
Proof.
  unfold files_distinct. induction outs as [|[i0 o0] r IH]; cbn; [contradiction|]. intros ND Hin Hf.
  inversion ND as [|? ? Hnotin ND']; subst.
  destruct Hin as [Heq|Hin].
  - inversion Heq; subst. rewrite str_eqb_refl. cbn. destruct (str_eqb (o_pkg o) pkg); reflexivity.
  - destruct (str_eqb (o_file o0) (o_file o)) eqn:E.
    + apply str_eqb_eq in E. exfalso. apply Hnotin. rewrite E. apply (in_map (fun p => o_file (snd p)) r (i, o) Hin).
    + cbn. apply IH; auto.
Qed.

(* the conflict check and the reuse of an existing output do not depend on the map's iteration order *)
Theorem scan_outputs_order outs outs' file pkg :
  files_distinct outs -> Permutation outs outs' -> scan_outputs outs file pkg = scan_outputs outs' file pkg.
Proof.
  intros ND P.
  assert (ND' : files_distinct outs') by (unfold files_distinct in *; eapply Permutation_NoDup; [apply Permutation_map; exact P|exact ND]).
  destruct (in_dec str_eq_dec file (map (fun p => o_file (snd p)) outs)) as [Hin|Hnot].
  - apply in_map_iff in Hin. destruct Hin as [[i o] [Hf Hin]]. cbn in Hf.
    rewrite (scan_outputs_present outs file pkg i o ND Hin Hf).
    rewrite (scan_outputs_present outs' file pkg i o ND' (Permutation_in _ P Hin) Hf). reflexivity.
  - rewrite scan_outputs_absent by exact Hnot. symmetry. apply scan_outputs_absent.
    intros Hin. apply Hnot. eapply Permutation_in; [apply Permutation_map; apply Permutation_sym; exact P|exact Hin].
Qed.

(* ---------- Sources(): per-file concatenation is order-free when file names are distinct ---------- *)
Lemma add_source_lookup_same file text acc : lookup file (add_source file text acc) = Some (match lookup file acc with Some t => t ++ text | None => text end).
Proof.
  induction acc as [|[f t] r IH]; cbn; [rewrite str_eqb_refl; reflexivity|].
  destruct (str_eqb f file) eqn:E.
  - apply str_eqb_eq in E. subst. cbn. rewrite !str_eqb_refl. reflexivity.
  - cbn. rewrite str_eqb_sym, E. exact IH.
Qed.
Lemma add_source_lookup_other file text acc k : k <> file -> lookup k (add_source file text acc) = lookup k acc.
Proof.
  intros H. induction acc as [|[f t] r IH]; cbn.
  - destruct (str_eqb k file) eqn:E; [apply str_eqb_eq in E; contradiction|reflexivity].
  - destruct (str_eqb f file) eqn:E; cbn.
    + apply str_eqb_eq in E. subst. destruct (str_eqb k file) eqn:E2; [apply str_eqb_eq in E2; contradiction|reflexivity].
    + destruct (str_eqb k f); [reflexivity|exact IH].
Qed.

Lemma sources_fold_lookup texts : forall acc k, k <> [] -> NoDup (map fst texts) -> ~ In k (map fst acc) \/ ~ In k (map fst texts) ->
  lookup k (fold_left (fun acc ft => match fst ft with [] => acc | _ => add_source (fst ft) (snd ft) acc end) texts acc)
  = match lookup k texts with Some t => Some t | None => lookup k acc end.
Proof.
  induction texts as [|[f t] r IH]; intros acc k Hk ND Hx; cbn [fold_left lookup]; [reflexivity|].
  cbn [map] in ND. inversion ND as [|? ? Hnotin ND']; subst. cbn [fst snd].
  destruct (str_eqb k f) eqn:E.
  - apply str_eqb_eq in E. subst f.
    destruct k as [|c k']; [contradiction|].
    rewrite IH; auto.
    + rewrite (proj2 (lookup_None (c :: k') r) Hnotin). rewrite add_source_lookup_same.
      destruct Hx as [Hx|Hx]; [|exfalso; apply Hx; left; reflexivity].
      rewrite (proj2 (lookup_None (c :: k') acc) Hx). reflexivity.
  - apply str_eqb_neq in E. destruct f as [|c f'].
    + apply IH; auto. destruct Hx as [Hx|Hx]; [left; exact Hx|right; intros Hin; apply Hx; right; exact Hin].
    + rewrite IH; auto.
      * rewrite add_source_lookup_other by exact E. reflexivity.
      * destruct Hx as [Hx|Hx]; [|right; intros Hin; apply Hx; right; exact Hin].
        left. intros Hin. apply Hx. clear - Hin E.
        induction acc as [|[g u] a IHa]; cbn in *; [destruct Hin as [H|[]]; congruence|].
        destruct (str_eqb g (c :: f')); cbn in *; [exact Hin|]. destruct Hin as [H|H]; [left; exact H|right; apply IHa; exact H].
Qed.

Theorem sources_lookup texts k : k <> [] -> NoDup (map fst texts) -> lookup k (sources texts) = lookup k texts.
Proof.
  intros Hk ND. unfold sources. rewrite sources_fold_lookup; auto. destruct (lookup k texts); reflexivity.
Qed.

(* any two iteration orders over the outputs give the same file contents *)
Theorem sources_order texts texts' k : k <> [] -> NoDup (map fst texts) -> Permutation texts texts' ->
  lookup k (sources texts) = lookup k (sources texts').
Proof.
  intros Hk ND P. rewrite !sources_lookup; auto.
  - apply lookup_perm; assumption.
  - eapply Permutation_NoDup; [apply Permutation_map; exact P|exact ND].
Qed.

(* ---------- abort before the first write ---------- *)
Theorem cli_all_or_nothing flags_ok gen_all :
  (r_status (cli flags_ok gen_all) = 0 /\ exists srcs, gen_all = DOk srcs /\
     r_writes (cli flags_ok gen_all) = filter (fun ft => negb (str_eqb (fst ft) s_dash)) srcs)
  \/ (r_status (cli flags_ok gen_all) <> 0 /\ r_stderr_empty (cli flags_ok gen_all) = false /\
      r_stdout (cli flags_ok gen_all) = [] /\ r_writes (cli flags_ok gen_all) = []).
Proof.
  unfold cli. destruct flags_ok; cbn; [|right; repeat split; auto].
  destruct gen_all as [srcs|]; cbn; [left; split; [reflexivity|exists srcs; auto]|right; repeat split; auto].
Qed.

Lemma NoDup_app_cons_end {A} (l : list A) (x : A) : NoDup l -> ~ In x l -> NoDup (l ++ [x]).
Proof.
  intros ND Hx. induction l as [|a r IH]; cbn; [constructor; [tauto|constructor]|].
  inversion ND as [|? ? Ha NDr]; subst. constructor.
  - intros Hin. apply in_app_or in Hin. destruct Hin as [Hin|[Hin|[]]]; [contradiction|subst; apply Hx; left; reflexivity].
  - apply IH; [exact NDr|]. intros Hin. apply Hx. right; exact Hin.
Qed.

(* ---------- the outputs table: every schema id lands in the file and package mapped to it ---------- *)

Definition ds_wf (c : dcfg) (st : dstate) : Prop :=
  NoDup (map o_file (ds_outs st)) /\
  map snd (ds_ids st) = seq 0 (length (ds_outs st)) /\
  (forall id i, lookup id (ds_ids st) = Some i ->
     (o_file (nth i (ds_outs st) dflt_out), o_pkg (nth i (ds_outs st) dflt_out)) = target c id).

Lemma ds_init_wf c : ds_wf c ds_init.
Proof. repeat split; cbn; [constructor|discriminate]. Qed.

Lemma entries_files st : map snd (ds_ids st) = seq 0 (length (ds_outs st)) ->
  map (fun p => o_file (snd p)) (entries st) = map o_file (ds_outs st).
Proof.
  intros H. unfold entries. rewrite map_map. cbn [snd].
  transitivity (map (fun i => o_file (nth i (ds_outs st) dflt_out)) (map snd (ds_ids st))); [rewrite map_map; reflexivity|].
  rewrite H. generalize (ds_outs st). intros l. clear.
  induction l as [|o r IH] using rev_ind; [reflexivity|].
  rewrite app_length, Nat.add_1_r, seq_S, !map_app. cbn [map plus]. f_equal.
  - rewrite <- IH. apply map_ext_in. intros i Hi. apply in_seq in Hi. rewrite app_nth1 by lia. reflexivity.
  - rewrite app_nth2 by lia. rewrite Nat.sub_diag. reflexivity.
Qed.

Lemma scan_outputs_some outs file pkg i : scan_outputs outs file pkg = DOk (Some i) ->
  exists o, In (i, o) outs /\ o_file o = file /\ o_pkg o = pkg.
Proof.
  induction outs as [|[i0 o0] r IH]; cbn; [discriminate|].
  destruct (str_eqb (o_file o0) file) eqn:E1; cbn.
  - destruct (str_eqb (o_pkg o0) pkg) eqn:E2; cbn; [|discriminate].
    intros H. inversion H; subst. exists o0. apply str_eqb_eq in E1, E2. auto.
  - intros H. destruct (IH H) as (o & Hin & Hf & Hp). exists o. auto.
Qed.
Lemma scan_outputs_none outs file pkg : scan_outputs outs file pkg = DOk None -> ~ In file (map (fun p => o_file (snd p)) outs).
Proof.
  induction outs as [|[i0 o0] r IH]; cbn; [tauto|].
  destruct (str_eqb (o_file o0) file) eqn:E1; cbn.
  - destruct (str_eqb (o_pkg o0) pkg); cbn; discriminate.
  - intros H [Hf|Hin]; [apply str_eqb_neq in E1; contradiction|]. apply (IH H Hin).
Qed.

Lemma lookup_app_l {A} k (l1 l2 : list (str * A)) v : lookup k l1 = Some v -> lookup k (l1 ++ l2) = Some v.
Proof. induction l1 as [|[k' v'] r IH]; cbn; [discriminate|]. destruct (str_eqb k k'); auto. Qed.
Lemma lookup_app_r {A} k (l1 l2 : list (str * A)) : lookup k l1 = None -> lookup k (l1 ++ l2) = lookup k l2.
Proof. induction l1 as [|[k' v'] r IH]; cbn; [reflexivity|]. destruct (str_eqb k k'); [discriminate|auto]. Qed.

Theorem find_output_sound order c st id st' i :
  (forall l, Permutation (order l) l) -> ds_wf c st ->
  find_output order c st id = DOk (st', i) ->
  ds_wf c st' /\ i < length (ds_outs st') /\
  (o_file (nth i (ds_outs st') dflt_out), o_pkg (nth i (ds_outs st') dflt_out)) = target c id.
Proof.
  intros Hord (Hnd & Hidx & Htgt) H. unfold find_output in H.
  destruct (lookup id (ds_ids st)) as [i0|] eqn:EL.
  - inversion H; subst. split; [repeat split; assumption|]. split; [|apply Htgt; exact EL].
    apply lookup_In in EL. apply (in_map snd) in EL. cbn in EL. rewrite Hidx in EL. apply in_seq in EL. lia.
  - assert (Hb : begin_output order st id (fst (target c id)) (snd (target c id)) = DOk (st', i)).
    { unfold target. destruct (find_mapping id (d_mappings c)); exact H. }
    clear H. destruct (target c id) as [file pkg] eqn:ET. cbn [fst snd] in Hb.
    unfold begin_output in Hb. destruct pkg as [|pc pk]; [discriminate|].
    assert (Hfd : files_distinct (entries st)) by (unfold files_distinct; rewrite entries_files by exact Hidx; exact Hnd).
    rewrite <- (scan_outputs_order (entries st) (order (entries st)) file (pc :: pk) Hfd (Permutation_sym (Hord _))) in Hb.
    destruct (scan_outputs (entries st) file (pc :: pk)) as [[j|]|] eqn:ES; try discriminate.
    + inversion Hb; subst. clear Hb.
      destruct (scan_outputs_some _ _ _ _ ES) as (o & Hin & Hf & Hp).
      unfold entries in Hin. apply in_map_iff in Hin. destruct Hin as [[id0 j0] [Heq Hin]]. cbn in Heq. inversion Heq; subst.
      split; [repeat split; assumption|]. split.
      * apply (in_map snd) in Hin. cbn in Hin. rewrite Hidx in Hin. apply in_seq in Hin. lia.
      * rewrite Hp. reflexivity.
    + inversion Hb; subst. clear Hb. unfold ds_wf. cbn [ds_outs ds_ids].
      pose proof (scan_outputs_none _ _ _ ES) as Hnone. rewrite entries_files in Hnone by exact Hidx.
      split; [|split].
      * split; [|split].
        -- rewrite map_app. cbn. apply NoDup_app_cons_end; assumption.
        -- rewrite map_app, app_length, Nat.add_1_r, seq_S, Hidx. reflexivity.
        -- intros id' i' Hl. destruct (lookup id' (ds_ids st)) as [i0|] eqn:E0.
           ++ rewrite (lookup_app_l _ _ _ _ E0) in Hl. inversion Hl; subst i'.
              assert (Hlt : i0 < length (ds_outs st)).
              { apply lookup_In in E0. apply (in_map snd) in E0. cbn in E0. rewrite Hidx in E0. apply in_seq in E0. lia. }
              rewrite app_nth1 by exact Hlt. apply Htgt. exact E0.
           ++ rewrite (lookup_app_r _ _ _ E0) in Hl. cbn in Hl. destruct (str_eqb id' id) eqn:EI; [|discriminate].
              apply str_eqb_eq in EI. subst id'. inversion Hl; subst i'.
              rewrite app_nth2 by lia. rewrite Nat.sub_diag. cbn. symmetry. exact ET.
      * rewrite app_length. cbn. lia.
      * rewrite app_nth2 by lia. rewrite Nat.sub_diag. reflexivity.
Qed.

(* every history of lookups keeps the table well formed: by induction over the history *)
Fixpoint route (order : list (nat * outp) -> list (nat * outp)) (c : dcfg) (st : dstate) (ids : list str) : dres dstate :=
  match ids with
  | [] => DOk st
  | id :: r => match find_output order c st id with DOk (st', _) => route order c st' r | DErr => DErr end
  end.

Theorem route_wf order c ids : (forall l, Permutation (order l) l) -> forall st st', ds_wf c st -> route order c st ids = DOk st' -> ds_wf c st'.
Proof.
  intros Hord. induction ids as [|id r IH]; intros st st' Hwf H; cbn in H; [inversion H; subst; exact Hwf|].
  destruct (find_output order c st id) as [[st1 i]|] eqn:E; [|discriminate].
  apply (IH st1 st'); [|exact H]. apply (find_output_sound order c st id st1 i Hord Hwf E).
Qed.

(* looking an id up again changes nothing and yields the same output *)
Theorem find_output_stable order c st id st' i :
  (forall l, Permutation (order l) l) -> ds_wf c st -> find_output order c st id = DOk (st', i) ->
  find_output order c st' id = DOk (st', i).
Proof.
  intros Hord Hwf H. pose proof (find_output_sound order c st id st' i Hord Hwf H) as (Hwf' & Hlt & Ht).
  unfold find_output in H |- *.
  destruct (lookup id (ds_ids st)) as [i0|] eqn:EL.
  - inversion H; subst. rewrite EL. reflexivity.
  - assert (Hb : begin_output order st id (fst (target c id)) (snd (target c id)) = DOk (st', i)).
    { unfold target. destruct (find_mapping id (d_mappings c)); exact H. }
    unfold begin_output in Hb. destruct (snd (target c id)) as [|pc pk] eqn:EP; [discriminate|].
    destruct (scan_outputs (order (entries st)) (fst (target c id)) (pc :: pk)) as [[j|]|] eqn:ES; try discriminate.
    + (* an existing output was returned; the id is still unregistered, and the same scan finds it again *)
      inversion Hb; subst. rewrite EL.
      assert (Hb2 : begin_output order st' id (fst (target c id)) (snd (target c id)) = DOk (st', i)).
      { unfold begin_output. rewrite EP, ES. reflexivity. }
      unfold target in Hb2 |- *. destruct (find_mapping id (d_mappings c)); exact Hb2.
    + inversion Hb; subst. cbn [ds_ids]. rewrite (lookup_app_r _ _ _ EL). cbn. rewrite str_eqb_refl. reflexivity.
Qed.
