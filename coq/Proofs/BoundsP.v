From GJS Require Import Base Bounds.
From Coq Require Import Lqa.
Open Scope Q_scope.

Ltac qcases :=
  repeat match goal with
  | |- context [Qle_bool ?a ?b] => destruct (Qle_bool_spec a b)
  | H : context [Qle_bool ?a ?b] |- _ => destruct (Qle_bool_spec a b)
  end.

(* the normalised lower bound means exactly the intersection of the stated lower bounds *)
Lemma lower_exact m e x : accept_lower (norm_min m e) x = spec_lower m e x.
Proof.
  unfold norm_min, norm_side, accept_lower, spec_lower, Qgeb, Qltb.
  destruct m as [mm|]; destruct e as [[[|]|v]|]; cbn; qcases; cbn; try reflexivity; try lra.
Qed.

Lemma upper_exact m e x : accept_upper (norm_max m e) x = spec_upper m e x.
Proof.
  unfold norm_max, norm_side, accept_upper, spec_upper, Qltb.
  destruct m as [mm|]; destruct e as [[[|]|v]|]; cbn; qcases; cbn; try reflexivity; try lra.
Qed.

Lemma bounds_exact b x : accept_bounds b x = spec_bounds b x.
Proof.
  unfold accept_bounds, spec_bounds. rewrite lower_exact, upper_exact. apply andb_comm.
Qed.

(* shape of the result: what NormalizeBounds returns, stated independently *)
Lemma norm_min_tight m e b ex :
  norm_min m e = (Some b, ex) ->
  (* b is one of the stated constants and no stated constant is tighter *)
  (m = Some b \/ e = Some (ExNum b)) /\
  (forall mm, m = Some mm -> mm <= b) /\ (forall v, e = Some (ExNum v) -> v <= b).
Proof.
  unfold norm_min, norm_side, Qgeb.
  destruct m as [mm|]; destruct e as [[bb|v]|]; cbn; qcases; intros H; inversion H; subst;
    (split; [auto|split; intros ? E; inversion E; subst; lra]).
Qed.

Lemma norm_max_tight m e b ex :
  norm_max m e = (Some b, ex) ->
  (m = Some b \/ e = Some (ExNum b)) /\
  (forall mm, m = Some mm -> b <= mm) /\ (forall v, e = Some (ExNum v) -> b <= v).
Proof.
  unfold norm_max, norm_side.
  destruct m as [mm|]; destruct e as [[bb|v]|]; cbn; qcases; intros H; inversion H; subst;
    (split; [auto|split; intros ? E; inversion E; subst; lra]).
Qed.

(* exclusive wins on a tie *)
Lemma norm_min_tie q : norm_min (Some q) (Some (ExNum q)) = (Some q, true).
Proof. unfold norm_min, norm_side, Qgeb. destruct (Qle_bool_spec q q); [reflexivity|lra]. Qed.
Lemma norm_max_tie q : norm_max (Some q) (Some (ExNum q)) = (Some q, true).
Proof. unfold norm_max, norm_side. destruct (Qle_bool_spec q q); [reflexivity|lra]. Qed.

(* nothing stated, nothing checked *)
Lemma norm_none_iff m e : fst (norm_min m e) = None <-> (m = None /\ forall v, e <> Some (ExNum v)).
Proof.
  unfold norm_min, norm_side, Qgeb.
  destruct m as [mm|]; destruct e as [[bb|v]|]; cbn; qcases; cbn; split;
    try (intros [? ?]; congruence); try discriminate; try (intros _; split; congruence).
  all: try (intros [_ H]; exfalso; eapply H; reflexivity).
Qed.

