(* One level of an object schema, end to end and in both directions: IF the checks the generator attaches to every
   property are exact on that property's values (which C05 / C06 / C07 prove for scalars, strings and arrays under their
   own conditions, and which this very theorem provides for a nested object), THEN the struct generated for the object
   accepts a JSON object iff it is valid under the schema (Spec/Valid.v).  Field-wise form first (any checks-only method),
   then the generated struct against the reference semantics. *)
From GJS Require Import Base Bounds IntSize Regex Schema GoType Exec ExecP MethodP.

Section Fieldwise.
Variable decf : gty -> json -> outcome gval.
Variable zf : gty -> gval.
Variable dvf : gty -> json -> option gval.

Definition v_fname (v : validator) : str :=
  match v with
  | VNullType fn _ _ | VDefault fn _ _ _ | VArray fn _ _ _ _ | VString fn _ _ _ _ _ | VNumeric fn _ _ _ _ _ => fn
  | _ => []
  end.

(* the value checks of one field, on the value the field holds *)
Definition value_checks (ws : list validator) (fname : str) (v : gval) : bool :=
  forallb (fun w => is_ok (after_step dvf None (GSt [(fname, v)]) w)) ws.

Lemma after_step_local raw st w fname x :
  check_only w = true -> v_fname w = fname -> fname <> [] -> get_plain fname st = Some x ->
  is_ok (after_step dvf raw st w) = is_ok (after_step dvf None (GSt [(fname, x)]) w).
Proof.
  intros Hc Hf Hn Hg.
  assert (Hs : get_plain fname (GSt [(fname, x)]) = Some x).
  { destruct fname as [|c n]; [contradiction|]. cbn [get_plain lookup]. rewrite str_eqb_refl. reflexivity. }
  destruct w; cbn [check_only] in Hc; try discriminate; cbn [v_fname] in Hf; subst; cbn [after_step]; try reflexivity;
    rewrite Hg, Hs;
    repeat match goal with
           | |- context [obind ?o _] => destruct o; cbn [obind is_ok]
           | |- context [match ?y with _ => _ end] => destruct y; cbn [is_ok]
           | |- context [if ?c then _ else _] => destruct c; cbn [is_ok]
           end; reflexivity.
Qed.

(* a field with its validators: all of them value checks on that very field *)
Definition local_info (i : field * list validator) : Prop :=
  f_addl (fst i) = false /\ f_name (fst i) <> [] /\
  Forall (fun w => check_only w = true /\ v_fname w = f_name (fst i) /\ (forall k, w <> VRequired k)) (snd i).

Definition field_ok (kv : list (str * json)) (i : field * list validator) : bool :=
  match lookup (f_json (fst i)) kv with
  | Some x => match decf (f_ty (fst i)) x with Ok v => value_checks (snd i) (f_name (fst i)) v | _ => false end
  | None => value_checks (snd i) (f_name (fst i)) (zf (f_ty (fst i)))
  end.

Lemma plain_fields_absent fs kv fl st :
  NoDup (map f_name fs) -> In fl fs -> f_addl fl = false -> f_name fl <> [] ->
  lookup (f_json fl) kv = None -> plain_fields decf zf fs (JObj kv) = Ok st -> get_plain (f_name fl) st = Some (zf (f_ty fl)).
Proof.
  intros Hnd Hin Ha Hn Hl H. cbn [plain_fields] in H.
  destruct (omap _ fs) as [vs| | |] eqn:E; cbn [obind] in H; try discriminate. inversion H; subst st. clear H.
  destruct (f_name fl) as [|c n] eqn:EN; [contradiction|]. cbn [get_plain]. rewrite <- EN.
  pose proof (omap_Ok _ _ _ E) as HF. clear E.
  revert Hnd Hin. induction HF as [|f0 p0 r1 r2 H0 _ IH]; intros Hnd Hin; [contradiction|].
  cbn [map] in Hnd. inversion Hnd as [|? ? Hnot Hnd']; subst.
  assert (Hfst : fst p0 = f_name f0).
  { destruct (f_addl f0); [inversion H0; reflexivity|]. destruct (lookup (f_json f0) kv); [|inversion H0; reflexivity].
    destruct (decf (f_ty f0) j); cbn in H0; try discriminate. inversion H0; reflexivity. }
  destruct p0 as [pn pv]. cbn [fst] in Hfst. subst pn. cbn [lookup].
  destruct Hin as [->|Hin].
  - rewrite str_eqb_refl. rewrite Ha, Hl in H0. inversion H0; reflexivity.
  - destruct (str_eqb (f_name fl) (f_name f0)) eqn:E.
    + apply str_eqb_eq in E. exfalso. apply Hnot. rewrite <- E. apply List.in_map. exact Hin.
    + exact (IH Hnd' Hin).
Qed.

Lemma forallb_flat_map {A B} (g : A -> list B) (p : B -> bool) (l : list A) :
  forallb p (flat_map g l) = forallb (fun a => forallb p (g a)) l.
Proof. induction l as [|a r IH]; [reflexivity|]. cbn [flat_map forallb]. rewrite forallb_app, IH. reflexivity. Qed.

(* the after-checks of the whole method = the value checks field by field *)
Theorem after_fieldwise raw (infos : list (field * list validator)) kv st :
  NoDup (map (fun i => f_name (fst i)) infos) -> Forall local_info infos ->
  plain_fields decf zf (map fst infos) (JObj kv) = Ok st ->
  forallb (fun w => is_ok (after_step dvf raw st w)) (flat_map snd infos) = forallb (field_ok kv) infos.
Proof.
  intros Hnd Hloc Hst. rewrite forallb_flat_map. apply forallb_ext_in. intros i Hi.
  rewrite Forall_forall in Hloc. destruct (Hloc i Hi) as [Ha [Hn Hws]].
  assert (Hnd' : NoDup (map f_name (map fst infos))) by (rewrite map_map; exact Hnd).
  assert (Hin : In (fst i) (map fst infos)) by (apply List.in_map; exact Hi).
  unfold field_ok. destruct (lookup (f_json (fst i)) kv) as [x|] eqn:El.
  - assert (Hdec : is_ok (decf (f_ty (fst i)) x) = true).
    { assert (Hok : is_ok (plain_fields decf zf (map fst infos) (JObj kv)) = true) by (rewrite Hst; reflexivity).
      apply plain_fields_is_ok in Hok. rewrite forallb_forall in Hok. specialize (Hok _ Hin). unfold field_decodes in Hok. rewrite Ha, El in Hok. exact Hok. }
    destruct (decf (f_ty (fst i)) x) as [v| | |] eqn:Ed; try discriminate.
    pose proof (plain_fields_state decf zf _ kv (fst i) x v st Hnd' Hin Ha Hn El Ed Hst) as Hg.
    unfold value_checks. apply forallb_ext_in. intros w Hw. rewrite Forall_forall in Hws. destruct (Hws w Hw) as [Hc [Hf _]].
    exact (after_step_local raw st w _ v Hc Hf Hn Hg).
  - pose proof (plain_fields_absent _ kv (fst i) st Hnd' Hin Ha Hn El Hst) as Hg.
    unfold value_checks. apply forallb_ext_in. intros w Hw. rewrite Forall_forall in Hws. destruct (Hws w Hw) as [Hc [Hf _]].
    exact (after_step_local raw st w _ _ Hc Hf Hn Hg).
Qed.

(* when a present key does not decode, some field is not ok *)
Lemma undecodable_field (infos : list (field * list validator)) kv :
  Forall local_info infos -> is_ok (plain_fields decf zf (map fst infos) (JObj kv)) = false -> forallb (field_ok kv) infos = false.
Proof.
  intros Hloc Hno. destruct (forallb (field_ok kv) infos) eqn:E; [|reflexivity]. exfalso.
  assert (Hall : forallb (field_decodes decf kv) (map fst infos) = true).
  { rewrite forallb_forall in *. intros fl Hfl. apply in_map_iff in Hfl. destruct Hfl as [i [<- Hi]]. specialize (E i Hi).
    unfold field_decodes, field_ok in *. destruct (f_addl (fst i)); [reflexivity|]. destruct (lookup (f_json (fst i)) kv); [|reflexivity].
    destruct (decf (f_ty (fst i)) j); try discriminate. reflexivity. }
  apply (proj2 (plain_fields_is_ok decf zf (map fst infos) kv)) in Hall. congruence.
Qed.

Definition is_required (v : validator) : bool := match v with VRequired _ => true | _ => false end.

Lemma required_of_app a b : required_of (a ++ b) = required_of a ++ required_of b.
Proof. unfold required_of. apply flat_map_app. Qed.

Lemma required_of_locals (infos : list (field * list validator)) : Forall local_info infos -> required_of (flat_map snd infos) = [].
Proof.
  induction 1 as [|i r [_ [_ Hws]] _ IH]; [reflexivity|]. cbn [flat_map]. rewrite required_of_app, IH, app_nil_r.
  clear IH. induction Hws as [|w ws [_ [_ Hw]] _ IHw]; [reflexivity|]. cbn [required_of flat_map]. fold (required_of ws). rewrite IHw.
  destruct w; try reflexivity. exfalso. exact (Hw jname eq_refl).
Qed.

Lemma check_only_locals (infos : list (field * list validator)) : Forall local_info infos -> forallb check_only (flat_map snd infos) = true.
Proof.
  induction 1 as [|i r [_ [_ Hws]] _ IH]; [reflexivity|]. cbn [flat_map]. rewrite forallb_app, IH, andb_true_r.
  clear IH. induction Hws as [|w ws [Hc _] _ IHw]; [reflexivity|]. cbn [forallb]. rewrite Hc, IHw. reflexivity.
Qed.

(* the method of a struct: presence checks first, then the value checks field by field *)
Theorem method_fieldwise (reqs : list validator) (infos : list (field * list validator)) under kv :
  forallb is_required reqs = true ->
  NoDup (map (fun i => f_name (fst i)) infos) -> Forall local_info infos ->
  is_ok (run_method decf zf dvf (Some (map fst infos)) under (reqs ++ flat_map snd infos) (JObj kv)) =
    forallb (fun k => match lookup k kv with Some _ => true | None => false end) (required_of reqs) && forallb (field_ok kv) infos.
Proof.
  intros Hr Hnd Hloc.
  assert (Hco : forallb check_only (reqs ++ flat_map snd infos) = true).
  { rewrite forallb_app, (check_only_locals _ Hloc), andb_true_r. clear -Hr. induction reqs as [|v r IH]; [reflexivity|].
    cbn [forallb] in *. apply andb_true_iff in Hr. destruct Hr as [Hv Hr']. rewrite (IH Hr'), andb_true_r. destruct v; try discriminate; reflexivity. }
  assert (Hna : find f_addl (map fst infos) = None).
  { clear -Hloc. induction Hloc as [|i r [Ha _] _ IH]; [reflexivity|]. cbn [map find]. rewrite Ha. exact IH. }
  rewrite (method_exact decf zf dvf _ under _ kv Hco Hna), (before_checks_exact decf _ kv Hco), required_of_app, (required_of_locals _ Hloc), app_nil_r.
  f_equal. destruct (plain_fields decf zf (map fst infos) (JObj kv)) as [st| | |] eqn:Ep.
  - rewrite forallb_app. rewrite (after_fieldwise _ infos kv st Hnd Hloc Ep).
    assert (Hq : forall raw, forallb (fun w => is_ok (after_step dvf raw st w)) reqs = true).
    { intros raw. clear -Hr. induction reqs as [|v r IH]; [reflexivity|]. cbn [forallb] in *. apply andb_true_iff in Hr. destruct Hr as [Hv Hr'].
      rewrite (IH Hr'), andb_true_r. destruct v; try discriminate; reflexivity. }
    rewrite Hq. reflexivity.
  - symmetry. apply undecodable_field; [exact Hloc|rewrite Ep; reflexivity].
  - symmetry. apply undecodable_field; [exact Hloc|rewrite Ep; reflexivity].
  - symmetry. apply undecodable_field; [exact Hloc|rewrite Ep; reflexivity].
Qed.
End Fieldwise.

(* ---------- the struct the generator declares for an object schema ---------- *)
From GJS Require Import Gen GenP Valid.

Lemma field_validators_local fn jn c b : forall t nl,
  Forall (fun w => check_only w = true /\ v_fname w = fn /\ (forall k, w <> VRequired k)) (field_validators fn jn c b t nl).
Proof.
  assert (Harr : forall mn mx t d, Forall (fun w => check_only w = true /\ v_fname w = fn /\ (forall k, w <> VRequired k)) (array_validators fn jn mn mx d t)).
  { intros mn mx. fix IH 1. intros t d. destruct t as [| | | | | | |?|inl e|?|? ? ?|? ? ?|? ? ? ?|?]; try constructor.
    destruct inl; [|constructor]. pose proof (IH e (S d)) as IHe. clear IH.
    destruct e; cbn [array_validators]; try (repeat constructor; discriminate);
      (apply Forall_app; split; [destruct (negb (mn =? 0) || negb (mx =? 0)); repeat constructor; discriminate | first [exact IHe | constructor]]). }
  fix IH 1. intros t nl. destruct t as [| | | | | | |u|inl e|?|? ? ?|? ? ?|? ? ? ?|?]; cbn [field_validators]; try constructor.
  - destruct (has_string_kw c); repeat constructor; discriminate.
  - destruct (has_bound_kw (c_mult c) b); repeat constructor; discriminate.
  - destruct (has_bound_kw (c_mult c) b); repeat constructor; discriminate.
  - repeat split; try reflexivity; discriminate.
  - constructor.
  - exact (IH u true).
  - destruct inl; [apply Harr|constructor].
Qed.

Definition pair_of (i : finfo) : field * list validator := (fst (fst i), snd i).

Lemma make_field_local defs c self fname k p ty bp : c_default (s_con p) = None -> fname <> [] ->
  local_info (pair_of (make_field defs c self fname k p ty bp)) /\ f_json (fst (fst (make_field defs c self fname k p ty bp))) = k /\
  f_name (fst (fst (make_field defs c self fname k p ty bp))) = fname /\ snd (fst (make_field defs c self fname k p ty bp)) = mem k (c_required c).
Proof.
  intros Hd Hn. unfold make_field, pair_of, local_info. rewrite Hd. destruct (mem k (c_required c)).
  - cbn. repeat split; try assumption; apply field_validators_local.
  - destruct (nillable_ty (ref_nillable defs self) ty); cbn; repeat split; try assumption; apply field_validators_local.
Qed.

Lemma run_method_nil decf zf dvf fs under j :
  find f_addl fs = None -> is_ok (run_method decf zf dvf (Some fs) under [] j) = is_ok (plain_fields decf zf fs j).
Proof.
  intros Ha. unfold run_method. cbn [existsb orb obind run_before run_after fold_left].
  destruct (plain_fields decf zf fs j); cbn [obind is_ok]; try reflexivity. unfold addl_block. rewrite Ha. reflexivity.
Qed.

(* ---------- list facts ---------- *)
Lemma Forall2_In_r {A B} (R : A -> B -> Prop) l1 l2 y : Forall2 R l1 l2 -> In y l2 -> exists x, In x l1 /\ R x y.
Proof.
  induction 1 as [|a b l1 l2 Hab _ IH]; intros Hin; [contradiction|].
  destruct Hin as [->|Hin]; [exists a; split; [left; reflexivity|exact Hab]|].
  destruct (IH Hin) as [x [Hx Hr]]. exists x. split; [right; exact Hx|exact Hr].
Qed.

Lemma forallb_same_members {A} (p : A -> bool) (l1 l2 : list A) : (forall x, In x l1 <-> In x l2) -> forallb p l1 = forallb p l2.
Proof.
  intros H. destruct (forallb p l1) eqn:E1; destruct (forallb p l2) eqn:E2; try reflexivity; exfalso.
  - rewrite forallb_forall in E1. assert (forallb p l2 = true) by (apply forallb_forall; intros x Hx; apply E1, H, Hx). congruence.
  - rewrite forallb_forall in E2. assert (forallb p l1 = true) by (apply forallb_forall; intros x Hx; apply E2, H, Hx). congruence.
Qed.

Lemma forallb_swap {A B} (V : A -> B -> bool) (props : list (str * A)) (kv : list (str * B)) :
  NoDup (map fst props) -> NoDup (map fst kv) ->
  forallb (fun q => match lookup (fst q) props with Some ps => V ps (snd q) | None => true end) kv =
  forallb (fun kp => match lookup (fst kp) kv with Some x => V (snd kp) x | None => true end) props.
Proof.
  intros Np Nk.
  destruct (forallb _ kv) eqn:E1; destruct (forallb _ props) eqn:E2; try reflexivity; exfalso.
  - rewrite forallb_forall in E1.
    assert (H : forallb (fun kp => match lookup (fst kp) kv with Some x => V (snd kp) x | None => true end) props = true).
    { apply forallb_forall. intros [k p] Hin. cbn [fst snd]. destruct (lookup k kv) as [x|] eqn:El; [|reflexivity].
      specialize (E1 (k, x) (lookup_In _ _ _ El)). cbn [fst snd] in E1. rewrite (lookup_NoDup_In k p props Np Hin) in E1. exact E1. }
    congruence.
  - rewrite forallb_forall in E2.
    assert (H : forallb (fun q => match lookup (fst q) props with Some ps => V ps (snd q) | None => true end) kv = true).
    { apply forallb_forall. intros [k x] Hin. cbn [fst snd]. destruct (lookup k props) as [p|] eqn:El; [|reflexivity].
      specialize (E2 (k, p) (lookup_In _ _ _ El)). cbn [fst snd] in E2. rewrite (lookup_NoDup_In k x kv Nk Hin) in E2. exact E2. }
    congruence.
Qed.

Section Level.
Variable idf : str -> str.
Variable cf : cfg.
Variable defs : list (str * schema).
Variable fmt_ok : fmtk -> str -> bool.
Variable env : list (str * gty).
Variable sdefs : list (str * schema).
Notation gen := (Gen.gen idf cf defs).
Notation dec := (Exec.dec fmt_ok env).
Notation valid := (Valid.valid fmt_ok sdefs).

Definition present (kv : list (str * json)) (k : str) : bool := match lookup k kv with Some _ => true | None => false end.

(* what the generated fields look like, property by property *)
Lemma infos_facts f self scope c (nps : list (str * (str * schema))) (infos : list finfo) :
  (forall fname k p, In (fname, (k, p)) nps -> c_default (s_con p) = None /\ fname <> []) ->
  rmap (gen_field defs (fun p sc => gen f MInline self false p sc) c self scope) nps = Done infos ->
  Forall2 (fun np i => exists ty bp, gen f MInline self false (snd (snd np)) (scope ++ fst np) = Done (ty, bp) /\
                                 i = make_field defs c self (fst np) (fst (snd np)) (snd (snd np)) ty bp) nps infos.
Proof.
  intros _ H. apply rmap_Done in H. induction H as [|np i l1 l2 Hnp _ IH]; constructor; [|exact IH].
  destruct np as [fname [k p]]. unfold gen_field in Hnp. cbn [fst snd].
  destruct (gen f MInline self false p (scope ++ fname)) as [[ty bp]| | |]; cbn in Hnp; try discriminate. inversion Hnp; subst. eauto.
Qed.

Theorem level_exact f fd fv self sub s scope t b kv :
  g_only_models cf = false -> scope <> [] ->
  plain_object s -> c_types (s_con s) = [SObject] -> s_addl s = None -> s_addl_false s = false ->
  (forall k p, In (k, p) (s_props s) -> c_default (s_con p) = None) ->
  NoDup (map fst (s_props s)) -> NoDup (map fst kv) ->
  incl (c_required (s_con s)) (map fst (s_props s)) ->
  NoDup (map fst (prop_names idf (s_props s))) -> (forall fname kp, In (fname, kp) (prop_names idf (s_props s)) -> fname <> []) ->
  gen (S (S f)) MDeclared self sub s scope = Done (t, b) ->
  (forall fname k p ty bp, In (fname, (k, p)) (prop_names idf (s_props s)) ->
     gen f MInline self false p (scope ++ fname) = Done (ty, bp) ->
     match lookup k kv with
     | Some x => field_ok (dec fd) zero (default_val env dv_fuel) kv (pair_of (make_field defs (s_con s) self fname k p ty bp)) = valid fv p x
     | None => mem k (c_required (s_con s)) = false ->
               field_ok (dec fd) zero (default_val env dv_fuel) kv (pair_of (make_field defs (s_con s) self fname k p ty bp)) = true
     end) ->
  is_ok (dec (S fd) t (JObj kv)) = valid (S fv) s (JObj kv).
Proof.
  intros Hom Hsc Hp Hty Ha Haf Hd Nprops Nkv Hreq Nnames Hne Hg Hfield.
  pose proof Hp as (He & Hr & _ & _ & Hall & Hany).
  rewrite (gen_declared_eq idf cf defs (S f) self sub s scope He) in Hg.
  destruct (gen (S f) MType self sub s scope) as [[t0 b0]| | |] eqn:Eg; cbn [rbind] in Hg; try discriminate.
  destruct (gen_type_object idf cf defs f self sub s scope t0 b0 Hp Eg) as [infos [H1 H2]].
  (* the struct *)
  unfold build_struct in H2. rewrite Ha in H2. inversion H2; subst t0 b0. clear H2.
  set (fields := map (fun i : finfo => fst (fst i)) infos) in *.
  set (reqs := flat_map (fun i : finfo => if snd (fst i) then [VRequired (f_json (fst (fst i)))] else []) infos) in *.
  set (fvs := flat_map (fun i : finfo => snd i) infos) in *.
  unfold declare in Hg. cbn [is_named_ty] in Hg. rewrite Hom in Hg. cbn [orb] in Hg.
  (* property by property *)
  assert (Hnp : forall fname k p, In (fname, (k, p)) (prop_names idf (s_props s)) -> c_default (s_con p) = None /\ fname <> []).
  { intros fname k p Hin. split; [|exact (Hne _ _ Hin)]. apply (Hd k). unfold prop_names in Hin. apply in_combine_r in Hin. rewrite sort_props_In in Hin. exact Hin. }
  pose proof (infos_facts f self scope (s_con s) _ infos Hnp H1) as HF.
  set (infos' := map pair_of infos).
  assert (Hfields : map fst infos' = fields) by (unfold infos', fields; rewrite map_map; reflexivity).
  assert (Hfvs : flat_map snd infos' = fvs).
  { unfold infos', fvs. clear. induction infos as [|i r IH]; [reflexivity|]. cbn [map flat_map]. rewrite IH. reflexivity. }
  assert (Hloc : Forall local_info infos').
  { unfold infos'. clear -HF Hnp. induction HF as [|np i l1 l2 [ty [bp [_ ->]]] _ IH]; [constructor|]. destruct np as [fname [k p]]. cbn [fst snd map].
    constructor; [|apply IH; intros; apply (Hnp fname0 k0 p0); right; assumption].
    destruct (Hnp fname k p (or_introl eq_refl)) as [Hdd Hnn]. exact (proj1 (make_field_local defs (s_con s) self fname k p ty bp Hdd Hnn)). }
  assert (Hnames : map (fun i => f_name (fst i)) infos' = map fst (prop_names idf (s_props s))).
  { unfold infos'. clear -HF Hnp. induction HF as [|np i l1 l2 [ty [bp [_ ->]]] _ IH]; [reflexivity|]. destruct np as [fname [k p]]. cbn [fst snd map].
    destruct (Hnp fname k p (or_introl eq_refl)) as [Hdd Hnn].
    destruct (make_field_local defs (s_con s) self fname k p ty bp Hdd Hnn) as (_ & _ & Hfn & _). unfold pair_of. cbn [fst]. rewrite Hfn. f_equal.
    apply IH. intros; apply (Hnp fname0 k0 p0); right; assumption. }
  assert (Hreqs : forallb is_required reqs = true).
  { unfold reqs. clear. induction infos as [|i r IH]; [reflexivity|]. cbn [flat_map]. rewrite forallb_app, IH. destruct (snd (fst i)); reflexivity. }
  assert (Hnd' : NoDup (map (fun i => f_name (fst i)) infos')) by (rewrite Hnames; exact Nnames).
  (* the method *)
  assert (Hdec : is_ok (dec (S fd) t (JObj kv)) = forallb (present kv) (required_of reqs) && forallb (field_ok (dec fd) zero (default_val env dv_fuel) kv) infos').
  { destruct scope as [|c0 n0]; [contradiction|].
    destruct (sub || negb (length (reqs ++ fvs) =? 0)) eqn:Eplan; inversion Hg; subst t b; cbn [Exec.dec].
    - rewrite <- Hfields, <- Hfvs. exact (method_fieldwise (dec fd) zero (default_val env dv_fuel) reqs infos' _ kv Hreqs Hnd' Hloc).
    - apply orb_false_iff in Eplan. destruct Eplan as [_ El]. apply negb_false_iff in El. apply Nat.eqb_eq in El. apply length_zero_iff_nil in El.
      assert (Hna : find f_addl fields = None).
      { rewrite <- Hfields. clear -Hloc. induction Hloc as [|i r [Hx _] _ IH]; [reflexivity|]. cbn [map find]. rewrite Hx. exact IH. }
      rewrite <- (run_method_nil (dec fd) zero (default_val env dv_fuel) fields (TStruct (c0 :: n0) fields None) (JObj kv) Hna).
      rewrite <- El at 1. rewrite <- Hfields, <- Hfvs. exact (method_fieldwise (dec fd) zero (default_val env dv_fuel) reqs infos' _ kv Hreqs Hnd' Hloc). }
  rewrite Hdec. clear Hdec Hg.
  (* the reference semantics *)
  assert (Hspec : valid (S fv) s (JObj kv) = forallb (present kv) (c_required (s_con s)) &&
                  forallb (fun q => match lookup (fst q) (s_props s) with Some ps => valid fv ps (snd q) | None => true end) kv).
  { destruct s as [c props addl af items allof anyof]. cbn [s_con s_props s_addl s_addl_false s_all_of s_any_of] in *. subst addl af allof anyof.
    cbn [Valid.valid s_con s_all_of s_any_of s_props s_addl s_addl_false]. rewrite Hr, Hty, He. cbn [type_ok existsb type_matches orb forallb andb]. reflexivity. }
  rewrite Hspec.
  assert (Hpres : forallb (present kv) (required_of reqs) = forallb (present kv) (c_required (s_con s))).
  { (* presence *)
    apply forallb_same_members. intros k. unfold reqs, required_of. rewrite in_flat_map. split.
    + intros [v [Hv Hk]]. apply in_flat_map in Hv. destruct Hv as [i [Hi Hvi]].
      destruct (Forall2_In_r _ _ _ i HF Hi) as [np [Hnpi [ty [bp [_ ->]]]]]. destruct np as [fname [k0 p]]. cbn [fst snd] in *.
      destruct (Hnp fname k0 p Hnpi) as [Hdd Hnn]. destruct (make_field_local defs (s_con s) self fname k0 p ty bp Hdd Hnn) as (_ & Hj & _ & Hrq).
      rewrite Hrq, Hj in Hvi. destruct (mem k0 (c_required (s_con s))) eqn:Em; [|contradiction]. destruct Hvi as [<-|[]]. destruct Hk as [<-|[]]. apply mem_In. exact Em.
    + intros Hk. pose proof (Hreq k Hk) as Hkeys. apply in_map_iff in Hkeys. destruct Hkeys as [[k0 p] [Hk0 Hin]]. cbn [fst] in Hk0. subst k0.
      destruct (prop_names_In idf (s_props s) k p Hin) as [fname Hnpi].
      destruct (Forall2_In_l _ _ _ (fname, (k, p)) HF Hnpi) as [i [Hi [ty [bp [_ ->]]]]]. cbn [fst snd] in *.
      destruct (Hnp fname k p Hnpi) as [Hdd Hnn]. destruct (make_field_local defs (s_con s) self fname k p ty bp Hdd Hnn) as (_ & Hj & _ & Hrq).
      exists (VRequired k). split; [|left; reflexivity]. apply in_flat_map. exists (make_field defs (s_con s) self fname k p ty bp). split; [exact Hi|].
      rewrite Hrq, Hj. apply mem_In in Hk. rewrite Hk. left; reflexivity. }
  rewrite Hpres. destruct (forallb (present kv) (c_required (s_con s))) eqn:EP; [|reflexivity]. cbn [andb].
  assert (Habs : forall k, lookup k kv = None -> mem k (c_required (s_con s)) = false).
  { intros k Hl. destruct (mem k (c_required (s_con s))) eqn:Em; [|reflexivity]. apply mem_In in Em. rewrite forallb_forall in EP. specialize (EP k Em). unfold present in EP. rewrite Hl in EP. discriminate. }
  { (* values *)
    rewrite (forallb_swap (fun ps x => valid fv ps x) (s_props s) kv Nprops Nkv).
    transitivity (forallb (fun np : str * (str * schema) => match lookup (fst (snd np)) kv with Some x => valid fv (snd (snd np)) x | None => true end) (prop_names idf (s_props s))).
    + unfold infos'. clear -HF Hfield Habs. induction HF as [|np i l1 l2 [ty [bp [Hgen ->]]] _ IH]; [reflexivity|]. destruct np as [fname [k p]]. cbn [map forallb fst snd] in *.
      pose proof (Hfield fname k p ty bp (or_introl eq_refl) Hgen) as Hf. destruct (lookup k kv) eqn:El; [rewrite Hf|rewrite (Hf (Habs k El))];
        (f_equal; apply IH; intros; apply (Hfield fname0 k0 p0 ty0 bp0); [right; assumption|assumption]).
    + unfold prop_names. set (sorted := sort_props (s_props s)). set (names := field_names (map (fun kp : str * schema => idf (fst kp)) sorted)).
      assert (Hlen : length names = length sorted) by (unfold names; rewrite field_names_length, map_length; reflexivity).
      transitivity (forallb (fun kp : str * schema => match lookup (fst kp) kv with Some x => valid fv (snd kp) x | None => true end) sorted).
      * clearbody names. clearbody sorted. clear -Hlen. revert names Hlen. induction sorted as [|kp r IH]; intros [|n ns] Hlen; try discriminate; try reflexivity.
        cbn [combine forallb fst snd]. f_equal. apply IH. inversion Hlen; reflexivity.
      * apply forallb_same_members. intros x. unfold sorted. apply sort_props_In. }
Qed.
End Level.

(* ---------- the field-level hypothesis discharged for string properties: objects of constrained strings, end to end ---------- *)
Section StringObjects.
Variable idf : str -> str.
Variable cf : cfg.
Variable defs : list (str * schema).
Variable fmt_ok : fmtk -> str -> bool.
Variable env : list (str * gty).
Variable sdefs : list (str * schema).
Notation gen := (Gen.gen idf cf defs).
Notation dec := (Exec.dec fmt_ok env).
Notation valid := (Valid.valid fmt_ok sdefs).

Definition str_leaf (p : schema) : Prop :=
  exists c, p = Sch c [] None false None [] [] /\ c_types c = [SString] /\ c_ref c = None /\ c_enum c = None /\ c_default c = None /\ c_format c = None.

Lemma gen_str_leaf f self sc p : str_leaf p -> gen (S f) MInline self false p sc = Done (TString, c_bounds (s_con p)).
Proof.
  intros (c & -> & Ht & Hr & He & _ & Hf). cbn [Gen.gen s_con s_any_of s_all_of]. rewrite He, Hr, Ht. unfold determine_type. rewrite Ht. cbn.
  unfold primitive. rewrite Hf. reflexivity.
Qed.

Definition ascii_value (x : json) : Prop := x <> JNull /\ forall s, x = JStr s -> utf8_len s = length s.

Lemma spec_string_none s : spec_string 0 0 None s = true.
Proof. reflexivity. Qed.

Lemma valid_str_leaf fv p x : str_leaf p -> valid (S fv) p x =
  match x with JStr s => spec_string (c_min_len (s_con p)) (c_max_len (s_con p)) (c_pattern (s_con p)) s | _ => false end.
Proof.
  intros (c & -> & Ht & Hr & He & _ & Hf). cbn [Valid.valid s_con s_all_of s_any_of]. rewrite Hr, Ht, He, Hf. cbn [type_ok existsb forallb].
  destruct x; cbn [type_matches orb andb]; try reflexivity. unfold spec_string. rewrite !andb_true_r. reflexivity.
Qed.

Lemma str_field_present fd fv c self fname k p b kv x :
  str_leaf p -> fname <> [] -> lookup k kv = Some x -> ascii_value x ->
  field_ok (dec (S (S fd))) zero (default_val env dv_fuel) kv (pair_of (make_field defs c self fname k p TString b)) = valid (S fv) p x.
Proof.
  intros Hleaf Hn Hl [Hnull Hascii]. rewrite (valid_str_leaf fv p x Hleaf).
  destruct Hleaf as (pc & -> & Ht & Hr & He & Hd & Hf). unfold make_field, pair_of. cbn [s_con]. rewrite Hd.
  assert (Hsingle : forall v, get_plain fname (GSt [(fname, v)]) = Some v).
  { intros v. destruct fname as [|c0 n0]; [contradiction|]. cbn [get_plain lookup]. rewrite str_eqb_refl. reflexivity. }
  destruct (mem k (c_required c)).
  - (* required: a string field *)
    unfold field_ok. cbn [fst snd f_json f_ty f_name]. rewrite Hl. destruct x; try contradiction; cbn [Exec.dec]; try reflexivity.
    cbn [field_validators]. destruct (has_string_kw pc) eqn:Ek.
    + unfold value_checks. cbn [forallb]. rewrite (vstring_value (default_val env dv_fuel) None _ fname k _ _ _ s (Hsingle _)), andb_true_r.
      unfold spec_string_bytes, spec_string. rewrite (Hascii s eq_refl). destruct (len_ok _ _ _ && _); reflexivity.
    + cbn [value_checks forallb]. unfold has_string_kw in Ek. apply orb_false_iff in Ek. destruct Ek as [Ek Epat]. apply orb_false_iff in Ek. destruct Ek as [Emn Emx].
      apply negb_false_iff in Emn, Emx. apply Nat.eqb_eq in Emn, Emx. rewrite Emn, Emx. destruct (c_pattern pc); [discriminate|]. reflexivity.
  - (* optional: a pointer to string *)
    cbn [nillable_ty]. unfold field_ok. cbn [fst snd f_json f_ty f_name]. rewrite Hl. destruct x; try contradiction; cbn [Exec.dec obind]; try reflexivity.
    cbn [field_validators]. destruct (has_string_kw pc) eqn:Ek.
    + unfold value_checks. cbn [forallb]. rewrite (vstring_pointer (default_val env dv_fuel) None _ fname k _ _ _ s (Hsingle _)), andb_true_r.
      unfold spec_string_bytes, spec_string. rewrite (Hascii s eq_refl). destruct (len_ok _ _ _ && _); reflexivity.
    + cbn [value_checks forallb]. unfold has_string_kw in Ek. apply orb_false_iff in Ek. destruct Ek as [Ek Epat]. apply orb_false_iff in Ek. destruct Ek as [Emn Emx].
      apply negb_false_iff in Emn, Emx. apply Nat.eqb_eq in Emn, Emx. rewrite Emn, Emx. destruct (c_pattern pc); [discriminate|]. reflexivity.
Qed.

Lemma str_field_absent fd c self fname k p b kv :
  str_leaf p -> fname <> [] -> lookup k kv = None -> mem k (c_required c) = false ->
  field_ok (dec fd) zero (default_val env dv_fuel) kv (pair_of (make_field defs c self fname k p TString b)) = true.
Proof.
  intros (pc & -> & Ht & Hr & He & Hd & Hf) Hn Hl Hm. unfold make_field, pair_of. cbn [s_con]. rewrite Hd, Hm. cbn [nillable_ty].
  unfold field_ok. cbn [fst snd f_json f_ty f_name]. rewrite Hl. cbn [zero field_validators].
  destruct (has_string_kw pc); [|reflexivity]. unfold value_checks. cbn [forallb].
  assert (Hs : get_plain fname (GSt [(fname, GNil)]) = Some GNil).
  { destruct fname as [|c0 n0]; [contradiction|]. cbn [get_plain lookup]. rewrite str_eqb_refl. reflexivity. }
  rewrite (vstring_nil (default_val env dv_fuel) None _ fname k _ _ _ Hs). reflexivity.
Qed.

(* an object whose properties are all constrained strings: accepted iff valid, for every document whose values are not null and whose strings are ASCII *)
Theorem string_object_exact f fd fv self sub s scope t b kv :
  g_only_models cf = false -> scope <> [] ->
  plain_object s -> c_types (s_con s) = [SObject] -> s_addl s = None -> s_addl_false s = false ->
  (forall k p, In (k, p) (s_props s) -> str_leaf p) ->
  NoDup (map fst (s_props s)) -> NoDup (map fst kv) ->
  incl (c_required (s_con s)) (map fst (s_props s)) ->
  NoDup (map fst (prop_names idf (s_props s))) -> (forall fname kp, In (fname, kp) (prop_names idf (s_props s)) -> fname <> []) ->
  (forall k x, In (k, x) kv -> ascii_value x) ->
  gen (S (S (S f))) MDeclared self sub s scope = Done (t, b) ->
  is_ok (dec (S (S (S fd))) t (JObj kv)) = valid (S (S fv)) s (JObj kv).
Proof.
  intros Hom Hsc Hp Hty Ha Haf Hleaf Np Nk Hreq Nn Hne Hascii Hg.
  apply (level_exact idf cf defs fmt_ok env sdefs (S f) (S (S fd)) (S fv) self sub s scope t b kv Hom Hsc Hp Hty Ha Haf); try assumption.
  - intros k p Hin. destruct (Hleaf k p Hin) as (c & -> & _ & _ & _ & Hd & _). exact Hd.
  - intros fname k p ty bp Hin Hgen.
    assert (Hinp : In (k, p) (s_props s)) by (unfold prop_names in Hin; apply in_combine_r in Hin; rewrite sort_props_In in Hin; exact Hin).
    pose proof (Hleaf k p Hinp) as Hl. rewrite (gen_str_leaf f self _ p Hl) in Hgen. inversion Hgen; subst ty bp.
    destruct (lookup k kv) as [x|] eqn:El.
    + apply str_field_present; [exact Hl|exact (Hne _ _ Hin)|exact El|exact (Hascii k x (lookup_In _ _ _ El))].
    + intros Hm. apply str_field_absent; [exact Hl|exact (Hne _ _ Hin)|exact El|exact Hm].
Qed.
End StringObjects.

(* non-vacuity: the hypotheses of string_object_exact hold of a concrete schema and document *)
Definition ex_leaf (mn mx : nat) (p : option pat) : schema :=
  Sch (mkC [SString] None None [] 0 0 mn mx p None (mkBounds None None None None) None None) [] None false None [] [].
Definition ex_schema : schema :=
  Sch (mkC [SObject] None None [[97]%N] 0 0 0 0 None None (mkBounds None None None None) None None)
      [([97]%N, ex_leaf 2 0 None); ([98]%N, ex_leaf 0 3 None)] None false None [] [].
Definition ex_doc : list (str * json) := [([97]%N, JStr [120; 121]%N); ([99]%N, JBool true)].

Example string_object_inhabited :
  exists t b, Gen.gen (fun s => s) (mkCfg false false) [] 3 MDeclared None false ex_schema [82]%N = Done (t, b) /\
    is_ok (Exec.dec (fun _ _ => true) [] 3 t (JObj ex_doc)) = Valid.valid (fun _ _ => true) [] 2 ex_schema (JObj ex_doc) /\
    Valid.valid (fun _ _ => true) [] 2 ex_schema (JObj ex_doc) = true.
Proof.
  eexists. eexists. split; [vm_compute; reflexivity|]. split; [|vm_compute; reflexivity].
  eapply (string_object_exact (fun s => s) (mkCfg false false) [] (fun _ _ => true) [] [] 0 0 0 None false ex_schema [82]%N _ _ ex_doc); try reflexivity.
  - discriminate.
  - repeat split; try reflexivity; discriminate.
  - intros k p [H|[H|[]]]; inversion H; subst; eexists; repeat split; reflexivity.
  - repeat constructor; cbn; intuition discriminate.
  - repeat constructor; cbn; intuition discriminate.
  - intros k [H|[]]. subst. left; reflexivity.
  - vm_compute. repeat constructor; cbn; intuition discriminate.
  - intros fname kp H. vm_compute in H. destruct H as [H|[H|[]]]; inversion H; subst; discriminate.
  - intros k x [H|[H|[]]]; inversion H; subst; (split; [discriminate|]); intros s0 E; inversion E; subst; reflexivity.
Qed.

(* ---------- integer and boolean properties, and objects mixing the three kinds ---------- *)
From GJS Require Import NumericP.

Section ScalarObjects.
Variable idf : str -> str.
Variable cf : cfg.
Variable defs : list (str * schema).
Variable fmt_ok : fmtk -> str -> bool.
Variable env : list (str * gty).
Variable sdefs : list (str * schema).
Hypothesis Hms : g_minsized cf = false.
Notation gen := (Gen.gen idf cf defs).
Notation dec := (Exec.dec fmt_ok env).
Notation valid := (Valid.valid fmt_ok sdefs).

Definition int_leaf (p : schema) : Prop :=
  exists c m, p = Sch c [] None false None [] [] /\ c_types c = [SInteger] /\ c_ref c = None /\ c_enum c = None /\ c_default c = None /\
    c_mult c = option_map inject_Z m /\ (forall z, m = Some z -> z <> 0%Z) /\ bounds_integral (c_bounds c).
Definition bool_leaf (p : schema) : Prop :=
  exists c, p = Sch c [] None false None [] [] /\ c_types c = [SBoolean] /\ c_ref c = None /\ c_enum c = None /\ c_default c = None.

Lemma gen_int_leaf f self sc p : int_leaf p -> gen (S f) MInline self false p sc = Done (TInt KInt, c_bounds (s_con p)).
Proof.
  intros (c & m & -> & Ht & Hr & He & _). cbn [Gen.gen s_con s_any_of s_all_of]. rewrite He, Hr, Ht. unfold determine_type. rewrite Ht. cbn.
  unfold primitive, primitive_int. rewrite Hms. reflexivity.
Qed.
Lemma gen_bool_leaf f self sc p : bool_leaf p -> gen (S f) MInline self false p sc = Done (TBool, c_bounds (s_con p)).
Proof.
  intros (c & -> & Ht & Hr & He & _). cbn [Gen.gen s_con s_any_of s_all_of]. rewrite He, Hr, Ht. unfold determine_type. rewrite Ht. cbn. reflexivity.
Qed.

(* integers in documents: written as integer literals, inside Go's int *)
Definition int_value (x : json) : Prop := x <> JNull /\ forall n, x = JNum n -> exists z, n = mkNum (inject_Z z) true /\ in_range KInt z = true.

Lemma Qis_int_inject z : Qis_int (inject_Z z) = true.
Proof. apply Qis_int_iff. exists z. reflexivity. Qed.
Lemma Qfloor_inject z : Qfloor_z (inject_Z z) = z.
Proof. unfold Qfloor_z, inject_Z. cbn. apply Z.div_1_r. Qed.

Lemma valid_int_leaf fv p x : int_leaf p -> valid (S fv) p x =
  match x with JNum n => Qis_int (nq n) && spec_numeric (c_mult (s_con p)) (c_bounds (s_con p)) (nq n) | _ => false end.
Proof.
  intros (c & m & -> & Ht & Hr & He & _). cbn [Valid.valid s_con s_all_of s_any_of]. rewrite Hr, Ht, He. cbn [type_ok existsb forallb].
  destruct x; cbn [type_matches orb andb]; try reflexivity. rewrite !andb_true_r, orb_false_r. reflexivity.
Qed.
Lemma valid_bool_leaf fv p x : bool_leaf p -> valid (S fv) p x = match x with JBool _ => true | _ => false end.
Proof.
  intros (c & -> & Ht & Hr & He & _). cbn [Valid.valid s_con s_all_of s_any_of]. rewrite Hr, Ht, He. cbn [type_ok existsb forallb].
  destruct x; cbn [type_matches orb andb]; reflexivity.
Qed.

Lemma no_bound_kw mult b x : has_bound_kw mult b = false -> spec_numeric mult b x = true.
Proof.
  unfold has_bound_kw. destruct mult; [discriminate|]. destruct b as [mn mx emn emx]. cbn [b_min b_max b_exmin b_exmax].
  destruct mn; [discriminate|]. destruct mx; [discriminate|]. destruct emn; [discriminate|]. destruct emx; [discriminate|]. intros _. reflexivity.
Qed.

Lemma int_field_present fd fv c self fname k p kv x :
  int_leaf p -> fname <> [] -> lookup k kv = Some x -> int_value x ->
  field_ok (dec (S (S fd))) zero (default_val env dv_fuel) kv (pair_of (make_field defs c self fname k p (TInt KInt) (c_bounds (s_con p)))) = valid (S fv) p x.
Proof.
  intros Hleaf Hn Hl [Hnull Hint]. rewrite (valid_int_leaf fv p x Hleaf).
  destruct Hleaf as (pc & m & -> & Ht & Hr & He & Hd & Hm & Hnz & Hbi). unfold make_field, pair_of. cbn [s_con]. rewrite Hd.
  assert (Hsingle : forall v, get_plain fname (GSt [(fname, v)]) = Some v).
  { intros v. destruct fname as [|c0 n0]; [contradiction|]. cbn [get_plain lookup]. rewrite str_eqb_refl. reflexivity. }
  assert (Hnum : forall z, accept_numeric true (c_mult pc) (c_bounds pc) (inject_Z z) = spec_numeric (c_mult pc) (c_bounds pc) (inject_Z z)).
  { intros z. rewrite Hm. apply numeric_int_exact; assumption. }
  destruct (mem k (c_required c)).
  - unfold field_ok. cbn [fst snd f_json f_ty f_name]. rewrite Hl. destruct x; try contradiction; cbn [Exec.dec]; try reflexivity.
    destruct (Hint n eq_refl) as [z [-> Hrange]]. cbn [nlit_int nq]. rewrite Qis_int_inject, Qfloor_inject, Hrange. cbn [andb].
    cbn [field_validators]. destruct (has_bound_kw (c_mult pc) (c_bounds pc)) eqn:Ek.
    + unfold value_checks. cbn [forallb]. rewrite (vnumeric_value (default_val env dv_fuel) None _ fname k true _ _ (GI z) (inject_Z z) (Hsingle _) eq_refl), andb_true_r, Hnum.
      destruct (spec_numeric _ _ _); reflexivity.
    + cbn [value_checks forallb]. rewrite (no_bound_kw _ _ _ Ek). reflexivity.
  - cbn [nillable_ty]. unfold field_ok. cbn [fst snd f_json f_ty f_name]. rewrite Hl. destruct x; try contradiction; cbn [Exec.dec obind]; try reflexivity.
    destruct (Hint n eq_refl) as [z [-> Hrange]]. cbn [nlit_int nq]. rewrite Qis_int_inject, Qfloor_inject, Hrange. cbn [andb obind].
    cbn [field_validators]. destruct (has_bound_kw (c_mult pc) (c_bounds pc)) eqn:Ek.
    + unfold value_checks. cbn [forallb]. rewrite (vnumeric_pointer (default_val env dv_fuel) None _ fname k true _ _ (GI z) (inject_Z z) (Hsingle _) eq_refl), andb_true_r, Hnum.
      destruct (spec_numeric _ _ _); reflexivity.
    + cbn [value_checks forallb]. rewrite (no_bound_kw _ _ _ Ek). reflexivity.
Qed.

Lemma int_field_absent fd c self fname k p kv :
  int_leaf p -> fname <> [] -> lookup k kv = None -> mem k (c_required c) = false ->
  field_ok (dec fd) zero (default_val env dv_fuel) kv (pair_of (make_field defs c self fname k p (TInt KInt) (c_bounds (s_con p)))) = true.
Proof.
  intros (pc & m & -> & Ht & Hr & He & Hd & _) Hn Hl Hm. unfold make_field, pair_of. cbn [s_con]. rewrite Hd, Hm. cbn [nillable_ty].
  unfold field_ok. cbn [fst snd f_json f_ty f_name]. rewrite Hl. cbn [zero field_validators].
  destruct (has_bound_kw (c_mult pc) (c_bounds pc)); [|reflexivity]. unfold value_checks. cbn [forallb].
  assert (Hs : get_plain fname (GSt [(fname, GNil)]) = Some GNil).
  { destruct fname as [|c0 n0]; [contradiction|]. cbn [get_plain lookup]. rewrite str_eqb_refl. reflexivity. }
  rewrite (vnumeric_nil (default_val env dv_fuel) None _ fname k _ _ _ Hs). reflexivity.
Qed.

Lemma bool_field fd fv c self fname k p b kv :
  bool_leaf p -> fname <> [] ->
  match lookup k kv with
  | Some x => x <> JNull -> field_ok (dec (S (S fd))) zero (default_val env dv_fuel) kv (pair_of (make_field defs c self fname k p TBool b)) = valid (S fv) p x
  | None => mem k (c_required c) = false -> field_ok (dec (S (S fd))) zero (default_val env dv_fuel) kv (pair_of (make_field defs c self fname k p TBool b)) = true
  end.
Proof.
  intros Hleaf Hn. destruct (lookup k kv) as [x|] eqn:Hl.
  - intros Hnull. rewrite (valid_bool_leaf fv p x Hleaf). destruct Hleaf as (pc & -> & Ht & Hr & He & Hd). unfold make_field, pair_of. cbn [s_con]. rewrite Hd.
    destruct (mem k (c_required c)); [|cbn [nillable_ty]]; unfold field_ok; cbn [fst snd f_json f_ty f_name]; rewrite Hl;
      destruct x; try contradiction; cbn [Exec.dec obind field_validators value_checks forallb]; reflexivity.
  - intros Hm. destruct Hleaf as (pc & -> & Ht & Hr & He & Hd). unfold make_field, pair_of. cbn [s_con]. rewrite Hd, Hm. cbn [nillable_ty].
    unfold field_ok. cbn [fst snd f_json f_ty f_name]. rewrite Hl. reflexivity.
Qed.
End ScalarObjects.

(* an object whose properties are constrained strings, integers (integral bounds, non-zero integral multipleOf) and booleans: the struct the
   generator declares accepts a JSON object iff it is valid under the schema - for every such schema, every required set, every document
   without nulls whose strings are ASCII and whose integers are integer literals inside Go's int *)
Theorem scalar_object_exact idf cf defs fmt_ok env sdefs f fd fv self sub s scope t b kv :
  g_minsized cf = false -> g_only_models cf = false -> scope <> [] ->
  plain_object s -> c_types (s_con s) = [SObject] -> s_addl s = None -> s_addl_false s = false ->
  (forall k p, In (k, p) (s_props s) -> str_leaf p \/ int_leaf p \/ bool_leaf p) ->
  NoDup (map fst (s_props s)) -> NoDup (map fst kv) ->
  incl (c_required (s_con s)) (map fst (s_props s)) ->
  NoDup (map fst (prop_names idf (s_props s))) -> (forall fname kp, In (fname, kp) (prop_names idf (s_props s)) -> fname <> []) ->
  (forall k p x, In (k, p) (s_props s) -> lookup k kv = Some x ->
     x <> JNull /\ (str_leaf p -> forall s0, x = JStr s0 -> utf8_len s0 = length s0) /\ (int_leaf p -> int_value x)) ->
  Gen.gen idf cf defs (S (S (S f))) MDeclared self sub s scope = Done (t, b) ->
  is_ok (Exec.dec fmt_ok env (S (S (S fd))) t (JObj kv)) = Valid.valid fmt_ok sdefs (S (S fv)) s (JObj kv).
Proof.
  intros Hms Hom Hsc Hp Hty Ha Haf Hleaf Np Nk Hreq Nn Hne Hval Hg.
  apply (level_exact idf cf defs fmt_ok env sdefs (S f) (S (S fd)) (S fv) self sub s scope t b kv Hom Hsc Hp Hty Ha Haf); try assumption.
  - intros k p Hin. destruct (Hleaf k p Hin) as [(c & -> & _ & _ & _ & Hd & _)|[(c & m & -> & _ & _ & _ & Hd & _)|(c & -> & _ & _ & _ & Hd)]]; exact Hd.
  - intros fname k p ty bp Hin Hgen.
    assert (Hinp : In (k, p) (s_props s)) by (unfold prop_names in Hin; apply in_combine_r in Hin; rewrite sort_props_In in Hin; exact Hin).
    pose proof (Hne _ _ Hin) as Hfn.
    destruct (Hleaf k p Hinp) as [Hl|[Hl|Hl]].
    + rewrite (gen_str_leaf idf cf defs f self _ p Hl) in Hgen. inversion Hgen; subst ty bp.
      destruct (lookup k kv) as [x|] eqn:El.
      * destruct (Hval k p x Hinp El) as [Hnn [Hs _]]. apply str_field_present; [exact Hl|exact Hfn|exact El|split; [exact Hnn|exact (Hs Hl)]].
      * intros Hm. apply str_field_absent; assumption.
    + rewrite (gen_int_leaf idf cf defs Hms f self _ p Hl) in Hgen. inversion Hgen; subst ty bp.
      destruct (lookup k kv) as [x|] eqn:El.
      * destruct (Hval k p x Hinp El) as [Hnn [_ Hi]]. apply int_field_present; [exact Hl|exact Hfn|exact El|exact (Hi Hl)].
      * intros Hm. apply int_field_absent; assumption.
    + rewrite (gen_bool_leaf idf cf defs f self _ p Hl) in Hgen. inversion Hgen; subst ty bp.
      pose proof (bool_field defs fmt_ok env sdefs fd fv (s_con s) self fname k p (c_bounds (s_con p)) kv Hl Hfn) as Hb.
      destruct (lookup k kv) as [x|] eqn:El.
      * destruct (Hval k p x Hinp El) as [Hnn _]. exact (Hb Hnn).
      * exact Hb.
Qed.
