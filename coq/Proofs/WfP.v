(* C19, totality: a generated Unmarshal method never panics.  The only partial operations of the
   templates are a dereference / index / call on a value of the wrong shape; [wf_ty] is the decidable
   condition "every validator names a field whose type has the shape it dereferences", and the theorem
   says that under it no document and no fuel leads to Crash.  [wf_ty] is evaluated on the type
   generated for every case of the correspondence run (RunCore.case_wf). *)
From GJS Require Import Base Bounds IntSize Regex Schema GoType Exec ExecP.

Section Wf.
Variable fmt_ok : fmtk -> str -> bool.
Variable env : list (str * gty).
Notation dec := (Exec.dec fmt_ok env).
Notation default_val := (Exec.default_val env).

(* ---------- shapes of Go values ---------- *)
Fixpoint vshape (t : gty) (v : gval) {struct t} : bool :=
  match t with
  | TString => match v with GS _ => true | _ => false end
  | TBool => match v with GB _ => true | _ => false end
  | TFloat => match v with GF _ => true | _ => false end
  | TInt _ => match v with GI _ => true | _ => false end
  | TIface | TNullT => match v with GNil | GJ _ => true | _ => false end
  | TFmt _ => match v with GFm _ => true | _ => false end
  | TPtr u => match v with GNil => true | GP x => vshape u x | _ => false end
  | TSlice _ e => match v with GNil => true | GL l => forallb (vshape e) l | _ => false end
  | TMap _ => match v with GNil | GM _ => true | _ => false end
  | TStruct _ fs _ =>
      match v with
      | GSt vs =>
          (fix go (fs : list field) (vs : list (str * gval)) : bool :=
             match fs, vs with
             | [], [] => true
             | mkField n _ _ ty _ _ :: fr, (k, x) :: vr => str_eqb n k && vshape ty x && go fr vr
             | _, _ => false
             end) fs vs
      | _ => false
      end
  | TNamed _ u _ => vshape u v
  | TEnum _ _ _ _ => true
  | TRef _ => true
  end.

Definition fields_shape : list field -> list (str * gval) -> bool :=
  fix go (fs : list field) (vs : list (str * gval)) : bool :=
    match fs, vs with
    | [], [] => true
    | mkField n _ _ ty _ _ :: fr, (k, x) :: vr => str_eqb n k && vshape ty x && go fr vr
    | _, _ => false
    end.

Lemma vshape_struct n fs p vs : vshape (TStruct n fs p) (GSt vs) = fields_shape fs vs.
Proof. reflexivity. Qed.

(* ---------- what a validator needs of the field it names ---------- *)
Fixpoint nest_null (d : nat) (t : gty) : bool :=
  match d with
  | O => match t with TNullT | TIface => true | _ => false end
  | S d' => match t with TSlice _ e => nest_null d' e | _ => false end
  end.
Fixpoint nest_slice (d : nat) (t : gty) : bool :=
  match d with
  | O => true
  | S d' => match t with TSlice _ e => nest_slice d' e | _ => false end
  end.

Definition v_ok (ft : str -> option gty) (v : validator) : bool :=
  match v with
  | VRequired _ => true
  | VAnyOf _ => true             (* its branch types are checked by [wf_ty] itself *)
  | VNullType fn _ d => match ft fn with Some t => nest_null d t | None => false end
  | VDefault fn _ ty dv =>
      match fn with
      | [] => false
      | _ => match ft fn, default_val dv_fuel ty dv with Some t, Some d => vshape t d | _, _ => false end
      end
  | VArray fn _ d _ _ => negb (Nat.eqb d 0) && match ft fn with Some t => nest_slice d t | None => false end
  | VString fn _ nl _ _ _ =>
      match ft fn with Some TString => negb nl | Some (TPtr TString) => nl | _ => false end
  | VNumeric fn _ nl _ _ _ =>
      match ft fn with
      | Some (TInt _) | Some TFloat => negb nl
      | Some (TPtr (TInt _)) | Some (TPtr TFloat) => nl
      | _ => false
      end
  end.

Definition ft_struct (fs : list field) (fn : str) : option gty :=
  match fn with
  | [] => None
  | _ => option_map f_ty (find (fun f => str_eqb fn (f_name f)) fs)
  end.
Definition ft_named (u : gty) (fn : str) : option gty := match fn with [] => Some u | _ => None end.

Fixpoint names_ok (fs : list field) : bool :=
  match fs with
  | [] => true
  | f :: r => negb (match f_name f with [] => true | _ => false end) && negb (mem (f_name f) (map f_name r)) && names_ok r
  end.

Definition addl_ok (fs : list field) (vs : list validator) : bool :=
  match find f_addl fs with
  | None => true
  | Some fa => (existsb v_before vs || existsb v_raw_after vs) && match f_ty fa with TIface => true | _ => false end
  end.

Fixpoint wf_ty (t : gty) : bool :=
  match t with
  | TPtr u | TSlice _ u | TMap u => wf_ty u
  | TStruct name fs plan =>
      (fix go (fs : list field) : bool := match fs with [] => true | mkField _ _ _ ty _ _ :: r => wf_ty ty && go r end) fs &&
      names_ok fs &&
      match name, plan with
      | _ :: _, Some vs =>
          forallb (v_ok (ft_struct fs)) vs && addl_ok fs vs &&
          (* the branch types of an anyOf validator are decoded by the method: they are well formed themselves *)
          (fix gov (vs : list validator) : bool :=
             match vs with
             | [] => true
             | VAnyOf bs :: r => (fix gob (bs : list gty) : bool := match bs with [] => true | b :: r' => wf_ty b && gob r' end) bs && gov r
             | _ :: r => gov r
             end) vs
      | _, _ => true
      end
  | TNamed _ u plan =>
      wf_ty u && match plan with Some vs => forallb (v_ok (ft_named u)) vs && negb (existsb (fun v => match v with VAnyOf _ => true | _ => false end) vs) | None => true end
  | TEnum _ c _ _ => wf_ty c
  | TRef d => match lookup d env with Some _ => true | None => false end
  | _ => true
  end.

Definition fields_wf : list field -> bool :=
  fix go (fs : list field) : bool := match fs with [] => true | mkField _ _ _ ty _ _ :: r => wf_ty ty && go r end.

Lemma fields_wf_In fs fl : fields_wf fs = true -> In fl fs -> wf_ty (f_ty fl) = true.
Proof.
  induction fs as [|[n j o ty d a] r IH]; cbn; [tauto|]. intros H [Hf|Hin].
  - subst. apply andb_true_iff in H. tauto.
  - apply andb_true_iff in H. destruct H. auto.
Qed.

Definition branches_wf : list validator -> bool :=
  fix gov (vs : list validator) : bool :=
    match vs with
    | [] => true
    | VAnyOf bs :: r => (fix gob (bs : list gty) : bool := match bs with [] => true | b :: r' => wf_ty b && gob r' end) bs && gov r
    | _ :: r => gov r
    end.

Lemma branches_wf_In vs : branches_wf vs = true -> forall bs bt, In (VAnyOf bs) vs -> In bt bs -> wf_ty bt = true.
Proof.
  induction vs as [|v r IH]; intros H bs bt Hin Hbt; [contradiction|].
  destruct Hin as [->|Hin].
  - cbn [branches_wf] in H. apply andb_true_iff in H. destruct H as [H _]. clear IH.
    induction bs as [|b0 br IHb]; [contradiction|]. apply andb_true_iff in H. destruct H as [H1 H2].
    destruct Hbt as [->|Hbt]; [exact H1|exact (IHb H2 Hbt)].
  - apply (IH) with (bs := bs); [|exact Hin|exact Hbt]. destruct v; cbn [branches_wf] in H; try exact H.
    apply andb_true_iff in H. tauto.
Qed.

Definition env_wf : Prop := forall d u, lookup d env = Some u -> wf_ty u = true.

(* ---------- zero values have the shape of their type ---------- *)
Lemma zero_shape : forall t, vshape t (zero t) = true.
Proof.
  fix IH 1. intros t. destruct t; cbn [zero vshape]; try reflexivity.
  - (* struct *)
    induction fs as [|[n j o ty d a] r IHr]; [reflexivity|].
    cbn. rewrite str_eqb_refl, (IH ty). cbn. exact IHr.
  - apply IH.
Qed.

(* ---------- validators do not crash on shaped values ---------- *)
Lemma fold_no_crash {A} (f : A -> outcome unit) (l : list A) :
  (forall x, In x l -> f x <> Crash) -> forall o, o <> Crash -> fold_left (fun acc x => obind acc (fun _ => f x)) l o <> Crash.
Proof.
  induction l as [|y r IH]; intros H o Ho; cbn [fold_left]; [exact Ho|].
  apply IH; [intros x Hx; apply H; right; exact Hx|].
  destruct o; cbn; try congruence. apply H. left; reflexivity.
Qed.

Lemma fold_after_err dvf raw vs : fold_left (fun acc v => obind acc (fun st => after_step dvf raw st v)) vs Err = Err.
Proof. induction vs as [|v r IH]; cbn; auto. Qed.
Lemma fold_after_nofuel dvf raw vs : fold_left (fun acc v => obind acc (fun st => after_step dvf raw st v)) vs NoFuel = NoFuel.
Proof. induction vs as [|v r IH]; cbn; auto. Qed.

Lemma check_null_safe d : forall t x, nest_null d t = true -> vshape t x = true -> check_null d x <> Crash.
Proof.
  induction d as [|d IH]; intros t x Hn Hs.
  - destruct t; try discriminate; destruct x; cbn in *; congruence.
  - destruct t; try discriminate. cbn in Hn. destruct x; cbn in Hs; try discriminate; cbn [check_null]; try congruence.
    apply fold_no_crash; [|congruence]. intros y Hy. apply (IH t y Hn). rewrite forallb_forall in Hs. apply Hs; exact Hy.
Qed.

Lemma check_array_safe d : forall t x mn mx, d <> 0 -> nest_slice d t = true -> vshape t x = true -> check_array d mn mx x <> Crash.
Proof.
  induction d as [|d IH]; intros t x mn mx Hd Hn Hs; [contradiction|].
  destruct t; try discriminate. cbn in Hn. destruct x; cbn in Hs; try discriminate.
  - destruct d; cbn; congruence.
  - destruct d as [|d'].
    + cbn [check_array]. destruct (negb (Nat.eqb mn 0) && Nat.ltb (length l) mn); [congruence|]. destruct (negb (Nat.eqb mx 0) && Nat.ltb mx (length l)); congruence.
    + rewrite check_array_SS. apply fold_no_crash; [|congruence]. intros y Hy. apply (IH t y mn mx); [discriminate|exact Hn|].
      rewrite forallb_forall in Hs. apply Hs; exact Hy.
Qed.

Lemma check_string_safe mn mx p s : check_string mn mx p s <> Crash.
Proof. rewrite check_string_bytes. destruct (spec_string_bytes mn mx p s); congruence. Qed.

(* ---------- struct states ---------- *)
Lemma fields_shape_lookup fs : forall vs fn t, fields_shape fs vs = true -> names_ok fs = true -> ft_struct fs fn = Some t ->
  exists x, get_plain fn (GSt vs) = Some x /\ vshape t x = true.
Proof.
  induction fs as [|[n j o ty d a] r IH]; intros vs fn t Hs Hn Hf.
  - unfold ft_struct in Hf. destruct fn; discriminate.
  - destruct vs as [|[k x] vr]; [discriminate|]. cbn [fields_shape] in Hs.
    apply andb_true_iff in Hs. destruct Hs as [Hs Hr]. apply andb_true_iff in Hs. destruct Hs as [Hk Hx].
    apply str_eqb_eq in Hk. subst k.
    unfold ft_struct in Hf. destruct fn as [|c fn']; [discriminate|]. cbn [find f_name] in Hf.
    cbn [get_plain lookup].
    destruct (str_eqb (c :: fn') n) eqn:E.
    + cbn in Hf. inversion Hf; subst. exists x. split; [reflexivity|exact Hx].
    + cbn [names_ok] in Hn. apply andb_true_iff in Hn. destruct Hn as [_ Hn'].
      destruct (IH vr (c :: fn') t Hr Hn') as (y & Hy & Hys); [unfold ft_struct; exact Hf|].
      exists y. split; [exact Hy|exact Hys].
Qed.

Lemma fields_shape_set fs : forall vs fn t d, fields_shape fs vs = true -> names_ok fs = true -> ft_struct fs fn = Some t -> vshape t d = true ->
  fields_shape fs (set_field fn d vs) = true.
Proof.
  induction fs as [|[n j o ty dd a] r IH]; intros vs fn t d Hs Hn Hf Hd.
  - unfold ft_struct in Hf. destruct fn; discriminate.
  - destruct vs as [|[k x] vr]; [discriminate|]. cbn [fields_shape] in Hs.
    apply andb_true_iff in Hs. destruct Hs as [Hs Hr]. apply andb_true_iff in Hs. destruct Hs as [Hk Hx].
    apply str_eqb_eq in Hk. subst k.
    unfold ft_struct in Hf. destruct fn as [|c fn']; [discriminate|]. cbn [find f_name] in Hf.
    cbn [set_field]. destruct (str_eqb (c :: fn') n) eqn:E.
    + cbn in Hf. inversion Hf; subst. cbn [fields_shape]. rewrite str_eqb_refl, Hd, Hr. reflexivity.
    + cbn [fields_shape]. rewrite str_eqb_refl, Hx. cbn [andb].
      cbn [names_ok] in Hn. apply andb_true_iff in Hn. destruct Hn as [_ Hn'].
      apply (IH vr (c :: fn') t d Hr Hn'); [unfold ft_struct; exact Hf|exact Hd].
Qed.

(* ---------- one after-validator: no crash, and the state keeps its shape ---------- *)
Definition st_inv (T : gty) (st : gval) : Prop := vshape T st = true.

Lemma after_step_struct_safe name fs plan raw st v :
  names_ok fs = true -> raw <> None -> v_ok (ft_struct fs) v = true -> vshape (TStruct name fs plan) st = true ->
  after_step (default_val dv_fuel) raw st v <> Crash /\
  forall st', after_step (default_val dv_fuel) raw st v = Ok st' -> vshape (TStruct name fs plan) st' = true.
Proof.
  intros Hn Hraw Hv Hs. destruct st as [| | | | | | | | |vs|]; try discriminate. rewrite vshape_struct in Hs.
  destruct v; cbn [v_ok] in Hv; try discriminate.
  - cbn. split; [congruence|intros st' H; inversion H; subst; first [exact Hs | rewrite vshape_struct; exact Hs]].
  - (* null type *)
    destruct (ft_struct fs fname) as [t|] eqn:Ef; [|discriminate].
    destruct (fields_shape_lookup fs vs fname t Hs Hn Ef) as (x & Hx & Hxs).
    cbn [after_step]. rewrite Hx. pose proof (check_null_safe depth t x Hv Hxs) as Hc.
    destruct (check_null depth x); cbn; split; try congruence. intros st' H; inversion H; subst. first [exact Hs | rewrite vshape_struct; exact Hs].
  - (* default *)
    destruct fname as [|c fn']; [discriminate|].
    destruct (ft_struct fs (c :: fn')) as [t|] eqn:Ef; [|discriminate].
    destruct (default_val dv_fuel ty dv) as [d|] eqn:Ed; [|discriminate].
    destruct (fields_shape_lookup fs vs (c :: fn') t Hs Hn Ef) as (x & Hx & Hxs).
    cbn [after_step]. destruct raw as [r|]; [|congruence]. rewrite Ed.
    destruct (match r with None => true | Some kv => match lookup jname kv with None | Some JNull => true | _ => false end end).
    + cbn [set_plain]. cbn [get_plain] in Hx. rewrite Hx. split; [congruence|].
      intros st' H; inversion H; subst. first [eapply fields_shape_set; eauto | rewrite vshape_struct; eapply fields_shape_set; eauto].
    + split; [congruence|]. intros st' H; inversion H; subst. first [exact Hs | rewrite vshape_struct; exact Hs].
  - (* array *)
    apply andb_true_iff in Hv. destruct Hv as [Hd Hv]. apply negb_true_iff, Nat.eqb_neq in Hd.
    destruct (ft_struct fs fname) as [t|] eqn:Ef; [|discriminate].
    destruct (fields_shape_lookup fs vs fname t Hs Hn Ef) as (x & Hx & Hxs).
    cbn [after_step]. rewrite Hx. pose proof (check_array_safe depth t x mn mx Hd Hv Hxs) as Hc.
    destruct (check_array depth mn mx x); cbn; split; try congruence. intros st' H; inversion H; subst. first [exact Hs | rewrite vshape_struct; exact Hs].
  - (* string *)
    destruct (ft_struct fs fname) as [t|] eqn:Ef; [|discriminate].
    destruct (fields_shape_lookup fs vs fname t Hs Hn Ef) as (x & Hx & Hxs).
    cbn [after_step]. rewrite Hx.
    destruct t; try discriminate.
    + apply negb_true_iff in Hv. subst nillable. destruct x; try discriminate.
      pose proof (check_string_safe mn mx pattern s) as Hc. destruct (check_string mn mx pattern s); cbn; split; try congruence; try (intros st' H; inversion H; reflexivity).
      intros st' H; inversion H; subst. first [exact Hs | rewrite vshape_struct; exact Hs].
    + destruct t; try discriminate. subst nillable. destruct x; try discriminate.
      * split; [congruence|]. intros st' H; inversion H; subst. first [exact Hs | rewrite vshape_struct; exact Hs].
      * cbn in Hxs. destruct x; try discriminate.
        pose proof (check_string_safe mn mx pattern s) as Hc. destruct (check_string mn mx pattern s); cbn; split; try congruence; try (intros st' H; inversion H; reflexivity).
        intros st' H; inversion H; subst. first [exact Hs | rewrite vshape_struct; exact Hs].
  - (* numeric *)
    destruct (ft_struct fs fname) as [t|] eqn:Ef; [|discriminate].
    destruct (fields_shape_lookup fs vs fname t Hs Hn Ef) as (x & Hx & Hxs).
    cbn [after_step]. rewrite Hx.
    destruct t; try discriminate.
    + apply negb_true_iff in Hv. subst nillable. destruct x; try discriminate. cbn.
      destruct (accept_numeric _ _ _ _); split; try congruence; intros st' H; inversion H; subst; first [exact Hs | rewrite vshape_struct; exact Hs].
    + apply negb_true_iff in Hv. subst nillable. destruct x; try discriminate. cbn.
      destruct (accept_numeric _ _ _ _); split; try congruence; intros st' H; inversion H; subst; first [exact Hs | rewrite vshape_struct; exact Hs].
    + destruct t; try discriminate; subst nillable; destruct x; try discriminate;
        try (split; [congruence|]; intros st' H; inversion H; subst; first [exact Hs | rewrite vshape_struct; exact Hs]);
        cbn in Hxs; destruct x; try discriminate; cbn;
        destruct (accept_numeric _ _ _ _); split; try congruence; intros st' H; inversion H; subst; first [exact Hs | rewrite vshape_struct; exact Hs].
  - (* anyOf: a before-validator *)
    cbn. split; [congruence|intros st' H; inversion H; subst; first [exact Hs | rewrite vshape_struct; exact Hs]].
Qed.

Lemma after_step_named_safe u raw st v :
  v_ok (ft_named u) v = true -> vshape u st = true ->
  after_step (default_val dv_fuel) raw st v <> Crash /\
  forall st', after_step (default_val dv_fuel) raw st v = Ok st' -> st' = st.
Proof.
  intros Hv Hs. destruct v; cbn [v_ok] in Hv; try discriminate.
  - cbn. split; [congruence|intros st' H; inversion H; reflexivity].
  - destruct fname as [|c fn]; [|discriminate]. cbn [ft_named] in Hv. cbn [after_step get_plain].
    pose proof (check_null_safe depth u st Hv Hs) as Hc.
    destruct (check_null depth st); cbn; split; try congruence; try (intros st' H; inversion H; reflexivity).
  - destruct fname; discriminate.
  - apply andb_true_iff in Hv. destruct Hv as [Hd Hv]. apply negb_true_iff, Nat.eqb_neq in Hd.
    destruct fname as [|c fn]; [|discriminate]. cbn [ft_named] in Hv. cbn [after_step get_plain].
    pose proof (check_array_safe depth u st mn mx Hd Hv Hs) as Hc.
    destruct (check_array depth mn mx st); cbn; split; try congruence; try (intros st' H; inversion H; reflexivity).
  - destruct fname as [|c fn]; [|discriminate]. cbn [ft_named] in Hv. cbn [after_step get_plain].
    destruct u; try discriminate.
    + apply negb_true_iff in Hv. subst nillable. destruct st; try discriminate.
      pose proof (check_string_safe mn mx pattern s) as Hc. destruct (check_string mn mx pattern s); cbn; split; try congruence; try (intros st' H; inversion H; reflexivity).
    + destruct u; try discriminate. subst nillable. destruct st; try discriminate.
      * split; [congruence|]. intros st' H; inversion H; reflexivity.
      * cbn in Hs. destruct st; try discriminate.
        pose proof (check_string_safe mn mx pattern s) as Hc. destruct (check_string mn mx pattern s); cbn; split; try congruence; try (intros st' H; inversion H; reflexivity).
  - destruct fname as [|c fn]; [|discriminate]. cbn [ft_named] in Hv. cbn [after_step get_plain].
    destruct u; try discriminate.
    + apply negb_true_iff in Hv. subst nillable. destruct st; try discriminate. cbn.
      destruct (accept_numeric _ _ _ _); split; try congruence; try (intros st' H; inversion H; reflexivity).
    + apply negb_true_iff in Hv. subst nillable. destruct st; try discriminate. cbn.
      destruct (accept_numeric _ _ _ _); split; try congruence; try (intros st' H; inversion H; reflexivity).
    + destruct u; try discriminate; subst nillable; destruct st; try discriminate;
        try (split; [congruence|]; intros st' H; inversion H; reflexivity);
        cbn in Hs; destruct st; try discriminate; cbn;
        destruct (accept_numeric _ _ _ _); split; try congruence; try (intros st' H; inversion H; reflexivity).
  - cbn. split; [congruence|intros st' H; inversion H; reflexivity].
Qed.

(* ---------- the after-validators as a whole ---------- *)
Lemma run_after_struct_safe name fs plan raw vs : forall st,
  names_ok fs = true -> raw <> None -> forallb (v_ok (ft_struct fs)) vs = true -> vshape (TStruct name fs plan) st = true ->
  run_after (default_val dv_fuel) vs raw st <> Crash /\
  forall st', run_after (default_val dv_fuel) vs raw st = Ok st' -> vshape (TStruct name fs plan) st' = true.
Proof.
  unfold run_after. induction vs as [|v r IH]; intros st Hn Hraw Hv Hs; cbn [fold_left].
  - split; [congruence|]. intros st' H; inversion H; subst; exact Hs.
  - cbn [forallb] in Hv. apply andb_true_iff in Hv. destruct Hv as [Hv1 Hvr]. cbn [obind].
    destruct (after_step_struct_safe name fs plan raw st v Hn Hraw Hv1 Hs) as [Hc Hk].
    destruct (after_step (default_val dv_fuel) raw st v) as [st1| | |] eqn:E; try congruence.
    + apply IH; auto.
    + rewrite (fold_after_err (default_val dv_fuel) raw r). split; [congruence|discriminate].
    + rewrite (fold_after_nofuel (default_val dv_fuel) raw r). split; [congruence|discriminate].
Qed.

Lemma run_after_named_safe u raw vs : forall st,
  forallb (v_ok (ft_named u)) vs = true -> vshape u st = true ->
  run_after (default_val dv_fuel) vs raw st <> Crash /\
  forall st', run_after (default_val dv_fuel) vs raw st = Ok st' -> st' = st.
Proof.
  unfold run_after. induction vs as [|v r IH]; intros st Hv Hs; cbn [fold_left].
  - split; [congruence|]. intros st' H; inversion H; reflexivity.
  - cbn [forallb] in Hv. apply andb_true_iff in Hv. destruct Hv as [Hv1 Hvr]. cbn [obind].
    destruct (after_step_named_safe u raw st v Hv1 Hs) as [Hc Hk].
    destruct (after_step (default_val dv_fuel) raw st v) as [st1| | |] eqn:E; try congruence.
    + rewrite (Hk st1 eq_refl). apply IH; auto.
    + rewrite (fold_after_err (default_val dv_fuel) raw r). split; [congruence|discriminate].
    + rewrite (fold_after_nofuel (default_val dv_fuel) raw r). split; [congruence|discriminate].
Qed.

(* ---------- the typed decode of the shadow struct ---------- *)
Definition dec_good (decf : gty -> json -> outcome gval) (t : gty) : Prop :=
  forall x, decf t x <> Crash /\ forall v, decf t x = Ok v -> vshape t v = true.

Lemma plain_fields_safe decf name fs plan j :
  (forall fl, In fl fs -> dec_good decf (f_ty fl)) ->
  plain_fields decf zero fs j <> Crash /\ forall st, plain_fields decf zero fs j = Ok st -> vshape (TStruct name fs plan) st = true.
Proof.
  intros Hg. destruct j; cbn [plain_fields]; try (split; [congruence|discriminate]).
  - (* null: the zero struct *)
    split; [congruence|]. intros st H. inversion H; subst. rewrite vshape_struct.
    clear. induction fs as [|[n jn o ty d a] r IH]; [reflexivity|]. cbn. rewrite str_eqb_refl, zero_shape. exact IH.
  - set (F := fun fl : field => if f_addl fl then Ok (f_name fl, zero (f_ty fl))
                               else match lookup (f_json fl) kv with
                                    | Some x => obind (decf (f_ty fl) x) (fun v => Ok (f_name fl, v))
                                    | None => Ok (f_name fl, zero (f_ty fl))
                                    end).
    assert (H : omap F fs <> Crash /\ forall vs, omap F fs = Ok vs -> fields_shape fs vs = true).
    { induction fs as [|[n jn o ty d a] r IH]; cbn [omap].
      - split; [congruence|]. intros vs H; inversion H; reflexivity.
      - assert (HF : F (mkField n jn o ty d a) <> Crash /\ forall p, F (mkField n jn o ty d a) = Ok p -> fst p = n /\ vshape ty (snd p) = true).
        { unfold F. cbn [f_addl f_name f_ty f_json]. destruct a.
          - split; [congruence|]. intros p H; inversion H; subst; cbn. split; [reflexivity|apply zero_shape].
          - destruct (lookup jn kv) as [x|].
            + destruct (Hg (mkField n jn o ty d false) (or_introl eq_refl) x) as [Hc Hs]. cbn [f_ty] in Hc, Hs.
              destruct (decf ty x) as [v| | |]; cbn; split; try congruence.
              intros p H; inversion H; subst; cbn. split; [reflexivity|apply Hs; reflexivity].
            + split; [congruence|]. intros p H; inversion H; subst; cbn. split; [reflexivity|apply zero_shape]. }
        destruct HF as [HFc HFs].
        destruct (IH (fun fl Hin => Hg fl (or_intror Hin))) as [IHc IHs].
        destruct (F (mkField n jn o ty d a)) as [p| | |]; cbn [obind]; try (split; [congruence|discriminate]).
        destruct (omap F r) as [vs| | |]; cbn [obind]; try (split; [congruence|discriminate]).
        split; [congruence|]. intros vs0 H; inversion H; subst. destruct p as [k x]. destruct (HFs (k, x) eq_refl) as [Hk Hx]. cbn in Hk, Hx. subst k.
        cbn [fields_shape]. rewrite str_eqb_refl, Hx, (IHs vs eq_refl). reflexivity. }
    destruct H as [Hc Hs]. fold F. destruct (omap F fs) as [vs| | |]; cbn [obind]; split; try congruence; try discriminate.
    intros st H; inversion H; subst. rewrite vshape_struct. apply Hs. reflexivity.
Qed.

(* ---------- before-validators: only `required`, which needs the raw map ---------- *)
Definition branches_safe (decf : gty -> json -> outcome gval) (vs : list validator) : Prop :=
  forall bs bt, In (VAnyOf bs) vs -> In bt bs -> forall x, decf bt x <> Crash.

Lemma anyof_no_crash decf raw j bs : (forall bt, In bt bs -> decf bt j <> Crash) -> before_step decf raw j (VAnyOf bs) <> Crash.
Proof.
  intros H. cbn [before_step].
  rewrite (existsb_map_false (fun bt => decf bt j) (fun r => match r with Crash => true | _ => false end)).
  2: { intros x Hx. pose proof (H x Hx). destruct (decf x j); try reflexivity. congruence. }
  destruct (existsb _ _); [congruence|]. destruct (existsb _ _); congruence.
Qed.

Lemma run_before_safe decf ft vs raw j :
  forallb (v_ok ft) vs = true -> branches_safe decf vs -> raw <> None -> run_before decf vs raw j <> Crash.
Proof.
  intros Hv Hbr Hraw. unfold run_before.
  assert (G : forall o : outcome unit, o <> Crash -> fold_left (fun acc v => obind acc (fun _ => before_step decf raw j v)) vs o <> Crash).
  { induction vs as [|v r IH]; intros o Ho; cbn [fold_left]; [exact Ho|].
    cbn [forallb] in Hv. apply andb_true_iff in Hv. destruct Hv as [Hv1 Hvr].
    apply IH; [exact Hvr|intros bs bt Hin; apply (Hbr bs bt); right; exact Hin|].
    destruct o; cbn [obind]; try congruence.
    destruct v; cbn [v_ok] in Hv1; try discriminate; try (cbn; congruence).
    - cbn. destruct raw as [[kv|]|]; try congruence. destruct (lookup jname kv); congruence.
    - apply anyof_no_crash. intros bt Hbt. apply (Hbr branches bt); [left; reflexivity|exact Hbt]. }
  apply G. congruence.
Qed.

Lemma run_before_no_raw decf ft vs j :
  forallb (v_ok ft) vs = true -> existsb v_before vs = false -> run_before decf vs None j <> Crash.
Proof.
  intros Hv Hb. unfold run_before.
  assert (G : forall o : outcome unit, o <> Crash -> fold_left (fun acc v => obind acc (fun _ => before_step decf None j v)) vs o <> Crash).
  { induction vs as [|v r IH]; intros o Ho; cbn [fold_left]; [exact Ho|].
    cbn [forallb] in Hv. apply andb_true_iff in Hv. destruct Hv as [Hv1 Hvr].
    cbn [existsb] in Hb. apply orb_false_iff in Hb. destruct Hb as [Hb1 Hbr]. apply IH; [exact Hvr|exact Hbr|].
    destruct o; cbn; try congruence.
    destruct v; cbn [v_ok] in Hv1; try discriminate; cbn in Hb1; try discriminate; cbn; congruence. }
  apply G. congruence.
Qed.

Lemma after_no_raw_ok ft vs : forallb (v_ok ft) vs = true -> existsb v_raw_after vs = false ->
  forall v, In v vs -> match v with VDefault _ _ _ _ | VNullType _ _ _ => False | _ => True end.
Proof.
  intros _ Hr v Hin. destruct v; try exact I.
  - assert (existsb v_raw_after vs = true) by (apply existsb_exists; eexists; split; [exact Hin|reflexivity]). congruence.
  - assert (existsb v_raw_after vs = true) by (apply existsb_exists; eexists; split; [exact Hin|reflexivity]). congruence.
Qed.

(* only `default` looks at the raw map among the after-validators *)
Lemma after_step_raw_irrelevant dvf raw raw' st v :
  match v with VDefault _ _ _ _ => False | _ => True end -> after_step dvf raw st v = after_step dvf raw' st v.
Proof. destruct v; try reflexivity. contradiction. Qed.

Lemma run_after_raw_irrelevant dvf raw raw' vs : forall st,
  (forall v, In v vs -> match v with VDefault _ _ _ _ => False | _ => True end) -> run_after dvf vs raw st = run_after dvf vs raw' st.
Proof.
  unfold run_after. intros st. generalize (Ok st : outcome gval). induction vs as [|v r IH]; intros o H; cbn [fold_left]; [reflexivity|].
  rewrite IH by (intros v' Hv'; apply H; right; exact Hv'). f_equal. destruct o; cbn; try reflexivity.
  apply after_step_raw_irrelevant. apply H. left; reflexivity.
Qed.

Lemma no_default_without_raw vs : existsb v_raw_after vs = false -> forall v, In v vs -> match v with VDefault _ _ _ _ => False | _ => True end.
Proof.
  intros Hr v Hin. destruct v; try exact I.
  assert (existsb v_raw_after vs = true) by (apply existsb_exists; eexists; split; [exact Hin|reflexivity]). congruence.
Qed.

Lemma ft_struct_self fs fa : names_ok fs = true -> In fa fs -> ft_struct fs (f_name fa) = Some (f_ty fa).
Proof.
  induction fs as [|f r IH]; intros Hn Hin; [contradiction|].
  cbn [names_ok] in Hn. apply andb_true_iff in Hn. destruct Hn as [Hn Hr]. apply andb_true_iff in Hn. destruct Hn as [Hne Hnm].
  destruct Hin as [->|Hin].
  - unfold ft_struct. destruct (f_name fa) as [|c n] eqn:E; [discriminate|]. cbn [find]. rewrite E, str_eqb_refl. reflexivity.
  - specialize (IH Hr Hin). unfold ft_struct in *. destruct (f_name fa) as [|c n] eqn:E; [discriminate|]. cbn [find].
    destruct (str_eqb (c :: n) (f_name f)) eqn:E2; [|exact IH].
    apply str_eqb_eq in E2. exfalso. apply negb_true_iff in Hnm.
    assert (Hm : mem (f_name f) (map f_name r) = true) by (apply mem_In; rewrite <- E2, <- E; apply (List.in_map f_name r fa Hin)). congruence.
Qed.

Lemma addl_block_safe name fs plan raw st :
  names_ok fs = true -> vshape (TStruct name fs plan) st = true ->
  (forall fa, find f_addl fs = Some fa -> raw <> None /\ f_ty fa = TIface) ->
  addl_block fs raw st <> Crash /\ forall st', addl_block fs raw st = Ok st' -> vshape (TStruct name fs plan) st' = true.
Proof.
  intros Hn Hs Ha. unfold addl_block. destruct (find f_addl fs) as [fa|] eqn:Ef.
  - destruct (Ha fa eq_refl) as [Hraw Hty]. destruct raw as [r|]; [|congruence]. rewrite Hty.
    destruct r as [kv|].
    + apply find_some in Ef. destruct Ef as [Hin _].
      destruct st as [| | | | | | | | |vs|]; try discriminate. rewrite vshape_struct in Hs.
      pose proof (ft_struct_self fs fa Hn Hin) as Hft. rewrite Hty in Hft.
      destruct (fields_shape_lookup fs vs (f_name fa) TIface Hs Hn Hft) as (x & Hx & _).
      destruct (f_name fa) as [|c n] eqn:E; [unfold ft_struct in Hft; discriminate|].
      cbn [set_plain]. cbn [get_plain] in Hx. rewrite Hx. split; [congruence|].
      intros st' H; inversion H; subst. rewrite vshape_struct. eapply fields_shape_set; eauto.
    + split; [congruence|]. intros st' H; inversion H; subst; exact Hs.
  - split; [congruence|]. intros st' H; inversion H; subst; exact Hs.
Qed.

(* ---------- the methods ---------- *)
Lemma obind_safe {A B} (o : outcome A) (g : A -> outcome B) :
  o <> Crash -> (forall a, o = Ok a -> g a <> Crash) -> obind o g <> Crash.
Proof. destruct o; cbn; intros H1 H2; try congruence. apply H2. reflexivity. Qed.

Lemma struct_method_safe decf c name fs vs j :
  names_ok fs = true -> forallb (v_ok (ft_struct fs)) vs = true -> addl_ok fs vs = true -> branches_safe decf vs ->
  (forall fl, In fl fs -> dec_good decf (f_ty fl)) ->
  run_method decf zero (default_val dv_fuel) (Some fs) (TStruct (c :: name) fs (Some vs)) vs j <> Crash /\
  forall st, run_method decf zero (default_val dv_fuel) (Some fs) (TStruct (c :: name) fs (Some vs)) vs j = Ok st ->
             vshape (TStruct (c :: name) fs (Some vs)) st = true.
Proof.
  intros Hn Hv Ha Hbr Hg. unfold run_method.
  destruct (existsb v_before vs || existsb v_raw_after vs) eqn:ER.
  - (* the raw map is decoded *)
    assert (Hcore : forall raw, raw <> None ->
       obind (run_before decf vs raw j) (fun _ => obind (plain_fields decf zero fs j) (fun st => obind (run_after (default_val dv_fuel) vs raw st) (fun st0 => addl_block fs raw st0))) <> Crash /\
       forall st, obind (run_before decf vs raw j) (fun _ => obind (plain_fields decf zero fs j) (fun st => obind (run_after (default_val dv_fuel) vs raw st) (fun st0 => addl_block fs raw st0))) = Ok st ->
                  vshape (TStruct (c :: name) fs (Some vs)) st = true).
    { intros raw Hraw.
      pose proof (run_before_safe decf (ft_struct fs) vs raw j Hv Hbr Hraw) as Hb.
      destruct (run_before decf vs raw j); cbn [obind]; try (split; [congruence|discriminate]).
      destruct (plain_fields_safe decf (c :: name) fs (Some vs) j Hg) as [Hpc Hps].
      destruct (plain_fields decf zero fs j) as [st| | |]; cbn [obind]; try (split; [congruence|discriminate]).
      destruct (run_after_struct_safe (c :: name) fs (Some vs) raw vs st Hn Hraw Hv (Hps st eq_refl)) as [Hac Has].
      destruct (run_after (default_val dv_fuel) vs raw st) as [st1| | |]; cbn [obind]; try (split; [congruence|discriminate]).
      apply addl_block_safe; [exact Hn|apply Has; reflexivity|].
      intros fa Hf. unfold addl_ok in Ha. rewrite Hf in Ha. apply andb_true_iff in Ha. destruct Ha as [_ Hty].
      split; [exact Hraw|]. destruct (f_ty fa); try discriminate. reflexivity. }
    destruct j; cbn [obind]; try (split; [congruence|discriminate]); apply Hcore; congruence.
  - (* no validator needs the raw map *)
    apply orb_false_iff in ER. destruct ER as [EB EA]. cbn [obind].
    pose proof (run_before_no_raw decf (ft_struct fs) vs j Hv EB) as Hb.
    destruct (run_before decf vs None j); cbn [obind]; try (split; [congruence|discriminate]).
    destruct (plain_fields_safe decf (c :: name) fs (Some vs) j Hg) as [Hpc Hps].
    destruct (plain_fields decf zero fs j) as [st| | |]; cbn [obind]; try (split; [congruence|discriminate]).
    rewrite (run_after_raw_irrelevant (default_val dv_fuel) None (Some None) vs st (no_default_without_raw vs EA)).
    assert (Hraw : Some (@None (list (str * json))) <> None) by congruence.
    destruct (run_after_struct_safe (c :: name) fs (Some vs) (Some None) vs st Hn Hraw Hv (Hps st eq_refl)) as [Hac Has].
    destruct (run_after (default_val dv_fuel) vs (Some None) st) as [st1| | |]; cbn [obind]; try (split; [congruence|discriminate]).
    apply addl_block_safe; [exact Hn|apply Has; reflexivity|].
    intros fa Hf. unfold addl_ok in Ha. rewrite Hf, EB, EA in Ha. discriminate.
Qed.

Lemma named_method_safe decf u vs j :
  forallb (v_ok (ft_named u)) vs = true -> branches_safe decf vs -> dec_good decf u ->
  run_method decf zero (default_val dv_fuel) None u vs j <> Crash /\
  forall st, run_method decf zero (default_val dv_fuel) None u vs j = Ok st -> vshape u st = true.
Proof.
  intros Hv Hbr Hg. unfold run_method.
  assert (Hcore : forall raw, run_before decf vs raw j <> Crash ->
     obind (run_before decf vs raw j) (fun _ => obind (decf u j) (fun st => obind (run_after (default_val dv_fuel) vs raw st) (fun st0 => Ok st0))) <> Crash /\
     forall st, obind (run_before decf vs raw j) (fun _ => obind (decf u j) (fun st => obind (run_after (default_val dv_fuel) vs raw st) (fun st0 => Ok st0))) = Ok st -> vshape u st = true).
  { intros raw Hb. destruct (run_before decf vs raw j); cbn [obind]; try (split; [congruence|discriminate]).
    destruct (Hg j) as [Hdc Hds].
    destruct (decf u j) as [st| | |]; cbn [obind]; try (split; [congruence|discriminate]).
    destruct (run_after_named_safe u raw vs st Hv (Hds st eq_refl)) as [Hac Has].
    destruct (run_after (default_val dv_fuel) vs raw st) as [st1| | |]; cbn [obind]; try (split; [congruence|discriminate]).
    split; [congruence|]. intros st2 H; inversion H; subst. rewrite (Has st2 eq_refl). apply Hds. reflexivity. }
  destruct (existsb v_before vs || existsb v_raw_after vs) eqn:ER.
  - destruct j; cbn [obind]; try (split; [congruence|discriminate]); apply Hcore; apply (run_before_safe decf (ft_named u)); try assumption; congruence.
  - apply orb_false_iff in ER. destruct ER as [EB EA]. cbn [obind]. apply Hcore. apply (run_before_no_raw decf (ft_named u)); assumption.
Qed.

Lemma omap_safe {A B} (g : A -> outcome B) (l : list A) : (forall x, In x l -> g x <> Crash) -> omap g l <> Crash.
Proof.
  induction l as [|x r IH]; intros H; cbn [omap]; [congruence|].
  apply obind_safe; [apply H; left; reflexivity|]. intros y _. apply obind_safe; [apply IH; intros z Hz; apply H; right; exact Hz|]. congruence.
Qed.

Lemma omap_shapes (g : json -> outcome gval) (P : gval -> bool) (l : list json) vs :
  (forall x v, In x l -> g x = Ok v -> P v = true) -> omap g l = Ok vs -> forallb P vs = true.
Proof.
  revert vs. induction l as [|x r IH]; intros vs H E; cbn [omap] in E.
  - inversion E; reflexivity.
  - destruct (g x) as [v| | |] eqn:Eg; cbn [obind] in E; try discriminate.
    destruct (omap g r) as [vr| | |] eqn:Er; cbn [obind] in E; try discriminate. inversion E; subst.
    cbn. rewrite (H x v (or_introl eq_refl) Eg). apply IH; [|reflexivity]. intros y w Hy. apply H. right; exact Hy.
Qed.

(* ---------- totality ---------- *)
Theorem dec_safe : env_wf -> forall f t, wf_ty t = true -> dec_good (dec f) t.
Proof.
  intros Henv. induction f as [|f IH]; intros t Hw x.
  - cbn. split; [congruence|discriminate].
  - destruct t; cbn [Exec.dec].
    + destruct x; split; try congruence; try discriminate; intros v H; inversion H; reflexivity.
    + destruct x; split; try congruence; try discriminate; intros v H; inversion H; reflexivity.
    + destruct x; split; try congruence; try discriminate; intros v H; inversion H; reflexivity.
    + destruct x; try (split; [congruence|]; try discriminate; intros v H; inversion H; reflexivity).
      destruct (nlit_int n && Qis_int (nq n) && in_range k (Qfloor_z (nq n))); split; try congruence; try discriminate.
      intros v H; inversion H; reflexivity.
    + destruct x; split; try congruence; intros v H; inversion H; reflexivity.
    + destruct x; split; try congruence; intros v H; inversion H; reflexivity.
    + destruct x; try (split; [congruence|]; try discriminate; intros v H; inversion H; reflexivity).
      destruct (fmt_ok f0 s); split; try congruence; try discriminate. intros v H; inversion H; reflexivity.
    + (* pointer *)
      cbn [wf_ty] in Hw. destruct (IH t Hw x) as [Hc Hs].
      destruct x; try (split; [congruence|]; intros v H; inversion H; reflexivity);
        (destruct (dec f t _) as [v0| | |] eqn:E; cbn [obind]; split; try congruence; try discriminate;
         intros v H; inversion H; subst; cbn; apply Hs; reflexivity).
    + (* slice *)
      cbn [wf_ty] in Hw. destruct x; try (split; [congruence|]; try discriminate; intros v H; inversion H; reflexivity).
      split.
      * apply obind_safe; [apply omap_safe; intros y _; apply (IH t Hw y)|]. congruence.
      * intros v H. destruct (omap (dec f t) l) as [vs| | |] eqn:E; cbn [obind] in H; try discriminate. inversion H; subst. cbn.
        apply (omap_shapes (dec f t) (vshape t) l vs); [|exact E]. intros y w _ Hy. apply (IH t Hw y). exact Hy.
    + (* map *)
      cbn [wf_ty] in Hw. destruct x; try (split; [congruence|]; try discriminate; intros v H; inversion H; reflexivity).
      split.
      * apply obind_safe; [|congruence]. apply omap_safe. intros p _. apply obind_safe; [apply (IH t Hw (snd p))|congruence].
      * intros v H. destruct (omap _ kv) as [m| | |]; cbn [obind] in H; try discriminate. inversion H; reflexivity.
    + (* struct *)
      cbn [wf_ty] in Hw. apply andb_true_iff in Hw. destruct Hw as [Hw Hplan]. apply andb_true_iff in Hw. destruct Hw as [Hfw Hn].
      assert (Hg : forall fl, In fl fs -> dec_good (dec f) (f_ty fl)).
      { intros fl Hin. apply IH. apply (fields_wf_In fs fl Hfw Hin). }
      destruct name as [|c name].
      * apply (plain_fields_safe (dec f) [] fs plan x Hg).
      * destruct plan as [vs|]; [|apply (plain_fields_safe (dec f) (c :: name) fs None x Hg)].
        apply andb_true_iff in Hplan. destruct Hplan as [Hplan Hbw]. apply andb_true_iff in Hplan. destruct Hplan as [Hv Ha].
        apply struct_method_safe; try assumption.
        intros bs bt Hin Hbt y. apply (IH bt (branches_wf_In vs Hbw bs bt Hin Hbt) y).
    + (* named *)
      cbn [wf_ty] in Hw. apply andb_true_iff in Hw. destruct Hw as [Hu Hplan].
      destruct plan as [vs|]; [|apply (IH t Hu x)].
      apply andb_true_iff in Hplan. destruct Hplan as [Hplan Hno].
      assert (Hbr : branches_safe (dec f) vs).
      { intros bs bt Hin _ y. exfalso. apply negb_true_iff in Hno.
        assert (existsb (fun v => match v with VAnyOf _ => true | _ => false end) vs = true) by (apply existsb_exists; exists (VAnyOf bs); split; [exact Hin|reflexivity]).
        congruence. }
      destruct (named_method_safe (dec f) t vs x Hplan Hbr (fun y => IH t Hu y)) as [H1 H2].
      split; [exact H1|]. intros v Hv. cbn [vshape]. apply H2. exact Hv.
    + (* enum *)
      cbn [wf_ty] in Hw. destruct (IH t Hw x) as [Hc Hs].
      destruct (dec f t x) as [v| | |]; cbn [obind]; try (split; [congruence|discriminate]).
      destruct (existsb (enum_eq t v) vals); split; try congruence; try discriminate. intros v0 _. reflexivity.
    + (* reference *)
      cbn [wf_ty] in Hw. destruct (lookup def env) as [u|] eqn:E; [|discriminate].
      destruct (IH u (Henv def u E) x) as [Hc Hs]. split; [exact Hc|]. intros v _. reflexivity.
Qed.

(* the statement of C19 (totality): no document, no fuel *)
Theorem dec_never_panics : env_wf -> forall f t j, wf_ty t = true -> dec f t j <> Crash.
Proof. intros Henv f t j Hw. apply (dec_safe Henv f t Hw j). Qed.
End Wf.
