(* Executable glue for the C14 correspondence. *)
From GJS Require Import Base Ident IdentP.

Record icase := mkI { i_idx : N; i_caps : N; i_s : str; i_out : str }.

Section Run.
Variable T : list crow.
Variable capsets : list (list str).
Let U := table_uinfo T.
Definition caps_of (n : N) : list str := nth (N.to_nat n) capsets [].

Definition i_agrees (c : icase) : bool := str_eqb (identifierize U (caps_of (i_caps c)) (i_s c)) (i_out c).
Definition i_mismatches (cs : list icase) : list N := map i_idx (filter (fun c => negb (i_agrees c)) cs).

(* inside the guard of C14_valid / C14_exported the implementation's own output must be a
   valid exported identifier *)
Definition i_in_guard (c : icase) : bool := forallb (good U) (i_s c).
Definition i_guard (cs : list icase) : list N := map i_idx (filter i_in_guard cs).
Definition i_oracle (cs : list icase) : list N :=
  map i_idx (filter (fun c => i_in_guard c && negb (go_ident U (i_out c) && exported U (i_out c))) cs).

Record fcase := mkF { f_idx : N; f_caps : N; f_exts : list str; f_file : str; f_out : str }.
Definition f_mismatches (cs : list fcase) : list N :=
  map f_idx (filter (fun c => negb (str_eqb (ident_from_file U (caps_of (f_caps c)) (f_exts c) (f_file c)) (f_out c))) cs).

(* sibling names: the generator's field names for a sorted property list *)
Record scase := mkSib { s_idx : N; s_caps : N; s_names : list str; s_fields : list str }.
Definition s_model (c : scase) : list str := field_names (map (identifierize U (caps_of (s_caps c))) (s_names c)).
Fixpoint strs_eqb (a b : list str) : bool :=
  match a, b with [], [] => true | x :: a', y :: b' => str_eqb x y && strs_eqb a' b' | _, _ => false end.
Definition s_mismatches (cs : list scase) : list N :=
  map s_idx (filter (fun c => negb (strs_eqb (s_model c) (s_fields c))) cs).
End Run.
