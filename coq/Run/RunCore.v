(* Executable glue for the correspondence of the value-level core (Gen + Exec) and the
   reference semantics (Valid) with generated programs. *)
From GJS Require Import Base Bounds IntSize Regex Schema GoType Render Ident Gen Exec Valid WfP.

(* the zero value of some Go type, whatever the type (the model's zero value of a referenced type is opaque: GNil) *)
Fixpoint is_zero_val (fuel : nat) (v : gval) {struct fuel} : bool :=
  match fuel with
  | O => false
  | S f =>
      match v with
      | GNil | GFm None => true
      | GS s => match s with [] => true | _ => false end
      | GB b => negb b
      | GI z => Z.eqb z 0
      | GF q => Qeq_bool q 0
      | GSt fs => forallb (fun p => is_zero_val f (snd p)) fs
      | _ => false
      end
  end.

(* comparison of Go values: structs and maps as finite maps; first argument = model, second = implementation *)
Fixpoint gval_eqb (fuel : nat) (a b : gval) {struct fuel} : bool :=
  match fuel with
  | O => false
  | S f =>
      match a, b with
      | GNil, GNil => true
      | GNil, GSt _ => is_zero_val f b          (* a struct left at its zero value, where the model has the opaque zero of a reference *)
      | GS x, GS y => str_eqb x y
      | GB x, GB y => Bool.eqb x y
      | GI x, GI y => Z.eqb x y
      | GF x, GF y => Qeq_bool x y
      | GFm None, GFm None => true
      | GFm (Some []), GFm None => true          (* an accepted empty text prints like the zero value *)
      | GFm (Some x), GFm (Some y) => str_eqb x y
      | GP x, GP y => gval_eqb f x y
      | GL x, GL y =>
          Nat.eqb (length x) (length y) && forallb (fun p => gval_eqb f (fst p) (snd p)) (combine x y)
      | GM x, GM y | GSt x, GSt y =>
          Nat.eqb (length x) (length y) &&
          forallb (fun p => match lookup (fst p) y with Some v => gval_eqb f (snd p) v | None => false end) x
      | GJ x, GJ y => json_eqb x y
      | _, _ => false
      end
  end.

(* what the implementation did with one document: 0 accepted (with the decoded value), 1 rejected, 2 panicked *)
Record dobs := mkD { d_idx : N; d_doc : json; d_verdict : N; d_val : option gval }.

Record ccase := mkCase {
  cc_minsized : bool; cc_only_models : bool;
  cc_caps : list str;
  cc_defs : list (str * schema);
  cc_root : schema;
  cc_root_name : str;
  cc_gen_ok : bool;                  (* did the real generator succeed *)
  cc_docs : list dobs
}.

Section Run.
Variable T : list crow.                      (* unicode rows for identifierize *)
Variable FT : list (fmtk * str).             (* strings the format parsers accept (observed) *)
Let U := table_uinfo T.
Definition fmt_tab (k : fmtk) (s : str) : bool := existsb (fun p => fmtk_eqb (fst p) k && str_eqb (snd p) s) FT.

Definition model_prog (c : ccase) : res program :=
  gen_file (identifierize U (cc_caps c)) (mkCfg (cc_minsized c) (cc_only_models c)) (cc_defs c) (cc_root c) (cc_root_name c).

(* mismatch codes: 1 verdict, 2 decoded value, 3 generator status, 4 model out of fuel, 5 unmodelled *)
Definition doc_mismatch (p : program) (rt : gty) (d : dobs) : list (N * N) :=
  match dec fmt_tab (p_defs p) exec_fuel rt (d_doc d) with
  | Ok v =>
      if negb (N.eqb (d_verdict d) 0) then [(d_idx d, 1%N)]
      else match d_val d with
           | Some w => if gval_eqb 100 v w then [] else [(d_idx d, 2%N)]
           | None => []
           end
  | Err => if N.eqb (d_verdict d) 1 then [] else [(d_idx d, 1%N)]
  | Crash => if N.eqb (d_verdict d) 2 then [] else [(d_idx d, 1%N)]
  | NoFuel => [(d_idx d, 4%N)]
  end.

Definition case_mismatches (c : ccase) : list (N * N) :=
  match model_prog c with
  | Done p =>
      if negb (cc_gen_ok c) then [(0%N, 3%N)]
      else match p_root p with
           | Some rt => flat_map (doc_mismatch p rt) (cc_docs c)
           | None => []
           end
  | GErr => if cc_gen_ok c then [(0%N, 3%N)] else []
  | GUnmod => [(0%N, 5%N)]
  | GFuel => [(0%N, 4%N)]
  end.

(* the reference verdicts, for the oracle step *)
Definition case_valid (c : ccase) : list (N * bool) :=
  map (fun d => (d_idx d, valid fmt_tab (cc_defs c) 100 (cc_root c) (d_doc d))) (cc_docs c).

(* the certificate of C19_total: is every type the model generates for the case well formed *)
Definition case_wf (c : ccase) : bool :=
  match model_prog c with
  | Done p =>
      forallb (fun d => wf_ty (p_defs p) (snd d)) (p_defs p) &&
      match p_root p with Some rt => wf_ty (p_defs p) rt | None => true end
  | _ => true
  end.
Definition all_not_wf (cs : list (N * ccase)) : list N := map fst (filter (fun ic => negb (case_wf (snd ic))) cs).

(* the static tie: the declarations of the whole program as canonical text (Model/Render.v) *)
Definition decl_name (idf : str -> str) (ds : list (str * gty)) (d : str) : str :=
  match lookup d ds with
  | Some (TStruct (c :: nm) _ _) => c :: nm
  | Some (TNamed nm _ _) => nm
  | Some (TEnum nm _ _ _) => nm
  | Some (TRef d') => idf d'
  | _ => idf d
  end.
Definition case_decls (c : ccase) : str :=
  match model_prog c with
  | Done p =>
      let idf := identifierize U (cc_caps c) in
      let rn := decl_name idf (p_defs p) in
      flat_map (fun l => l ++ [10]%N)
        (flat_map (fun d => decls rn (snd d)) (p_defs p) ++ match p_root p with Some rt => decls rn rt | None => [] end)
  | _ => []
  end.
Definition case_plans (c : ccase) : str :=
  match model_prog c with
  | Done p =>
      flat_map (fun l => l ++ [10]%N)
        (flat_map (fun d => plans (snd d)) (p_defs p) ++ match p_root p with Some rt => plans rt | None => [] end)
  | _ => []
  end.
Definition all_plans (cs : list (N * ccase)) : list (N * str) := map (fun ic => (fst ic, case_plans (snd ic))) cs.
Definition all_decls (cs : list (N * ccase)) : list (N * str) := map (fun ic => (fst ic, case_decls (snd ic))) cs.

Definition all_mismatches (cs : list (N * ccase)) : list (N * list (N * N)) :=
  flat_map (fun ic => match case_mismatches (snd ic) with [] => [] | l => [(fst ic, l)] end) cs.
Definition all_valid (cs : list (N * ccase)) : list (N * list (N * bool)) :=
  map (fun ic => (fst ic, case_valid (snd ic))) cs.
End Run.
