(* Executable glue for the C15 correspondence (direct family). *)
From GJS Require Import Base Bounds IntSize.
From GJS Require Export RunC05.

Definition oex_eqb (a b : option exb) : bool :=
  match a, b with
  | None, None => true
  | Some (ExBool x), Some (ExBool y) => Bool.eqb x y
  | Some (ExNum x), Some (ExNum y) => Qeq_bool x y
  | _, _ => false
  end.
Definition bounds_eqb (a b : bounds) : bool :=
  oq_eqb (b_min a) (b_min b) && oq_eqb (b_max a) (b_max b) &&
  oex_eqb (b_exmin a) (b_exmin b) && oex_eqb (b_exmax a) (b_exmax b).

(* index, arguments, and what PrimitiveTypeFromJSONSchemaType("integer", minSized=true) did:
   chosen kind and the four keyword values afterwards *)
Record pcase := mkP { p_idx : N; p_b : bounds; p_k : intk; p_after : bounds }.

Definition p_agrees (c : pcase) : bool :=
  let '(k, b') := primitive_int true (p_b c) in intk_eqb k (p_k c) && bounds_eqb b' (p_after c).

Definition type_limits : list Z :=
  [- 2 ^ 63; - 2 ^ 31; - 2 ^ 15; - 2 ^ 7; 0; 2 ^ 7 - 1; 2 ^ 8 - 1; 2 ^ 15 - 1; 2 ^ 16 - 1; 2 ^ 31 - 1; 2 ^ 32 - 1; 2 ^ 63 - 1]%Z.
Definition zprobes (b : bounds) : list Z :=
  flat_map (fun z => [z - 1; z; z + 1]%Z) (type_limits ++ map Qfloor_z (consts b)).

(* the property evaluated on the implementation's own result: flag-on acceptance (kind +
   remaining keywords) must equal flag-off acceptance on every probe within Go's int *)
Definition p_oracle_fail (c : pcase) : list Z :=
  filter (fun x => in_range KInt x &&
            negb (Bool.eqb (accept_int_field (p_k c) None (p_after c) x) (accept_flag false None (p_b c) x)))
         (zprobes (p_b c)).

Definition p_mismatches (cs : list pcase) : list N := map p_idx (filter (fun c => negb (p_agrees c)) cs).
Definition p_oracle (cs : list pcase) : list (N * Z) :=
  flat_map (fun c => match p_oracle_fail c with [] => [] | x :: _ => [(p_idx c, x)] end) cs.

(* end-to-end cases: one integer property, flag on or off, one document value; what the
   generated code did (accepted or not) *)
Record ecase := mkE { e_idx : N; e_flag : bool; e_mult : option Q; e_b : bounds; e_x : Z; e_acc : bool }.
Definition e_mismatches (cs : list ecase) : list N :=
  map e_idx (filter (fun c => negb (Bool.eqb (accept_flag (e_flag c) (e_mult c) (e_b c) (e_x c)) (e_acc c))) cs).
