(* Executable glue for the C05 correspondence: compares what the implementation returned
   with the model, and evaluates the property itself on the implementation's result. *)
From GJS Require Import Base Bounds.

Definition oq_eqb (a b : option Q) : bool :=
  match a, b with
  | None, None => true
  | Some x, Some y => Qeq_bool x y
  | _, _ => false
  end.

(* one direct case: index, arguments, and what mathutils.NormalizeBounds returned *)
Record ncase := mkN {
  n_idx : N; n_b : bounds;
  n_rmin : option Q; n_rmax : option Q; n_rexmin : bool; n_rexmax : bool }.

Definition n_agrees (c : ncase) : bool :=
  let '(mn, mx, emn, emx) := normalize_bounds (n_b c) in
  oq_eqb mn (n_rmin c) && oq_eqb mx (n_rmax c) &&
  (* the exclusivity flag is observable only together with a bound *)
  (match n_rmin c with Some _ => Bool.eqb emn (n_rexmin c) | None => true end) &&
  (match n_rmax c with Some _ => Bool.eqb emx (n_rexmax c) | None => true end).

(* probes around every stated constant *)
Definition consts (b : bounds) : list Q :=
  let o x := match x with Some q => [q] | None => [] end in
  let e x := match x with Some (ExNum q) => [q] | _ => [] end in
  o (b_min b) ++ o (b_max b) ++ e (b_exmin b) ++ e (b_exmax b).
Definition probes (b : bounds) : list Q :=
  0%Q :: flat_map (fun c => [Qminus c 1; Qminus c (1#2); c; Qplus c (1#2); Qplus c 1]) (consts b).

(* the property evaluated on the implementation's own result *)
Definition n_oracle_fail (c : ncase) : list Q :=
  filter (fun x =>
    negb (Bool.eqb (accept_upper (n_rmax c, n_rexmax c) x && accept_lower (n_rmin c, n_rexmin c) x)
                   (spec_bounds (n_b c) x)))
    (probes (n_b c)).

Definition n_mismatches (cs : list ncase) : list N :=
  map n_idx (filter (fun c => negb (n_agrees c)) cs).
Definition n_oracle (cs : list ncase) : list (N * Q) :=
  flat_map (fun c => match n_oracle_fail c with [] => [] | x :: _ => [(n_idx c, x)] end) cs.
