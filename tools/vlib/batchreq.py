"""Batch requests (for tools/regress_side.py) that run every document of a case through JSON and then through YAML."""
import json



def batch_cases(items):
    out = []
    for cid, schema, opts, docs in items:
        cfg = dict({"tags": ["json", "yaml", "mapstructure"], "mappings": [{"id": "", "root": "Root", "package": cid, "output": cid + "/gen.go"}]}, **opts)
        jobs = [{"t": "Root", "doc": json.dumps(d), "wire": "json", "prior": ""} for d in docs] + \
               [{"t": "Root", "doc": json.dumps(d), "wire": "yaml", "prior": ""} for d in docs]          # JSON text is YAML flow style, as in the C17 family
        out.append({"id": cid, "cfg": cfg, "files": {"s.json": json.dumps(schema)}, "argv": ["s.json"], "jobs": jobs})
    return out
