"""Running the real CLI binary (rebuilt from /repo's working tree) as a process: exit status, stdout, stderr, the files it
creates or modifies.  Every run has its own scratch directory; runs are executed in parallel."""
import concurrent.futures as cf
import hashlib
import os
import shutil
import subprocess


SYMLINK = "\x00symlink:"          # a file value SYMLINK + target makes the entry a symbolic link (to a file or a directory)


def _write(root, files):
    for name, content in files.items():
        p = os.path.join(root, name)
        os.makedirs(os.path.dirname(p), exist_ok=True)
        if isinstance(content, str) and content.startswith(SYMLINK):
            os.symlink(content[len(SYMLINK):], p)
            continue
        mode = "wb" if isinstance(content, bytes) else "w"
        with open(p, mode) as f:
            f.write(content)


def _dirs(root):
    out = set()
    for d, ds, _ in os.walk(root):
        for x in ds:
            out.add(os.path.relpath(os.path.join(d, x), root))
    return out


def _snapshot(root):
    out = {}
    for d, _, fs in os.walk(root):
        for f in fs:
            p = os.path.join(d, f)
            try:
                out[os.path.relpath(p, root)] = open(p, "rb").read()
            except OSError:
                out[os.path.relpath(p, root)] = b"<unreadable>"
    return out


class Run:
    def __init__(self, rid, files, argv, cwd=".", stdin=None, timeout=30, env=None):
        self.rid = rid
        self.files = files          # relative path -> str | bytes (written before the run)
        self.argv = argv
        self.cwd = cwd
        self.stdin = stdin
        self.timeout = timeout
        self.env = env
        # results
        self.status = None
        self.stdout = b""
        self.stderr = b""
        self.timed_out = False
        self.created = {}           # relative path -> bytes, files that did not exist before
        self.modified = {}          # relative path -> bytes, files whose content changed
        self.created_dirs = []      # directories that did not exist before
        self.root = None

    @property
    def panicked(self):
        return self.status == 2 and (b"panic:" in self.stderr or b"goroutine " in self.stderr) or b"panic:" in self.stderr

    def describe(self):
        return {"argv": self.argv, "cwd": self.cwd, "files": {k: (v if isinstance(v, str) else v.decode("latin-1")) for k, v in self.files.items()},
                "status": self.status, "stdout": self.stdout.decode("utf-8", "replace")[:2000], "stderr": self.stderr.decode("utf-8", "replace")[:2000],
                "created": sorted(self.created), "modified": sorted(self.modified), "created_dirs": self.created_dirs, "timed_out": self.timed_out}


def run_all(ctx, runs, workers=16, keep=False):
    cli = ctx.cli()
    base = os.path.join(ctx.scratch, "cli")
    os.makedirs(base, exist_ok=True)

    def one(r):
        root = os.path.join(base, r.rid)
        if os.path.isdir(root):
            shutil.rmtree(root)
        os.makedirs(root)
        _write(root, r.files)
        cwd = os.path.join(root, r.cwd)
        os.makedirs(cwd, exist_ok=True)
        before = _snapshot(root)
        dirs_before = _dirs(root)
        env = dict(os.environ)
        env.update(r.env or {})
        try:
            p = subprocess.run([cli] + r.argv, cwd=cwd, input=r.stdin, capture_output=True, timeout=r.timeout, env=env)
            r.status, r.stdout, r.stderr = p.returncode, p.stdout, p.stderr
        except subprocess.TimeoutExpired as e:
            r.timed_out = True
            r.status = -1
            r.stdout, r.stderr = e.stdout or b"", e.stderr or b""
        after = _snapshot(root)
        for k, v in after.items():
            if k not in before:
                r.created[k] = v
            elif before[k] != v:
                r.modified[k] = v
        r.created_dirs = sorted(_dirs(root) - dirs_before)
        r.root = root
        if not keep:
            shutil.rmtree(root, ignore_errors=True)
        return r

    with cf.ThreadPoolExecutor(max_workers=workers) as ex:
        list(ex.map(one, runs))
    return runs


def sha(b):
    return hashlib.sha256(b).hexdigest()[:16]
