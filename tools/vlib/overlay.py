"""The 'overlay' family: allOf / anyOf groups in which two members describe the SAME property, each contributing half of its keywords (one states
`maxItems`, the other `minItems`; one declares the nested properties, the other names some of them in `required`; ...), and the first member is a
definition that is also used on its own.  The group means the conjunction of what its members say about the property (Spec/Valid.valid); the
definition on its own keeps exactly its own half.  The Coq model does not generate for overlapping members (Merge.merge2 answers None), so the
correspondence step reports these cases as unmodelled; the oracle is the reference semantics alone."""
import copy
import json

from .kitchen import Case

HALVES = {
    # kind -> list of (first half (full leaf), second half (overlay), values: [(value, ok for first, ok for second)])
    "items": [
        ({"type": "array", "items": {"type": "string"}, "maxItems": 3}, {"minItems": 2}, [(["a"], True, False), (["a", "b"], True, True), (["a", "b", "c", "d"], False, True), ([], True, False)]),
        ({"type": "array", "items": {"type": "string"}, "minItems": 2}, {"maxItems": 3}, [(["a"], False, True), (["a", "b", "c"], True, True), (["a", "b", "c", "d"], True, False)]),
        ({"type": "array", "items": {"type": "integer"}}, {"type": "array", "minItems": 1, "maxItems": 2}, [([], True, False), ([1], True, True), ([1, 2, 3], True, False)]),
    ],
    "string": [
        ({"type": "string", "maxLength": 4}, {"minLength": 2}, [("a", True, False), ("ab", True, True), ("abcde", False, True), ("", True, False)]),
        ({"type": "string", "minLength": 2}, {"pattern": "^[a-z]+$"}, [("AB", True, False), ("ab", True, True), ("a", False, True)]),
        ({"type": "string", "pattern": "^a"}, {"type": "string", "maxLength": 2}, [("abc", True, False), ("ab", True, True), ("b", False, True)]),
    ],
    "bound": [
        ({"type": "integer", "maximum": 10}, {"minimum": 2}, [(1, True, False), (2, True, True), (11, False, True), (0, True, False)]),
        ({"type": "number", "minimum": 0.5}, {"maximum": 2.5}, [(3, True, False), (1.5, True, True), (0.25, False, True)]),
        ({"type": "integer", "minimum": 0}, {"type": "integer", "multipleOf": 3}, [(4, True, False), (6, True, True), (-3, False, True)]),
        ({"type": "number", "exclusiveMinimum": 0}, {"exclusiveMaximum": 1}, [(1, True, False), (0.5, True, True), (0, False, True)]),
    ],
    "required": [
        ({"type": "object", "properties": {"mode": {"type": "string"}, "level": {"type": "integer"}}}, {"type": "object", "required": ["mode"]},
         [({"level": 1}, True, False), ({"mode": "m"}, True, True), ({}, True, False)]),
        ({"type": "object", "properties": {"mode": {"type": "string"}, "level": {"type": "integer"}}, "required": ["level"]}, {"required": ["mode"]},
         [({"level": 1}, True, False), ({"mode": "m", "level": 2}, True, True), ({"mode": "m"}, False, True)]),
    ],
    # (evaluated by C12 for the order of the emitted list only: that the merge takes the union of the lists is the recorded finding C11-allof-enum-union)
    "enum": [
        ({"type": "string", "enum": ["red", "green", "blue"]}, {"enum": ["blue", "cyan", "green"]}, [("red", True, False), ("blue", True, True), ("cyan", False, True)]),
    ],
}
CLS = {"items": ("items", "items-valid"), "string": ("string", "string-valid"), "bound": ("bound", "number-valid"), "required": ("required", "valid"), "enum": ("enum", "enum-member")}


def overlay_cases(kind, prefix, combs=("allOf",)):
    bad_cls, ok_cls = CLS[kind]
    out = []
    n = 0
    for h1, h2, vals in HALVES[kind]:
        for comb in combs:
            for layout in ("ref-first", "ref-second", "inline", "two-refs"):
                if kind == "required" and layout in ("ref-first", "two-refs"):
                    continue          # recorded finding C04-overlay-nested-required-via-ref
                for names in (("plain", "strict"), ("z_plain", "a_strict")):
                    pl, st = names
                    over = {"type": "object", "properties": {"p": copy.deepcopy(h2)}}
                    base = {"type": "object", "properties": {"p": copy.deepcopy(h1), "other": {"type": "boolean"}}}
                    defs = {"Base": base}
                    if layout == "ref-first":
                        grp = [{"$ref": "#/$defs/Base"}, over]
                    elif layout == "ref-second":
                        grp = [over, {"$ref": "#/$defs/Base"}]
                    elif layout == "two-refs":
                        defs["Over"] = over
                        grp = [{"$ref": "#/$defs/Base"}, {"$ref": "#/$defs/Over"}]
                    else:
                        grp = [copy.deepcopy(base), over]
                    root = {"type": "object", "$defs": defs, "properties": {pl: {"$ref": "#/$defs/Base"}, st: {comb: grp}}}
                    docs = []
                    for v, ok1, ok2 in vals:
                        docs.append({"doc": {pl: {"p": v}}, "cls": ok_cls if ok1 else bad_cls, "path": (pl, "p")})
                        both = (ok1 and ok2) if comb == "allOf" else (ok1 or ok2)
                        docs.append({"doc": {st: {"p": v}}, "cls": ok_cls if both else bad_cls, "path": (st, "p")})
                    out.append(Case("%sov%d" % (prefix, n), root, docs, fam="overlay/%s/%s/%s" % (kind, comb, layout)))
                    n += 1
    return out


def describe():
    return ("overlay family: allOf groups whose members describe the same property with complementary keywords (%s), the first member being a definition that is also "
            "used on its own, in four layouts and both visiting orders" % ", ".join(sorted(HALVES)))


if __name__ == "__main__":
    for k in HALVES:
        print(k, len(overlay_cases(k, "x")))
        print(json.dumps(overlay_cases(k, "x")[0].schema))


SIBLING = {
    # kind -> (leaf with tight limits, leaf with wide limits, [(value, ok for tight, ok for wide)])
    "items": ({"type": "array", "items": {"type": "string"}, "minItems": 1, "maxItems": 2}, {"type": "array", "items": {"type": "string"}, "minItems": 1, "maxItems": 5},
              [(["a"], True, True), (["a", "b", "c"], False, True), (["a", "b", "c", "d", "e", "f"], False, False), ([], False, False)]),
    "string": ({"type": "string", "minLength": 1, "maxLength": 2}, {"type": "string", "minLength": 1, "maxLength": 5}, [("a", True, True), ("abc", False, True), ("abcdef", False, False), ("", False, False)]),
    "bound": ({"type": "integer", "minimum": 1, "maximum": 2}, {"type": "integer", "minimum": 1, "maximum": 5}, [(1, True, True), (3, False, True), (6, False, False), (0, False, False)]),
}


def sibling_group_cases(kind, prefix):
    """two allOf groups in one schema whose FIRST member is the same definition and whose second members declare a property the definition does not
    have, with different limits: each group enforces its own limits, and the definition on its own (which does not know the property) accepts any
    value there.  Judged by the expectation carried by each document."""
    bad_cls, ok_cls = CLS[kind]
    tight, wide, vals = SIBLING[kind]
    out = []
    n = 0
    for names in (("small", "wide", "plain"), ("z_small", "a_wide", "m_plain")):
        for first in ("ref", "inline"):
            base = {"type": "object", "properties": {"id": {"type": "string"}}}
            m0 = {"$ref": "#/$defs/Base"} if first == "ref" else copy.deepcopy(base)
            sm, wd, pl = names
            root = {"type": "object", "$defs": {"Base": base},
                    "properties": {sm: {"allOf": [copy.deepcopy(m0), {"type": "object", "properties": {"p": copy.deepcopy(tight)}}]},
                                   wd: {"allOf": [copy.deepcopy(m0), {"type": "object", "properties": {"p": copy.deepcopy(wide)}}]},
                                   pl: {"$ref": "#/$defs/Base"}}}
            docs = []
            for v, okt, okw in vals:
                docs.append({"doc": {sm: {"id": "i", "p": v}}, "cls": ok_cls if okt else bad_cls, "path": (sm, "p"), "expect": "ACC" if okt else "REJ"})
                docs.append({"doc": {wd: {"id": "i", "p": v}}, "cls": ok_cls if okw else bad_cls, "path": (wd, "p"), "expect": "ACC" if okw else "REJ"})
                docs.append({"doc": {pl: {"id": "i", "p": v}}, "cls": "valid", "path": (pl, "p"), "expect": "ACC"})
            out.append(Case("%ssg%d" % (prefix, n), root, docs, fam="sibling-groups/%s/%s-first" % (kind, first), no_model=True))
            n += 1
    return out
