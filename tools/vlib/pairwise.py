"""Pairwise keyword interplay: for every JSON type, every pair of keyword options that may sit on one schema node, a small
schema carrying both, placed at an optional, a required and a definition position.  The seeded changes that slipped through the
single-keyword families all needed two keywords (or a keyword and an annotation) on one node: default + constraint, enum + format,
limits + default, title/description + colliding names.  Every schema built here is inside the guards (the known-bad combinations
are listed in SKIP with the finding that covers them)."""
import copy
import itertools

OPTIONS = {
    "string": [
        ("minLength", {"minLength": 2}), ("maxLength", {"maxLength": 4}), ("pattern", {"pattern": "^[a-z]+$"}), ("pattern%", {"pattern": "^[0-9]+%$"}),
        ("default", {"default": "abc"}), ("title", {"title": "A Title"}), ("description", {"description": "some \"text\" with 100% `ticks`\nand a newline"}),
        ("enum", {"enum": ["ab", "abc", "abcd"]}), ("format-unknown", {"format": "hostname"}),
    ],
    "integer": [
        ("minimum", {"minimum": 1}), ("maximum", {"maximum": 9}), ("exclusiveMinimum", {"exclusiveMinimum": 0}), ("exclusiveMaximum", {"exclusiveMaximum": 10}),
        ("multipleOf", {"multipleOf": 3}), ("default", {"default": 6}), ("title", {"title": "Count"}), ("enum", {"enum": [3, 6, 9]}),
        ("format-int32", {"format": "int32"}), ("format-int64", {"format": "int64"}), ("format-datetime", {"format": "date-time"}), ("description", {"description": "a count"}),
    ],
    "number": [
        ("minimum", {"minimum": 0.5}), ("maximum", {"maximum": 9.5}), ("exclusiveMinimum", {"exclusiveMinimum": 0}), ("exclusiveMaximum", {"exclusiveMaximum": 10}),
        ("multipleOf", {"multipleOf": 1.5}), ("default", {"default": 4.5}), ("title", {"title": "Ratio"}), ("enum", {"enum": [1.5, 3, 4.5]}),
        ("format-float", {"format": "float"}), ("format-date", {"format": "date"}),
        ("maximum-big", {"maximum": 9007199254740991}), ("minimum-big", {"minimum": -9007199254740991}), ("maximum-13digits", {"maximum": 1234567890123.5}),
    ],
    "array": [
        ("minItems", {"minItems": 1}), ("maxItems", {"maxItems": 3}), ("default", {"default": None}), ("default-empty", {"default": []}), ("title", {"title": "List"}),
        ("nested", None), ("items-constrained", None), ("description", {"description": "a list"}),
    ],
    "boolean": [("default-true", {"default": True}), ("default-false", {"default": False}), ("title", {"title": "Flag"}), ("enum", {"enum": [True]}), ("format-time", {"format": "time"})],
}
# combinations outside the guards, with the finding / reason
SKIP = {
    ("number", "multipleOf", "definition"): "multipleOf on a named float definition does not compile (C01-multipleof-named-float)",
    ("array", "items-constrained"): "constraints of inline primitive items are not enforced (C07-inline-item-constraints)",
}
SKIP_PAIRS = {
    ("array", frozenset(["default", "nested"])): "a default for an array of arrays does not compile (C01-nested-array-default)",
}


def sized_enum(root):
    """a typed integer enum: under --min-sized-ints every member is rejected (finding C08-sized-carrier-enum)"""
    import json
    def walk(s):
        if isinstance(s, dict):
            if s.get("type") in ("integer", ["integer", "null"], ["null", "integer"]) and "enum" in s:
                return True
            return any(walk(v) for v in s.values())
        if isinstance(s, list):
            return any(walk(v) for v in s)
        return False
    return walk(root)


def node(ty, opts):
    s = {"type": ty}
    names = [n for n, _ in opts]
    if ty == "array":
        s["items"] = {"type": "integer"}
        if "nested" in names:
            s["items"] = {"type": "array", "items": {"type": "integer"}}
            for k in ("minItems", "maxItems"):
                for n, o in opts:
                    if o and k in o:
                        s["items"][k] = o[k]          # the same limits at every level (guard of C07)
    for n, o in opts:
        if o:
            s.update(copy.deepcopy(o))
    if ty == "array" and "default" in s and "default-empty" not in names:
        inner = [1, 2]
        s["default"] = [inner, inner] if "nested" in names else inner
    # make enum / default / bounds mutually consistent: the default must be valid under the node
    if s.get("pattern") == "^[0-9]+%$" and "default" in s:
        s["default"] = "50%"
    if "enum" in s and "default" in s:
        s["default"] = s["enum"][1 if len(s["enum"]) > 1 else 0]
    return s


def consistent(s):
    from .kitchen import Docs
    import random
    try:
        d = Docs({"type": "object"}, random.Random(1))
        d.valid(s)
    except ValueError:
        return False
    # sibling constraints of an enum are not enforced by the generator (findings C06-enum-sibling-constraints / C05-enum-sibling-constraints):
    # inside the guard every member satisfies them
    import re as _re
    for m in s.get("enum", []):
        if isinstance(m, str):
            if len(m) < s.get("minLength", 0) or len(m) > s.get("maxLength", 10 ** 6) or ("pattern" in s and not _re.search(s["pattern"].replace("$", "\\Z"), m)):
                return False
        elif isinstance(m, (int, float)) and not isinstance(m, bool):
            if ("minimum" in s and m < s["minimum"]) or ("maximum" in s and m > s["maximum"]):
                return False
            if "exclusiveMinimum" in s and not isinstance(s["exclusiveMinimum"], bool) and m <= s["exclusiveMinimum"]:
                return False
            if "exclusiveMaximum" in s and not isinstance(s["exclusiveMaximum"], bool) and m >= s["exclusiveMaximum"]:
                return False
            if "multipleOf" in s and (m / s["multipleOf"]) != int(m / s["multipleOf"]):
                return False
    if "default" in s and s["default"] is not None:
        v = s["default"]
        if "enum" in s and v not in s["enum"]:
            return False
        if isinstance(v, (int, float)) and not isinstance(v, bool):
            if "minimum" in s and v < s["minimum"]:
                return False
            if "maximum" in s and v > s["maximum"]:
                return False
            if "exclusiveMinimum" in s and not isinstance(s["exclusiveMinimum"], bool) and v <= s["exclusiveMinimum"]:
                return False
            if "exclusiveMaximum" in s and not isinstance(s["exclusiveMaximum"], bool) and v >= s["exclusiveMaximum"]:
                return False
            if "multipleOf" in s and (v / s["multipleOf"]) != int(v / s["multipleOf"]):
                return False
        if isinstance(v, str):
            if len(v) < s.get("minLength", 0) or len(v) > s.get("maxLength", 99):
                return False
        if isinstance(v, list):
            if len(v) < s.get("minItems", 0) or len(v) > s.get("maxItems", 99):
                return False
    return True


def pairwise(types=None, only=None):
    """[(tag, root schema)]; `only`: keep the pairs that contain one of these option names"""
    out = []
    for ty, opts in OPTIONS.items():
        if types and ty not in types:
            continue
        combos = [(a, b) for a, b in itertools.combinations(opts, 2)]
        if ty == "array":
            combos += list(itertools.combinations(opts, 3))      # few options: triples too
        for combo in combos:
            a, b = combo[0], combo[1]
            bases = [x[0].split("-")[0] for x in combo]
            if len(set(bases)) < len(bases):
                continue                              # two spellings of one keyword
            names = [x[0] for x in combo]
            if only and not any(n in only or n.split("-")[0] in only for n in names):
                continue
            if any(k for k in SKIP if len(k) == 2 and k[0] == ty and k[1] in names):
                continue
            if any(k[0] == ty and k[1] <= set(names) for k in SKIP_PAIRS):
                continue
            s = node(ty, list(combo))
            if not consistent(s):
                continue
            for pos in ("optional", "required", "definition"):
                if any(k for k in SKIP if len(k) == 3 and k[0] == ty and k[1] in names and k[2] == pos):
                    continue
                if pos == "definition" and ("default" in s or "enum" not in s and ty in ("array",)):
                    continue                          # a default on a definition is not a property default
                if pos == "optional":
                    root = {"type": "object", "properties": {"p": copy.deepcopy(s), "k": {"type": "string"}}}
                elif pos == "required":
                    root = {"type": "object", "properties": {"p": copy.deepcopy(s), "k": {"type": "string"}}, "required": ["p"]}
                else:
                    root = {"type": "object", "properties": {"p": {"$ref": "#/$defs/Leaf"}, "k": {"type": "string"}}, "$defs": {"Leaf": copy.deepcopy(s)}}
                out.append(("%s/%s/%s" % (ty, "+".join(names), pos), root))
    return out
