"""Equivalent re-spellings of a schema document (C13) and key shuffling (C12)."""
import copy
import json
import re


def shuffle_keys(v, rng):
    if isinstance(v, dict):
        ks = list(v)
        rng.shuffle(ks)
        return {k: shuffle_keys(v[k], rng) for k in ks}
    if isinstance(v, list):
        return [shuffle_keys(x, rng) for x in v]
    return v


def reverse_keys(v):
    if isinstance(v, dict):
        return {k: reverse_keys(v[k]) for k in reversed(list(v))}
    if isinstance(v, list):
        return [reverse_keys(x) for x in v]
    return v


SCHEMA_CHILD_MAPS = ("properties", "$defs", "definitions", "dependentSchemas", "patternProperties")
SCHEMA_CHILDREN = ("items", "additionalProperties", "not")
SCHEMA_LISTS = ("allOf", "anyOf", "oneOf")


def map_schema(s, f, root=True):
    """apply f to every schema node (post-order); f(node, is_root) -> node"""
    if isinstance(s, dict):
        d = {}
        for k, v in s.items():
            if k in SCHEMA_CHILD_MAPS and isinstance(v, dict):
                d[k] = {kk: map_schema(vv, f, False) for kk, vv in v.items()}
            elif k in SCHEMA_CHILDREN and isinstance(v, (dict, bool)):
                d[k] = map_schema(v, f, False)
            elif k in SCHEMA_LISTS and isinstance(v, list):
                d[k] = [map_schema(x, f, False) for x in v]
            else:
                d[k] = v
        return f(d, root)
    return f(s, root)


def respell(schema, legacy_id=False, legacy_defs=False, type_list=False, bool_schema=False, legacy_deps=False):
    def f(n, root):
        if n is True and not bool_schema:
            return {}
        if n == {} and bool_schema and not root:
            return True
        if not isinstance(n, dict):
            return n
        d = {}
        for k, v in n.items():
            if k in ("$id", "id"):
                d["id" if legacy_id else "$id"] = v
            elif k in ("$defs", "definitions"):
                d["definitions" if legacy_defs else "$defs"] = v
            elif k in ("dependentSchemas", "dependencies"):
                d["dependencies" if legacy_deps else "dependentSchemas"] = v
            elif k == "type":
                if isinstance(v, list) and len(v) == 1 and not type_list:
                    d[k] = v[0]
                elif isinstance(v, str) and type_list:
                    d[k] = [v]
                else:
                    d[k] = v
            elif k == "$ref" and isinstance(v, str):
                d[k] = re.sub(r"#/(\$defs|definitions)/", "#/definitions/" if legacy_defs else "#/$defs/", v)
            else:
                d[k] = v
        return d
    return map_schema(copy.deepcopy(schema), f)


# ---------------------------------------------------------------------------------- a small YAML emitter
def _scalar(v):
    if v is None:
        return "null"
    if v is True:
        return "true"
    if v is False:
        return "false"
    if isinstance(v, (int, float)):
        return json.dumps(v)
    return json.dumps(v, ensure_ascii=False)      # double-quoted strings are valid YAML


BARE = re.compile(r"^(0|[1-9][0-9]*|true|false|[0-9]+\.[0-9]*[1-9])$")


def to_yaml_flow(v):
    """YAML flow style that is NOT JSON: bare keys, single-quoted strings"""
    import re as _re
    if isinstance(v, dict):
        return "{" + ", ".join("%s: %s" % (k if _re.match(r"^[A-Za-z_$][A-Za-z0-9_$]*$", k) and k not in ("true", "false", "null", "yes", "no", "on", "off", "y", "n") else json.dumps(k, ensure_ascii=False),
                                          to_yaml_flow(x)) for k, x in v.items()) + "}"
    if isinstance(v, list):
        return "[" + ", ".join(to_yaml_flow(x) for x in v) + "]"
    if isinstance(v, str):
        if _re.match(r"^[ -~]*$", v) and "\\" not in v:
            return "'" + v.replace("'", "''") + "'"
        return json.dumps(v, ensure_ascii=False)
    return json.dumps(v)


def to_yaml(v, indent=0, flow=False, bare_keys=False):
    """bare_keys: keys that read as canonical YAML integers, floats or booleans are written unquoted (non-string mapping keys)"""
    if flow:
        return json.dumps(v)                        # JSON is YAML (flow style)
    pad = "  " * indent
    if isinstance(v, dict):
        if not v:
            return "{}"
        lines = []
        for k, x in v.items():
            key = k if (bare_keys and BARE.match(k)) else json.dumps(k, ensure_ascii=False)
            if isinstance(x, (dict, list)) and x:
                lines.append("%s%s:\n%s" % (pad, key, to_yaml(x, indent + 1, False, bare_keys)))
            else:
                lines.append("%s%s: %s" % (pad, key, to_yaml(x, indent + 1, False, bare_keys) if isinstance(x, (dict, list)) else _scalar(x)))
        return "\n".join(lines)
    if isinstance(v, list):
        if not v:
            return "[]"
        lines = []
        for x in v:
            if isinstance(x, (dict, list)) and x:
                sub = to_yaml(x, indent + 1, False, bare_keys)
                lines.append("%s- %s" % (pad, sub.lstrip()))
            else:
                lines.append("%s- %s" % (pad, to_yaml(x, indent + 1, False, bare_keys) if isinstance(x, (dict, list)) else _scalar(x)))
        return "\n".join(lines)
    return pad + _scalar(v)
