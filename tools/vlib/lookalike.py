"""The 'look-alike files' family: one root schema that refers to TWO different files which a careless identity could take for one - names equal
up to the last dot (x.v1 / x.v2, reached without extension), names that differ only in letter case, files carrying the same `$id`, and a file
named exactly like the reference next to one with the resolve extension appended.  Each file defines `T` differently; every reference gets the
definition of the file it names.  Judged by the expectation carried by each document (no model: cross-file loading is outside it)."""
import json

from .kitchen import Case

VARIANTS = [
    # (name, file 1, file 2, reference 1, reference 2, resolve extensions, same $id)
    ("equal-up-to-the-last-dot", "shapes.v1.json", "shapes.v2.json", "shapes.v1", "shapes.v2", [".json"], False),
    ("json-and-yaml-of-one-stem", "limits.json", "limits.yaml", "limits.json", "limits.yaml", [], False),
    ("differ-in-case-only", "Units.json", "units.json", "Units.json", "units.json", [], False),
    ("same-id", "engine.json", "wheels.json", "engine.json", "wheels.json", [], True),
    ("exact-name-next-to-name-with-extension", "customer", "customer.json", "customer", "customer.json", [".json"], False),
]
LEAVES = {
    "type": ({"type": "integer"}, {"type": "string"}, [(3, True, False), ("3", False, True), (True, False, False), ([3], False, False)]),
    "enum": ({"type": "string", "enum": ["mm", "m", "km"]}, {"type": "string", "enum": ["ms", "s", "min"]}, [("km", True, False), ("s", False, True), ("x", False, False)]),
    "bound": ({"type": "integer", "minimum": 1, "maximum": 5}, {"type": "integer", "minimum": 10, "maximum": 50}, [(3, True, False), (20, False, True), (7, False, False)]),
    "string": ({"type": "string", "minLength": 1, "maxLength": 2}, {"type": "string", "minLength": 4, "maxLength": 6}, [("ab", True, False), ("abcde", False, True), ("abc", False, False)]),
}


def lookalike_cases(prefix, kind):
    l1, l2, vals = LEAVES[kind]
    out = []
    for vi, (name, f1, f2, r1, r2, rext, same_id) in enumerate(VARIANTS):
        d1 = {"description": "first", "$defs": {"T": l1}}
        d2 = {"description": "second", "$defs": {"T": l2}}
        if same_id:
            d1["$id"] = d2["$id"] = "http://x/part"
        root = {"$id": "http://x/main", "type": "object",
                "properties": {"a": {"$ref": r1 + "#/$defs/T"}, "b": {"$ref": r2 + "#/$defs/T"}, "la": {"type": "array", "items": {"$ref": r1 + "#/$defs/T"}}}}
        docs = []
        for v, ok1, ok2 in vals:
            docs.append({"doc": {"a": v}, "cls": kind, "path": ("a",), "expect": "ACC" if ok1 else "REJ"})
            docs.append({"doc": {"b": v}, "cls": kind, "path": ("b",), "expect": "ACC" if ok2 else "REJ"})
            docs.append({"doc": {"la": [v]}, "cls": kind, "path": ("la", 0), "expect": "ACC" if ok1 else "REJ"})
        render = (lambda d, f: json.dumps(d))
        for order in (0, 1):
            props = root["properties"]
            r = dict(root, properties=(props if order == 0 else {"b": props["b"], "a": props["a"], "la": props["la"]}))
            out.append(Case("%sla%d%d" % (prefix, vi, order), r, [dict(d) for d in docs], fam="look-alike-files/%s/%s" % (kind, name), no_model=True,
                            extra_files={f1: render(d1, f1), f2: render(d2, f2)}, resolve_ext=rext))
    return out


def lookalike_composites(prefix):
    """the same files as whole-file members of an allOf and of an anyOf (C11)"""
    out = []
    for vi, (name, f1, f2, r1, r2, rext, same_id) in enumerate(VARIANTS):
        e = {"type": "object", "properties": {"cylinders": {"type": "integer", "minimum": 1}}, "required": ["cylinders"]}
        w = {"type": "object", "properties": {"wheels": {"type": "integer", "minimum": 3}}, "required": ["wheels"]}
        if same_id:
            e["$id"] = w["$id"] = "http://x/part"
        root = {"$id": "http://x/main", "type": "object", "properties": {"spec": {"allOf": [{"$ref": r1}, {"$ref": r2}]}, "part": {"anyOf": [{"$ref": r1}, {"$ref": r2}]}}}
        docs = [{"doc": {"spec": {"cylinders": 4, "wheels": 4}}, "cls": "all-branches", "path": ("spec",), "expect": "ACC"},
                {"doc": {"spec": {"cylinders": 4}}, "cls": "branch-violated", "path": ("spec",), "expect": "REJ"},
                {"doc": {"spec": {"cylinders": 4, "wheels": 1}}, "cls": "branch-violated", "path": ("spec",), "expect": "REJ"},
                {"doc": {"spec": {"wheels": 4}}, "cls": "branch-violated", "path": ("spec",), "expect": "REJ"},
                {"doc": {"part": {"cylinders": 2}}, "cls": "all-branches", "path": ("part",), "expect": "ACC"},
                {"doc": {"part": {"wheels": 4}}, "cls": "all-branches", "path": ("part",), "expect": "ACC"},
                {"doc": {"part": {}}, "cls": "branch-violated", "path": ("part",), "expect": "REJ"},
                {"doc": {"part": {"wheels": 1}}, "cls": "branch-violated", "path": ("part",), "expect": "REJ"}]
        out.append(Case("%slc%d" % (prefix, vi), root, docs, fam="look-alike-files/composites/%s" % name, no_model=True,
                        extra_files={f1: json.dumps(e), f2: json.dumps(w)}, resolve_ext=rext))
    return out
