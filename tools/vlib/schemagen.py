"""Random and systematic schemas inside the guards of DESIGN.md section 6 ("guard mode"): every schema produced here is
one on which the properties are claimed to hold, so the oracle `verdict == valid` applies to every document."""
import itertools

from .kitchen import PATTERNS, PAT_SAMPLES, Docs

NAMES = ["alpha", "beta", "gamma", "delta", "count", "name", "kind", "size", "tags", "items", "meta", "opt1", "opt2", "valueX", "my_field",
         "with-dash", "camelCase", "n1", "zeta", "eta"]
DEFNAMES = ["Thing", "Label", "Amount", "Mode", "Node", "Pair", "Series", "Zed", "alpha_def", "BoxedValue"]


class SchemaGen:
    def __init__(self, rng, focus=None, depth=2, allow_refs=True, allow_formats=True, allow_defaults=True, allow_addl=True,
                 allow_enums=True, allow_arrays=True, allow_nullable=True):
        self.rng = rng
        self.focus = focus
        self.depth = depth
        self.allow_refs = allow_refs
        self.allow_formats = allow_formats
        self.allow_defaults = allow_defaults
        self.allow_addl = allow_addl
        self.allow_enums = allow_enums
        self.allow_arrays = allow_arrays
        self.allow_nullable = allow_nullable
        self.defs = {}

    # ---- leaves
    def string(self, constrained=None):
        rng = self.rng
        s = {"type": "string"}
        if constrained is None:
            constrained = rng.random() < 0.75
        if not constrained:
            return s
        for _ in range(20):
            s = {"type": "string"}
            mask = rng.randint(1, 7)
            if mask & 1:
                s["minLength"] = rng.choice([1, 2, 3, 5])
            if mask & 2:
                s["maxLength"] = rng.choice([1, 2, 3, 4, 6, 7]) if not mask & 1 else s["minLength"] + rng.choice([0, 1, 3])
            if mask & 4:
                s["pattern"] = rng.choice(sorted(PATTERNS))
            try:
                Docs({"type": "object"}, rng).valid(s)
                return s
            except ValueError:
                continue
        return {"type": "string", "minLength": 1}

    def numeric(self, integer, constrained=None):
        rng = self.rng
        s = {"type": "integer" if integer else "number"}
        if constrained is None:
            constrained = rng.random() < 0.8
        if not constrained:
            return s
        scale = 1 if integer else rng.choice([1, 0.5, 0.25])
        pal = [-100, -8, -3, -1, 0, 1, 2, 5, 7, 10, 16, 100, 255, 256, 1000]
        for _ in range(30):
            s = {"type": "integer" if integer else "number"}
            mask = rng.randint(1, 31)
            lo = rng.choice(pal) * scale
            hi = lo + rng.choice([0, 1, 2, 3, 6, 10, 50]) * scale
            if mask & 1:
                s["minimum"] = lo
            if mask & 2:
                s["maximum"] = hi
            if mask & 4:
                s["exclusiveMinimum"] = rng.choice([True, False]) if (mask & 1 and rng.random() < 0.5) else lo - rng.choice([0, 1, 2]) * scale
            if mask & 8:
                s["exclusiveMaximum"] = rng.choice([True, False]) if (mask & 2 and rng.random() < 0.5) else hi + rng.choice([0, 1, 2]) * scale
            if mask & 16:
                s["multipleOf"] = rng.choice([1, 2, 3, 5]) if integer else rng.choice([0.5, 0.25, 1, 2, 1.5])
            for k in list(s):
                if isinstance(s[k], float) and s[k] == int(s[k]) and integer:
                    s[k] = int(s[k])
            try:
                Docs({"type": "object"}, rng).valid(s)
                return s
            except ValueError:
                continue
        return {"type": "integer" if integer else "number", "minimum": 0}

    def enum(self):
        rng = self.rng
        k = rng.choice(["str-typed", "str-untyped", "int-typed", "num-typed", "bool-typed", "mixed", "with-null"])
        n = rng.choice([1, 2, 3, 5])
        if k == "str-typed":
            return {"type": "string", "enum": rng.sample(["red", "green", "blue", "dark red", "x", "Y2", "", "a-b"], n)}
        if k == "str-untyped":
            return {"enum": rng.sample(["on", "off", "auto", "n/a", "UP"], min(n, 5))}
        if k == "int-typed":
            return {"type": "integer", "enum": rng.sample([0, 1, 2, 3, 10, -1, 100], n)}
        if k == "num-typed":
            return {"type": "number", "enum": rng.sample([0.5, 1, 2.25, -1.5, 10], n)}
        if k == "bool-typed":
            return {"type": "boolean", "enum": [rng.choice([True, False])]}
        if k == "mixed":
            return {"enum": rng.sample(["a", 1, True, 2.5, "b"], max(n, 2))}
        return {"enum": ["a", None, 1][: max(n, 2)]}

    def fmt(self):
        return {"type": "string", "format": self.rng.choice(["date-time", "date", "time", "ipv4", "ipv6"])}

    def array(self, depth):
        rng = self.rng
        nest = rng.choice([1, 1, 2, 3])
        lim = {}
        m = rng.randint(0, 3)
        if m & 1:
            lim["minItems"] = rng.choice([1, 2, 3])
        if m & 2:
            lim["maxItems"] = lim.get("minItems", 0) + rng.choice([0, 1, 2]) if m & 1 else rng.choice([1, 2, 4])
            if lim["maxItems"] == 0:
                lim["maxItems"] = 1
        kinds = ["str", "int", "num", "bool"]
        if self.allow_enums:
            kinds.append("enum")
        if self.allow_refs and self.defs:
            kinds.append("ref")
        if depth > 0:
            kinds.append("obj")
        ik = rng.choice(kinds)
        if ik == "str":
            it = {"type": "string"}
        elif ik == "int":
            it = {"type": "integer"}
        elif ik == "num":
            it = {"type": "number"}
        elif ik == "bool":
            it = {"type": "boolean"}
        elif ik == "enum":
            it = self.enum()
        elif ik == "ref":
            it = {"$ref": "#/$defs/" + rng.choice(sorted(self.defs))}
        else:
            it = self.obj(depth - 1, small=True)
        s = it
        for _ in range(nest):
            s = dict({"type": "array", "items": s}, **lim)     # the same limits at every level (guard of C07)
        return s

    def obj(self, depth, small=False):
        rng = self.rng
        n = rng.randint(1, 2 if small else 4)
        names = rng.sample(NAMES, n)
        props, req = {}, []
        for k in names:
            ps, required = self.prop(depth)
            props[k] = ps
            if required:
                req.append(k)
        s = {"type": "object", "properties": props}
        if req:
            s["required"] = req
        if self.allow_addl and rng.random() < 0.2:
            s["additionalProperties"] = rng.choice([{"type": "string"}, {"type": "number"}, {"type": "boolean"}, False])
        return s

    def mapobj(self):
        rng = self.rng
        if self.allow_refs and self.defs and rng.random() < 0.4:
            return {"type": "object", "additionalProperties": {"$ref": "#/$defs/" + rng.choice(sorted(self.defs))}}
        return {"type": "object", "additionalProperties": rng.choice([{"type": "string"}, {"type": "number"}, {"type": "boolean"}, {"type": "integer"}])}

    # ---- a property: kind x position
    def prop(self, depth):
        rng = self.rng
        kinds = ["string", "integer", "number", "boolean"]
        w = [3, 3, 2, 1]
        if self.allow_enums:
            kinds.append("enum"); w.append(2)
        if self.allow_formats:
            kinds.append("format"); w.append(1)
        if self.allow_arrays:
            kinds.append("array"); w.append(2)
        if depth > 0:
            kinds += ["object", "map"]; w += [2, 1]
        if self.allow_refs and self.defs:
            kinds.append("ref"); w.append(2)
        kinds.append("untyped"); w.append(1)
        if self.focus:
            for i, k in enumerate(kinds):
                if k in self.focus:
                    w[i] *= 6
        k = rng.choices(kinds, w)[0]
        if k == "string":
            s = self.string()
        elif k == "integer":
            s = self.numeric(True)
        elif k == "number":
            s = self.numeric(False)
        elif k == "boolean":
            s = {"type": "boolean"}
        elif k == "enum":
            s = self.enum()
        elif k == "format":
            s = self.fmt()
        elif k == "array":
            s = self.array(depth)
        elif k == "object":
            s = self.obj(depth - 1, small=True)
        elif k == "map":
            s = self.mapobj()
        elif k == "ref":
            s = {"$ref": "#/$defs/" + rng.choice(sorted(self.defs))}
        else:
            s = {}
        pos = rng.choice(["required", "optional", "optional", "nullable", "default"])
        required = pos == "required"
        if pos == "nullable" and self.allow_nullable and k in ("string", "integer", "number", "boolean", "array"):     # not "format": D6
            s = dict(s)
            s["type"] = [s["type"], "null"]
            required = rng.random() < 0.4
        if pos == "default" and self.allow_defaults and k in ("string", "integer", "number", "boolean"):
            s = dict(s)
            try:
                dv = Docs({"type": "object"}, rng).valid(s)
            except ValueError:
                dv = None
            if dv is not None and dv != "" and dv is not False and dv != 0:
                s["default"] = dv
                required = rng.random() < 0.3
        return s, required

    def make_defs(self, n):
        rng = self.rng
        for name in rng.sample(DEFNAMES, n):
            k = rng.choice(["object", "string", "integer", "enum", "object"])
            if k == "object":
                self.defs[name] = self.obj(0, small=True)
            elif k == "string":
                self.defs[name] = self.string(constrained=True)
            elif k == "integer":
                self.defs[name] = self.numeric(True, constrained=True)
            else:
                e = self.enum()
                if "type" not in e:
                    e = {"type": "string", "enum": ["p", "q", "r"]}     # referenced enum definitions carry a type (D28)
                self.defs[name] = e

    def root(self):
        rng = self.rng
        self.defs = {}
        if self.allow_refs and rng.random() < 0.6:
            self.make_defs(rng.randint(1, 3))
        s = self.obj(self.depth)
        s.pop("additionalProperties", None)
        if self.allow_addl and rng.random() < 0.2:
            s["additionalProperties"] = rng.choice([{"type": "string"}, {"type": "number"}, False])
        if self.defs:
            s[rng.choice(["$defs", "definitions"])] = self.defs
        return s
