"""A wide schema generator for the search step (tools/vlib/regress.py): NOT restricted to the guards of DESIGN.md section 6.  It is
only used to look for schemas on which the code emitted by /repo's working tree differs from the code emitted by the recorded baseline
commit; what is reported is decided by the reference semantics per document, never by the difference itself.  The vocabulary is the one
the Coq side can express (kitchen.schema_term), with the boundary constants, special strings, name collisions and keyword combinations
that five rounds of seeded changes needed in order to manifest."""
from .kitchen import PATTERNS

NAMES = ["a", "b", "name", "id", "user_id", "userId", "UserID", "url", "html_url", "count", "size", "tags", "items", "list", "listElem", "value", "plain", "raw",
         "err", "j", "type", "kind", "x-y", "x_y", "xY", "with space", "a.b", "1st", "point", "checkpoint", "Content-Type", "ContentType", "additionalProperties",
         "mValue", "shape", "shapeElem", "ısı", "ſerial", "été", "日本", "-", "n", "m", "l", "o", "s", "cpu%", "100%d", "id2", "email", "phone"]
DEFNAMES = ["Thing", "thing", "Item", "Label", "Base", "base", "Plain", "plain", "Node", "foo_bar", "fooBar", "FooBar", "T", "T_1", "Value", "Elem", "Raw"]
STRS = ["", "a", "ab", "abc", "abcd", "50%", "100% sure", "%d", "a\"b", "back\\slash", "new\nline", "tab\t", "`tick`", "unié", "0", "true", "null", "red", "green"]
INTS = [-129, -128, -100, -2, -1, 0, 1, 2, 3, 5, 9, 10, 100, 127, 128, 255, 256, 1000, 32767, 65535, 65536, 2147483647, 4294967295]
NUMS = [-2.5, -0.5, 0, 0.1, 0.25, 0.5, 1, 1.5, 2.5, 7.5, 10, 99.5, 126.5, 9007199254740991, 1234567890123.5]
FORMATS = ["date-time", "date", "time", "ipv4", "ipv6", "hostname", "int32", "int64", "float"]
TEXTS = ["A title", "the `root`", "100% \"quoted\"", "multi\nline", "*/ comment", "x"]


class WideGen:
    def __init__(self, rng):
        self.rng = rng
        self.defs = {}

    def pick(self, xs):
        return xs[self.rng.randrange(len(xs))]

    def maybe(self, p):
        return self.rng.random() < p

    def annotate(self, s):
        if self.maybe(0.15):
            s["title"] = self.pick(TEXTS)
        if self.maybe(0.15):
            s["description"] = self.pick(TEXTS)
        return s

    def string(self):
        s = {"type": "string"}
        if self.maybe(0.4):
            s["minLength"] = self.pick([0, 1, 2, 3, 5])
        if self.maybe(0.4):
            s["maxLength"] = self.pick([0, 1, 2, 3, 4, 7])
        if self.maybe(0.35):
            s["pattern"] = self.pick(sorted(PATTERNS))
        if self.maybe(0.15):
            s["format"] = self.pick(FORMATS)
        if self.maybe(0.2):
            s["default"] = self.pick(STRS)
        if self.maybe(0.12):
            s["enum"] = self.rng.sample(STRS, self.pick([1, 2, 3, 4]))
        return s

    def numeric(self, integer):
        s = {"type": "integer" if integer else "number"}
        pal = INTS if integer else NUMS
        if integer and self.maybe(0.2):
            pal = [-7.5, -2.5, 0.5, 2.5, 7.5, 126.5, 255.5] + INTS[4:12]
        if self.maybe(0.08):
            pal = [-1e20, -1.5e19, -9.3e18, 0, 1, 100, 9.3e18, 1e20]       # beyond every 64-bit type
        if self.maybe(0.45):
            s["minimum"] = self.pick(pal)
        if self.maybe(0.45):
            s["maximum"] = self.pick(pal)
        if self.maybe(0.3):
            s["exclusiveMinimum"] = self.pick([True, False]) if (self.maybe(0.5)) else self.pick(pal)
        if self.maybe(0.3):
            s["exclusiveMaximum"] = self.pick([True, False]) if (self.maybe(0.5)) else self.pick(pal)
        if self.maybe(0.3):
            s["multipleOf"] = self.pick([1, 2, 3, 5, 10]) if integer else self.pick([1, 0.5, 0.25, 0.1, 1.5, 2, 10])
        if self.maybe(0.2):
            s["default"] = self.pick(pal)
        if self.maybe(0.12):
            s["enum"] = self.rng.sample(pal, self.pick([1, 2, 3]))
        if self.maybe(0.12):
            s["format"] = self.pick(FORMATS)
        return s

    def array(self, depth):
        s = {"type": "array"}
        if self.maybe(0.9):
            s["items"] = self.node(depth - 1, allow_array=True)
        if self.maybe(0.45):
            s["minItems"] = self.pick([0, 1, 2, 3])
        if self.maybe(0.45):
            s["maxItems"] = self.pick([0, 1, 2, 3, 5])
        if self.maybe(0.15):
            s["default"] = self.pick([[], [1], ["a", "b"], [[1]]])
        return s

    def obj(self, depth, parent_names=()):
        s = {"type": "object"}
        n = self.pick([0, 1, 1, 2, 2, 3, 4])
        names = self.rng.sample(NAMES, n)
        if parent_names and self.maybe(0.5):
            # the same key names as the enclosing object (requirements of one level must not leak into another)
            names = list(dict.fromkeys(self.rng.sample(list(parent_names), min(len(parent_names), max(1, n))) + names))[:max(n, 1)]
        if n >= 2 and self.maybe(0.2):
            # two names that meet after normalisation
            a, b = self.pick([("x-y", "x_y"), ("xY", "x_y"), ("Content-Type", "ContentType"), ("user_id", "userId"), ("list", "listElem"), ("m", "mValue")])
            names = list(dict.fromkeys([a, b] + names))[:max(n, 2)]
        if n:
            s["properties"] = {k: (self.obj(depth - 1, names) if depth > 0 and self.maybe(0.15) else self.node(depth - 1)) for k in names}
        pr = s.get("properties") or {}
        if depth > 0:
            # derived type names: array items are <X>Elem, map values <X>Value; two inline objects with one Go name, almost equal
            if "list" in pr and "listElem" in pr:
                pr["list"] = {"type": "array", "items": self.pick([self.obj(0), {"anyOf": [self.obj(0), self.obj(0)]}])}
                pr["listElem"] = self.obj(0)
            if "shape" in pr and "shapeElem" in pr:
                pr["shape"] = {"type": "array", "items": {"anyOf": [self.obj(0), self.obj(0)]}}
                pr["shapeElem"] = self.obj(0)
            for a, b in (("x-y", "x_y"), ("xY", "x_y"), ("user_id", "userId")):
                if a in pr and b in pr and self.maybe(0.7):
                    import copy
                    o1 = self.obj(0)
                    if not o1.get("properties"):
                        o1["properties"] = {"v": self.node(0)}
                    o2 = copy.deepcopy(o1)
                    k0 = sorted(o2["properties"])[0]
                    var = self.pick(["default", "title", "required", "constraint"])
                    if var == "default" and isinstance(o2["properties"][k0], dict) and o2["properties"][k0].get("type") in ("string", "integer", "number", "boolean"):
                        o2["properties"][k0]["default"] = {"string": "dflt", "integer": 5, "number": 1.5, "boolean": True}[o2["properties"][k0]["type"]]
                        o1["required"] = o2["required"] = [k0]
                    elif var == "title":
                        o2["title"] = "another title"
                    elif var == "required":
                        o2["required"] = [k0]
                        o1.pop("required", None)
                    else:
                        o2["properties"][k0] = self.node(0)
                    if self.maybe(0.5):
                        o1, o2 = o2, o1
                    pr[a], pr[b] = o1, o2
                    if a == "x-y" and self.maybe(0.6):
                        pr["xY"] = copy.deepcopy(self.pick([o1, o2]))      # a third one, equal to one of the two
        if self.maybe(0.6) and names:
            s["required"] = self.rng.sample(names, self.pick(list(range(0, len(names) + 1))))
            if self.maybe(0.1):
                s["required"].append("undeclared")
        r = self.rng.random()
        if r < 0.15:
            s["additionalProperties"] = False
        elif r < 0.3:
            s["additionalProperties"] = self.pick([{"type": "string"}, {"type": "integer"}, {"type": "number"}, {"type": "boolean"}, {"type": "array"}, {}, True])
        elif r < 0.38:
            s["additionalProperties"] = self.node(depth - 1)
        return s

    def composite(self, depth):
        comb = self.pick(["allOf", "allOf", "anyOf"])
        n = self.pick([1, 2, 2, 3])
        brs = []
        for _ in range(n):
            r = self.rng.random()
            if r < 0.3 and self.defs:
                brs.append({"$ref": "#/$defs/" + self.pick(sorted(self.defs))})
            elif r < 0.4:
                brs.append({"required": [self.pick(NAMES)]})
            elif r < 0.5 and brs:
                # a member with a property of its own that requires (before / after its own key) a key some earlier member declares
                prev = [k for b0 in brs for k in (b0.get("properties") or {})]
                own = self.pick(NAMES)
                req = ([self.pick(prev)] if prev else []) + [own]
                if self.maybe(0.5):
                    req.reverse()
                brs.append({"type": "object", "properties": {own: self.node(0)}, "required": req})
            else:
                b = self.obj(max(depth - 1, 0))
                if self.maybe(0.15):
                    b.pop("type", None)
                if self.maybe(0.1):
                    b["type"] = ["null", "object"] if self.maybe(0.5) else ["object", "null"]
                brs.append(b)
        s = {comb: brs}
        if self.maybe(0.2):
            s["type"] = "object"
        return s

    def node(self, depth, allow_array=True):
        r = self.rng.random()
        if r < 0.2:
            s = self.string()
        elif r < 0.35:
            s = self.numeric(True)
        elif r < 0.47:
            s = self.numeric(False)
        elif r < 0.52:
            s = {"type": "boolean"}
            if self.maybe(0.3):
                s["default"] = self.maybe(0.5)
        elif r < 0.64 and depth > 0 and allow_array:
            s = self.array(depth)
        elif r < 0.76 and depth > 0:
            s = self.obj(depth)
        elif r < 0.84 and self.defs:
            s = {"$ref": "#/$defs/" + self.pick(sorted(self.defs))}
            if self.maybe(0.2):
                s["default"] = self.pick(STRS + INTS[:6])
        elif r < 0.9 and depth > 0:
            s = self.composite(depth)
        elif r < 0.92:
            s = {"enum": self.rng.sample(STRS + INTS[:8] + [True, None, 2.5], self.pick([1, 2, 3]))}
        elif r < 0.94:
            t, vals = self.pick([("string", ["auto", "manual", "x"]), ("integer", [1, 2, 3]), ("number", [0.5, 2]), ("boolean", [True])])
            s = {"type": self.pick([[t, "null"], ["null", t], t]), "enum": self.rng.sample(vals, self.pick([1, len(vals)])) + ([None] if self.maybe(0.6) else [])}
        elif r < 0.97:
            s = {}
            if self.maybe(0.4):
                s["default"] = self.pick([2.5, "free", True, 12])
        else:
            s = {"type": "null"}
        if "type" in s and isinstance(s["type"], str) and s["type"] != "null" and self.maybe(0.12):
            s["type"] = [s["type"], "null"] if self.maybe(0.6) else ["null", s["type"]]
        return self.annotate(s)

    def root(self):
        self.defs = {}
        nd = self.pick([0, 0, 1, 2, 3])
        for name in self.rng.sample(DEFNAMES, nd):
            k = self.rng.random()
            if k < 0.5:
                self.defs[name] = self.obj(1)
            elif k < 0.65:
                self.defs[name] = self.string()
            elif k < 0.8:
                self.defs[name] = self.numeric(self.maybe(0.6))
            elif k < 0.9:
                self.defs[name] = self.array(1)
            else:
                self.defs[name] = self.composite(1)
        s = self.obj(2)
        if not s.get("properties"):
            s["properties"] = {"a": self.node(1)}
        if self.defs:
            s["$defs" if self.maybe(0.7) else "definitions"] = dict(self.defs)
            if "definitions" in s:
                import json
                s = json.loads(json.dumps(s).replace("#/$defs/", "#/definitions/"))
        opts = {}
        if self.maybe(0.3):
            opts["min_sized_ints"] = True
        if self.maybe(0.25):
            opts["extra_imports"] = True
        if self.maybe(0.1):
            opts["capitalizations"] = ["ID", "URL", "HTML"]
        return self.annotate(s), opts
