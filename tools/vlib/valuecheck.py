"""Common driver of the value-level property checks: families of (schema, documents), the correspondence with the
Coq model, and the oracle `implementation verdict == validity under the schema` restricted to the document classes
the property talks about."""
import json

from .kitchen import Case, Docs, run_cases, types_of, defs_of
from .schemagen import SchemaGen

CODE = {1: "verdict", 2: "decoded value", 3: "generator status", 4: "model out of fuel", 5: "outside the modelled fragment", 6: "emitted declarations (static tie)", 7: "validator plan of an emitted method (static tie)"}


def build_cases(ctx, n, focus, classes, prefix, gen_kwargs=None, docs_per=3, extra_schemas=(), minsized=False, fam="random", max_docs=120, schema_hook=None):
    rng = ctx.rng
    cases = []
    schemas = list(extra_schemas)
    g = SchemaGen(rng, focus=focus, **(gen_kwargs or {}))
    while len(schemas) < n:
        schemas.append(g.root())
    for i, sc in enumerate(schemas):
        if schema_hook:
            schema_hook(sc)
        dg = Docs(sc, rng)
        docs = []
        seen = set()
        for k in range(docs_per):
            try:
                dg.maximal = (k == 0 and docs_per > 1)          # the first document spells out every optional property, the last one none
                base = dg.valid(minimal=(k == docs_per - 1))
            except ValueError:
                continue
            cand = [("valid", (), base)] + dg.mutants(base, classes)
            for cls, path, d in cand:
                key = json.dumps(d, sort_keys=True, default=str)
                if key in seen:
                    continue
                seen.add(key)
                docs.append({"doc": d, "cls": cls, "path": path})
        if not docs:
            continue
        # keep the term sizes bounded: at most max_docs documents, none larger than 1500 bytes, sampled evenly per class
        docs = [d for d in docs if len(json.dumps(d["doc"], default=str)) <= 1500]
        if len(docs) > max_docs:
            bycls = {}
            for d in docs:
                bycls.setdefault(d["cls"], []).append(d)
            keep = []
            while len(keep) < max_docs and any(bycls.values()):
                for cls in sorted(bycls):
                    if bycls[cls] and len(keep) < max_docs:
                        keep.append(bycls[cls].pop(rng.randrange(len(bycls[cls]))))
            docs = keep
        if not docs:
            continue
        cases.append(Case("%s%d" % (prefix, i), sc, docs, minsized=minsized, fam=fam if i >= len(extra_schemas) else "systematic"))
    return cases


def collide_root(l1, l2, key="v", required=False):
    """four inline object types whose scopes give the same Go type name (a.bC, aB.c, aBC, a_bC under the root), holding l1, l2, l2, l1 under [key]:
    the generator must keep the two different schemas apart (suffix) and may share a declaration only between equal ones"""
    import copy

    def holder(leaf):
        o = {"type": "object", "properties": {key: copy.deepcopy(leaf)}}
        if required:
            o["required"] = [key]
        return o
    return {"type": "object", "properties": {
        "a": {"type": "object", "properties": {"bC": holder(l1)}},
        "aB": {"type": "object", "properties": {"c": holder(l2)}},
        "aBC": holder(l2),
        "a_bC": holder(l1)}}


def typed_addl_null(c, doc):
    """does the document put null where an object with properties and typed additionalProperties is expected: the generated method panics there
    (recorded finding C19-typed-addl-null, D30); such documents are outside the guard of every value property"""
    from .kitchen import Docs, types_of
    dg = Docs(c.schema, None)

    def walk(s, v):
        r = dg.resolve(s) if isinstance(s, dict) else {}
        ap = r.get("additionalProperties")
        if v is None and r.get("properties") and isinstance(ap, dict) and types_of(ap):
            return True
        if isinstance(v, dict):
            for k, x in v.items():
                if k in r.get("properties", {}):
                    if walk(r["properties"][k], x):
                        return True
                elif isinstance(ap, dict) and walk(ap, x):
                    return True
        if isinstance(v, list) and isinstance(r.get("items"), dict):
            return any(walk(r["items"], x) for x in v)
        return False
    try:
        return walk(c.schema, doc)
    except Exception:
        return False


def site_schema(case, path):
    """the (resolved) schema node a document path points at"""
    dg = Docs(case.schema, None)
    s = case.schema
    for p in path:
        s = dg.resolve(s)
        if isinstance(p, int):
            s = s.get("items", {})
        elif p in s.get("properties", {}):
            s = s["properties"][p]
        else:
            s = s.get("additionalProperties", {}) if isinstance(s.get("additionalProperties"), dict) else {}
    return dg.resolve(s)


def anon_struct_path(case, path):
    """does the path pass through an object schema that the generator emits as an anonymous struct (no unmarshaler, hence no
    validation: D25): the inline object value schema of a property-less object's additionalProperties"""
    dg = Docs(case.schema, None)
    s = case.schema
    for p in path:
        r = dg.resolve(s)
        if isinstance(p, int):
            s = r.get("items", {})
        elif p in r.get("properties", {}):
            s = r["properties"][p]
        else:
            ap = r.get("additionalProperties")
            s = ap if isinstance(ap, dict) else {}
            if not r.get("properties") and "$ref" not in s and "object" in types_of(s) and s.get("properties"):
                return True
    return False


def evaluate(ctx, cases, oracle_classes, expect, what, skip=None):
    """oracle: for every document whose class is in oracle_classes, the implementation's verdict must be the one the
    reference semantics gives (expect: class -> 'valid' | 'invalid' | 'by-spec').  tie: any difference from the model."""
    nviol = 0
    stats = {}
    tie = []
    for c in cases:
        fam = "%s/%s" % (what, c.fam)
        if not c.gen_ok:
            ctx.violation("oracle", c.replay_obj(), "%s: the generator failed on an in-guard schema: %s" % (what, c.gen_err[:300]))
            nviol += 1
            continue
        if not c.build_ok:
            ctx.violation("oracle", dict(c.replay_obj(), build_err=c.build_err), "%s: emitted code does not compile: %s" % (what, c.build_err[:300]))
            nviol += 1
            continue
        ctx.cov["programs"] += 1
        for di, d in enumerate(c.docs):
            o = d.get("obs")
            if o is None:
                continue
            cls = d["cls"]
            st = stats.setdefault(cls, {"docs": 0, "ACC": 0, "REJ": 0, "PANIC": 0})
            st["docs"] += 1
            st[o["v"] if o["v"] in st else "PANIC"] += 1
            ctx.count({"schema": c.schema, "doc": d["doc"]}, cls != "valid" or bool(d["doc"]), fam)
            if o["v"] in ("PANIC", "FATAL"):
                if "raw" not in d and typed_addl_null(c, d["doc"]):
                    continue          # recorded finding C19-typed-addl-null
                if nviol < 6:
                    ctx.violation("oracle", c.replay_obj(di), "%s: generated unmarshaler panicked on %s: %s" % (what, json.dumps(d["doc"])[:200], o.get("err", "")[:200]))
                nviol += 1
                continue
            if cls not in oracle_classes or (skip and skip(c, d)):
                continue
            valid = d.get("valid")
            if valid is None:
                continue
            want = expect.get(cls, "by-spec")
            if want == "valid" and not valid:
                continue                     # the generator of this class produced an invalid document: not this oracle's business
            if want == "invalid" and valid:
                continue
            acc = o["v"] == "ACC"
            if acc != valid:
                if nviol < 6:
                    ctx.violation("oracle", c.replay_obj(di),
                                  "%s: document %s (%s at %s) is %s under the schema but was %s%s"
                                  % (what, json.dumps(d["doc"])[:300], cls, "/".join(map(str, d["path"])) or "root",
                                     "valid" if valid else "invalid", "accepted" if acc else "rejected",
                                     "" if acc else ": " + o.get("err", "")[:160]))
                nviol += 1
        for di, code in c.mismatches:
            tie.append((c, di, code))
    ctx.cov["disagreements_checked"] += sum(len(c.docs) for c in cases)
    ctx.cov.setdefault("class_stats", {}).update(stats)
    unmod = [t for t in tie if t[2] == 5]
    real = [t for t in tie if t[2] != 5]
    ctx.cov["unmodelled_cases"] = ctx.cov.get("unmodelled_cases", 0) + len(unmod)
    ctx.cov["model_mismatches"] = ctx.cov.get("model_mismatches", 0) + len(real)
    if real and nviol == 0:
        c, di, code = real[0]
        ctx.violation("tie", dict(c.replay_obj(di), correspondence="RunCore.case_mismatches (Model/Gen + Model/Exec vs generated code): %s differs; %d differing observations in this run"
                                  % (CODE.get(code, code), len(real))),
                      "%s: the implementation differs from the model (%s) on %s; no document inside the guard contradicts the property"
                      % (what, CODE.get(code, code), json.dumps(c.docs[di]["doc"])[:200] if di is not None else "generation"), no_input=True)
    return nviol


def report_tie(ctx, cases, what):
    """the correspondence step for cases judged by an explicit expectation: any difference between the model and the implementation (verdict,
    decoded value, emitted declarations) is reported when no oracle violation was found"""
    real = [(c, di, code) for c in cases for di, code in c.mismatches if code != 5]
    ctx.cov["unmodelled_cases"] = ctx.cov.get("unmodelled_cases", 0) + sum(1 for c in cases for _, code in c.mismatches if code == 5)
    ctx.cov["model_mismatches"] = ctx.cov.get("model_mismatches", 0) + len(real)
    if real and not ctx.violations:
        c, di, code = real[0]
        ctx.violation("tie", dict(c.replay_obj(di), correspondence="RunCore.case_mismatches (Model/Gen + Model/Exec vs generated code): %s differs; %d differing observations in this run"
                                  % (CODE.get(code, code), len(real))),
                      "%s: the implementation differs from the model (%s) on %s; no document inside the guard contradicts the property"
                      % (what, CODE.get(code, code), json.dumps(c.docs[di]["doc"])[:200] if di is not None else "generation"), no_input=True)
    return len(real)


def expect_cases(ctx, cases, what, limit=3):
    """cases whose documents carry their own expectation (doc['expect'] in ACC / REJ): the program builds and answers as expected"""
    nv = 0
    for c in cases:
        if not c.gen_ok or not c.build_ok:
            if nv < limit:
                ctx.violation("oracle", dict(c.replay_obj(), gen_err=c.gen_err, build_err=c.build_err), "%s (%s): generation failed or the output does not build: %s"
                              % (what, c.fam, (c.gen_err or c.build_err)[:300]))
            nv += 1
            continue
        ctx.cov["programs"] += 1
        for di, d in enumerate(c.docs):
            o = d.get("obs") or {}
            ctx.count({"f": c.fam, "s": c.schema, "d": d["doc"]}, True, "%s/%s" % (what, c.fam))
            if "expect" in d and o.get("v") != d["expect"]:
                if nv < limit:
                    ctx.violation("oracle", c.replay_obj(di), "%s (%s): document %s (%s at %s) should be %s, the generated code answers %s %s" % (
                        what, c.fam, json.dumps(d["doc"])[:200], d.get("cls"), "/".join(map(str, d.get("path", ()))), d["expect"], o.get("v"), (o.get("err") or "")[:150]))
                nv += 1
                break
    return nv


def replay(ctx, path):
    obj = json.load(open(path))
    case = obj.get("case", obj.get("witness", {}))
    sc = json.loads(case["files"]["s.json"])
    docs = [{"doc": json.loads(case["doc"]), "cls": case.get("class", "replay"), "path": tuple(case.get("path", ()))}] if case.get("doc") else []
    c = Case("rp0", sc, docs, minsized=case.get("cfg", {}).get("min_sized_ints", False), extra_imports=case.get("cfg", {}).get("extra_imports", False))
    run_cases(ctx, [c], "replay")
    print(json.dumps({"gen_ok": c.gen_ok, "gen_err": c.gen_err, "build_ok": c.build_ok, "build_err": c.build_err,
                      "docs": [{"doc": d["doc"], "impl": d.get("obs"), "valid": d.get("valid"), "model_mismatch": d.get("mm")} for d in c.docs],
                      "mismatches": c.mismatches}, indent=1, default=str)[:6000])


def replay_findings(ctx):
    """re-run every listed witness of kind `kitchen` ({schema, doc, expect: ACC|REJ|NOPANIC|BUILD}) on the implementation"""
    todo = [f for f in ctx.findings() if f.get("witness", {}).get("kind") == "kitchen"]
    if not todo:
        return
    cases = []
    for i, f in enumerate(todo):
        w = f["witness"]
        d = {"doc": w.get("doc"), "cls": "finding", "path": ()}
        if "raw" in w:
            d["raw"] = w["raw"]
        cases.append(Case("kf%d" % i, w["schema"], [d], minsized=w.get("minsized", False), extra_imports=w.get("extra_imports", False), fam="finding",
                          extra_files=w.get("extra_files"), argv=w.get("argv"), mappings=[tuple(m) for m in w["mappings"]] if w.get("mappings") else None,
                          no_model=bool(w.get("extra_files"))))
        if w.get("wire"):
            cases[-1].wire = w["wire"]
    run_cases(ctx, cases, "findings")
    for f, c in zip(todo, cases):
        w = f["witness"]
        exp = w.get("expect")
        o = c.docs[0].get("obs") or {}
        if exp == "BUILD":
            fails = c.gen_ok and not c.build_ok
        elif exp == "ROUNDTRIP":
            try:
                fails = o.get("v") == "ACC" and json.loads(o.get("out", "null")) != w.get("doc")
            except Exception:
                fails = True
        elif exp == "NOPANIC":
            fails = o.get("v") in ("PANIC", "FATAL")
        else:
            fails = c.build_ok and o.get("v") != exp
        ctx.known(f, bool(fails), "observed %s %s" % (o.get("v"), (o.get("err") or c.build_err)[:120]))
