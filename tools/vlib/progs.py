"""Generate -> compile -> run: the implementation side for every property that talks about
the behaviour of emitted code.  One batch = many cases, one `go build`, one driver run."""
import json
import os
import re
import shutil

from .core import env_go, REPO

DRIVER_HEAD = r'''package main

import (
	"bufio"
	"encoding/json"
	"fmt"
	"os"
	"reflect"
	"sort"

	yaml "gopkg.in/yaml.v3"
%(imports)s
)

var _ = yaml.Unmarshal

var reg = map[string]func() any{
%(reg)s
}

type job struct {
	T     string `json:"t"`
	Wire  string `json:"wire"`
	Doc   string `json:"doc"`
	Prior string `json:"prior"`
}

type obs struct {
	V         string `json:"v"`
	Err       string `json:"err,omitempty"`
	Out       string `json:"out,omitempty"`
	OutV      string `json:"outv,omitempty"`
	Dump      any    `json:"dump,omitempty"`
	Unchanged bool   `json:"unchanged"`
	PriorErr  string `json:"prior_err,omitempty"`
}

// dump renders a decoded value structurally: struct fields by Go name, nil vs empty kept apart,
// foreign types (time.Time, netip.Addr, ...) through their JSON form.
func dump(v reflect.Value, depth int) any {
	if depth > 40 {
		return "<deep>"
	}
	switch v.Kind() {
	case reflect.Ptr:
		if v.IsNil() {
			return nil
		}
		return map[string]any{"&": dump(v.Elem(), depth+1)}
	case reflect.Interface:
		if v.IsNil() {
			return nil
		}
		return map[string]any{"iface": dump(v.Elem(), depth+1)}
	case reflect.Struct:
		if v.Type().PkgPath() != "" && !isLocal(v.Type().PkgPath()) {
			b, err := json.Marshal(v.Interface())
			if err != nil {
				return "<unmarshalable>"
			}
			return map[string]any{"foreign": string(b)}
		}
		m := map[string]any{}
		for i := 0; i < v.NumField(); i++ {
			if v.Type().Field(i).PkgPath != "" {
				continue
			}
			m[v.Type().Field(i).Name] = dump(v.Field(i), depth+1)
		}
		return map[string]any{"struct": m}
	case reflect.Slice:
		if v.IsNil() {
			return nil
		}
		l := make([]any, v.Len())
		for i := range l {
			l[i] = dump(v.Index(i), depth+1)
		}
		return map[string]any{"slice": l}
	case reflect.Map:
		if v.IsNil() {
			return nil
		}
		keys := make([]string, 0, v.Len())
		kv := map[string]any{}
		for _, k := range v.MapKeys() {
			ks := fmt.Sprint(k.Interface())
			keys = append(keys, ks)
			kv[ks] = dump(v.MapIndex(k), depth+1)
		}
		sort.Strings(keys)
		return map[string]any{"map": kv}
	case reflect.String:
		return map[string]any{"s": v.String()}
	case reflect.Bool:
		return map[string]any{"b": v.Bool()}
	case reflect.Int, reflect.Int8, reflect.Int16, reflect.Int32, reflect.Int64:
		return map[string]any{"i": fmt.Sprint(v.Int())}
	case reflect.Uint, reflect.Uint8, reflect.Uint16, reflect.Uint32, reflect.Uint64:
		return map[string]any{"i": fmt.Sprint(v.Uint())}
	case reflect.Float32, reflect.Float64:
		b, _ := json.Marshal(v.Float())
		return map[string]any{"f": string(b)}
	default:
		return "<" + v.Kind().String() + ">"
	}
}

func isLocal(pkg string) bool { return len(pkg) >= 5 && pkg[:5] == "prog/" }

func runJob(j job) (o obs) {
	mk, ok := reg[j.T]
	if !ok {
		return obs{V: "NOTYPE"}
	}
	v := mk()
	if j.Prior != "" {
		if err := json.Unmarshal([]byte(j.Prior), v); err != nil {
			o.PriorErr = err.Error()
		}
	}
	before, _ := json.Marshal(dump(reflect.ValueOf(v).Elem(), 0))
	defer func() {
		if r := recover(); r != nil {
			o = obs{V: "PANIC", Err: fmt.Sprint(r)}
		}
	}()
	var err error
	if j.Wire == "yaml" {
		err = yaml.Unmarshal([]byte(j.Doc), v)
	} else {
		err = json.Unmarshal([]byte(j.Doc), v)
	}
	d := dump(reflect.ValueOf(v).Elem(), 0)
	after, _ := json.Marshal(d)
	o.Unchanged = string(before) == string(after)
	if err != nil {
		o.V = "REJ"
		o.Err = err.Error()
		return o
	}
	o.V = "ACC"
	o.Dump = d
	if b, merr := json.Marshal(v); merr == nil {
		o.Out = string(b)
	} else {
		o.Out = "MARSHAL-ERROR " + merr.Error()
	}
	if b, merr := json.Marshal(reflect.ValueOf(v).Elem().Interface()); merr == nil {
		o.OutV = string(b)
	} else {
		o.OutV = "MARSHAL-ERROR " + merr.Error()
	}
	return o
}

func main() {
	sc := bufio.NewScanner(os.Stdin)
	sc.Buffer(make([]byte, 1<<22), 1<<26)
	w := bufio.NewWriterSize(os.Stdout, 1<<20)
	defer w.Flush()
	enc := json.NewEncoder(w)
	enc.SetEscapeHTML(false)
	for sc.Scan() {
		var j job
		if err := json.Unmarshal(sc.Bytes(), &j); err != nil {
			panic(err)
		}
		_ = enc.Encode(runJob(j))
		w.Flush()
	}
}
'''

GOMOD = '''module prog

go 1.23.0

replace github.com/atombender/go-jsonschema => %s

require (
	github.com/atombender/go-jsonschema v0.16.0
	github.com/go-viper/mapstructure/v2 v2.1.0
	gopkg.in/yaml.v3 v3.0.1
)
'''


class Batch:
    """cases: dicts with id (unique, [a-z0-9]+), cfg, files, argv, jobs: list of
    {t: type name (or 'pkg.Type'), wire, doc, prior}.  After run(): case['gen'], case['scan'],
    case['build_ok'], case['build_err'], and job['obs'] for every job."""

    def __init__(self, ctx, name):
        self.ctx = ctx
        self.name = name
        self.cases = []
        self.dir = os.path.join(ctx.scratch, "prog-" + name)

    def add(self, case):
        cid = case["id"]
        cfg = dict(case.get("cfg") or {})
        cfg.setdefault("default_package", cid)
        cfg.setdefault("default_output", cid + "/gen.go")
        case["cfg"] = cfg
        case.setdefault("jobs", [])
        self.cases.append(case)
        return case

    def run(self, vet=False):
        ctx = self.ctx
        if os.path.isdir(self.dir):
            shutil.rmtree(self.dir)
        os.makedirs(self.dir)
        gen = ctx.jsonl("gen", [{"id": c["id"], "cfg": c["cfg"], "files": c["files"], "argv": c["argv"]} for c in self.cases],
                        extra=[os.path.join(self.dir, "_schemas")])
        scan_req = []
        for c, g in zip(self.cases, gen):
            c["gen"] = g
            c["build_ok"] = False
            c["build_err"] = ""
            c["scan"] = {}
            if not g["ok"]:
                continue
            for name, src in g["outputs"].items():
                # output names are relative to the scratch module
                path = os.path.normpath(os.path.join(self.dir, name))
                if not path.startswith(self.dir + os.sep):
                    raise RuntimeError("output escapes the scratch module: %s" % name)
                os.makedirs(os.path.dirname(path), exist_ok=True)
                open(path, "w").write(src)
                scan_req.append({"id": c["id"] + "\t" + name, "src": src})
        if scan_req:
            for r in ctx.jsonl("scan", scan_req):
                cid, name = r["id"].split("\t", 1)
                self.case(cid)["scan"][name] = r
        open(os.path.join(self.dir, "go.mod"), "w").write(GOMOD % REPO)
        shutil.copy(os.path.join(ctx.harness_dir(), "go.sum"), os.path.join(self.dir, "go.sum"))
        # phase 1: compile every emitted package; collect the ones the toolchain rejects
        pkgs_by_case = {}
        for c in self.cases:
            if c["gen"]["ok"]:
                pkgs_by_case[c["id"]] = sorted(set(os.path.dirname(n) for n in c["gen"]["outputs"]))
        bad = {}
        if pkgs_by_case:
            p = ctx.sh(["go", "build", "./..."], cwd=self.dir, env=env_go(), timeout=1800)
            cur = None
            for line in (p.stdout + p.stderr).splitlines():
                m = re.match(r"# prog/(\S+)", line)
                if m:
                    cur = m.group(1)
                    bad.setdefault(cur, [])
                elif cur is not None:
                    bad[cur].append(line)
                elif line.strip():
                    bad.setdefault("?", []).append(line)
            if p.returncode != 0 and not bad:
                raise RuntimeError("go build failed without package diagnostics:\n" + (p.stdout + p.stderr)[-2000:])
            if "?" in bad and len(bad) == 1:
                raise RuntimeError("go build failed:\n" + "\n".join(bad["?"])[-2000:])
            if vet:
                pv = ctx.sh(["go", "vet", "./..."], cwd=self.dir, env=env_go(), timeout=1800)
                cur = None
                for line in (pv.stdout + pv.stderr).splitlines():
                    m = re.match(r"# prog/(\S+)", line)
                    if m:
                        cur = m.group(1)
                    elif cur is not None and line.strip() and cur not in bad:
                        self_case = [c for c in self.cases if cur in pkgs_by_case.get(c["id"], [])]
                        for c in self_case:
                            c.setdefault("vet", []).append(line)
        good_pkgs = []
        for c in self.cases:
            if not c["gen"]["ok"]:
                continue
            errs = []
            for pk in pkgs_by_case[c["id"]]:
                # a package that imports a broken package of the same case is reported too
                for b in bad:
                    if b == pk or b.startswith(pk + "/"):
                        errs += bad[b]
            c["build_ok"] = not errs
            c["build_err"] = "\n".join(errs)[:3000]
            if c["build_ok"]:
                good_pkgs += pkgs_by_case[c["id"]]
        # phase 2: the driver
        imports, reg = [], []
        alias = {}
        for i, pk in enumerate(sorted(set(good_pkgs))):
            alias[pk] = "q%d" % i
        used = set()
        for c in self.cases:
            if not c["build_ok"]:
                continue
            for name, sc in c["scan"].items():
                pk = os.path.dirname(name)
                for t in sc["types"]:
                    key = "%s\t%s\t%s" % (c["id"], pk, t["name"])
                    if key in used:
                        continue
                    used.add(key)
                    reg.append('\t%s: func() any { return new(%s.%s) },' % (json.dumps(key), alias[pk], t["name"]))
                    if pk not in imports:
                        imports.append(pk)
        jobs = []
        for c in self.cases:
            if not c["build_ok"]:
                continue
            pk_default = os.path.dirname(c["cfg"]["default_output"])
            for j in c["jobs"]:
                t = j["t"]
                pk, tn = t.rsplit(".", 1) if "." in t else (pk_default, t)
                jobs.append((j, {"t": "%s\t%s\t%s" % (c["id"], pk, tn), "wire": j.get("wire", "json"), "doc": j["doc"],
                                 "prior": j.get("prior", "")}))
        if not jobs:
            return self
        src = DRIVER_HEAD % {"imports": "\n".join('\t%s "prog/%s"' % (alias[p], p) for p in imports), "reg": "\n".join(reg)}
        ddir = os.path.join(self.dir, "zdriver")
        os.makedirs(ddir)
        open(os.path.join(ddir, "main.go"), "w").write(src)
        p = ctx.sh(["go", "build", "-o", os.path.join(self.dir, "driver.bin"), "./zdriver"], cwd=self.dir, env=env_go(), timeout=1800)
        if p.returncode != 0:
            raise RuntimeError("driver does not build:\n" + (p.stdout + p.stderr)[-3000:])
        pos = 0
        while pos < len(jobs):
            inp = "".join(json.dumps(j[1]) + "\n" for j in jobs[pos:])
            p = ctx.sh([os.path.join(self.dir, "driver.bin")], inp=inp, timeout=1800)
            lines = [l for l in p.stdout.splitlines() if l.strip()]
            for k, l in enumerate(lines):
                jobs[pos + k][0]["obs"] = json.loads(l)
            pos += len(lines)
            if pos < len(jobs):
                # the driver died on this job (fatal error, e.g. stack exhaustion): record and continue
                jobs[pos][0]["obs"] = {"v": "FATAL", "err": p.stderr[-400:], "unchanged": False}
                pos += 1
        return self

    def case(self, cid):
        for c in self.cases:
            if c["id"] == cid:
                return c
        raise KeyError(cid)
