"""The shared engine of the value-level checks (C02-C09, C19, C10, C17 ...): schema generation inside the
guards of DESIGN.md section 6, schema-directed documents (valid ones and single-fault mutants), running the real
generated code, evaluating the Coq model (Gen + Exec) and the reference semantics (Valid) on the same cases."""
import copy
import json
import re
from fractions import Fraction as F

from .gal import q_str, opt, bool_term, str_term, json_term, bounds_term, num_json
from .progs import Batch
from .core import parse_nlist

# ---------------------------------------------------------------------------------- patterns (text -> Regex.v term)
def _cls(lo, hi):
    return "(RRange %d %d)" % (ord(lo), ord(hi))


def _lit(s):
    t = "REps"
    for ch in reversed(s):
        t = "(RSeq (RChar %d) %s)" % (ord(ch), t)
    return t


PATTERNS = {
    "^[a-z]+$": (True, "(RPlus %s)" % _cls("a", "z"), True),
    "^a": (True, _lit("a"), False),
    "b$": (False, _lit("b"), True),
    "[0-9][0-9]": (False, "(RSeq %s %s)" % (_cls("0", "9"), _cls("0", "9")), False),
    "a.c": (False, "(RSeq (RChar 97) (RSeq RAny (RChar 99)))", False),
    "^(ab|cd)*$": (True, "(RStar (RAlt %s %s))" % (_lit("ab"), _lit("cd")), True),
    "x+y?": (False, "(RSeq (RPlus (RChar 120)) (ROpt (RChar 121)))", False),
    "^[A-Z][a-z]*$": (True, "(RSeq %s (RStar %s))" % (_cls("A", "Z"), _cls("a", "z")), True),
    "^[0-9]+%$": (True, "(RSeq (RPlus %s) (RChar 37))" % _cls("0", "9"), True),
    "^.*$": (True, "(RStar RAny)", True),
    # blanks at either end of the expression are part of it
    "^-- ": (True, _lit("-- "), False),
    " $": (False, _lit(" "), True),
    # a line break inside the expression
    "^a\nb": (True, _lit("a\nb"), False),
}
# for each pattern: strings that match / do not match, by length
PAT_SAMPLES = {
    "^[a-z]+$": (["a", "ab", "abc", "abcd", "abcde", "abcdef", "abcdefg", "abcdefgh"], ["A", "a1", "ab c", "abcD", "ab-de", "abcde9", "0bcdefg"]),
    "^a": (["a", "ab", "abc", "aXcd", "abcde", "a12345", "abcdefg"], ["b", "ba", "bca", "xabc", "Xabcd", "  abcd", "1234567"]),
    "b$": (["b", "ab", "aab", "xyzb", "12 4b", "abcdeb", "abcdefb"], ["a", "ba", "abc", "abba", "bbbba", "bbbbbc", "bbbbbb "]),
    "[0-9][0-9]": (["12", "a12", "12ab", "x123y", "ab12cd", "0000000"], ["1", "a1", "1a2", "a1b2", "a1b2c", "1x2y3z", "abcdefg"]),
    "a.c": (["abc", "xabc", "a-cd", "aaXcc", "abcabc", "1a2c345"], ["ac", "ab", "abd", "acbd", "ab cd", "abbbbc", "a\nc"]),
    "^(ab|cd)*$": (["", "ab", "cd", "abcd", "cdab", "ababcd", "abcdabcd"], ["a", "abc", "abd", "abcda", "ab cd", "abcdab1"]),
    "x+y?": (["x", "xy", "axb", "xxxy", "--x--", "aaaxxy", "abcdefx"], ["y", "ay", "abc", "abcd", "yyyyy", "abcdef", "abcdefg"]),
    "^[A-Z][a-z]*$": (["A", "Ab", "Abc", "Abcd", "Abcde", "Abcdef", "Abcdefg"], ["a", "aB", "ABc", "Abc1", "Ab de", "abcdef", "AbcdefG"]),
    "^[0-9]+%$": (["5%", "50%", "100%", "1234%", "12345%", "123456%"], ["%", "5", "5%%", "a5%", "50 %", "%%%%%%", "1234567"]),
    "^.*$": (["", "a", "ab", "a c", "ab\tc", "abcde", "abcdef", "abcdefg"], ["\n", "a\n", "a\nb", "\nabc", "ab\ncd", "abcde\n", "abc\ndef"]),
    "^-- ": (["-- ", "-- x", "-- ab", "-- abc", "-- abcd", "-- -- --"], ["--", "--x", "-- "[:2] + "x", " -- ", "- - x", "x-- y", "--\tabc"]),
    " $": ([" ", "a ", "ab ", "abc ", "a b  ", "abcdef "], ["", "a", " a", "ab", "a b", " abcd", "abcdef\t"]),
    "^a\nb": (["a\nb", "a\nbc", "a\nbcd", "a\nb\nc", "a\nbbbbb", "a\nb    "], ["ab", "a b", "a\tb", "a\n\tb", "a\n\t\tb", "a\n b", "xa\nb", "a\n\nb"]),
}

FMT = {"date-time": "FDateTime", "date": "FDate", "time": "FTime", "ipv4": "FIP", "ipv6": "FIP"}
FMT_GOOD = {"date-time": ["2024-01-02T03:04:05Z", "1999-12-31T23:59:59Z", "0001-01-01T00:00:00Z", "9999-12-31T23:59:59Z"], "date": ["2024-01-02", "1999-12-31", "0001-01-01", "9999-12-31"],
            "time": ["03:04:05", "23:59:59", "00:00:00"], "ipv4": ["192.168.0.1", "10.0.0.255"], "ipv6": ["::1", "2001:db8::1"]}
FMT_BAD = {"date-time": ["2024-01-02", "yesterday", ""], "date": ["2024-13-45", "02/01/2024", ""], "time": ["25:00:00", "noon", "", "Z"],
           "ipv4": ["300.1.1.1", "host", ""], "ipv6": ["::g", "host", ""]}
FMT_ZERO = {'"0001-01-01T00:00:00Z"', '""', '"0001-01-01"', '"00:00:00"'}

STY = {"string": "SString", "integer": "SInteger", "number": "SNumber", "boolean": "SBoolean", "null": "SNull", "object": "SObject",
       "array": "SArray"}


# ---------------------------------------------------------------------------------- schema -> Gallina
def types_of(s):
    t = s.get("type")
    if t is None:
        return []
    return [t] if isinstance(t, str) else list(t)


def ref_name(r):
    m = re.match(r"^#/(\$defs|definitions)/(.*)$", r)
    if not m:
        raise ValueError("unsupported ref " + r)
    return m.group(2)


def ex_term(e):
    if e is None:
        return "None"
    if isinstance(e, bool):
        return "(Some (ExBool %s))" % bool_term(e)
    return "(Some (ExNum %s))" % q_str(F(e))


def pat_term(p):
    if p is None:
        return "None"
    b, body, e = PATTERNS[p]
    return "(Some (mkPat %s %s %s %s))" % (bool_term(b), body, bool_term(e), str_term(p))


def schema_term(s):
    if s is True:
        s = {}
    ts = "[" + "; ".join(STY.get(t, "SUnknown") for t in types_of(s)) + "]"
    ref = "None" if "$ref" not in s else "(Some %s)" % str_term(ref_name(s["$ref"]))
    enum = "None" if "enum" not in s else "(Some [%s])" % "; ".join(json_term(v) for v in s["enum"])
    req = "[" + "; ".join(str_term(k) for k in s.get("required", [])) + "]"
    default = s.get("default")
    b = "(mkBounds %s %s %s %s)" % (opt(None if s.get("minimum") is None else F(s["minimum"]), q_str),
                                   opt(None if s.get("maximum") is None else F(s["maximum"]), q_str),
                                   ex_term(s.get("exclusiveMinimum")), ex_term(s.get("exclusiveMaximum")))
    con = "(mkC %s %s %s %s %d %d %d %d %s %s %s %s %s)" % (
        ts, ref, enum, req, s.get("minItems", 0), s.get("maxItems", 0), s.get("minLength", 0), s.get("maxLength", 0),
        pat_term(s.get("pattern")), opt(None if s.get("multipleOf") is None else F(s["multipleOf"]), q_str), b,
        "None" if default is None else "(Some %s)" % json_term(default),
        "None" if s.get("format") not in FMT else "(Some %s)" % FMT[s["format"]])
    props = "[" + "; ".join("(%s, %s)" % (str_term(k), schema_term(v)) for k, v in s.get("properties", {}).items()) + "]"
    ap = s.get("additionalProperties")
    if ap is None:
        addl, af = "None", "false"
    elif ap is False:
        addl, af = "None", "true"
    else:
        addl, af = "(Some %s)" % schema_term(ap), "false"
    items = "None" if "items" not in s else "(Some %s)" % schema_term(s["items"])
    allof = "[" + "; ".join(schema_term(x) for x in s.get("allOf", [])) + "]"
    anyof = "[" + "; ".join(schema_term(x) for x in s.get("anyOf", [])) + "]"
    return "(Sch %s %s %s %s %s %s %s)" % (con, props, addl, af, items, allof, anyof)


def defs_of(root):
    d = {}
    d.update(root.get("definitions", {}))
    d.update(root.get("$defs", {}))
    return d


# ---------------------------------------------------------------------------------- impl dump -> Gallina gval
def iface_json(d):
    """dump of a value held in an interface{} -> the JSON value it was decoded from"""
    if d is None:
        return None
    if "s" in d:
        return d["s"]
    if "b" in d:
        return d["b"]
    if "f" in d:
        return F(d["f"]) if "e" not in d["f"].lower() else F(float(d["f"]))
    if "i" in d:
        return int(d["i"])
    if "slice" in d:
        return [iface_json(x.get("iface") if isinstance(x, dict) and "iface" in x else x) for x in d["slice"]]
    if "map" in d:
        return {k: iface_json(v.get("iface") if isinstance(v, dict) and "iface" in v else v) for k, v in d["map"].items()}
    if "iface" in d:
        return iface_json(d["iface"])
    raise ValueError("iface_json: %r" % (d,))


def jnum_term(x):
    """numbers inside interface{} are float64: compare by value"""
    return "(JQ %s)" % q_str(F(x))


def ijson_term(j):
    if j is None:
        return "JNull"
    if isinstance(j, bool):
        return "(JBool %s)" % bool_term(j)
    if isinstance(j, (int, F, float)):
        return jnum_term(j)
    if isinstance(j, str):
        return "(JStr %s)" % str_term(j)
    if isinstance(j, list):
        return "(JArr [%s])" % "; ".join(ijson_term(x) for x in j)
    return "(JObj [%s])" % "; ".join("(%s, %s)" % (str_term(k), ijson_term(v)) for k, v in j.items())


def gval_term(d):
    if d is None:
        return "GNil"
    if isinstance(d, str):
        raise ValueError("dump marker " + d)
    if "&" in d:
        return "(GP %s)" % gval_term(d["&"])
    if "iface" in d:
        return "(GJ %s)" % ijson_term(iface_json(d["iface"]))
    if "struct" in d:
        return "(GSt [%s])" % "; ".join("(%s, %s)" % (str_term(k), gval_term(v)) for k, v in d["struct"].items())
    if "slice" in d:
        return "(GL [%s])" % "; ".join(gval_term(x) for x in d["slice"])
    if "map" in d:
        return "(GM [%s])" % "; ".join("(%s, %s)" % (str_term(k), gval_term(v)) for k, v in d["map"].items())
    if "s" in d:
        return "(GS %s)" % str_term(d["s"])
    if "b" in d:
        return "(GB %s)" % bool_term(d["b"])
    if "i" in d:
        return "(GI (%d))" % int(d["i"])
    if "f" in d:
        return "(GF %s)" % q_str(F(float(d["f"])))
    if "foreign" in d:
        txt = d["foreign"]
        if txt in FMT_ZERO:
            return "(GFm None)"
        return "(GFm (Some %s))" % str_term(json.loads(txt))
    raise ValueError("gval_term: %r" % (d,))


# ---------------------------------------------------------------------------------- documents from a schema
class Docs:
    """Schema-directed documents.  valid(): a document valid under the schema (choices drawn from rng, boundary
    values preferred); mutants(): single-fault variants of a valid document, each tagged with its fault class."""

    def __init__(self, root, rng, minsized=False):
        self.root = root
        self.defs = defs_of(root)
        self.rng = rng
        self.depth_limit = 6

    def resolve(self, s):
        n = 0
        while isinstance(s, dict) and "$ref" in s:
            s = self.defs[ref_name(s["$ref"])]
            n += 1
            if n > 20:
                raise ValueError("ref loop")
        if s is True:
            return {}
        if isinstance(s, dict) and s.get("allOf"):
            # the conjunction of object branches, seen as one object schema (union of properties, all required keys)
            m = {k: v for k, v in s.items() if k != "allOf"}
            m.setdefault("type", "object")
            props, req = dict(m.get("properties", {})), list(m.get("required", []))
            for b in s["allOf"]:
                rb = self.resolve(b)
                for k, v in rb.get("properties", {}).items():
                    if k in props and isinstance(props[k], dict) and isinstance(v, dict):
                        mm = dict(props[k])
                        mm.update(v)
                        props[k] = mm
                    else:
                        props[k] = v
                req += [k for k in rb.get("required", []) if k not in req]
                if "additionalProperties" in rb and "additionalProperties" not in m:
                    m["additionalProperties"] = rb["additionalProperties"]
            m["properties"] = props
            if req:
                m["required"] = req
            return m
        if isinstance(s, dict) and s.get("anyOf") and "type" not in s:
            return self.resolve(s["anyOf"][0])
        return s

    # ---- numbers
    def num_bounds(self, s):
        lo = hi = None
        lo_ex = hi_ex = False
        if s.get("minimum") is not None:
            lo, lo_ex = F(s["minimum"]), s.get("exclusiveMinimum") is True
        em = s.get("exclusiveMinimum")
        if em is not None and not isinstance(em, bool):
            if lo is None or F(em) >= lo:
                lo, lo_ex = F(em), True
        if s.get("maximum") is not None:
            hi, hi_ex = F(s["maximum"]), s.get("exclusiveMaximum") is True
        em = s.get("exclusiveMaximum")
        if em is not None and not isinstance(em, bool):
            if hi is None or F(em) <= hi:
                hi, hi_ex = F(em), True
        return lo, lo_ex, hi, hi_ex

    def num_ok(self, s, x, integer):
        lo, lo_ex, hi, hi_ex = self.num_bounds(s)
        if lo is not None and (x < lo or (lo_ex and x == lo)):
            return False
        if hi is not None and (x > hi or (hi_ex and x == hi)):
            return False
        m = s.get("multipleOf")
        if m is not None and (x / F(m)).denominator != 1:
            return False
        if integer and x.denominator != 1:
            return False
        return True

    def num_candidates(self, s, integer):
        lo, lo_ex, hi, hi_ex = self.num_bounds(s)
        step = F(s["multipleOf"]) if s.get("multipleOf") is not None else (F(1) if integer else F(1, 2))
        if integer and step.denominator != 1:
            step = F(1)
        cands = set()
        for c in [lo, hi, F(0)]:
            if c is None:
                continue
            base = (c / step).__floor__() * step
            for k in range(-3, 4):
                cands.add(base + k * step)
                cands.add(c + k * (F(1) if integer else F(1, 2)))
        return sorted(cands)

    def valid_num(self, s, integer):
        good = [x for x in self.num_candidates(s, integer) if self.num_ok(s, x, integer)]
        if not good:
            return None
        return self.rng.choice(good)

    def invalid_nums(self, s, integer):
        out = []
        for x in self.num_candidates(s, integer):
            if integer and x.denominator != 1:
                continue
            if not self.num_ok(s, x, integer):
                out.append(x)
        return out

    # ---- strings
    def str_candidates(self, s):
        mn, mx = s.get("minLength", 0), s.get("maxLength", 0)
        p = s.get("pattern")
        lens = set([mn, mn + 1, max(mn - 1, 0), 1, 3])
        if mx:
            lens.update([mx, mx + 1, max(mx - 1, 0)])
        res = []
        for n in sorted(lens):
            if p is None:
                res.append(("abcdefghijklmnop" * 3)[:n])
            else:
                good, bad = PAT_SAMPLES[p]
                res += [x for x in good + bad if len(x) == n]
        if p is not None:
            res += PAT_SAMPLES[p][0][:3] + PAT_SAMPLES[p][1][:3]
        return res

    def str_ok(self, s, x):
        mn, mx = s.get("minLength", 0), s.get("maxLength", 0)
        if len(x) < mn or (mx and len(x) > mx):
            return False
        p = s.get("pattern")
        if p is not None and not re.search(p.replace("$", "\\Z"), x):
            return False
        return True

    # ---- valid documents
    def valid(self, s=None, depth=0, minimal=False):
        s = self.resolve(self.root if s is None else s)
        rng = self.rng
        if "enum" in s:
            return copy.deepcopy(rng.choice(s["enum"]))
        ts = types_of(s)
        if not ts:
            return rng.choice([1, "free", True, None, [1, "a"], {"k": 1}]) if not minimal else 1
        if "null" in ts and len(ts) > 1 and (rng.random() < 0.25):
            return None
        t = [x for x in ts if x != "null"][0] if [x for x in ts if x != "null"] else "null"
        if t == "null":
            return None
        if t == "boolean":
            return rng.choice([True, False])
        if t in ("integer", "number"):
            v = self.valid_num(s, t == "integer")
            if v is None:
                raise ValueError("no valid number for %r" % s)
            return int(v) if v.denominator == 1 and (t == "integer" or rng.random() < 0.5) else float(v)
        if t == "string":
            if s.get("format") in FMT_GOOD:
                return rng.choice(FMT_GOOD[s["format"]])
            good = [x for x in self.str_candidates(s) if self.str_ok(s, x)]
            if not good:
                raise ValueError("no valid string for %r" % s)
            return rng.choice(good)
        if t == "array":
            mn, mx = s.get("minItems", 0), s.get("maxItems", 0)
            choices = [mn, mn + 1] + ([mx, max(mx - 1, mn)] if mx else [mn + 2])
            n = rng.choice([c for c in choices if c >= mn and (not mx or c <= mx)])
            if depth > self.depth_limit:
                n = mn
            it = s.get("items")
            return [self.valid(it, depth + 1, minimal) if it is not None else rng.choice([1, "x", None]) for _ in range(n)]
        if t == "object":
            props = s.get("properties", {})
            req = s.get("required", [])
            d = {}
            for k in props:
                ps = self.resolve(props[k])
                present = k in req or (not minimal and (getattr(self, "maximal", False) or rng.random() < 0.6) and depth <= self.depth_limit)
                if present:
                    d[k] = self.valid(props[k], depth + 1, minimal)
            ap = s.get("additionalProperties")
            if ap is not None and ap is not False and not minimal and (getattr(self, "maximal", False) or rng.random() < 0.7):
                for i in range(rng.randint(1, 2)):
                    d["extra%d" % i] = self.valid(ap, depth + 1, minimal)
            if not props and ap is None and not minimal:
                d["free"] = 1
            return d
        raise ValueError("cannot build a document for %r" % s)

    # ---- single-fault mutants
    def sites(self, s, doc, path=()):
        """yield (path, schema node, value) for every position of doc described by the schema"""
        s0 = s
        s = self.resolve(s)
        yield (path, s0, s, doc)
        ts = types_of(s)
        if isinstance(doc, dict) and ("object" in ts):
            props = s.get("properties", {})
            for k, v in doc.items():
                if k in props:
                    yield from self.sites(props[k], v, path + (k,))
                elif s.get("additionalProperties") not in (None, False):
                    yield from self.sites(s["additionalProperties"], v, path + (k,))
        if isinstance(doc, list) and ("array" in ts) and s.get("items") is not None:
            for i, v in enumerate(doc):
                yield from self.sites(s["items"], v, path + (i,))

    @staticmethod
    def put(doc, path, value, delete=False):
        d = copy.deepcopy(doc)
        if not path:
            return value
        cur = d
        for p in path[:-1]:
            cur = cur[p]
        if delete:
            del cur[path[-1]]
        else:
            cur[path[-1]] = value
        return d

    OTHER = {"null": [1, "x", True, [], {}], "string": [1, True, [], {}], "integer": ["1", True, [], {}, 1.5], "number": ["1", True, [], {}],
             "boolean": ["true", 1, [], {}], "array": ["x", 1, True, {}], "object": ["x", 1, True, []]}

    def mutants(self, doc, classes=None):
        out = []
        for path, s0, s, v in self.sites(self.root, doc):
            ts = types_of(s)
            nn = [x for x in ts if x != "null"]
            t = nn[0] if len(nn) == 1 else None
            # required-key deletion
            if isinstance(v, dict) and "object" in ts:
                for k in s.get("required", []):
                    if k in v:
                        has_default = self.resolve(s.get("properties", {}).get(k, {})).get("default") is not None
                        out.append(("required-default" if has_default else "required", path + (k,), self.put(doc, path + (k,), None, delete=True)))
                for k in s.get("properties", {}):
                    if k in v and k not in s.get("required", []):
                        out.append(("optional-absent", path + (k,), self.put(doc, path + (k,), None, delete=True)))
                if s.get("additionalProperties") is False:
                    out.append(("additional-forbidden", path + ("zzextra",), self.put(doc, path + ("zzextra",), 1)))
            if not path:
                pass
            # wrong JSON type / null
            if t is None and ts == ["null"]:
                t = "null"
            if t in self.OTHER and "enum" not in s and (v is not None or t == "null"):
                for w in self.OTHER[t]:
                    out.append(("type", path, self.put(doc, path, w)))
                if "null" in ts:
                    out.append(("null-allowed", path, self.put(doc, path, None)))
                elif path:
                    out.append(("null-not-allowed", path, self.put(doc, path, None)))
            if "enum" in s:
                for w in ["zz-not-a-member", 987654, 1.5, True, None, [], {}]:
                    if not any(json_eq(w, e) for e in s["enum"]):
                        out.append(("enum", path, self.put(doc, path, w)))
                for e in s["enum"]:
                    out.append(("enum-member", path, self.put(doc, path, copy.deepcopy(e))))
            elif t in ("integer", "number") and isinstance(v, (int, float)) and not isinstance(v, bool):
                for x in self.invalid_nums(s, t == "integer")[:6]:
                    out.append(("bound", path, self.put(doc, path, int(x) if x.denominator == 1 else float(x))))
                for x in [y for y in self.num_candidates(s, t == "integer") if self.num_ok(s, y, t == "integer")][:6]:
                    out.append(("number-valid", path, self.put(doc, path, int(x) if x.denominator == 1 else float(x))))
            elif t == "string" and isinstance(v, str) and s.get("format") in FMT_BAD:
                for x in FMT_BAD[s["format"]]:
                    out.append(("format", path, self.put(doc, path, x)))
            elif t == "string" and isinstance(v, str):
                for x in self.str_candidates(s):
                    out.append(("string-valid" if self.str_ok(s, x) else "string", path, self.put(doc, path, x)))
            elif t == "array" and isinstance(v, list):
                mn, mx = s.get("minItems", 0), s.get("maxItems", 0)
                it = s.get("items")
                for n in sorted(set([max(mn - 1, 0), mn, mx, mx + 1 if mx else mn + 1])):
                    if n == len(v):
                        continue
                    arr = (v + [self.valid(it, len(path) + 1, True) if it is not None else 1 for _ in range(n)])[:n]
                    ok = n >= mn and (not mx or n <= mx)
                    out.append(("items-valid" if ok else "items", path, self.put(doc, path, arr)))
        if classes is not None:
            out = [m for m in out if m[0] in classes]
        # de-duplicate
        seen, res = set(), []
        for m in out:
            key = json.dumps(m[2], sort_keys=True, default=str)
            if key in seen:
                continue
            seen.add(key)
            res.append(m)
        return res


def json_eq(a, b):
    if isinstance(a, bool) or isinstance(b, bool):
        return isinstance(a, bool) and isinstance(b, bool) and a == b
    if isinstance(a, (int, float, F)) and isinstance(b, (int, float, F)):
        return F(a) == F(b)
    if type(a) != type(b):
        return False
    if isinstance(a, list):
        return len(a) == len(b) and all(json_eq(x, y) for x, y in zip(a, b))
    if isinstance(a, dict):
        return set(a) == set(b) and all(json_eq(a[k], b[k]) for k in a)
    return a == b


# ---------------------------------------------------------------------------------- running cases
VERD = {"ACC": 0, "REJ": 1, "PANIC": 2, "FATAL": 2}


class Case:
    """One schema (root + $defs in one file), options, and documents: [{'doc': json value, 'cls': tag, 'path': ...}]."""

    def __init__(self, cid, schema, docs, minsized=False, only_models=False, caps=None, extra_imports=False, wire="json", fam="",
                 extra_files=None, no_model=False, resolve_ext=None, argv=None, mappings=None, tags=None):
        self.cid = cid
        self.schema = schema
        self.docs = docs
        self.minsized = minsized
        self.only_models = only_models
        self.caps = caps or []
        self.extra_imports = extra_imports
        self.wire = wire
        self.fam = fam
        self.extra_files = extra_files or {}      # other schema files of the case: relative path -> text
        self.no_model = no_model                  # outside the Coq model (cross-file references): implementation-only observations
        self.resolve_ext = resolve_ext or []
        self.argv = argv or ["s.json"]
        self.mappings = mappings                  # [(id, root type name)]: all in the case's package and file
        self.tags = tags                          # --tags (None: json, yaml, mapstructure)
        # filled by run_cases
        self.gen_ok = None
        self.build_ok = None
        self.build_err = ""
        self.gen_err = ""
        self.mismatches = []     # (doc index or None, code)
        self.decl_diff = None    # static tie: how the emitted declarations differ from the model
        self.decl_text = None    # the model's declarations (Model/Render.v)
        self.plan_diff = None    # static tie: how the emitted method bodies differ from the model's validator plans
        self.plan_text = None
        self.wf = None           # WfP.wf_ty holds of every type the model generates for the case (None: not evaluated)
        self.batch_case = None

    def cfg(self):
        return {"min_sized_ints": self.minsized, "only_models": self.only_models, "capitalizations": self.caps, "tags": self.tags or ["json", "yaml", "mapstructure"],
                "extra_imports": self.extra_imports, "resolve_extensions": self.resolve_ext,
                "mappings": ([{"id": i, "root": r, "package": self.cid, "output": self.cid + "/gen.go"} for i, r in self.mappings] if self.mappings else
                             [{"id": self.schema.get("$id", ""), "root": "Root", "package": self.cid, "output": self.cid + "/gen.go"}])}

    def replay_obj(self, di=None):
        o = {"kind": "kitchen", "cfg": self.cfg(), "files": dict({"s.json": json.dumps(self.schema)}, **self.extra_files), "argv": self.argv, "family": self.fam}
        if self.decl_diff:
            o["declarations_differ"] = self.decl_diff
        if self.plan_diff:
            o["method_plans_differ"] = self.plan_diff
        if di is not None:
            d = self.docs[di]
            o.update({"doc": json.dumps(d["doc"]), "class": d.get("cls"), "path": list(d.get("path", ())), "impl": d.get("obs"),
                      "valid_under_schema": d.get("valid"), "model_mismatch": d.get("mm")})
        return o


def run_cases(ctx, cases, name, rows_fn=None, chunk=40):
    """Runs the implementation and the model on the cases; fills case.gen_ok/build_ok, doc['obs'], doc['valid'] (reference
    semantics), doc['mm'] (model mismatch code or None) and case.mismatches."""
    from props.c14 import unitab, table_term      # the unicode oracle rows (dumped from Go)
    b = Batch(ctx, name)
    for c in cases:
        jobs = [{"t": d.get("t", "Root"), "doc": d["raw"] if "raw" in d else json.dumps(d["doc"]), "wire": d.get("wire", c.wire), "prior": d.get("prior", "")}
                for d in c.docs]
        c.batch_case = b.add({"id": c.cid, "cfg": c.cfg(), "files": dict({"s.json": json.dumps(c.schema)}, **c.extra_files), "argv": c.argv, "jobs": jobs})
    b.run()
    names = set()
    for c in cases:
        bc = c.batch_case
        c.gen_ok = bool(bc["gen"]["ok"])
        c.gen_err = bc["gen"].get("err") or bc["gen"].get("panic") or ""
        c.gen_panic = bool(bc["gen"].get("panic"))
        c.build_ok = bc["build_ok"]
        c.build_err = bc["build_err"]
        c.scan = bc["scan"]
        for d, j in zip(c.docs, bc["jobs"]):
            d["obs"] = j.get("obs")
        collect_names(c.schema, names)
    rows = unitab(ctx, sorted(names) + [w for c in cases for w in c.caps] + ["Root", "AdditionalProperties", "Elem", "Value"])
    # format oracle: which palette strings the real parsers accept
    fmt_req = [{"fn": "fmtok", "type": f, "s": s} for f in FMT_GOOD for s in FMT_GOOD[f] + FMT_BAD[f]]
    fmt_res = ctx.jsonl("direct", fmt_req)
    ft = ["(%s, %s)" % (FMT[r["type"]], str_term(r["s"])) for r, o in zip(fmt_req, fmt_res) if o.get("ok")]
    header = ("From GJS Require Import Base Bounds IntSize Regex Schema GoType Ident Gen Exec Valid RunCore.\n"
              "Definition T : list crow := %s.\nDefinition FT : list (fmtk * str) := [%s].\n" % (table_term(rows), "; ".join(ft)))
    import concurrent.futures as cf
    modelled = [c for c in cases if not c.no_model]
    groups = [modelled[i:i + chunk] for i in range(0, len(modelled), chunk)]

    def one(gi):
        grp = groups[gi]
        terms = []
        for ci, c in enumerate(grp):
            docs = []
            for di, d in enumerate(c.docs):
                o = d.get("obs")
                if o is None or "raw" in d or d.get("prior") or d.get("t", "Root") != "Root" or d.get("wire", c.wire) != "json":
                    continue
                v = VERD.get(o["v"], 2)
                val = "None"
                # a legal value that coincides with the zero value of its Go type is printed like "unset" by the dump: verdict only
                # (a null document leaves every field at the zero value of its Go type; the model's zero of a referenced type is opaque: verdict only)
                if o["v"] == "ACC" and o.get("dump") is not None and d["doc"] is not None and not any(z in json.dumps(d["doc"]) for z in FMT_ZERO if z != '""'):
                    try:
                        val = "(Some %s)" % gval_term(o["dump"])
                    except ValueError:
                        val = "None"
                docs.append("mkD %d %s %d %s" % (di, json_term(d["doc"]), v, val))
            defs = defs_of(c.schema)
            dterm = "[" + "; ".join("(%s, %s)" % (str_term(k), schema_term(v)) for k, v in defs.items()) + "]"
            terms.append("(%d%%N, mkCase %s %s [%s] %s %s %s %s [%s])" % (
                ci, bool_term(c.minsized), bool_term(c.only_models), "; ".join(str_term(w) for w in c.caps), dterm,
                schema_term(c.schema), str_term("Root"), bool_term(c.gen_ok), ";\n    ".join(docs)))
        text = header + "Definition cases : list (N * ccase) := [\n  " + ";\n  ".join(terms) + "].\n"
        text += "Definition MM := Eval vm_compute in all_mismatches T FT cases.\n"
        text += "Definition VV := Eval vm_compute in all_valid FT cases.\n"
        text += "Definition WF := Eval vm_compute in all_not_wf T cases.\n"
        text += "Definition DD := Eval vm_compute in all_decls T cases.\n"
        text += "Definition PP := Eval vm_compute in all_plans T cases.\n"
        return gi, ctx.coq_lists("%s_%d" % (name, gi), text, ["MM", "VV", "WF", "DD", "PP"], timeout=2400)

    with cf.ThreadPoolExecutor(max_workers=12) as ex:
        for gi, vals in ex.map(one, range(len(groups))):
            grp = groups[gi]
            for ci, lst in parse_assoc(vals["MM"]):
                for di, code in lst:
                    c = grp[ci]
                    if code in (3, 4, 5):
                        c.mismatches.append((None, code))
                    else:
                        c.mismatches.append((di, code))
                        c.docs[di]["mm"] = code
            for c in grp:
                c.wf = True
            for ci in parse_nlist(vals["WF"]):
                grp[ci].wf = False
            for ci, text in parse_assoc_str(vals["DD"]):
                c = grp[ci]
                c.decl_text = text
                if c.gen_ok and c.scan and not any(sc.get("parse_error") for sc in c.scan.values()) and not any(code in (3, 4, 5) for _, code in c.mismatches):
                    diff = decl_diff(text, c.scan)
                    if diff:
                        c.mismatches.append((None, 6))
                        c.decl_diff = diff
            for ci, text in parse_assoc_str(vals["PP"]):
                c = grp[ci]
                c.plan_text = text
                if c.gen_ok and c.scan and not c.mismatches and not any(sc.get("parse_error") for sc in c.scan.values()) \
                        and not names_deduplicated(c.decl_text or "", c.scan):
                    diff = plan_diff(text, c.scan, c.schema)
                    if diff:
                        c.mismatches.append((None, 7))
                        c.plan_diff = diff
            for ci, lst in parse_assoc_bool(vals["VV"]):
                for di, ok in lst:
                    grp[ci].docs[di]["valid"] = ok
    return cases


def collect_names(s, acc):
    if not isinstance(s, dict):
        return
    for k, v in s.get("properties", {}).items():
        acc.add(k)
        collect_names(v, acc)
    for key in ("$defs", "definitions"):
        for k, v in s.get(key, {}).items():
            acc.add(k)
            collect_names(v, acc)
    for key in ("items", "additionalProperties"):
        if isinstance(s.get(key), dict):
            collect_names(s[key], acc)
    for key in ("allOf", "anyOf"):
        for v in s.get(key, []):
            collect_names(v, acc)


def parse_assoc(s):
    """'[(0%N, [(1%N, 2%N); ...]); ...]' -> [(0, [(1,2), ...]), ...]"""
    s = re.sub(r"%[NZ]", "", s)
    out = []
    for m in re.finditer(r"\(\s*(\d+)\s*,\s*\[([^\]]*)\]\s*\)", s):
        inner = [(int(a), int(b)) for a, b in re.findall(r"\(\s*(\d+)\s*,\s*(\d+)\s*\)", m.group(2))]
        out.append((int(m.group(1)), inner))
    return out


def parse_assoc_str(s):
    """'[(0%N, [83%N; 124%N]); (1%N, [])]' -> [(0, 'S|'), (1, '')]"""
    out = []
    for m in re.finditer(r"\(\s*(\d+)%N\s*,\s*\[([^\]]*)\]\s*\)", s):
        out.append((int(m.group(1)), "".join(chr(int(x)) for x in re.findall(r"(\d+)%N", m.group(2)))))
    return out


def _norm_ty(e):
    e = re.sub(r"struct\s*\{.*\}", "struct", e, flags=re.S)
    return re.sub(r"\s+", "", e)


def scan_decls(scan):
    """the go/parser projection of the emitted files in the canonical form of Model/Render.v: name -> line"""
    out = {}
    for sc in scan.values():
        meths = set(m[0].lstrip("*") for m in sc.get("methods", []) if m[1] == "UnmarshalJSON")
        for t in sc.get("types", []):
            if t["kind"] == "alias":
                continue
            m = "1" if t["name"] in meths else "0"
            if t["kind"] == "struct":
                fl = ""
                for f in t.get("fields", []):
                    jm = re.search(r'json:"([^"]*)"', f.get("tag", ""))
                    jn, omit = "", "0"
                    if jm:
                        parts = jm.group(1).split(",")
                        jn, omit = parts[0], "1" if "omitempty" in parts[1:] else "0"
                    fl += "%s:%s:%s:%s;" % (f["name"], _norm_ty(f["type"]), jn, omit)
                out[t["name"]] = "S|%s|%s|%s" % (t["name"], m, fl)
            else:
                out[t["name"]] = "N|%s|%s|%s" % (t["name"], m, _norm_ty(t["expr"]))
    return out


def names_deduplicated(model_text, scan):
    """an emitted type carries a numeric suffix the model does not give it (anyOf branch types are named <T>_<i> by the model too)"""
    declared = set(line.split("|", 3)[1] for line in model_text.split("\n") if line)
    return any(re.search(r"_\d+$", n) and n not in declared for n in scan_decls(scan))


def decl_diff(model_text, scan):
    """None when every declaration of the model is emitted with the same fields / underlying type / method; else a description.
    A field may name another declared type than the model does when that type is declared with the same body (the generator re-uses the
    declaration made for a schema node it meets again through a shared pointer, e.g. an enum of an allOf member): the name table is outside
    the model, the shape is not."""
    impl = scan_decls(scan)
    if names_deduplicated(model_text, scan):
        return None          # type names were de-duplicated with suffixes (the name table across declarations is outside the model)
    suffixed = False
    model = {}
    for line in model_text.split("\n"):
        if not line:
            continue
        kind, name, flag, rest = line.split("|", 3)
        if kind == "E":
            # a plain enum is a named type over its carrier, a wrapped one a struct around `Value interface{}`; both always have the method
            line = ("N|%s|1|%s" % (name, rest)) if flag == "0" else ("S|%s|1|Value:interface{}::0;" % name)
        model.setdefault(name, line)

    def split_ty(t):
        m = re.match(r"^((?:\[\]|\*|map\[string\])*)(.*)$", t)
        return m.group(1), m.group(2)

    def same_ty(tm, ti, depth):
        tm, ti = _norm_ty(tm), _norm_ty(ti)
        if tm == ti:
            return True
        pm, bm = split_ty(tm)
        pi, bi = split_ty(ti)
        if pm != pi or depth <= 0 or bm not in model or bi not in impl:
            return False
        return same_line(model[bm], impl[bi], depth - 1)

    def same_line(lm, li, depth):
        km, _, fm, rm = lm.split("|", 3)
        ki, _, fi, ri = li.split("|", 3)
        if km != ki or fm != fi:
            return False
        if km == "N":
            return same_ty(rm, ri, depth)
        am, ai = [x for x in rm.split(";") if x], [x for x in ri.split(";") if x]
        if len(am) != len(ai):
            return False
        for x, y in zip(am, ai):
            xm, xi = x.split(":"), y.split(":")
            if len(xm) != 4 or len(xi) != 4:
                if x != y:
                    return False
                continue
            if xm[0] != xi[0] or xm[2] != xi[2] or xm[3] != xi[3] or not same_ty(xm[1], xi[1], depth):
                return False
        return True

    for name, want in model.items():
        got = impl.get(name)
        if got is None:
            if suffixed:
                continue          # type names were de-duplicated with suffixes: the name table is outside the model
            # a type the model declares under this name may have been declared under the name of the first schema node it was met at
            if any(same_line(want.replace("|%s|" % name, "|%s|" % n, 1), l, 3) for n, l in impl.items()):
                continue
            return "the model declares %s, the emitted code has no such type" % name
        if not same_line(want, got, 3):
            return "declaration of %s: model %r, emitted %r" % (name, want, got)
    return None


# ---------------------------------------------------------------- the plan tie: method bodies vs Model/Render.v plan lines
_IDX = r"((?:\[i\d+\])*)"
_FLD = r"plain(?:\.(\w+))?"


def _num(text, kind):
    """canonical numeral: integer kinds exactly, float kinds as the float64 the text denotes (printed as an exact fraction)"""
    from fractions import Fraction as Fr
    try:
        if "/" in text:
            a, b = text.split("/")
            q = Fr(int(a), int(b))
            if kind != "i":
                q = Fr(float(q))
        elif re.match(r"^-?\d+$", text):
            q = Fr(int(text))
            if kind != "i":
                q = Fr(float(q))
        else:
            q = Fr(float(text))
        return str(q)
    except (ValueError, OverflowError, ZeroDivisionError):
        return "?" + text


def _seq(suffix, start):
    """[i1][i2][i3] names the levels start, start+1, ... in order"""
    idx = [int(x) for x in re.findall(r"\[i(\d+)\]", suffix)]
    return idx == list(range(start, start + len(idx)))


def _msg_name(expr):
    """"a" or fmt.Sprintf("a[%d]", i1) -> a"""
    m = re.match(r'^fmt\.Sprintf\("(.*?)((?:\[%d\])*)"(?:, i\d+)*\)$', expr) or re.match(r'^"(.*)"()$', expr)
    return m.group(1) if m else "?" + expr


def plan_of_body(body, patterns=None):
    """the canonical plan lines (Model/Render.v) read off one emitted Unmarshal method; text that carries a check or an assignment to
    `plain` and fits no template is kept as a line '?...' (it then differs from whatever the model says)"""
    # a raw string literal may span lines (a pattern with a line break): keep every statement on one line
    flat, in_raw = [], False
    for ch in body:
        if ch == "`":
            in_raw = not in_raw
        flat.append("\u2424" if (in_raw and ch == "\n") else ch)
    L = [l.strip() for l in "".join(flat).split("\n")]
    out = ["W|%d" % (1 if any(l == "var raw map[string]interface{}" for l in L) else 0)]
    nbranch = 0
    loops = []
    i = 0
    skip = (re.compile(r"^(\{|\}|return err|return nil|var raw map\[string\]interface\{\}|var plain \w+|var errs \[\]error|errs = append\(errs, err\)|"
                       r"if err := (json\.Unmarshal|value\.Decode)\((value, )?&raw\); err != nil \{|\*j = \w+\(plain\)|"
                       r"st := reflect\.TypeOf\(\w+\{\}\)|for i := range st\.NumField\(\) \{|delete\(raw, .*\)|if plain[\w.]* != nil \{)$"))
    while i < len(L):
        l = L[i]
        nxt = L[i + 1] if i + 1 < len(L) else ""
        m = re.match(r'^if _, ok := raw\["(.*)"\]; raw != nil && !ok \{$', l)
        if m:
            e = re.match(r'^return fmt\.Errorf\("field (.*) in \w+: required"\)$', nxt)
            out.append("R|" + m.group(1) if e and e.group(1) == m.group(1) else "?" + l + nxt)
            i += 2
            continue
        if re.match(r"^var \w+ \w+$", l) and l != "var plain Plain" and not l.startswith("var plain "):
            i += 1
            continue
        if re.match(r"^if err := \w+\.Unmarshal(JSON|YAML)\(value\); err != nil \{$", l):
            nbranch += 1
            i += 1
            continue
        m = re.match(r"^if len\(errs\) == (\d+) \{$", l)
        if m:
            out.append("Y|%s" % m.group(1) if int(m.group(1)) == nbranch and "all validators failed" in nxt else "?" + l)
            i += 2
            continue
        if re.match(r"^type \w+ \w+$", l):
            out.append("-")
            i += 1
            continue
        if re.match(r"^if err := (json\.Unmarshal|value\.Decode)\((value, )?&plain\); err != nil \{$", l):
            i += 1
            continue
        m = re.match(r'^if v, ok := raw\["(.*)"\]; !ok \|\| v == nil \{$', l)
        if m:
            a = re.match(r"^" + _FLD + r" = ", nxt)
            out.append("D|%s|%s" % (a.group(1) or "", m.group(1)) if a else "?" + l + nxt)
            i += 2
            # the literal may span lines: skip to the closing brace of the if
            depth = nxt.count("{") - nxt.count("}")
            while i < len(L) and (depth > 0 or L[i] != "}"):
                depth += L[i].count("{") - L[i].count("}")
                i += 1
            continue
        m = re.match(r"^if " + _FLD + _IDX + r" != nil \{$", l)
        if m and "must be null" in nxt:
            e = re.match(r'^return fmt\.Errorf\("field %s: must be null", (.*)\)$', nxt)
            out.append("N|%s|%d|%s" % (m.group(1) or "", m.group(2).count("["), _msg_name(e.group(1))) if e and _seq(m.group(2), 0) else "?" + l + nxt)
            i += 2
            continue
        m = re.match(r"^if (plain[\w.]*(?:\[i\d+\])*) != nil && len\((plain[\w.]*(?:\[i\d+\])*)\) < (\d+) \{$", l)
        if m:
            e = re.match(r'^return fmt\.Errorf\("field %s length: must be >= %d", (.*), (\d+)\)$', nxt)
            f = re.match(r"^" + _FLD + _IDX + "$", m.group(1))
            ok = e and f and e.group(2) == m.group(3) and m.group(1) == m.group(2) and _seq(f.group(2), 1)
            out.append("A|%s|%d|<|%s|%s" % (f.group(1) or "", f.group(2).count("["), m.group(3), _msg_name(e.group(1))) if ok else "?" + l + nxt)
            i += 2
            continue
        m = re.match(r"^if len\(" + _FLD + _IDX + r"\) > (\d+) \{$", l)
        if m and "length" in nxt:
            e = re.match(r'^return fmt\.Errorf\("field %s length: must be <= %d", (.*), (\d+)\)$', nxt)
            # an array limit names its field by a Sprintf or a plain literal; a string limit of a non-nillable field has the same shape:
            # told apart by the type of the field below (plan_diff), here by nothing: both are written A/L-neutral as 'G'
            out.append("G|%s|%d|>|%s|%s" % (m.group(1) or "", m.group(2).count("["), m.group(3), _msg_name(e.group(1))) if e and e.group(2) == m.group(3) and _seq(m.group(2), 1) else "?" + l + nxt)
            i += 2
            continue
        m = re.match(r"^if len\(" + _FLD + r"\) < (\d+) \{$", l)
        if m:
            e = re.match(r'^return fmt\.Errorf\("field %s length: must be >= %d", "(.*)", (\d+)\)$', nxt)
            out.append("L|%s|0|<|%s|%s" % (m.group(1) or "", m.group(2), e.group(1)) if e and e.group(2) == m.group(2) else "?" + l + nxt)
            i += 2
            continue
        m = re.match(r"^if " + _FLD + r" != nil && len\(\*" + _FLD + r"\) ([<>]) (\d+) \{$", l)
        if m:
            e = re.match(r'^return fmt\.Errorf\("field %s length: must be ([<>])= %d", "(.*)", (\d+)\)$', nxt)
            ok = e and m.group(1) == m.group(2) and e.group(3) == m.group(4) and {"<": ">", ">": "<"}[m.group(3)] == e.group(1)
            out.append("L|%s|1|%s|%s|%s" % (m.group(1) or "", m.group(3), m.group(4), e.group(2)) if ok else "?" + l + nxt)
            i += 2
            continue
        m = re.match(r"^if matched, _ := regexp\.MatchString\(`(.*)`, string\((\*?)" + _FLD + r"\)\); !matched \{$", l)
        if m:
            prev = L[i - 1] if i else ""
            guarded = prev == "if plain%s != nil {" % ("." + m.group(3) if m.group(3) else "")
            e = re.match(r'^return fmt\.Errorf\("field %s pattern match: must match %s", "(.*)", `(.*)`\)$', nxt)
            ok = e and guarded == (m.group(2) == "*") and e.group(2) == m.group(1)
            out.append("P|%s|%d" % (m.group(3) or "", 1 if guarded else 0) if ok else "?" + l + nxt)
            if patterns is not None:
                patterns.append(m.group(1).replace("\u2424", "\n"))
            i += 2
            continue
        m = re.match(r"^if (?:" + _FLD + r" != nil && )?(\*?)" + _FLD + r"%(-?[\w.+]+) != 0 \{$", l)
        if m:
            e = re.match(r'^return fmt\.Errorf\("field %s: must be a multiple of %v", "(.*)", (.*)\)$', nxt)
            g = m.group(2) == "*"
            ok = e and (g == (m.group(1) is not None or l.startswith("if plain != nil"))) and (not g or (m.group(1) or "") == (m.group(3) or ""))
            ok = ok and (("!= nil &&" in l) == g)
            out.append("M|%s|%d|i|%s|%s" % (m.group(3) or "", 1 if g else 0, _num(m.group(4), "i"), e.group(1)) if ok else "?" + l + nxt)
            i += 2
            continue
        m = re.match(r"^if (?:" + _FLD + r" != nil && )?math\.Abs\(math\.Mod\((\*?)" + _FLD + r", (-?[\w.+-]+)\)\) > 1e-10 \{$", l)
        if m:
            e = re.match(r'^return fmt\.Errorf\("field %s: must be a multiple of %v", "(.*)", (.*)\)$', nxt)
            g = m.group(2) == "*"
            ok = e and (("!= nil &&" in l) == g) and (not g or (m.group(1) or "") == (m.group(3) or ""))
            out.append("M|%s|%d|f|%s|%s" % (m.group(3) or "", 1 if g else 0, _num(m.group(4), "f"), e.group(1)) if ok else "?" + l + nxt)
            i += 2
            continue
        m = re.match(r"^if (?:" + _FLD + r" != nil && )?(-?[\w.+-]+) (<=|>=|<|>) (\*?)" + _FLD + r" \{$", l)
        if m:
            e = re.match(r'^return fmt\.Errorf\("field %s: must be (<=|>=|<|>) %v", "(.*)", (.*)\)$', nxt)
            g = m.group(4) == "*"
            ok = e and (("!= nil &&" in l) == g) and (not g or (m.group(1) or "") == (m.group(5) or ""))
            if ok:
                ok = _num(e.group(3), "f") == _num(m.group(2), "f")
            out.append("B|%s|%d|-|%s|%s|%s|%s" % (m.group(5) or "", 1 if g else 0, m.group(3), _num(m.group(2), "f"), e.group(1), e.group(2)) if ok else "?" + l + nxt)
            i += 2
            continue
        m = re.match(r"^for i(\d+) := range (plain[\w.]*)((?:\[i\d+\])*) \{$", l)
        if m:
            # a range loop of a nest: level n ranges over the element reached through the indices of the levels before it
            idx = [int(x) for x in re.findall(r"\[i(\d+)\]", m.group(3))]
            n = int(m.group(1))
            if not ((not idx and n in (0, 1)) or (idx and idx == list(range(idx[0], n)) and idx[0] in (0, 1))):
                out.append("?" + l)
            loops.append((n, m.group(2)))
            i += 1
            continue
        if l.startswith("if err := mapstructure.Decode(raw, &plain.AdditionalProperties)"):
            out.append("X")
            i += 1
            continue
        if skip.match(l) or not l:
            i += 1
            continue
        if "Errorf" in l or re.match(r"^plain\b.* = ", l) or l.startswith("if "):
            out.append("?" + l)
        i += 1
    # the frame around the checks: every decode failure is returned, the checked value is what is assigned at the end
    K = [l for l in L if l and l not in ("{", "}")]
    for j, l in enumerate(K):
        if re.match(r"^if err := (json\.Unmarshal|value\.Decode|mapstructure\.Decode)\(.*\); err != nil \{$", l) and (j + 1 >= len(K) or K[j + 1] != "return err"):
            out.append("?" + l + " not followed by return err")
        if re.match(r"^if err := \w+\.Unmarshal(JSON|YAML)\(value\); err != nil \{$", l) and (j + 1 >= len(K) or K[j + 1] != "errs = append(errs, err)"):
            out.append("?" + l + " not followed by the append")
    tm = [re.match(r"^type (\w+) (\w+)$", l) for l in K]
    tm = [m for m in tm if m]
    if len(K) < 2 or K[-1] != "return nil" or not tm or K[-2] != "*j = %s(plain)" % tm[0].group(2) or ("var plain %s" % tm[0].group(1)) not in K \
            or not any(re.match(r"^if err := (json\.Unmarshal\(value, |value\.Decode\()&plain\); err != nil \{$", l) for l in K):
        out.append("?frame")
    return out


def _plan_canon(line):
    """a model line in the spelling plan_of_body gives the same check"""
    p = line.split("|")

    def i64(text):
        # int64(x) of a float64 outside the int64 range is the most negative int64 on amd64 (finding D56, C05-bound-beyond-int64):
        # the model keeps the exact integer, the emitted constant is what the conversion gave
        a, b = text.split("/")
        return "%d/1" % (-2 ** 63) if b == "1" and not (-2 ** 63 <= int(a) < 2 ** 63) else text
    if p[0] == "M":
        p[4] = _num(i64(p[4]) if p[3] == "i" else p[4], p[3])
    elif p[0] == "B":
        p[5] = _num(i64(p[5]) if p[3] == "i" else p[5], "f")
        p[3] = "-"          # the kind of a bound cannot be read off the emitted text (4.0 prints as 4)
    return "|".join(p)


def schema_patterns(s):
    if isinstance(s, dict):
        for k, v in s.items():
            if k == "pattern" and isinstance(v, str):
                yield v
            else:
                yield from schema_patterns(v)
    elif isinstance(s, list):
        for v in s:
            yield from schema_patterns(v)


def plan_diff(model_text, scan, schema=None):
    """None when every method the model plans is emitted with exactly the model's checks in the model's order (both decoders); else a description"""
    bodies = {}
    for sc in scan.values():
        bodies.update(sc.get("bodies", {}))
    blocks, cur = {}, None
    for line in model_text.split("\n"):
        if not line:
            continue
        if line.startswith("T|"):
            cur = blocks.setdefault(line[2:], [])
            if cur:
                cur = []          # the same declared type reached twice: the first plan stands
            continue
        if cur is not None:
            cur.append(_plan_canon(line))
    for name, want in blocks.items():
        for wire in ("JSON", "YAML"):
            body = bodies.get("*%s.Unmarshal%s" % (name, wire))
            if body is None:
                continue            # presence of the methods is the business of the declaration tie
            pats = []
            got = plan_of_body(body, pats)
            if schema is not None:
                # the residue of a pattern check: its text is the text of a `pattern` keyword of the schema, byte for byte
                known = set(schema_patterns(schema))
                odd = [x for x in pats if x not in known]
                if odd:
                    return "%s.Unmarshal%s tests the expression %r, the schema has %s" % (name, wire, odd[0], sorted(known)[:6])
            # a maximum length on a non-nillable field reads the same for arrays and strings
            norm = lambda ls: [re.sub(r"^A\|([^|]*)\|(\d+)\|>", r"G|\1|\2|>", re.sub(r"^L\|([^|]*)\|0\|>", r"G|\1|0|>", x)) for x in ls]
            w, g = norm(want), norm(got)
            # numerals of integer kind in the model are exact; the emitted text may be a float spelling of the same number
            if w != g:
                k = next((j for j in range(min(len(w), len(g))) if w[j] != g[j]), min(len(w), len(g)))
                return "%s.Unmarshal%s: check %d is %r in the emitted method, %r in the model's plan" % (
                    name, wire, k, g[k] if k < len(g) else "(nothing)", w[k] if k < len(w) else "(nothing)")
    return None


def parse_assoc_bool(s):
    s = re.sub(r"%[NZ]", "", s)
    out = []
    for m in re.finditer(r"\(\s*(\d+)\s*,\s*\[([^\]]*)\]\s*\)", s):
        inner = [(int(a), b == "true") for a, b in re.findall(r"\(\s*(\d+)\s*,\s*(true|false)\s*\)", m.group(2))]
        out.append((int(m.group(1)), inner))
    return out
