"""Gallina printers shared by the property checks (Python values -> terms of coq/Base, coq/Model)."""
import re
from fractions import Fraction as F

from .core import q_str, rat_str, opt, bool_term, str_term, list_term, parse_nlist  # noqa: F401


def ex_term(e):
    if e is None:
        return "None"
    if isinstance(e, bool):
        return "(Some (ExBool %s))" % bool_term(e)
    return "(Some (ExNum %s))" % q_str(e)


def bounds_term(c):
    return "(mkBounds %s %s %s %s)" % (opt(c.get("min"), q_str), opt(c.get("max"), q_str), ex_term(c.get("exmin")), ex_term(c.get("exmax")))


def ex_json(e):
    return e if (e is None or isinstance(e, bool)) else rat_str(e)


def ex_schema(e):
    """exclusive bound as it appears in a JSON schema"""
    return e if (e is None or isinstance(e, bool)) else num_json(e)


def num_json(x):
    """exact rational -> JSON number (int when integral, else float; the families only use float64-exact values)"""
    f = F(x)
    return int(f) if f.denominator == 1 else float(f)


def z_term(z):
    return "(%d)%%Z" % z


INTK = {"int": "KInt", "int8": "KI8", "int16": "KI16", "int32": "KI32", "int64": "KI64",
        "uint8": "KU8", "uint16": "KU16", "uint32": "KU32", "uint64": "KU64"}


def parse_pairs(s):
    """'[(3%N, (-5)%Z); ...]' printed by Coq -> [(3, -5), ...] (all integers found, grouped in pairs)"""
    nums = [int(x) for x in re.findall(r"-?\d+", re.sub(r"%[NZ]", "", s))]
    return list(zip(nums[0::2], nums[1::2]))


def json_term(j):
    """Python JSON value -> Gallina json (numbers: ints as bare integer literals, floats as exact rationals)"""
    if j is None:
        return "JNull"
    if isinstance(j, bool):
        return "(JBool %s)" % bool_term(j)
    if isinstance(j, int):
        return "(JInt (%d))" % j
    if isinstance(j, float) or isinstance(j, F):
        return "(JQ %s)" % q_str(F(j))
    if isinstance(j, str):
        return "(JStr %s)" % str_term(j)
    if isinstance(j, list):
        return "(JArr [%s])" % "; ".join(json_term(x) for x in j)
    if isinstance(j, dict):
        return "(JObj [%s])" % "; ".join("(%s, %s)" % (str_term(k), json_term(v)) for k, v in j.items())
    raise TypeError(type(j))
