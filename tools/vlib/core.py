"""Shared machinery of the checks: scratch handling, rebuilding the implementation side
from /repo's working tree, evaluating the Coq model, the proof step, verdicts, replays,
known findings and evidence.  See DESIGN.md sections 4, 5 and 9."""
import atexit
import hashlib
import json
import os
import random
import re
import shutil
import subprocess
import sys
import time
from fractions import Fraction

VERIF = os.path.abspath(os.path.join(os.path.dirname(__file__), "..", ".."))
REPO = os.environ.get("VERIF_REPO", "/repo")
COQ = os.path.join(VERIF, "coq")
GOENV = {
    "GOFLAGS": "-mod=mod", "GOPROXY": "off", "GOSUMDB": "off", "GOTOOLCHAIN": "local", "GOWORK": "off",
    "CGO_ENABLED": "0",
}
FORBIDDEN = re.compile(
    r"\b(Admitted|admit|Axiom|Axioms|Parameter|Parameters|Conjecture|Conjectures|Abort All|"
    r"Unset Guard Checking|Unset Positivity Checking|Unset Universe Checking|bypass_check|"
    r"Admit Obligations|type-in-type|impredicative-set|native_compute)\b")
OBLIGATION = re.compile(r"^\s*(Theorem|Lemma|Example|Corollary|Fact|Remark|Proposition)\s+([A-Za-z0-9_']+)", re.M)


def env_go():
    e = dict(os.environ)
    e.update(GOENV)
    return e


def sha(obj):
    return hashlib.sha256(json.dumps(obj, sort_keys=True, default=str).encode()).hexdigest()[:16]


class Ctx:
    def __init__(self, pid, tier, seed):
        self.pid = pid
        self.tier = tier
        self.seed = seed
        self.rng = random.Random((seed << 8) ^ int(pid[1:]))
        self.t0 = time.time()
        base = os.environ.get("VERIF_SCRATCH") or "/var/tmp"
        self.scratch = os.path.join(base, "verif-%s-%d" % (pid, os.getpid()))
        os.makedirs(self.scratch, exist_ok=True)
        atexit.register(self.cleanup)
        self.violations = []          # dicts: replay, note, no_input
        self.known_lines = []
        self.notes = []
        self.cov = {
            "evaluations": 0, "distinct_nontrivial": 0, "rule": "", "samples": [],
            "obligations": 0, "discharged": 0, "checker_cmd": "", "trusted_base": [],
            "programs": 0, "disagreements_checked": 0, "exhaustive": False, "families": {},
        }
        self._seen = set()
        self._bins = {}
        self.assumptions = []
        self.replay_n = 0

    # ------------------------------------------------------------------ utilities
    def cleanup(self):
        if os.environ.get("VERIF_KEEP"):
            return
        shutil.rmtree(self.scratch, ignore_errors=True)

    def log(self, *a):
        print("[%s %6.1fs]" % (self.pid, time.time() - self.t0), *a, flush=True)

    def sh(self, cmd, cwd=None, timeout=1200, env=None, inp=None, check=False):
        p = subprocess.run(cmd, cwd=cwd, env=env, input=inp, capture_output=True, text=True, timeout=timeout,
                           shell=isinstance(cmd, str))
        if check and p.returncode != 0:
            raise RuntimeError("command failed: %s\n%s\n%s" % (cmd, p.stdout[-4000:], p.stderr[-4000:]))
        return p

    def count(self, case, nontrivial=True, family=None):
        """Book-keeping for evidence: one evaluation; distinct & non-trivial counted by hash."""
        self.cov["evaluations"] += 1
        if family:
            f = self.cov["families"].setdefault(family, {"evaluations": 0})
            f["evaluations"] += 1
        if nontrivial:
            h = sha(case)
            if h not in self._seen:
                self._seen.add(h)
                self.cov["distinct_nontrivial"] += 1

    def sample(self, obj, limit=6):
        if len(self.cov["samples"]) < limit:
            self.cov["samples"].append(obj)

    # ------------------------------------------------------------------ implementation side
    def harness_dir(self):
        """A scratch copy of the harness module (so that `go` never rewrites files under /verif)."""
        d = os.path.join(self.scratch, "harness")
        if not os.path.isdir(d):
            shutil.copytree(os.path.join(VERIF, "harness"), d)
            if REPO != "/repo":
                gm = open(os.path.join(d, "go.mod")).read().replace("=> /repo", "=> " + REPO)
                open(os.path.join(d, "go.mod"), "w").write(gm)
        return d

    def gjsrun(self):
        """Build the harness tool against /repo's working tree, with the hook tag on."""
        if "gjsrun" not in self._bins:
            out = os.path.join(self.scratch, "gjsrun")
            p = self.sh(["go", "build", "-tags", "verif", "-o", out, "./cmd/gjsrun"], cwd=self.harness_dir(), env=env_go())
            if p.returncode != 0:
                self.build_failure("harness tool does not build against /repo", p.stdout + p.stderr)
            self._bins["gjsrun"] = out
        return self._bins["gjsrun"]

    def cli(self):
        """Build the real CLI binary from /repo's working tree."""
        if "cli" not in self._bins:
            out = os.path.join(self.scratch, "go-jsonschema")
            p = self.sh(["go", "build", "-o", out, "github.com/atombender/go-jsonschema"], cwd=self.harness_dir(), env=env_go())
            if p.returncode != 0:
                self.build_failure("CLI does not build from /repo", p.stdout + p.stderr)
            self._bins["cli"] = out
        return self._bins["cli"]

    def build_failure(self, what, log):
        # The tree does not compile: no property can be shown to hold on it.
        path = self.write_replay({"step": "build", "what": what, "log": log[-6000:]})
        self.violations.append({"replay": path, "note": what, "no_input": True})
        self.finish()

    def jsonl(self, sub, cases, extra=None, timeout=1200):
        inp = "".join(json.dumps(c) + "\n" for c in cases)
        cmd = [self.gjsrun(), sub] + (extra or [])
        p = self.sh(cmd, inp=inp, timeout=timeout, env=env_go())
        if p.returncode != 0:
            raise RuntimeError("gjsrun %s failed: %s" % (sub, p.stderr[-3000:]))
        res = [json.loads(l) for l in p.stdout.splitlines() if l.strip()]
        if len(res) != len(cases):
            raise RuntimeError("gjsrun %s: %d results for %d cases\n%s" % (sub, len(res), len(cases), p.stderr[-2000:]))
        return res

    # ------------------------------------------------------------------ model side
    def coqc(self, name, text, timeout=900):
        """Compile a scratch .v file against the built development; returns stdout+stderr."""
        d = os.path.join(self.scratch, "coq")
        os.makedirs(d, exist_ok=True)
        f = os.path.join(d, name + ".v")
        open(f, "w").write(text)
        p = self.sh(["coqc", "-Q", COQ, "GJS", f], cwd=d, timeout=timeout)
        return p.returncode, p.stdout + p.stderr

    def coq_lists(self, name, text, defs, timeout=900):
        """Evaluate definitions inside Coq and return, for each requested name, the printed
        value (text between '=' and the trailing ': type').  Raises if coqc fails."""
        body = text + "\n" + "\n".join("Print %s." % d for d in defs) + "\n"
        rc, out = self.coqc(name, body, timeout)
        if rc != 0:
            raise RuntimeError("coqc failed on %s:\n%s" % (name, out[-3000:]))
        res = {}
        for d in defs:
            m = re.search(r"^%s\s*=\s*(.*?)\n\s*:\s" % re.escape(d), out, re.S | re.M)
            if not m:
                raise RuntimeError("no value for %s in coqc output:\n%s" % (d, out[-2000:]))
            res[d] = " ".join(m.group(1).split())
        return res

    # ------------------------------------------------------------------ proof step
    def proof_step(self, props_file, extra_files=()):
        """make the development (full .vo build), recompile the property file capturing
        Print Assumptions, scan the cone for forbidden vernacular, count obligations."""
        t = time.time()
        # one build at a time: several checks may run concurrently
        p = self.sh("flock %s/.build.lock make -C %s -j16" % (COQ, COQ), timeout=3000)
        cone = self.cone(props_file)
        ok = p.returncode == 0
        log = p.stdout + p.stderr
        failed_file = None
        if not ok:
            m = re.search(r'File "\./([^"]+)"', log)
            failed_file = m.group(1) if m else "?"
            # a failure outside this property's cone is not this property's business
            if failed_file in cone or failed_file == "?":
                self.proof_broken("coq build failed in %s" % failed_file, log[-3000:], props_file)
                return False
        # recompile the property file itself to capture Print Assumptions
        d = os.path.join(self.scratch, "coq")
        os.makedirs(d, exist_ok=True)
        src = os.path.join(COQ, props_file)
        p2 = self.sh(["coqc", "-Q", COQ, "GJS", "-noglob", "-o", os.path.join(d, os.path.basename(props_file) + "o"), src],
                     cwd=COQ, timeout=1200)
        out = p2.stdout + p2.stderr
        if p2.returncode != 0:
            self.proof_broken("property file does not compile", out[-3000:], props_file)
            return False
        closed = len(re.findall(r"Closed under the global context", out))
        axioms = re.findall(r"^Axioms:\n((?:.+\n)+)", out, re.M)
        text = open(src).read()
        n_pa = len(re.findall(r"^Print Assumptions", text, re.M))
        axiom_names = sorted(set(l.split(":")[0].strip() for a in axioms for l in a.splitlines() if l and not l.startswith(" ")))
        # forbidden vernacular anywhere in the cone
        bad = []
        obligations = 0
        for f in cone:
            s = open(os.path.join(COQ, f)).read()
            s_nc = re.sub(r"\(\*.*?\*\)", "", s, flags=re.S)
            for m in FORBIDDEN.finditer(s_nc):
                bad.append("%s: %s" % (f, m.group(1)))
            obligations += len(OBLIGATION.findall(s_nc))
        if bad:
            self.proof_broken("forbidden vernacular in the development: " + ", ".join(bad[:5]), "", props_file)
            return False
        if closed != n_pa:
            # axioms appeared: only the standard library's own are tolerated, and they must be named
            allowed = {"functional_extensionality_dep", "proof_irrelevance", "classic", "JMeq_eq", "eq_rect_eq"}
            extra = [a for a in axiom_names if a.split(".")[-1] not in allowed]
            if extra or not axiom_names:
                self.proof_broken("Print Assumptions is not closed: %s" % (extra or out[-800:]), out[-3000:], props_file)
                return False
        if self.tier == "thorough":
            # the independent checker re-checks the compiled property file and everything it depends on
            mod = "GJS." + props_file[:-2].replace("/", ".")
            p3 = self.sh(["coqchk", "-silent", "-o", "-Q", COQ, "GJS", mod], cwd=COQ, timeout=3000)
            o3 = p3.stdout + p3.stderr
            m3 = re.search(r"\* Axioms:\s*(.*?)\n\s*\n\s*\* Constants/Inductives relying on type-in-type:\s*(.*?)\n\s*\n\s*\* Constants/Inductives relying on unsafe \(co\)fixpoints:\s*(.*?)\n\s*\n\s*\* Inductives whose positivity is assumed:\s*(.*?)\n", o3, re.S)
            if p3.returncode != 0 or not m3 or any(g.strip() != "<none>" for g in m3.groups()):
                self.proof_broken("coqchk does not accept %s with an empty context summary" % mod, o3[-3000:], props_file)
                return False
            self.cov["coqchk"] = {"module": mod, "axioms": "<none>", "type_in_type": "<none>", "unsafe_fixpoints": "<none>", "assumed_positivity": "<none>"}
        self.cov["obligations"] = obligations
        self.cov["discharged"] = obligations
        self.cov["checker_cmd"] = "make -C coq -j16 && coqc -Q coq GJS coq/%s  (Coq 8.16.1 kernel; full .vo build)%s" % (
            props_file, " && coqchk -silent -o -Q coq GJS GJS.%s" % props_file[:-2].replace("/", ".") if self.tier == "thorough" else "")
        self.cov["print_assumptions"] = {"theorems": n_pa, "closed": closed, "axioms": axiom_names}
        self.cov["cone"] = cone
        self.cov["proof_wall_s"] = round(time.time() - t, 1)
        self.cov["trusted_base"] = [
            "Coq 8.16.1 kernel incl. the vm_compute bytecode VM (no native_compute, no -type-in-type, no guard/positivity/universe switches)",
            "axioms reported by Print Assumptions under the property theorems: %s" % (", ".join(axiom_names) or "none (Closed under the global context)"),
            "hand-written Gallina model of /repo (coq/Model, coq/Spec): tied to the code by the correspondence run of this check, not verified",
            "correspondence harness: Go toolchain 1.23.5, harness/cmd/gjsrun, tools/vlib, canonicalisation of observables",
        ]
        return True

    def cone(self, props_file):
        p = self.sh(["coqdep", "-Q", ".", "GJS"] + self.vfiles(), cwd=COQ)
        deps = {}
        for line in p.stdout.splitlines():
            if ":" not in line:
                continue
            lhs, rhs = line.split(":", 1)
            tgt = [x for x in lhs.split() if x.endswith(".vo")]
            if not tgt:
                continue
            v = tgt[0][:-1]
            deps[v] = [x[:-1] for x in rhs.split() if x.endswith(".vo") and not x.startswith("/")]
        cone, todo = [], [props_file]
        while todo:
            f = todo.pop()
            f = os.path.normpath(f)
            if f in cone:
                continue
            cone.append(f)
            todo.extend(deps.get(f, []))
        return sorted(cone)

    def vfiles(self):
        fs = []
        for l in open(os.path.join(COQ, "_CoqProject")):
            l = l.strip()
            if l.endswith(".v"):
                fs.append(l)
        return fs

    def proof_broken(self, what, log, props_file):
        path = self.write_replay({"step": "proof", "theorem_file": "coq/" + props_file, "what": what, "log": log})
        self.violations.append({"replay": path, "note": what, "no_input": True, "step": "proof"})

    # ------------------------------------------------------------------ verdicts
    def write_replay(self, obj):
        d = os.path.join(VERIF, "replays", self.pid)
        os.makedirs(d, exist_ok=True)
        self.replay_n += 1
        obj = dict(obj)
        obj.setdefault("property", self.pid)
        obj.setdefault("seed", self.seed)
        obj.setdefault("tier", self.tier)
        path = os.path.join(d, "%s-%d-%d.json" % (self.tier, self.seed, self.replay_n))
        json.dump(obj, open(path, "w"), indent=1, default=str)
        return path

    def violation(self, step, case, note, no_input=False, finding_key=None):
        """Record a violation unless it is a listed known finding (matched by key)."""
        if finding_key is not None and finding_key in self.finding_keys():
            return
        if len(self.violations) >= 20:
            return
        path = self.write_replay({"step": step, "note": note, "case": case})
        self.violations.append({"replay": path, "note": note, "no_input": no_input, "step": step})

    # ------------------------------------------------------------------ known findings
    def findings(self):
        if not hasattr(self, "_findings"):
            p = os.path.join(VERIF, "known_findings.json")
            allf = json.load(open(p)) if os.path.exists(p) else []
            self._findings = [f for f in allf if f["property"] == self.pid]
        return self._findings

    def finding_keys(self):
        return set(f["id"] for f in self.findings() if f.get("status") == "open")

    def known(self, entry, still_fails, detail=""):
        """Called by a check after replaying a listed witness."""
        if entry.get("status") == "open":
            if still_fails:
                line = "KNOWN-FINDING: property=%s %s [%s]" % (self.pid, entry["what"], entry["id"])
                print(line, flush=True)
                self.known_lines.append(line)
            else:
                self.notes.append("known finding %s no longer reproduces (guard clause obsolete)" % entry["id"])
        elif entry.get("status") == "fixed":
            if still_fails:
                # a fixed entry suppresses nothing
                self.violation("finding-returned", entry.get("witness"), "fixed defect is back: %s %s" % (entry["what"], detail))

    # ------------------------------------------------------------------ wrap-up
    def finish(self):
        wall = time.time() - self.t0
        cov = self.cov
        cov["notes"] = self.notes
        cov["known_findings_reported"] = self.known_lines
        ev = {
            "property_id": self.pid, "tier": self.tier, "seed": self.seed, "level": "proof",
            "coverage": cov, "assumptions": self.assumptions, "wall_s": round(wall, 1),
            "violations": len(self.violations),
        }
        os.makedirs(os.path.join(VERIF, "evidence"), exist_ok=True)
        json.dump(ev, open(os.path.join(VERIF, "evidence", self.pid + ".json"), "w"), indent=1, default=str)
        for v in self.violations:
            tail = " no-failing-input-found" if v.get("no_input") else ""
            print("VIOLATION property=%s replay=%s%s" % (self.pid, v["replay"], tail), flush=True)
            print("  (%s)" % v["note"][:300], flush=True)
        self.log("done: %d evaluations, %d violations, %.1fs" % (cov["evaluations"], len(self.violations), wall))
        self.cleanup()
        sys.exit(1 if self.violations else 0)


# ---------------------------------------------------------------------- Gallina printers
def q_str(x):
    """Exact rational as a Gallina Q term."""
    f = Fraction(x)
    n, d = f.numerator, f.denominator
    return "(Qmake (%d) %d)" % (n, d)


def rat_str(x):
    f = Fraction(x)
    return "%d/%d" % (f.numerator, f.denominator) if f.denominator != 1 else "%d" % f.numerator


def opt(x, pr):
    return "None" if x is None else "(Some %s)" % pr(x)


def str_term(s):
    """Python str -> Gallina str (list of code points, N)."""
    return "[" + ";".join(str(ord(c)) for c in s) + "]%N" if s else "(@nil N)"


def bool_term(b):
    return "true" if b else "false"


def list_term(xs, pr=lambda x: x):
    return "[" + "; ".join(pr(x) for x in xs) + "]"


def parse_nlist(s):
    """'[3; 17]%N' or '[]' -> [3, 17]"""
    return [int(x) for x in re.findall(r"\d+", re.sub(r"%[A-Za-z_]+", "", s))] if "[" in s else []
