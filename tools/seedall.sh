#!/bin/bash
# runs every seeded change under /verif/seeded (or the directory given) through confirm + check and writes a summary
SRC=${1:-/verif/seeded}
OUT=${2:-/var/tmp/seedall.txt}
: > $OUT
for d in $SRC/C*/; do
  id=$(basename $d)
  echo "=== $id" >> $OUT
  /verif/tools/seedtest.sh $d $id ${MODE:-both} 2>&1 | grep -E "suite-with-patch|demo on|VIOLATION|done:|PATCH|cannot apply|not clean" | head -12 >> $OUT
done
echo finished >> $OUT
