#!/bin/bash
# MANIFEST.setup_cmd: build the framework from files on disk only (offline).
set -e
cd "$(dirname "$0")/.."
export GOFLAGS=-mod=mod GOPROXY=off GOSUMDB=off GOTOOLCHAIN=local GOWORK=off
( cd coq && coq_makefile -f _CoqProject -o Makefile >/dev/null && timeout 3000 make -j16 >/dev/null )
# warm the Go build cache with the harness (built again, from /repo's tree, by every check)
SCR=$(mktemp -d /var/tmp/verif-setup.XXXXXX)
trap 'rm -rf "$SCR"' EXIT
cp -r harness "$SCR/harness"
( cd "$SCR/harness" && go build -tags verif -o "$SCR/gjsrun" ./cmd/gjsrun && go build -o "$SCR/cli" github.com/atombender/go-jsonschema )
echo setup-ok
