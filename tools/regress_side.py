#!/usr/bin/env python3
"""Runs generation (and optionally compilation + documents) for a list of cases against the tree named by VERIF_REPO.
Used by tools/vlib/regress.py for the *baseline* side of the search step; writes its results to the file given as argv[2]."""
import json
import os
import sys

sys.path.insert(0, os.path.dirname(os.path.abspath(__file__)))
from vlib.core import Ctx            # noqa: E402
from vlib.progs import Batch         # noqa: E402


def main():
    req = json.load(open(sys.argv[1]))
    ctx = Ctx("C99", "quick", 1)
    ctx.build_failure = lambda what, log: (_ for _ in ()).throw(RuntimeError(what + ": " + log[-2000:]))
    if req["mode"] == "gen":
        res = ctx.jsonl("gen", req["cases"], extra=[os.path.join(ctx.scratch, "rg")])
        out = [{"ok": r.get("ok"), "err": r.get("err"), "panic": r.get("panic"), "outputs": r.get("outputs") or {}} for r in res]
    else:
        b = Batch(ctx, "rg")
        for c in req["cases"]:
            b.add(c)
        b.run()
        out = [{"gen_ok": bool(c["gen"].get("ok")), "gen_err": c["gen"].get("err") or c["gen"].get("panic") or "", "build_ok": c["build_ok"], "build_err": c["build_err"][:500],
                "obs": [j.get("obs") for j in c["jobs"]], "scan": c.get("scan") or {}} for c in b.cases]
    json.dump(out, open(sys.argv[2], "w"))


if __name__ == "__main__":
    main()
