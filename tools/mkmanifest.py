#!/usr/bin/env python3
"""Regenerates MANIFEST.json from the table below (keeps it valid at all times)."""
import json, os
V = os.path.abspath(os.path.join(os.path.dirname(__file__), ".."))
ALL = ["C%02d" % i for i in range(1, 21)]
CLAIMED = {
    # id: (design_ref, level text, level_note)
}
def load_claims():
    p = os.path.join(V, "tools", "claims.json")
    return json.load(open(p))
claims = load_claims()
checks = []
for pid in ALL:
    if pid not in claims:
        continue
    c = claims[pid]
    checks.append({
        "property_id": pid,
        "quick_cmd": "python3 tools/vcheck.py --property %s --tier quick" % pid,
        "thorough_cmd": "python3 tools/vcheck.py --property %s --tier thorough" % pid,
        "evidence_file": "/verif/evidence/%s.json" % pid,
        "replay_cmd_template": "python3 tools/vcheck.py --property %s --replay {path}" % pid,
        "engine": "coq",
        "level_claimed": {"category": "proof", "text": c["text"], "design_ref": c.get("design_ref", "DESIGN.md section 6, " + pid)},
        "level_note": c["note"],
        "technique": "machine-checked proof in Coq (theorems over a hand-written executable model) + model/implementation correspondence check",
    })
na = [{"property_id": p, "reason": "check not built yet at this commit (work in progress; to be claimed)"} for p in ALL if p not in claims]
m = {
    "version": 1,
    "setup_cmd": "bash tools/setup.sh",
    "hooks": {
        "guard": "verif",
        "enable": "go build -tags verif (the harness module under /verif/harness replaces github.com/atombender/go-jsonschema by /repo)",
        "baseline_off_cmd": "bash /verif/tools/baseline_off.sh",
        "source_commits": ["5551025"],
        "add_only": True,
    },
    "engines": [
        {"name": "coq", "path": "coq", "serves_properties": sorted(claims), "kind_free_text": "Coq 8.16.1 development: hand-written executable model + theorems"},
        {"name": "harness", "path": "harness", "serves_properties": sorted(claims), "kind_free_text": "Go harness running the real packages/CLI/generated code for the correspondence check"},
    ],
    "checks": checks,
    "not_applicable": na,
    "notes": "See DESIGN.md. Fix commits in /repo: 6481cbb (C05 tie), 131a9be (C15 min-sized ints), b05165c (C18 unresolved ref in allOf/anyOf), 4d88e48 (C18 panic on empty default key), 50272a0 (C10 relative $ref inside a referenced file), e1ba213 (C10 loader cache keyed by raw reference text), 2547e66 (C18 null sub-schema crash), d4feaa6 (C08 fractional member of an integer enum truncated), baf692f (C20 two spellings of one output path), 30c7e14 (C18 null definition behind a reference).",
}
json.dump(m, open(os.path.join(V, "MANIFEST.json"), "w"), indent=1)
print("claimed:", sorted(claims))
