#!/usr/bin/env python3
"""Entry point of every registered check:  vcheck.py --property Cxx --tier quick|thorough [--replay FILE]"""
import argparse
import importlib
import os
import sys
import traceback

sys.path.insert(0, os.path.dirname(os.path.abspath(__file__)))
from vlib.core import Ctx  # noqa: E402


def main():
    ap = argparse.ArgumentParser()
    ap.add_argument("--property", required=True)
    ap.add_argument("--tier", default=os.environ.get("VERIF_TIER") or "quick", choices=["quick", "thorough"])
    ap.add_argument("--replay")
    a = ap.parse_args()
    seed = int(os.environ.get("VERIF_SEED") or "1")
    ctx = Ctx(a.property, a.tier, seed)
    mod = importlib.import_module("props." + a.property.lower())
    try:
        if a.replay:
            mod.replay(ctx, a.replay)
        else:
            mod.run(ctx)
    except SystemExit:
        raise
    except Exception:
        # an internal failure of the machinery is not a verdict about the property: say so loudly
        tb = traceback.format_exc()
        print(tb, flush=True)
        # the machinery could not complete on this tree: the property is not shown to hold
        path = ctx.write_replay({"step": "machinery", "what": "the check could not complete on this tree", "traceback": tb})
        ctx.violations.append({"replay": path, "note": "check could not complete: " + tb.strip().splitlines()[-1], "no_input": True})
    ctx.finish()


if __name__ == "__main__":
    main()
