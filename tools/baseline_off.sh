#!/bin/bash
# Runs the repository's pinned test suite with the `verif` build tag OFF, on a scratch
# copy of /repo's working tree (running `go test` inside /repo in workspace mode rewrites
# go.work.sum).  Prints the go test output; exit status is that of the suite.
set -u
export GOPROXY=off GOSUMDB=off GOTOOLCHAIN=local PATH=$PATH:/usr/local/go/bin
SCR=$(mktemp -d /var/tmp/verif-baseline.XXXXXX)
trap 'rm -rf "$SCR"' EXIT
rsync -a --exclude .git /repo/ "$SCR/repo/"
rc=0
for m in . ./tests; do
  if [ -d "$SCR/repo/$m" ]; then
    MF=""
    gw=$(cd "$SCR/repo/$m" && go env GOWORK 2>/dev/null)
    if [ -z "$gw" ] || [ "$gw" = off ]; then MF="-mod=mod"; fi
    (cd "$SCR/repo/$m" && go test $MF ${JSONFLAG:-} -vet=off -count=1 -timeout 25m ./...) || rc=1
  fi
done
exit $rc
