"""C12 - output is a deterministic function of schema content and options."""
import json

from vlib.clirun import Run, run_all, sha
from vlib.respell import shuffle_keys, reverse_keys
from vlib.schemagen import SchemaGen

PROPS_FILE = "Props/C12.v"

SPECIAL = [
    # definition names that tie under case folding / normalisation, with different sub-schemas (the suffix _1 must always go to the same one)
    {"type": "object", "definitions": {"Endpoint": {"type": "object", "properties": {"host": {"type": "string"}}}, "endpoint": {"type": "object", "properties": {"port": {"type": "integer"}}},
                                       "Retry": {"type": "integer", "minimum": 1}, "retry": {"type": "string", "minLength": 1}},
     "properties": {"a": {"$ref": "#/definitions/Endpoint"}, "b": {"$ref": "#/definitions/endpoint"}, "c": {"$ref": "#/definitions/Retry"}, "d": {"$ref": "#/definitions/retry"}}},
    {"type": "object", "$defs": {"foo_bar": {"type": "object", "properties": {"x": {"type": "string"}}}, "fooBar": {"type": "object", "properties": {"y": {"type": "string"}}},
                                 "foo-bar": {"type": "object", "properties": {"z": {"type": "string"}}}, "FooBar": {"type": "string", "enum": ["a", "b"]}},
     "properties": {"p": {"$ref": "#/$defs/foo_bar"}, "q": {"$ref": "#/$defs/fooBar"}, "r": {"$ref": "#/$defs/foo-bar"}, "s": {"$ref": "#/$defs/FooBar"}}},
    # sibling properties that collide after normalisation
    {"type": "object", "properties": {"my_name": {"type": "string"}, "myName": {"type": "integer"}, "my-name": {"type": "boolean"}, "MyName": {"type": "number"},
                                      "b_1": {"type": "object", "properties": {"z": {"type": "string"}, "a": {"type": "string"}, "m": {"type": "string"}}},
                                      "b1": {"type": "object", "properties": {"k": {"type": "integer"}}}}},
    # many imports and declarations, enum constants, nested anonymous types
    {"type": "object", "properties": {"t": {"type": "string", "format": "date-time"}, "d": {"type": "string", "format": "date"}, "ip": {"type": "string", "format": "ipv4"},
                                      "e": {"enum": ["z", "a", "m"]}, "f": {"type": "string", "enum": ["zz", "aa"]}, "p": {"type": "string", "pattern": "^a"},
                                      "n": {"type": "number", "multipleOf": 0.5}, "o": {"type": "object", "additionalProperties": {"type": "string"}, "properties": {"k": {"type": "string"}}}},
     "required": ["t", "e", "p"]},
    # several structurally identical definitions, and an inline type whose derived name is taken by a different definition (the file is s.json: root type SJson)
    {"type": "object", "$defs": {"Point": {"type": "object", "properties": {"x": {"type": "number"}, "y": {"type": "number"}}},
                                 "Vector": {"type": "object", "properties": {"x": {"type": "number"}, "y": {"type": "number"}}},
                                 "Offset": {"type": "object", "properties": {"x": {"type": "number"}, "y": {"type": "number"}}},
                                 "SJsonOrigin": {"type": "object", "properties": {"label": {"type": "string"}}}},
     "properties": {"anchor": {"$ref": "#/$defs/Point"}, "from": {"$ref": "#/$defs/Vector"}, "shift": {"$ref": "#/$defs/Offset"}, "named": {"$ref": "#/$defs/SJsonOrigin"},
                    "origin": {"type": "object", "properties": {"x": {"type": "number"}, "y": {"type": "number"}}},
                    "list": {"type": "array", "items": {"type": "object", "properties": {"x": {"type": "number"}, "y": {"type": "number"}}}},
                    "listElem": {"type": "object", "properties": {"z": {"type": "string"}}}}},
    {"type": "object", "properties": {"u": {"allOf": [{"type": "object", "properties": {"p": {"type": "string"}, "c": {"type": "integer"}}},
                                                      {"type": "object", "properties": {"q": {"type": "integer"}, "a": {"type": "string"}}, "required": ["q"]}]},
                                      "v": {"anyOf": [{"type": "object", "properties": {"p": {"type": "string"}}, "required": ["p"]},
                                                      {"type": "object", "properties": {"q": {"type": "integer"}}, "required": ["q"]}]}}},
    # allOf / anyOf members that describe the same property: lists that are merged (enum values, required names, type lists) with values in common
    {"type": "object", "allOf": [{"type": "object", "properties": {"color": {"type": "string", "enum": ["red", "green", "blue", "cyan"]}, "n": {"type": "integer", "enum": [1, 2, 3, 4, 5]}},
                                  "required": ["color", "n", "k"]},
                                 {"type": "object", "properties": {"color": {"type": "string", "enum": ["blue", "cyan", "magenta", "yellow", "black"]}, "n": {"type": "integer", "enum": [4, 5, 6, 7, 1]},
                                                                   "k": {"type": "string"}}, "required": ["k", "color", "extra1", "extra2", "n"]}]},
    {"type": "object", "$defs": {"Base": {"type": "object", "properties": {"mode": {"enum": ["a", "b", "c", "d", "e", "f"]}, "tags": {"type": "array", "items": {"type": "string"}, "maxItems": 4}},
                                          "required": ["mode", "tags"]}},
     "properties": {"x": {"allOf": [{"$ref": "#/$defs/Base"}, {"type": "object", "properties": {"mode": {"enum": ["f", "e", "d", "x", "y", "z"]}, "tags": {"minItems": 1}}, "required": ["tags", "mode", "w"]}]},
                    "y": {"anyOf": [{"type": "object", "properties": {"mode": {"enum": ["a", "b", "c", "d"]}}, "required": ["mode"]},
                                    {"type": "object", "properties": {"mode": {"enum": ["c", "d", "e", "f", "a"]}}, "required": ["mode"]}]}}},
]


def run(ctx):
    ctx.proof_step(PROPS_FILE)
    rng = ctx.rng
    schemas = list(SPECIAL)
    g = SchemaGen(rng, depth=2)
    for _ in range(10 if ctx.tier == "quick" else 150):
        schemas.append(g.root())
    optsets = [[], ["--extra-imports"], ["--min-sized-ints", "--tags", "json"], ["--only-models"], ["--capitalization", "ID", "--struct-name-from-title"]]
    reps = 4 if ctx.tier == "quick" else 8
    runs, meta = [], []
    for si, sc in enumerate(schemas):
        opts = optsets[si % len(optsets)]
        variants = [("same", sc, "in/s.json", ".")]
        for k in range(reps):
            variants.append(("same-%d" % k, sc, "in/s.json", "."))
        for k in range(reps):
            variants.append(("shuffled-%d" % k, shuffle_keys(sc, rng), "in/s.json", "."))
        variants.append(("reversed", reverse_keys(sc), "in/s.json", "."))
        variants.append(("moved", sc, "elsewhere/deep/er/s.json", "."))
        variants.append(("relative-cwd", sc, "in/s.json", "in"))
        for vi, (vn, doc, path, cwd) in enumerate(variants):
            arg = path if cwd == "." else "s.json"
            runs.append(Run("d%d_%d" % (si, vi), {path: json.dumps(doc)}, ["-p", "pkg"] + opts + [arg], cwd=cwd))
            meta.append((si, vn))
    # many mappings with similar ids (the id of the schema, and variants with a trailing '#', '/', other case, a prefix, a longer id),
    # each with its own package / output / root type: which one applies must not depend on the order of the flag maps
    ID = "http://example.com/thing"
    msch = {"$id": ID, "type": "object", "properties": {"a": {"type": "string"}, "sub": {"type": "object", "properties": {"b": {"type": "integer"}}}}}
    variants_id = [ID, ID + "#", ID + "/", ID.upper(), ID[:-1], ID + "2", "thing", ""]
    base_si = len(schemas)
    for fi, select in enumerate([(0, 1, 2, 3, 4, 5, 6, 7), (1, 0), (2, 3, 0), (4, 5), (7, 1, 6)]):
        flags = []
        for k in select:
            v = variants_id[k]
            flags += ["--schema-package", "%s=example.com/p%d" % (v, k), "--schema-output", "%s=out/f%d.go" % (v, k), "--schema-root-type", "%s=Root%d" % (v, k)]
        schemas.append(msch)
        for rep in range(3 * reps):
            runs.append(Run("mp%d_%d" % (fi, rep), {"in/s.json": json.dumps(msch)}, ["-p", "example.com/dflt", "-o", "out/dflt.go"] + flags + ["in/s.json"]))
            meta.append((base_si + fi, "mappings-%d-run-%d" % (fi, rep)))
    nodef_files = {"in/order.json": json.dumps({"$id": "http://x/order", "type": "object", "properties": {"ship": {"$ref": "address.json"}, "bill": {"$ref": "address.json"}, "c": {"$ref": "customer.json"}}}),
                   "in/customer.json": json.dumps({"$id": "http://x/customer", "type": "object", "properties": {"name": {"type": "string", "minLength": 1}, "home": {"$ref": "address.json"}}}),
                   "in/catalog.json": json.dumps({"$id": "http://x/catalog", "type": "object", "properties": {"sku": {"type": "string"}}}),
                   "in/address.json": json.dumps({"type": "object", "properties": {"street": {"type": "string"}}, "required": ["street"]})}
    nd_flags = []
    for k, n in enumerate(("order", "customer", "catalog", "invoice")):
        nd_flags += ["--schema-package", "http://x/%s=example.com/%s" % (n, n), "--schema-output", "http://x/%s=out/%s.go" % (n, n)]
    for ni, argv in enumerate((nd_flags + ["in/order.json", "in/customer.json", "in/catalog.json"], nd_flags + ["-o", "out/common.go", "in/order.json", "in/catalog.json"],
                               nd_flags[:4] + ["in/order.json"])):
        schemas.append({"no-default-package": argv})
        for rep in range(4 * reps):
            runs.append(Run("nd%d_%d" % (ni, rep), nodef_files, argv))
            meta.append((len(schemas) - 1, "mappings-no-default-%d-run-%d" % (ni, rep)))
    # several packages sent to one stream: every schema mapped to its own package and to the output "-" (whatever the tool answers - it refuses
    # one file shared by two packages - every run answers the same, byte for byte); also two of them to stdout and the rest to files
    so_flags, so_mixed = ["-p", "example.com/d"], ["-p", "example.com/d"]
    for k, n in enumerate(("order", "customer", "catalog", "invoice")):
        so_flags += ["--schema-package", "http://x/%s=example.com/%s" % (n, n), "--schema-output", "http://x/%s=-" % n]
        so_mixed += ["--schema-package", "http://x/%s=example.com/%s" % (n, n if k % 2 else "shared"), "--schema-output", "http://x/%s=%s" % (n, "-" if k % 2 == 0 else "out/%s.go" % n)]
    for ni, argv in enumerate((so_flags + ["in/order.json", "in/customer.json", "in/catalog.json"], so_flags + ["in/catalog.json", "in/order.json"], so_mixed + ["in/order.json", "in/customer.json", "in/catalog.json"])):
        schemas.append({"packages-to-stdout": argv})
        for rep in range(max(16, 4 * reps)):
            runs.append(Run("so%d_%d" % (ni, rep), nodef_files, argv))
            meta.append((len(schemas) - 1, "mappings-stdout-%d-run-%d" % (ni, rep)))
    # tag lists that name a tag twice (and other repeated flag values): every run gives the same bytes
    for ti, extra in enumerate((["--tags", "json,yaml,mapstructure,json"], ["--tags", "yaml,json,yaml,toml,json"], ["--capitalization", "ID,URL,ID,Http,URL"],
                                ["--resolve-extension", ".json,.yaml,.json", "--yaml-extension", ".yaml,.yml,.yaml"])):
        schemas.append({"repeated-flag-values": extra})
        for rep in range(max(16, 4 * reps)):
            runs.append(Run("rt%d_%d" % (ti, rep), {"in/s.json": json.dumps(msch)}, ["-p", "example.com/t"] + extra + ["in/s.json"]))
            meta.append((len(schemas) - 1, "mappings-repeated-values-%d-run-%d" % (ti, rep)))
    # multi-file layouts: extension-less references with several candidate files, several resolve / yaml extensions, several file arguments
    item_j = {"type": "object", "properties": {"price": {"type": "number"}, "currency": {"type": "string"}}, "required": ["price", "currency"]}
    item_y = "type: object\nproperties:\n  price:\n    type: number\nrequired: [price]\n"
    top = {"$id": "http://x/top", "type": "object", "properties": {"item": {"$ref": "./item"}, "other": {"$ref": "lib/common#/$defs/Label"}, "third": {"$ref": "lib/more.yml#/$defs/K"}}}
    second = {"$id": "http://x/second", "type": "object", "properties": {"again": {"$ref": "item"}, "l": {"$ref": "lib/common.json#/$defs/Label"}}}
    files = {"in/top.json": json.dumps(top), "in/second.json": json.dumps(second), "in/item.json": json.dumps(item_j), "in/item.yaml": item_y,
             "in/lib/common.json": json.dumps({"description": "common", "$defs": {"Label": {"type": "string", "minLength": 1}}}), "in/lib/common.yaml": "description: common\n$defs:\n  Label:\n    type: integer\n",
             "in/lib/more.yml": "description: more\n$defs:\n  K:\n    type: string\n    enum: [a, b]\n"}
    layouts = [["--resolve-extension", ".json", "--resolve-extension", ".yaml", "--yaml-extension", ".yml", "--yaml-extension", ".yaml", "in/top.json"],
               ["--resolve-extension", ".yaml", "--resolve-extension", ".json", "--yaml-extension", ".yaml", "--yaml-extension", ".yml", "in/top.json", "in/second.json"],
               ["--resolve-extension", ".yml", "--resolve-extension", ".yaml", "--resolve-extension", ".json", "--yaml-extension", ".yml", "--yaml-extension", ".yaml", "in/second.json", "in/top.json"]]
    base_li = len(schemas)
    for li, argv in enumerate(layouts):
        schemas.append({"layout": argv})
        for rep in range(4 * reps):
            runs.append(Run("ml%d_%d" % (li, rep), files, ["-p", "example.com/m", "-o", "out/m.go"] + argv))
            meta.append((base_li + li, "layout-%d-run-%d" % (li, rep)))
    run_all(ctx, runs)
    by = {}
    for r, (si, vn) in zip(runs, meta):
        by.setdefault(si, []).append((vn, r))
    nv = 0
    distinct_total = 0
    for si, lst in sorted(by.items()):
        ctx.cov["programs"] += 1
        ref = lst[0][1]
        outs = {}
        for vn, r in lst:
            ctx.count({"s": schemas[si], "v": vn}, True, "byte-identity/" + ("special" if si < len(SPECIAL) else ("mappings" if vn.startswith("mappings") else ("multi-file" if vn.startswith("layout") else "random"))))
            key = (r.status, sha(r.stdout), tuple(sorted((k, sha(v)) for k, v in r.created.items())))
            outs.setdefault(key, []).append(vn)
        distinct_total += len(outs)
        if ref.status != 0 and si >= base_li and nv < 6:
            ctx.violation("oracle", {"kind": "determinism", "files": ref.files, "argv": ref.argv}, "multi-file layout could not be generated: %s" % ref.stderr.decode("utf-8", "replace")[:300])
            nv += 1
        if ref.status != 0 and si >= len(SPECIAL):
            continue
        if len(outs) > 1 and nv < 6:
            other = [v for k, v in outs.items() if lst[0][0] not in v][0]
            ctx.violation("oracle", {"kind": "determinism", "files": ref.files if isinstance(getattr(ref, "files", None), dict) else {"in/s.json": json.dumps(schemas[si])}, "argv": ref.argv,
                                     "variants": {str(k): v for k, v in outs.items()}},
                          "%d distinct outputs for one schema: variants %s differ from the first run" % (len(outs), other[:4]))
            nv += 1
    # the output file's bytes do not depend on what an earlier run left at that path (nothing, a shorter file, a much longer file, the same text)
    hruns = []
    for si, sc in enumerate(schemas[:len(SPECIAL) + 4]):
        first = [r for vn, r in by[si] if vn == "same"][0]
        if first.status != 0:
            continue
        opts = optsets[si % len(optsets)]
        for hn, old in (("fresh", None), ("shorter", "package old\n"), ("longer", "package old\n\n" + "// a line of the previous version of this file\n" * 4000),
                        ("same-text", first.stdout), ("same-text-plus-tail", first.stdout + b"\n// tail\n" * 50)):
            files = {"in/s.json": json.dumps(sc)}
            if old is not None:
                files["out/gen.go"] = old
            hruns.append((si, hn, Run("h%d_%s" % (si, hn), files, ["-p", "pkg"] + opts + ["-o", "out/gen.go", "in/s.json"])))
    run_all(ctx, [r for _, _, r in hruns])
    for si, hn, r in hruns:
        ctx.count({"s": schemas[si], "history": hn}, True, "byte-identity/output-file-history")
        first = [x for vn, x in by[si] if vn == "same"][0]
        got = r.created.get("out/gen.go", r.modified.get("out/gen.go", r.files.get("out/gen.go") if hn.startswith("same-text") and hn == "same-text" else None))
        if isinstance(got, str):
            got = got.encode()
        if (r.status != 0 or got != first.stdout) and nv < 6:
            ctx.violation("oracle", {"kind": "determinism", "files": {k: (v if isinstance(v, str) else v.decode("utf-8", "replace")) for k, v in r.files.items()}, "argv": r.argv,
                                     "history": hn, "status": r.status, "stderr": r.stderr.decode("utf-8", "replace")[:300]},
                          "output file after a run over a path that held %s: %d bytes, a fresh run writes %d bytes (status %s)" % (
                              {"fresh": "nothing", "shorter": "a shorter file", "longer": "a longer file", "same-text": "the same text", "same-text-plus-tail": "the same text and a tail"}[hn],
                              len(got or b""), len(first.stdout), r.status))
            nv += 1
    # library use: a run's output must not depend on what the same process generated before (same file path, other options)
    hist_schema = {"type": "object", "title": "A user id", "properties": {"user_id": {"type": "string"}, "html_url": {"type": "string", "format": "date"},
                                                                       "n": {"type": "integer", "minimum": 0, "maximum": 200}}, "required": ["user_id"]}
    hist_opts = [{"default_package": "demo", "default_output": "-"},
                 {"default_package": "demo", "default_output": "-", "resolve_extensions": [".json"], "capitalizations": ["ID", "URL", "HTML"]},
                 {"default_package": "other", "default_output": "-", "min_sized_ints": True, "extra_imports": True, "tags": ["json"]},
                 {"default_package": "demo", "default_output": "-", "struct_name_from_title": True, "only_models": True}]
    import os as _os
    hroot = [_os.path.join(ctx.scratch, "c12hist")]
    for fname in ("user-id.json", "html_url.json"):
        files = {fname: json.dumps(hist_schema)}
        fresh = {}
        for oi, o in enumerate(hist_opts):
            r = ctx.jsonl("gen", [{"id": "hist", "cfg": o, "files": files, "argv": [fname]}], extra=hroot)[0]
            fresh[oi] = (r.get("ok"), json.dumps(r.get("outputs"), sort_keys=True))
        import itertools as _it
        for a, bb in _it.permutations(range(len(hist_opts)), 2):
            rs = ctx.jsonl("gen", [{"id": "hist", "cfg": hist_opts[a], "files": files, "argv": [fname]}, {"id": "hist", "cfg": hist_opts[bb], "files": files, "argv": [fname]}], extra=hroot)
            got = (rs[1].get("ok"), json.dumps(rs[1].get("outputs"), sort_keys=True))
            ctx.count({"f": fname, "a": a, "b": bb}, True, "byte-identity/in-process-history")
            if got != fresh[bb] and nv < 6:
                ctx.violation("oracle", {"kind": "history", "files": files, "first": hist_opts[a], "second": hist_opts[bb], "argv": [fname],
                                         "fresh_output": fresh[bb][1][:600], "output_after_first": got[1][:600]},
                              "in one process, generating %s under %s and then under %s gives another output for the second run than a fresh process does" % (fname, hist_opts[a], hist_opts[bb]))
                nv += 1
    ctx.cov["disagreements_checked"] = len(runs)
    ctx.cov["distinct_outputs_total"] = distinct_total
    from vlib import regress
    regress.wide_determinism(ctx)          # the shape-agnostic search step (DESIGN.md 12.8)
    ctx.cov["rule"] = ("5 special schemas (definition names tied under case folding / normalisation with different sub-schemas, colliding sibling properties, many imports and "
                       "constants, allOf/anyOf) + random in-guard schemas, under 5 option sets; each generated in %d separate processes: repeated runs, random and reversed key "
                       "order inside every JSON object, moved to another directory, invoked relative to another working directory; stdout and written files compared byte for byte; 5 sets of mappings with look-alike ids (trailing #, /, case, prefix) x repeated processes; the in-process generator run twice in one process on one file path under every ordered pair of 4 option sets, compared with a fresh process; 3 multi-file layouts (extension-less references with a .json and a .yaml candidate of different content, several --resolve-extension / --yaml-extension flags in different orders and spellings, one or two file arguments) x repeated processes; "
                       "non-trivial = every run; distinct by hash of (schema, variant)" % (2 * reps + 4))
    ctx.sample({"family": "byte-identity", "schema": schemas[0], "variants": [m[1] for m in meta[:6]], "sha": sha(runs[0].stdout)})


def replay(ctx, path):
    obj = json.load(open(path))
    case = obj.get("case", {})
    runs = [Run("rp%d" % i, case["files"], case["argv"]) for i in range(12)]
    run_all(ctx, runs)
    print(sorted(set((r.status, sha(r.stdout)) for r in runs)))
