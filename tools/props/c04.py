"""C04 - a document missing a required property is rejected, at every depth."""
import itertools
import json

from vlib.valuecheck import build_cases, evaluate, replay, anon_struct_path, collide_root  # noqa: F401
from vlib.kitchen import run_cases

PROPS_FILE = "Props/C04.v"


def obj(k, nreq, nopt, with_default=False, nullable_req=False):
    props, req = {}, []
    for i in range(nreq):
        kind = [{"type": "string"}, {"type": "integer", "minimum": 0}, {"type": "boolean"}, {"type": "array", "items": {"type": "string"}},
                {"type": "number"}, {"type": ["string", "null"]}][(k + i) % 6]
        if nullable_req and i == 0:
            kind = {"type": ["integer", "null"]}
        props["r%d" % i] = kind
        req.append("r%d" % i)
    for i in range(nopt):
        props["o%d" % i] = [{"type": "string"}, {"type": "integer"}][(k + i) % 2]
    if with_default:
        props["d0"] = {"type": "string", "default": "dflt"}
        req.append("d0")
    s = {"type": "object", "properties": props}
    if req:
        s["required"] = req
    return s


def systematic():
    out = []
    k = 0
    for nreq, nopt, wd, nr in itertools.product([1, 2, 3], [0, 1], [False, True], [False, True]):
        for pos in ("root", "nested", "nested2", "item", "item2", "definition", "item-ref", "map-value", "nullable-nested", "map-ref"):
            inner = obj(k, nreq, nopt, wd, nr)
            k += 1
            if pos == "root":
                root = inner
            elif pos == "nested":
                root = {"type": "object", "properties": {"child": inner, "x": {"type": "integer"}}, "required": ["child"]}
            elif pos == "nested2":
                root = {"type": "object", "properties": {"mid": {"type": "object", "properties": {"child": inner}, "required": ["child"]}}}
            elif pos == "item":
                root = {"type": "object", "properties": {"list": {"type": "array", "items": inner}}, "required": ["list"]}
            elif pos == "item2":
                root = {"type": "object", "properties": {"grid": {"type": "array", "items": {"type": "array", "items": inner}}}}
            elif pos == "definition":
                root = {"type": "object", "properties": {"ref": {"$ref": "#/$defs/Inner"}}, "$defs": {"Inner": inner}}
            elif pos == "item-ref":
                root = {"type": "object", "properties": {"refs": {"type": "array", "items": {"$ref": "#/definitions/Inner"}}}, "definitions": {"Inner": inner}}
            elif pos == "map-ref":
                root = {"type": "object", "properties": {"m": {"type": "object", "additionalProperties": {"$ref": "#/$defs/Inner"}}}, "$defs": {"Inner": inner}}
            elif pos == "map-value":
                root = {"type": "object", "properties": {"m": {"type": "object", "additionalProperties": inner}}}
            else:
                root = {"type": "object", "properties": {"child": dict(inner, type=["object", "null"])}}
            out.append(root)
    return out


def shared_names():
    """the same key names at every level, with different required sets per level; the holder of the nested object sorts between its siblings,
    and a second nested object comes last: a requirement of one level must not leak into, or be cancelled by, another level"""
    out = []
    leaf = lambda: {"a": {"type": "string"}, "m": {"type": "integer"}, "z": {"type": "boolean"}}      # noqa: E731
    for rp in ([], ["a"], ["z"], ["a", "m", "z"], ["h", "z"], ["h", "a", "m"], ["m", "zz"]):
        for rn in ([], ["a"], ["z"], ["m"], ["a", "m", "z"]):
            for rn2 in (["z"], []):
                def mk(req):
                    o = {"type": "object", "properties": leaf()}
                    if req:
                        o["required"] = list(req)
                    return o
                props = leaf()
                props["h"] = mk(rn)
                props["zz"] = {"type": "object", "properties": dict(leaf(), h=mk(rn2))}
                if rn:
                    props["zz"]["required"] = list(rn)
                root = {"type": "object", "properties": props}
                if rp:
                    root["required"] = list(rp)
                out.append(root)
    return out


def multi_file_cases():
    """two schema files in one run, each with its own definition of the same name used inside allOf (also referencing it plainly runs into the recorded finding C01-alias-collides): the required
    keys of each file's own definition are enforced, in both argument orders"""
    from vlib.kitchen import Case

    def mk(i, req):
        meta = {"type": "object", "properties": {k: {"type": "string"} for k in ("id", "createdBy", "note")}, "required": req}
        return {"$id": "http://x/" + i, "type": "object", "$defs": {"Meta": meta},
                "properties": {"meta": {"allOf": [{"$ref": "#/$defs/Meta"}, {"type": "object", "properties": {"n": {"type": "integer"}}}]}},
                "required": ["meta"]}
    order, invoice = mk("order", ["id"]), mk("invoice", ["id", "createdBy"])
    docs = []
    for t, req in (("Order", ["id"]), ("Invoice", ["id", "createdBy"])):
        full = {"id": "i", "createdBy": "me", "note": "x"}
        docs.append({"doc": {"meta": full}, "cls": "valid", "path": (), "t": t, "expect": "ACC"})
        for where in ("meta",):
            for k in ("id", "createdBy", "note"):
                d = {kk: vv for kk, vv in full.items() if kk != k}
                doc = {"meta": full}
                doc[where] = d
                docs.append({"doc": doc, "cls": "required" if k in req else "optional-absent", "path": (where, k), "t": t, "expect": "REJ" if k in req else "ACC"})
    out = []
    maps = [("http://x/order", "Order"), ("http://x/invoice", "Invoice")]
    import copy
    out.append(Case("c04mf0", order, copy.deepcopy(docs), fam="multi-file", extra_files={"invoice.json": json.dumps(invoice)}, argv=["s.json", "invoice.json"], mappings=maps, no_model=True))
    out.append(Case("c04mf1", order, copy.deepcopy(docs), fam="multi-file", extra_files={"invoice.json": json.dumps(invoice)}, argv=["invoice.json", "s.json"], mappings=maps, no_model=True))
    return out


def two_package_runs(ctx):
    """one run that emits two Go packages, each declaring a validated type of the same name (`Item`): the required keys of each package's own
    type are enforced - in the package's own root and where the other package refers to it - whichever file is visited first"""
    from vlib.progs import Batch
    b = Batch(ctx, "c04pk")
    meta = []
    n = 0
    for names in (("Item", "Item"), ("Item", "Entry")):
        na, nb = names
        A = {"$id": "http://x/a", "type": "object", "definitions": {na: {"type": "object", "properties": {"name": {"type": "string"}, "w": {"type": "integer"}}, "required": ["name"]}},
             "properties": {"item": {"$ref": "#/definitions/" + na}, "ext": {"$ref": "b.json#/definitions/" + nb}}}
        B = {"$id": "http://x/b", "type": "object", "definitions": {nb: {"type": "object", "properties": {"code": {"type": "string"}, "qty": {"type": "integer"}}, "required": ["code"]}},
             "properties": {"first": {"$ref": "#/definitions/" + nb}}}
        for argv in (["a.json"], ["a.json", "b.json"], ["b.json", "a.json"]):
            cid = "c04pk%d" % n
            n += 1
            cfg = {"tags": ["json", "yaml", "mapstructure"], "default_package": "prog/%s/pa" % cid, "default_output": cid + "/pa/gen.go",
                   "mappings": [{"id": "http://x/a", "root": "", "package": "prog/%s/pa" % cid, "output": cid + "/pa/gen.go"},
                                {"id": "http://x/b", "root": "", "package": "prog/%s/pb" % cid, "output": cid + "/pb/gen.go"}]}
            jobs = []
            for t, doc, want in ((cid + "/pa.AJson", {"item": {"name": "n"}, "ext": {"code": "c"}}, "ACC"), (cid + "/pa.AJson", {"item": {"name": "n"}, "ext": {"qty": 1}}, "REJ"),
                                 (cid + "/pa.AJson", {"item": {"w": 1}, "ext": {"code": "c"}}, "REJ"), (cid + "/pa." + na, {"w": 2}, "REJ"), (cid + "/pa." + na, {"name": "n"}, "ACC"),
                                 (cid + "/pb." + nb, {"qty": 2}, "REJ"), (cid + "/pb." + nb, {"code": "c"}, "ACC"),
                                 (cid + "/pb.BJson", {"first": {"qty": 2}}, "REJ"), (cid + "/pb.BJson", {"first": {"code": "c", "qty": 2}}, "ACC")):
                if t.endswith("BJson") and argv == ["a.json"]:
                    continue          # the root of b.json is generated only when b.json is an argument
                jobs.append({"t": t, "doc": json.dumps(doc), "wire": "json", "prior": "", "want": want})
            c = b.add({"id": cid, "cfg": cfg, "files": {"a.json": json.dumps(A), "b.json": json.dumps(B)}, "argv": argv, "jobs": jobs})
            meta.append((c, names, argv))
    b.run()
    nv = 0
    for c, names, argv in meta:
        r = {"kind": "batch", "cfg": c["cfg"], "files": c["files"], "argv": c["argv"]}
        if not c["gen"].get("ok") or not c["build_ok"]:
            if nv < 3:
                ctx.violation("oracle", dict(r, gen=c["gen"].get("err"), build_err=c["build_err"]), "two packages in one run (%s): generation failed or the output does not build: %s"
                              % (names, (c["gen"].get("err") or c["build_err"] or "")[:300]))
            nv += 1
            continue
        ctx.cov["programs"] += 1
        for j in c["jobs"]:
            o = j.get("obs") or {}
            ctx.count({"names": names, "argv": argv, "t": j["t"].split("/", 1)[1], "d": j["doc"]}, True, "required properties/two-packages")
            if o.get("v") != j["want"]:
                if nv < 3:
                    ctx.violation("oracle", dict(r, type=j["t"], doc=j["doc"], impl=o), "two packages in one run (%s, arguments %s): %s decoding %s should be %s, the generated code answers %s %s"
                                  % (names, argv, j["t"].split("/", 1)[1], j["doc"], j["want"], o.get("v"), (o.get("err") or "")[:150]))
                nv += 1
    return nv


CLASSES = {"required", "required-default", "optional-absent", "null-allowed", "valid"}


def run(ctx):
    ctx.proof_step(PROPS_FILE)
    sysm = systematic()
    shared = shared_names()
    if ctx.tier == "quick":
        sysm = sysm[::2]
        shared = shared[ctx.rng.randrange(3)::3]
    ob = lambda req: {"type": "object", "properties": {"p": {"type": "string"}, "q": {"type": "string"}}, "required": req}      # noqa: E731
    # colliding types that differ only in an annotation-like keyword (default exempts a required key; title / description change nothing)
    def conn(dflt=None, **ann):
        port = {"type": "integer"}
        if dflt is not None:
            port["default"] = dflt
        return dict({"type": "object", "properties": {"host": {"type": "string"}, "port": port}, "required": ["host", "port"]}, **ann)
    ann = [collide_root(conn(5432), conn(), required=True), collide_root(conn(), conn(5432)), collide_root(conn(title="A"), conn(title="B", description="other")),
           collide_root(conn(80), conn(443), key="w")]
    # required keys contributed by a composite: a branch that carries only `required`, a referenced base, at a property and at an item position
    cbase = {"type": "object", "properties": {"id": {"type": "string"}, "label": {"type": "string"}, "size": {"type": "integer"}}, "required": ["id"]}
    for lst in ([{"$ref": "#/$defs/Base"}, {"required": ["label"]}], [{"$ref": "#/$defs/Base"}, {"type": "object", "required": ["label", "size"]}],
                [{"required": ["size"]}, {"$ref": "#/$defs/Base"}]):
        sysm.append({"type": "object", "$defs": {"Base": cbase}, "properties": {"strict": {"allOf": lst}, "list": {"type": "array", "items": {"allOf": lst}}}, "required": ["strict"]})
    # members that require a key another member declares (before / after a key of their own), by reference and inline
    ident = {"type": "object", "properties": {"id": {"type": "string"}}}
    for req in (["id", "name"], ["name", "id"], ["id"], ["id", "id2", "name"]):
        named = {"type": "object", "properties": {"name": {"type": "string"}}, "required": req}
        ident2 = {"type": "object", "properties": {"id": {"type": "string"}, "id2": {"type": "integer"}}}
        sysm.append({"type": "object", "$defs": {"Identified": ident2, "Named": named},
                     "properties": {"item": {"allOf": [{"$ref": "#/$defs/Identified"}, {"$ref": "#/$defs/Named"}]}, "rev": {"allOf": [{"$ref": "#/$defs/Named"}, {"$ref": "#/$defs/Identified"}]}}})
        sysm.append({"type": "object", "properties": {"item": {"allOf": [ident2, named]}, "list": {"type": "array", "items": {"allOf": [named, ident2]}}}})
    for a, b in (("id", "ID"), ("name", "Name"), ("userId", "userid")):
        for req in ([a], [b]):
            o = {"type": "object", "properties": {a: {"type": "string"}, b: {"type": "integer"}, "z": {"type": "boolean"}}, "required": req}
            sysm.append(o)
            sysm.append({"type": "object", "properties": {"acc": o, "list": {"type": "array", "items": o}}, "required": ["acc"]})
    sysm = sysm + ann
    sysm = sysm + shared + [collide_root(ob(["p"]), ob(["q"]), required=True), collide_root(ob(["p", "q"]), ob(["p"])), collide_root(ob(["q"]), ob(["p", "q"]), key="w")]
    n = 30 if ctx.tier == "quick" else 400
    cases = build_cases(ctx, len(sysm) + n, ["object", "ref", "array"], CLASSES, "c04x", extra_schemas=sysm, docs_per=2 if ctx.tier == "quick" else 4)
    # a required key that has a default is exempt (the property says so): the oracle expects acceptance there
    for c in cases:
        for d in c.docs:
            if d["cls"] == "required-default":
                d["cls"] = "required-default"
    two_package_runs(ctx)
    mf = multi_file_cases()
    from vlib.overlay import overlay_cases
    ov = overlay_cases("required", "c04")
    run_cases(ctx, cases + mf + ov, "c04")
    evaluate(ctx, ov, {"required", "valid"}, {"required": "invalid", "valid": "valid"}, "required properties")
    for c in mf:
        if not c.build_ok:
            ctx.violation("oracle", dict(c.replay_obj(), gen_err=c.gen_err, build_err=c.build_err), "multi-file case: generation failed or does not build: %s" % (c.gen_err or c.build_err)[:300])
            continue
        ctx.cov["programs"] += 1
        for di, d in enumerate(c.docs):
            o = d.get("obs") or {}
            ctx.count({"s": c.argv, "d": d["doc"], "t": d["t"]}, True, "required properties/multi-file")
            if o.get("v") != d["expect"]:
                ctx.violation("oracle", c.replay_obj(di), "files %s, type %s: document %s (%s at %s) should be %s, was %s %s"
                              % (c.argv, d["t"], json.dumps(d["doc"]), d["cls"], "/".join(d["path"]), d["expect"], o.get("v"), o.get("err", "")[:120]))
                break
    for c in cases:
        for d in c.docs:
            if d["cls"] == "required-default" and d.get("valid") is not None:
                d["valid"] = True
    evaluate(ctx, cases, CLASSES, {"required": "invalid", "required-default": "valid", "optional-absent": "by-spec", "null-allowed": "valid", "valid": "valid"},
             "required properties", skip=lambda c, d: anon_struct_path(c, d["path"]))
    from vlib.valuecheck import replay_findings
    from vlib import regress
    regress.search(ctx, {"C04"})          # the shape-agnostic search step (DESIGN.md 12.8)
    replay_findings(ctx)
    ctx.cov["rule"] = ("systematic: objects with 1-3 required and 0-1 optional keys (with/without a defaulted required key, with/without a nullable required key) at 9 "
                       "positions (root, nested, nested twice, array item, item of nested array, definition, array of references, map value, nullable nested); every "
                       "single required-key deletion of 2-4 valid documents per schema, optional-key deletions, null for nullable; random: object-focused in-guard schemas; "
                       "non-trivial = a mutant; distinct by hash of (schema, document)")
    c = cases[5]
    ctx.sample({"family": c.fam, "schema": c.schema, "doc": c.docs[1]["doc"], "class": c.docs[1]["cls"], "impl": (c.docs[1].get("obs") or {}).get("v")})
