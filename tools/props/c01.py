"""C01 - every emitted file is valid, self-contained Go that compiles."""
import copy
import itertools
import json

from vlib.progs import Batch
from vlib.schemagen import SchemaGen
from vlib.valuecheck import replay_findings
from props import c05, c06, c07, c08, c09, c11, c12

PROPS_FILE = "Props/C01.v"

TEXTS = ["plain", "two\nlines", "with \"quotes\" and 'single'", "comment */ terminator /* opener", "percent %d %s %%", "back\\slash \\n", "tab\there",
         "unicode é 日本   end", "// slashes", "trailing space ", "", "a very long description " * 12, "{{braces}} $dollar `", "\r\nwindows"]


def with_texts(s, rng):
    """decorate every schema node with a title and a description from the palette"""
    def walk(n):
        if not isinstance(n, dict):
            return
        if "type" in n or "properties" in n or "enum" in n:
            n["description"] = rng.choice(TEXTS)
            if rng.random() < 0.5:
                n["title"] = rng.choice(TEXTS)
        for v in n.get("properties", {}).values():
            walk(v)
        for key in ("$defs", "definitions"):
            for v in n.get(key, {}).values():
                walk(v)
        for key in ("items", "additionalProperties"):
            walk(n.get(key))
        for key in ("allOf", "anyOf"):
            for v in n.get(key, []):
                walk(v)
    s = copy.deepcopy(s)
    walk(s)
    return s


OPTS = [
    {}, {"extra_imports": True}, {"only_models": True}, {"min_sized_ints": True}, {"struct_name_from_title": True}, {"tags": ["json"]}, {"tags": ["yaml", "toml", "x"]},
    {"capitalizations": ["ID", "URL"]}, {"extra_imports": True, "min_sized_ints": True}, {"only_models": True, "extra_imports": True, "min_sized_ints": True},
    {"extra_imports": True, "struct_name_from_title": True, "capitalizations": ["HTML"], "tags": ["json", "yaml"]},
]


EXT_TYPES = [("time.Duration", "time"), ("json.RawMessage", "encoding/json"), ("yaml.Node", "gopkg.in/yaml.v3"), ("big.Int", "math/big"), ("url.URL", "net/url"),
             ("regexp.Regexp", "regexp"), ("fmt.Stringer", "fmt"), ("reflect.Kind", "reflect"), ("strings.Builder", "strings"),
             ("types.SerializableDate", "github.com/atombender/go-jsonschema/pkg/types"), ("utf8.AcceptRange", None)]
EXT_SIBLINGS = [{"type": "string", "minLength": 1}, {"type": "string", "pattern": "^a"}, {"type": "string", "format": "date-time"}, {"type": "string", "format": "date"},
                {"enum": ["a", "b"]}, {"type": "number", "multipleOf": 0.5}, {"anyOf": [{"type": "object", "properties": {"p": {"type": "string"}}}, {"type": "object", "properties": {"q": {"type": "integer"}}}]},
                {"type": "string"}]


def extension_schemas():
    """the goJSONSchema extension (a Go type named by the schema, with the imports it needs) next to properties whose checks make the generator import
    packages itself - the same package from both sides included - at a property, at an array item and at a definition"""
    out = []
    for ty, imp in EXT_TYPES:
        if imp is None:
            continue
        for sib in EXT_SIBLINGS:
            ext = {"goJSONSchema": {"type": ty, "imports": [imp]}}
            out.append({"type": "object", "required": ["s"], "properties": {"s": sib, "x": dict(ext, description="a custom type")}})
        ext = {"goJSONSchema": {"type": ty, "imports": [imp]}}
        out.append({"type": "object", "properties": {"l": {"type": "array", "items": ext, "minItems": 1}, "x": dict(ext), "y": {"goJSONSchema": {"type": ty, "imports": [imp], "nillable": True}}}})
        out.append({"type": "object", "properties": {"a": {"$ref": "#/$defs/D"}, "s": {"type": "string", "maxLength": 3}}, "required": ["a"],
                    "$defs": {"D": {"type": "object", "properties": {"x": dict(ext, **{"goJSONSchema": dict(ext["goJSONSchema"], identifier="Custom")})}, "required": ["x"]}}})
    return out


def huge_number_schemas():
    """number (not integer) bounds far outside the integer types, integral and fractional, in every keyword: the literals the templates print must stay
    well-typed Go (comparison operands and the arguments of the error messages)"""
    out = []
    for v in (1e19, 18446744073709551615, 1.7976931348623157e308, -1e30, 1e-30, 9007199254740993, -9223372036854775809, 123456789012345678901234567890):
        for kw in ("minimum", "maximum", "exclusiveMinimum", "exclusiveMaximum"):
            out.append({"type": "object", "properties": {"total": {"type": "number", kw: v}, "opt": {"type": ["number", "null"], kw: v}}, "required": ["total"]})
        out.append({"type": "object", "$defs": {"Big": {"type": "number", "minimum": -abs(v), "maximum": abs(v)}}, "properties": {"b": {"$ref": "#/$defs/Big"}, "l": {"type": "array", "items": {"$ref": "#/$defs/Big"}}}})
    return out


def unicode_name_schemas():
    """property, definition and title text with characters that are neither letters, digits nor visible punctuation: combining marks (text in
    normalisation form D, Thai and Devanagari vowel signs), variation selectors, zero-width space and joiner, soft hyphen, word joiner -
    none of them may end up inside a Go identifier.  (A byte-order mark inside a name is the recorded finding C01-bom-in-name: Go source may not contain
    U+FEFF after its first byte, and the name is copied into struct tags and comments.)"""
    names = ["re\u0301sume\u0301", "plat\u200bdu\u200bjour", "e\u0301tat servi", "ok\ufe0f", "soft\u00adhyphen", "no\u2060break", "zero\u200djoiner",
             "\u0e0a\u0e37\u0e48\u0e2d", "\u0939\u093f\u0928\u094d\u0926\u0940", "\u0e1a\u0e49\u0e32\u0e19", "a\u0308b", "x\u20e3"]
    out = []
    for i in range(0, len(names), 4):
        grp = names[i:i + 4]
        props = {n: [{"type": "string", "minLength": 1}, {"type": "integer", "minimum": 0}, {"type": "boolean"}, {"enum": ["a", n]}][j % 4] for j, n in enumerate(grp)}
        out.append({"type": "object", "title": grp[0], "properties": props, "required": [grp[0]],
                    "$defs": {grp[1]: {"type": "object", "properties": {grp[2]: {"type": "string"}}}}, "additionalProperties": False})
        out[-1]["properties"]["ref"] = {"$ref": "#/$defs/" + grp[1]}
    return out


def two_keywords_one_side():
    """integers that state BOTH the inclusive and the numeric exclusive keyword of one side, the exclusive one the tighter and exactly one past a limit
    of a sized Go type, the inclusive one outside that type (minimum 0, maximum 1000, exclusiveMaximum 256): under --min-sized-ints whatever bound
    survives the narrowing must still be a constant of the narrowed type"""
    out = []
    for lo, hi in ((0, 255), (0, 65535), (-128, 127), (-32768, 32767), (0, 4294967295), (-2147483648, 2147483647)):
        props = {"up": {"type": "integer", "minimum": lo, "maximum": hi + 745, "exclusiveMaximum": hi + 1},
                 "down": {"type": "integer", "maximum": hi, "minimum": lo - 745, "exclusiveMinimum": lo - 1},
                 "both": {"type": "integer", "minimum": lo - 3, "exclusiveMinimum": lo - 1, "maximum": hi + 3, "exclusiveMaximum": hi + 1},
                 "nul": {"type": ["integer", "null"], "minimum": lo, "maximum": hi + 745, "exclusiveMaximum": hi + 1}}
        out.append({"type": "object", "properties": props, "required": ["up"], "$defs": {"D": props["both"]}})
    return out


def run(ctx):
    ctx.proof_step(PROPS_FILE)
    rng = ctx.rng
    schemas = [("extension-types", s) for s in extension_schemas()] + [("huge-number-bounds", s) for s in huge_number_schemas()]
    schemas += [("two-keywords-one-side", s) for s in two_keywords_one_side()]
    schemas += [("unicode-names", s) for s in unicode_name_schemas()]
    for fam, lst in (("strings", c06.systematic()[::5]), ("numbers", c05.e2e_systematic(ctx)[::9] + c05.e2e_fractional()[::4]), ("arrays", c07.systematic()[::6]),
                     ("enums", c08.systematic()[::4]), ("defaults", [x[0] for x in c09.systematic()[::6]]), ("special", c12.SPECIAL)):
        schemas += [(fam, s) for s in lst]
    for c in (c11.allof_cases(ctx)[::5] + c11.anyof_cases(ctx)[::3]):
        schemas.append(("composition", c.schema))
    from props import c14
    idents = {}
    coll = c14.collision_schemas(ctx)
    allnames = sorted(set(n for g0, _, _ in coll for n in g0))
    for n, r in zip(allnames, ctx.jsonl("direct", [{"fn": "identifierize", "caps": [], "exts": [], "s": n} for n in allnames])):
        idents[n] = r.get("out", n)
    for g0, variant, sc in coll[:: (3 if ctx.tier == "quick" else 1)]:
        if not c14.inprogress_collision(sc["$defs"], idents):       # the recorded finding C14-dup-type-name-in-progress
            schemas.append(("colliding-names", sc))
    g = SchemaGen(rng, depth=2)
    for _ in range(25 if ctx.tier == "quick" else 400):
        schemas.append(("random", g.root()))
    # min-sized ints with consistent bounds only (a negative literal on an unsigned kind is C15's guard)
    b = Batch(ctx, "c01")
    meta = []
    for i, (fam, sc) in enumerate(schemas):
        optsets = [OPTS[i % len(OPTS)], OPTS[(i * 7 + 3) % len(OPTS)]] if ctx.tier == "quick" else OPTS
        if fam == "extension-types" and ctx.tier == "quick":
            optsets = [{}, {"extra_imports": True}]
        if fam == "two-keywords-one-side":
            optsets = [{"min_sized_ints": True}, {"min_sized_ints": True, "extra_imports": True}, {}]
        for oi, opts in enumerate(optsets):
            cid = "p%do%d" % (i, oi)
            doc = with_texts(sc, rng) if (i + oi) % 2 == 0 else sc
            cfg = dict({"tags": ["json", "yaml", "mapstructure"]}, **opts)
            if not opts.get("struct_name_from_title"):
                cfg["mappings"] = [{"id": "", "root": "Root", "package": cid, "output": cid + "/gen.go"}]
            b.add({"id": cid, "cfg": cfg, "files": {"s.json": json.dumps(doc)}, "argv": ["s.json"], "jobs": []})
            meta.append((cid, fam, opts, doc))
    b.run(vet=True)
    nv = 0
    stats = {}
    for cid, fam, opts, doc in meta:
        c = b.case(cid)
        ctx.count({"s": doc, "o": opts}, True, "compile/" + fam)
        st = stats.setdefault(fam, {"programs": 0, "gen_failed": 0})
        st["programs"] += 1
        pb = None
        if not c["gen"]["ok"]:
            st["gen_failed"] += 1
            if c["gen"].get("panic"):
                pb = "the generator panicked: %s" % c["gen"]["panic"][:200]
            else:
                pb = "the generator refused an in-guard schema: %s" % c["gen"].get("err", "")[:200]
        else:
            ctx.cov["programs"] += 1
            sc = list(c["scan"].values())
            warn = [w for w in c["gen"].get("warnings", []) if "could not be formatted" in w]
            if warn:
                pb = "gofmt failed on the emitted text: %s" % warn[0][:200]
            elif any(s.get("parse_error") for s in sc):
                pb = "emitted file does not parse: %s" % [s["parse_error"] for s in sc if s.get("parse_error")][0][:200]
            elif not all(s.get("gofmt_ok") for s in sc):
                pb = "emitted file is not gofmt-stable"
            elif not c["build_ok"]:
                pb = "emitted package does not compile: %s" % c["build_err"][:300]
            elif c.get("vet"):
                pb = "go vet: %s" % "; ".join(c["vet"])[:300]
        if pb:
            if nv < 8:
                ctx.violation("oracle", {"kind": "compile", "family": fam, "cfg": c["cfg"], "files": c["files"], "argv": ["s.json"]}, "%s schema under %s: %s" % (fam, opts, pb))
            nv += 1
    # multi-file / multi-package runs through the CLI: every emitted package compiles, together, in one module
    from props import c20
    from vlib.clirun import Run, run_all
    lay = c20.layouts(ctx)
    # more package-path shapes for a cross-package reference: same last element, nested paths, a package named like a Go keyword-ish identifier
    S = {"$id": "http://x/api", "type": "object", "properties": {"customer": {"$ref": "../db/customer.json"}, "labels": {"type": "array", "items": {"$ref": "../db/customer.json#/$defs/Label"}}}}
    C = {"$id": "http://x/db", "type": "object", "$defs": {"Label": {"type": "string", "minLength": 1}}, "properties": {"name": {"type": "string"}, "tag": {"$ref": "#/$defs/Label"}}}
    for pa, pb2 in (("example.com/api/model", "example.com/db/model"), ("example.com/a/b/model", "example.com/model"), ("example.com/v1", "example.com/x/v1")):
        lay.append(("cross-package/%s+%s" % (pa, pb2), {"api/order.json": S, "db/customer.json": C},
                    {"http://x/api": (pa, pa.split("/", 1)[1] + "/order.go"), "http://x/db": (pb2, pb2.split("/", 1)[1] + "/customer.go")}, [["api/order.json", "db/customer.json"], ["api/order.json"]], None))
    runs = []
    for li, (name, files, maps, arglists, same_as) in enumerate(lay):
        fs = {"in/" + k: json.dumps(v) for k, v in files.items()}
        for ai, args in enumerate(arglists):
            runs.append((name, Run("ml%d_%d" % (li, ai), fs, c20.argv_for(maps, list(args)))))
            runs.append((name, Run("mr%d_%d" % (li, ai), fs, c20.argv_for(maps, list(reversed(args))))))
    run_all(ctx, [r for _, r in runs])
    for name, r in runs:
        ctx.count({"layout": name, "argv": r.argv}, True, "compile/multi-package")
        if r.status != 0:
            continue                          # C18 / C20 judge refusals
        ctx.cov["programs"] += 1
        ok, log = c20.build_outputs(ctx, "c01" + r.rid, r.created)
        if not ok and nv < 8:
            ctx.violation("oracle", {"kind": "cli", "files": r.files, "argv": r.argv, "run": r.describe()}, "layout %s: the emitted packages do not build together: %s" % (name, log[-400:]))
            nv += 1
    # regeneration: the file a successful run leaves at its output path is the program it generated, whatever the path held before
    # (an earlier, longer generation; a file of another package): it is identical to the output of a run towards a fresh path, and builds
    big = {"type": "object", "required": ["name"], "properties": dict({"name": {"type": "string", "minLength": 1, "pattern": "^[a-z]+$"}},
                                                                      **{"p%d" % i: {"type": "integer", "minimum": i, "maximum": 100 + i} for i in range(12)})}
    small = {"type": "object", "properties": {"name": {"type": "string"}}}
    regen = []
    for oi, opts in enumerate(([], ["--only-models"], ["--extra-imports"])):
        fresh_big = Run("rgb%d" % oi, {"in/s.json": json.dumps(big)}, ["-p", "pkg"] + opts + ["-o", "out/gen.go", "in/s.json"])
        fresh_small = Run("rgs%d" % oi, {"in/s.json": json.dumps(small)}, ["-p", "pkg"] + opts + ["-o", "out/gen.go", "in/s.json"])
        regen.append((oi, opts, fresh_big, fresh_small))
    run_all(ctx, [r for _, _, a, b2 in regen for r in (a, b2)])
    second = []
    for oi, opts, fb, fsm in regen:
        if fb.status != 0 or fsm.status != 0 or "out/gen.go" not in fb.created or "out/gen.go" not in fsm.created:
            continue
        for hn, old_text in (("earlier-longer-generation", fb.created["out/gen.go"]), ("file-of-another-package", b"package other\n\nvar Kept = 1\n" + b"// x\n" * 3000)):
            second.append((oi, opts, hn, fsm.created["out/gen.go"],
                           Run("rg2_%d_%s" % (oi, hn[:4]), {"in/s.json": json.dumps(small), "out/gen.go": old_text}, ["-p", "pkg"] + opts + ["-o", "out/gen.go", "in/s.json"])))
    run_all(ctx, [x[4] for x in second])
    for oi, opts, hn, want, r in second:
        ctx.count({"regen": hn, "opts": opts}, True, "compile/regeneration")
        if r.status != 0:
            continue
        got = r.modified.get("out/gen.go", r.created.get("out/gen.go"))
        if got is None:
            got = r.files["out/gen.go"]           # left untouched
        if isinstance(got, str):
            got = got.encode()
        if got != want:
            ok, log = c20.build_outputs(ctx, "c01" + r.rid, {"out/pkg/gen.go": got})
            if nv < 8:
                ctx.violation("oracle", {"kind": "cli", "files": {k: (v if isinstance(v, str) else v.decode("utf-8", "replace"))[:3000] for k, v in r.files.items()}, "argv": r.argv, "history": hn,
                                         "builds": ok, "build_log": log[-600:]},
                              "a successful run over an output path that held %s leaves %d bytes where a run towards a fresh path writes %d: %s"
                              % (hn.replace("-", " "), len(got), len(want), "the file does not build: " + log[-300:] if not ok else "not the program the run generated"))
            nv += 1
    ctx.cov["families"].update({("compile/" + k): dict(ctx.cov["families"].get("compile/" + k, {}), **v) for k, v in stats.items()})
    ctx.cov["disagreements_checked"] = len(meta)
    from vlib import regress
    regress.search(ctx, {"C01"})          # the shape-agnostic search step (DESIGN.md 12.8)
    replay_findings(ctx)
    ctx.cov["rule"] = ("schemas of every systematic family of C05-C09/C11/C12 (thinned) and random in-guard schemas over every kind, half of them decorated with titles and "
                       "descriptions from a 14-entry text palette (newlines, quotes, comment terminators, %, backslashes, non-ASCII, U+2028, CRLF, 300 characters), each under 2 "
                       "(quick) / all 11 (thorough) option sets (extra-imports, only-models, min-sized-ints, struct-name-from-title, tag lists, capitalisations and combinations); "
                       "the multi-file layouts of C20 and cross-package references between packages whose import paths share their last element or are nested, through the CLI in both argument orders; oracle: gofmt-stable (go/format), go build, go vet of every emitted package; non-trivial = every program; distinct by hash of (schema, options)")
    ctx.sample({"family": meta[0][1], "options": meta[0][2], "schema": meta[0][3], "build_ok": b.case(meta[0][0])["build_ok"]})


def replay(ctx, path):
    obj = json.load(open(path))
    case = obj.get("case", {})
    b = Batch(ctx, "c01rp")
    b.add({"id": "r0", "cfg": case["cfg"], "files": case["files"], "argv": case["argv"], "jobs": []})
    b.run(vet=True)
    c = b.case("r0")
    print(json.dumps({"gen": c["gen"].get("ok"), "err": c["gen"].get("err"), "build_ok": c["build_ok"], "build_err": c["build_err"], "vet": c.get("vet")}, indent=1)[:3000])
