"""C02 - valid documents are accepted and decoded without loss."""
import json

from vlib.valuecheck import build_cases, evaluate, replay, replay_findings  # noqa: F401
from vlib.kitchen import run_cases, json_eq, Docs, types_of

PROPS_FILE = "Props/C02.v"
CLASSES = {"valid", "number-valid", "string-valid", "items-valid", "enum-member", "optional-absent", "null-allowed"}


def get_path(doc, path):
    for p in path:
        if isinstance(doc, dict) and p in doc:
            doc = doc[p]
        elif isinstance(doc, list) and isinstance(p, int) and p < len(doc):
            doc = doc[p]
        else:
            return None, False
    return doc, True


def empty(v):
    return v is None or v is False or v == "" or v == [] or v == {} or (isinstance(v, (int, float)) and not isinstance(v, bool) and v == 0)


def roundtrip_problem(c, d, out):
    """every non-empty declared value comes back unchanged; undeclared keys of objects that allow them are collected"""
    dg = Docs(c.schema, None)
    for path, s0, s, v in dg.sites(c.schema, d["doc"]):
        # position of this value in the marshalled output: keys that are additional properties of an object with declared
        # properties live under "AdditionalProperties"
        opath = []
        cur = c.schema
        ok_path = True
        for p in path:
            r = dg.resolve(cur)
            if isinstance(p, int):
                cur = r.get("items", {})
                opath.append(p)
            elif p in r.get("properties", {}):
                cur = r["properties"][p]
                opath.append(p)
            else:
                cur = r.get("additionalProperties") if isinstance(r.get("additionalProperties"), dict) else {}
                if r.get("properties"):
                    opath += ["AdditionalProperties", p]
                else:
                    opath.append(p)
        if isinstance(v, (dict, list)):
            if isinstance(v, dict) and s.get("properties") and s.get("additionalProperties") not in (None, False):
                extra = {k: x for k, x in v.items() if k not in s["properties"]}
                got, ok = get_path(out, tuple(opath) + ("AdditionalProperties",))
                if extra and not (ok and json_eq(extra, got)):
                    return "additional properties %s at %s were collected as %s" % (json.dumps(extra), "/".join(map(str, path)) or "root", json.dumps(got))
                if not extra and ok and got not in (None, {}):
                    return "no additional properties at %s but the map holds %s" % ("/".join(map(str, path)) or "root", json.dumps(got))
            if not types_of(s) and not s.get("enum"):
                got, ok = get_path(out, tuple(opath))
                if not empty(v) and not (ok and json_eq(v, got)):
                    return "untyped value %s at %s came back as %s" % (json.dumps(v), "/".join(map(str, path)), json.dumps(got))
            continue
        if empty(v):
            continue
        got, ok = get_path(out, tuple(opath))
        if c.minsized and not ok and path and isinstance(path[-1], int) and isinstance(get_path(out, tuple(opath[:-1]))[0], str):
            continue          # recorded finding C02-uint8-array-base64: []uint8 marshals as a base64 string
        if not (ok and json_eq(v, got)):
            return "value %s at %s came back as %s" % (json.dumps(v), "/".join(map(str, path)), json.dumps(got) if ok else "missing")
    return None


def run(ctx):
    ctx.proof_step(PROPS_FILE)
    n = 60 if ctx.tier == "quick" else 800
    from props import c05
    from vlib.pairwise import pairwise
    pw = [r for _, r in pairwise()]
    sysm = c05.e2e_fractional() + c05.e2e_edges()[::2] + c05.e2e_systematic(ctx)[::11] + pw
    cases = build_cases(ctx, len(sysm) + n, None, CLASSES, "c02x", docs_per=3 if ctx.tier == "quick" else 5, max_docs=60, extra_schemas=sysm)
    from vlib.pairwise import sized_enum
    ints = [r for r in sysm if '"integer"' in json.dumps(r) and not sized_enum(r)]
    ms = build_cases(ctx, len(ints), None, CLASSES, "c02m", docs_per=3, max_docs=60, extra_schemas=ints, minsized=True)
    for c in ms:
        c.fam = "min-sized/" + c.fam
    cases = cases + ms
    # every accepted spelling of every format, at a required, an optional and an item position (incl. the values that coincide with Go zero values)
    from vlib.kitchen import FMT_GOOD, Case
    for fi, (fmt, goods) in enumerate(sorted(FMT_GOOD.items())):
        leaf = {"type": "string", "format": fmt}
        root = {"type": "object", "properties": {"r": leaf, "o": leaf, "l": {"type": "array", "items": leaf}}, "required": ["r"]}
        docs = []
        for g in goods:
            docs.append({"doc": {"r": g}, "cls": "valid", "path": ()})
            docs.append({"doc": {"r": goods[0], "o": g, "l": [g, goods[-1]]}, "cls": "valid", "path": ()})
        cases.append(Case("c02f%d" % fi, root, docs, fam="formats"))
    run_cases(ctx, cases, "c02")
    nv = evaluate(ctx, cases, CLASSES, {k: "valid" for k in CLASSES}, "valid documents")
    for c in cases:
        if nv >= 6 or not c.build_ok:
            continue
        for di, d in enumerate(c.docs):
            o = d.get("obs") or {}
            if o.get("v") != "ACC" or not d.get("valid"):
                continue
            try:
                out = json.loads(o["out"])
            except Exception:
                ctx.violation("oracle", c.replay_obj(di), "decoded value cannot be marshalled back: %s" % o.get("out", "")[:200])
                nv += 1
                break
            pb = roundtrip_problem(c, d, out)
            if pb:
                ctx.violation("oracle", c.replay_obj(di), "valid document %s decoded with loss: %s (re-marshalled: %s)" % (json.dumps(d["doc"])[:300], pb, o["out"][:300]))
                nv += 1
                break
    from vlib import regress
    regress.search(ctx, {"C02"})          # the shape-agnostic search step (DESIGN.md 12.8)
    replay_findings(ctx)
    ctx.cov["rule"] = ("numeric systematic schemas (incl. fractional bounds on integers in the exact quadrant) and random in-guard schemas over every kind (constrained strings, integers, numbers, booleans, enums, formats, arrays to depth 3, nested objects, maps, "
                       "references, untyped, typed additionalProperties) x every position; per schema 3-5 documents built from the schema (boundary values of every constraint, "
                       "optional properties present/absent, null where allowed, additional keys) plus their validity-preserving mutants; oracle: accepted, every non-empty declared "
                       "value re-marshals unchanged, undeclared keys are exactly the additional-properties map; non-trivial = non-empty document; distinct by hash")
    c = cases[2]
    ctx.sample({"family": c.fam, "schema": c.schema, "doc": c.docs[0]["doc"], "impl_out": (c.docs[0].get("obs") or {}).get("out")})
